package main

import (
	"fmt"
	"go/ast"
	"go/printer"
	"go/types"
	"sort"
	"strings"
)

func (p *Prog) Src(n ast.Node) string {
	var sb strings.Builder
	printer.Fprint(&sb, p.Fset, n)
	s := sb.String()
	if i := strings.IndexByte(s, '\n'); i >= 0 {
		s = s[:i] + " …"
	}
	return s
}

func doDump(p *Prog, what string) {
	switch {
	case what == "intdiv":
		for _, d := range p.IntDivisions() {
			fmt.Printf("%s in %s: %s   divisor=%s\n", p.Pos(d.Expr), d.Fn.Name, p.Src(d.Expr), p.R(d.Fn).Val(d.Expr.Y))
		}
	case what == "perpeer":
		for _, f := range p.PerPeerFields() {
			fmt.Println(f.Name, f.Depth)
		}
	case what == "chan":
		for _, op := range p.ChanOps() {
			switch op.Kind {
			case "select":
				si := p.selectInfo(op.Fn, op.Node.(*ast.SelectStmt))
				var dc []string
				for _, d := range si.DoneCtx {
					ok, why := p.instanceCtx(op.Fn, d, 0)
					dc = append(dc, fmt.Sprintf("%s[%v:%s]", p.R(op.Fn).Val(d), ok, why))
				}
				var snd []string
				for _, s := range si.Sends {
					snd = append(snd, p.R(op.Fn).Val(s.Chan).String())
				}
				var rcv []string
				for _, r := range si.Recvs {
					rcv = append(rcv, p.R(op.Fn).Val(r).String())
				}
				fmt.Printf("%s select in %s default=%v done=%v sends=%v recvs=%v\n", p.Pos(op.Node), op.Fn.Name, si.HasDefault, dc, snd, rcv)
			default:
				fmt.Printf("%s %s in %s chan=%s\n", p.Pos(op.Node), op.Kind, op.Fn.Name, op.Chan)
			}
		}
	case what == "ingress":
		dumpIngress(p)
	case what == "alias":
		dumpAlias(p)
	case what == "funcs":
		for _, f := range p.All {
			fmt.Printf("%-70s %s\n", f.Name, p.Pos(f.Body))
		}
		fmt.Println(p.Stats)
	case strings.HasPrefix(what, "cfg:"):
		f := p.Fn(strings.TrimPrefix(what, "cfg:"))
		if f == nil {
			fmt.Println("no such function")
			return
		}
		g := p.Graph(f)
		r := p.Resolver(f)
		for _, b := range g.C.Blocks {
			if !b.Live {
				continue
			}
			var succ []string
			for _, s := range b.Succs {
				succ = append(succ, fmt.Sprint(s.Index))
			}
			fmt.Printf("block %d %s -> %s\n", b.Index, b.Kind, strings.Join(succ, ","))
			for _, n := range b.Nodes {
				fmt.Printf("    %T  %s\n", n, p.Src(n))
			}
			if c := g.condOf[b]; c != nil {
				fmt.Printf("    COND %s\n", r.Val(c))
			}
		}
	case strings.HasPrefix(what, "calls:"):
		f := p.Fn(strings.TrimPrefix(what, "calls:"))
		if f == nil {
			fmt.Println("no such function")
			return
		}
		r := p.Resolver(f)
		for _, c := range p.FuncCalls(f, true) {
			fmt.Printf("%s  %s   in %s   val=%s\n", p.Pos(c.Call), c.Name, c.Fn.Name, p.Resolver(c.Fn).Val(c.Call))
		}
		_ = r
	}
}

func dumpAlias(p *Prog) {
	for _, a := range p.AliasingAppends() {
		fmt.Printf("%s %s in %s: %s\n", p.Pos(a.Call), a.Field, a.Fn.Name, p.Src(a.Call))
	}
}

// IntDivisions lists integer / and % whose divisor is not a non-zero constant.
type IntDiv struct {
	Expr *ast.BinaryExpr
	Fn   *Func
}

func (p *Prog) IntDivisions() []IntDiv {
	var out []IntDiv
	for _, f := range p.All {
		if p.IsGenerated(f.Body) {
			continue
		}
		inspectNoLit(f.Body, func(n ast.Node) bool {
			be, ok := n.(*ast.BinaryExpr)
			if !ok || (be.Op.String() != "/" && be.Op.String() != "%") {
				return true
			}
			t := f.Info().TypeOf(be.Y)
			if t == nil {
				return true
			}
			bt, ok := t.Underlying().(*types.Basic)
			if !ok || bt.Info()&types.IsInteger == 0 {
				return true
			}
			if tv, ok := f.Info().Types[be.Y]; ok && tv.Value != nil {
				if tv.Value.String() != "0" {
					return true
				}
			}
			out = append(out, IntDiv{be, f})
			return true
		})
	}
	return out
}

// PerPeerFields lists struct fields of module types that are maps keyed by peer.ID (depth <= 2).
type PerPeerField struct {
	Name  string // Struct.field
	Depth int    // 1: map[peer.ID]..., 2: map[K]map[peer.ID]...
}

func isPeerID(t types.Type) bool {
	n, ok := t.(*types.Named)
	return ok && n.Obj().Name() == "ID" && n.Obj().Pkg() != nil && strings.HasSuffix(n.Obj().Pkg().Path(), "core/peer")
}

func (p *Prog) PerPeerFields() []PerPeerField {
	var out []PerPeerField
	for _, pk := range p.Pkgs {
		if strings.HasSuffix(pk.PkgPath, "/pb") || strings.Contains(pk.PkgPath, "/internal/") {
			continue
		}
		sc := pk.Types.Scope()
		for _, nm := range sc.Names() {
			tn, ok := sc.Lookup(nm).(*types.TypeName)
			if !ok {
				continue
			}
			st, ok := tn.Type().Underlying().(*types.Struct)
			if !ok {
				continue
			}
			owner := nm
			if sp := shortPkg(pk.PkgPath, modPath); sp != "" {
				owner = sp + "." + nm
			}
			for i := 0; i < st.NumFields(); i++ {
				ft := st.Field(i).Type()
				if pt, ok := ft.(*types.Pointer); ok {
					ft = pt.Elem()
				}
				m, ok := ft.Underlying().(*types.Map)
				if !ok {
					continue
				}
				if isPeerID(m.Key()) {
					out = append(out, PerPeerField{owner + "." + st.Field(i).Name(), 1})
					continue
				}
				et := m.Elem()
				if pt, ok := et.(*types.Pointer); ok {
					et = pt.Elem()
				}
				if m2, ok := et.Underlying().(*types.Map); ok && isPeerID(m2.Key()) {
					out = append(out, PerPeerField{owner + "." + st.Field(i).Name(), 2})
				}
			}
		}
	}
	sort.Slice(out, func(i, j int) bool { return out[i].Name < out[j].Name })
	return out
}

func dumpIngress(p *Prog) {
	cone := p.ReachFrom("(*PubSub).handleIncomingRPC", "(*PubSub).handleNewStream", "(*validation).validate", "(*RPC).LogValue", "(*validation).validateWorker")
	fmt.Println("cone size", len(cone))
	isPbPtr := func(t types.Type) bool {
		pt, ok := t.(*types.Pointer)
		if !ok {
			return false
		}
		n, ok := pt.Elem().(*types.Named)
		return ok && n.Obj().Pkg() != nil && strings.HasSuffix(n.Obj().Pkg().Path(), "/pb")
	}
	for _, f := range p.All {
		if !cone[f] || p.IsGenerated(f.Body) {
			continue
		}
		inspectNoLit(f.Body, func(n ast.Node) bool {
			switch x := n.(type) {
			case *ast.SelectorExpr:
				s, ok := f.Info().Selections[x]
				if !ok || s.Kind() != types.FieldVal {
					return true
				}
				if t := f.Info().TypeOf(x.X); t != nil && isPbPtr(t) {
					fmt.Printf("DEREF %s in %s: %s   base=%s\n", p.Pos(x), f.Name, p.Src(x), p.R(f).Val(x.X))
				}
			case *ast.StarExpr:
				if t := f.Info().TypeOf(x.X); t != nil {
					if _, isPtr := t.(*types.Pointer); isPtr {
						v := p.R(f).Val(x.X)
						if v.Kind == "field" && strings.HasPrefix(v.Name, "pb.") {
							fmt.Printf("STAR %s in %s: %s\n", p.Pos(x), f.Name, p.Src(x))
						}
					}
				}
			case *ast.IndexExpr:
				if t := f.Info().TypeOf(x.X); t != nil {
					if _, isMap := t.Underlying().(*types.Map); isMap {
						return true
					}
					if _, isSig := t.Underlying().(*types.Signature); isSig {
						return true
					}
				}
				if tv, ok := f.Info().Types[x.Index]; ok && tv.Value != nil {
					fmt.Printf("INDEXC %s in %s: %s\n", p.Pos(x), f.Name, p.Src(x))
					return true
				}
				if tv, ok := f.Info().Types[x.Index]; ok && tv.IsType() {
					return true
				}
				fmt.Printf("INDEX %s in %s: %s   idx=%s\n", p.Pos(x), f.Name, p.Src(x), p.R(f).Val(x.Index))
			case *ast.SliceExpr:
				fmt.Printf("SLICE %s in %s: %s\n", p.Pos(x), f.Name, p.Src(x))
			case *ast.TypeAssertExpr:
				if x.Type == nil {
					return true
				}
				if as, ok := p.parents[x].(*ast.AssignStmt); ok && len(as.Lhs) == 2 {
					return true
				}
				if vs, ok := p.parents[x].(*ast.ValueSpec); ok && len(vs.Names) == 2 {
					return true
				}
				fmt.Printf("ASSERT1 %s in %s: %s\n", p.Pos(x), f.Name, p.Src(x))
			case *ast.CallExpr:
				nm := p.CalleeName(f.Info(), x)
				if nm == "builtin.panic" || strings.HasPrefix(nm, "math/rand.Intn") || strings.Contains(nm, "rand.Intn") || nm == "time.Sleep" || strings.HasSuffix(nm, "Cond).Wait") {
					fmt.Printf("CALL %s in %s: %s\n", p.Pos(x), f.Name, p.Src(x))
				}
			}
			return true
		})
	}
}
