package main

import (
	"go/ast"
	"sort"
	"strconv"
	"strings"
)

const (
	p2p             = "github.com/libp2p/go-libp2p/core/"
	fnCheckPolicy   = "(*PubSub).checkSigningPolicy"
	fnBLContains    = "Blacklist.Contains"
	fnBLAdd         = "Blacklist.Add"
	fnMsgGetFrom    = "(*Message).GetFrom"
	fnHostID        = p2p + "host.Host.ID"
	fnVerifySig     = "verifyMessageSignature"
	fnValidateSig   = "(*validation).validateSignature"
	fnPubKeyVerify  = p2p + "crypto.PubKey.Verify"
	fnMatchesPubKey = p2p + "peer.ID.MatchesPublicKey"
	fnExtractPubKey = p2p + "peer.ID.ExtractPublicKey"
	fnIDFromBytes   = p2p + "peer.IDFromBytes"
	fnUnmarshalPub  = p2p + "crypto.UnmarshalPublicKey"
	fnRejectMsg     = "(*pubsubTracer).RejectMessage"
)

func init() {
	register(&Property{ID: "C03", Run: runC03,
		Explain: "Structural necessary conditions of C03, for every message and policy: (R03.1) shouldPush admits a message only after checkSigningPolicy returned nil and the self-origin test failed, and remote messages reach pushMsg only through shouldPush; ValidateLocal applies the policy before the pipeline; (R03.2) validate reaches markSeen (hence validators/delivery, C02) only with no signature or a verified one, and validation.Push bypasses the pipeline only for unsigned messages; (R03.3) verifyMessageSignature verifies m.Signature over withSignPrefix(Marshal(copy with exactly Signature and Key cleared)) under the key from messagePubKey and returns nil only if Verify reported valid without error; messagePubKey binds the key to the author (MatchesPublicKey on the attached key, ExtractPublicKey otherwise, both on the ID parsed from m.From); (R03.4) the path table of checkSigningPolicy equals the policy table (reject iff V&S&!sig | V&!S&sig | V&!S&anon&auth) with matching reject reasons; (R03.5) nothing is stored into the message after signMessage and signing/verifying use the same prefix helper; (R03.6) fields of pb.Message are written only while a local message is built/signed or on verifyMessageSignature's private copy. NOT decided: cryptographic soundness, determinism of protobuf marshalling, the libp2p key/ID functions.",
		Assume:  []string{"libp2p crypto and peer.ID functions are correct", "protobuf Marshal is deterministic for equal field values"},
		Mutants: []Mutant{
			{Name: "shouldPush-policy-after-seen", File: "pubsub.go", Old: "\terr := p.checkSigningPolicy(msg)\n\tif err != nil {\n\t\tp.logger.Debug(\"dropping message from peer\", \"peer\", src, \"err\", err)\n\t\treturn false\n\t}\n", New: "\tif err := p.checkSigningPolicy(msg); err != nil && p.signID != \"\" {\n\t\tp.logger.Debug(\"dropping message from peer\", \"peer\", src, \"err\", err)\n\t\treturn false\n\t}\n", Expect: "R03.1"},
			{Name: "self-origin-or", File: "pubsub.go", Old: "if peer.ID(msg.GetFrom()) == self && src != self {", New: "if peer.ID(msg.GetFrom()) == self && src != self && msg.Signature == nil {", Expect: "R03.1"},
			{Name: "validate-skip-verify-when-inline", File: "validation.go", Old: "\tif msg.Signature != nil {\n\t\tif !v.validateSignature(msg) {", New: "\tif msg.Signature != nil && len(vals) > 0 {\n\t\tif !v.validateSignature(msg) {", Expect: "R03.2"},
			{Name: "push-bypass-signed", File: "validation.go", Old: "if len(vals) > 0 || msg.Signature != nil {", New: "if len(vals) > 0 || (msg.Signature != nil && msg.Key != nil) {", Expect: "R03.2"},
			{Name: "verify-ignore-valid", File: "sign.go", Old: "\tif !valid {\n\t\treturn fmt.Errorf(\"invalid signature\")\n\t}\n", New: "\tif !valid && len(m.Key) > 0 {\n\t\treturn fmt.Errorf(\"invalid signature\")\n\t}\n", Expect: "R03.3"},
			{Name: "verify-clears-seqno", File: "sign.go", Old: "\txm.Key = nil\n", New: "\txm.Key = nil\n\txm.Seqno = nil\n", Expect: "R03.3"},
			{Name: "pubkey-no-match", File: "sign.go", Old: "\t\tif !pid.MatchesPublicKey(pubk) {", New: "\t\tif !pid.MatchesPublicKey(pubk) && len(m.From) > 40 {", Expect: "R03.3"},
			{Name: "policy-laxsign-accepts-unsigned", File: "pubsub.go", Old: "\t\t\tif msg.Signature == nil {\n\t\t\t\tp.tracer.RejectMessage(msg, RejectMissingSignature)", New: "\t\t\tif msg.Signature == nil && msg.Key != nil {\n\t\t\t\tp.tracer.RejectMessage(msg, RejectMissingSignature)", Expect: "R03.4"},
			{Name: "policy-anon-key-allowed", File: "pubsub.go", Old: "if msg.Seqno != nil || msg.From != nil || msg.Key != nil {", New: "if msg.Seqno != nil || msg.From != nil {", Expect: "R03.4"},
			{Name: "store-after-sign", File: "topic.go", Old: "\t\terr := signMessage(pid, key, m)\n\t\tif err != nil {\n\t\t\treturn nil, err\n\t\t}\n", New: "\t\terr := signMessage(pid, key, m)\n\t\tif err != nil {\n\t\t\treturn nil, err\n\t\t}\n\t\tm.Seqno = t.p.nextSeqno()\n", Expect: "R03.5"},
			{Name: "router-mutates-message", File: "floodsub.go", Old: "func (fs *FloodSubRouter) Publish(msg *Message) {\n", New: "func (fs *FloodSubRouter) Publish(msg *Message) {\n\tif msg.Message.Key != nil && len(msg.Message.Key) == 0 {\n\t\tmsg.Message.Key = nil\n\t}\n", Expect: "R03.6"},
		}})
	register(&Property{ID: "C16", Run: runC16,
		Explain: "Structural necessary conditions of C16: (R16.1) shouldPush admits a message only on the false edges of blacklist.Contains(forwarder) and blacklist.Contains(author), and remote messages reach pushMsg only through shouldPush; (R16.2) the blacklistPeer arm of the event loop always calls blacklist.Add and, when a queue exists, closes it, deletes it from p.peers, clears topic state and notifies the router; (R16.3) the newPeerStream arm sends the hello packet only on the false edge of blacklist.Contains and on the true edge closes/removes the queue and resets the stream; handlePendingPeers creates a queue only on the false edge; (R16.4) every outbound push takes its queue from p.peers (lookup/range) in the same event-loop step; (R16.5) both Blacklist implementations use the same key in Add and Contains; (R16.6) a message that was inside the validation pipeline when its forwarder or author was blacklisted is not delivered: the sendMsg arm of the event loop reaches publishMessage only on the false edges of blacklist.Contains(ReceivedFrom) and Contains(author); (shared R15.5/R15.6) a closed queue hands out nothing, even with a backlog, and the writer leaves on the error. (audit round) R16.2: topic state cleared on every path of the arm; (R16.7) a cached message is served to IWANT only on the false edges of both blacklist tests, and only handleIWant reads the cache for sending. (R16.8) the topic-map bookkeeping and the router's HandleRPC/Preprocess are reached only for a sender that is not blacklisted. NOT decided: expiry of the time-cached blacklist; messages a validation worker hands to the event loop in the same instant the blacklisting is processed are ordered by the loop's select (either order satisfies the property).",
		Assume:  []string{"the event loop is single-threaded (processLoop owns p.peers)"},
		Mutants: []Mutant{
			{Name: "blacklisted-rpc-acted-upon", File: "pubsub.go", Old: "\tif p.blacklist != nil && p.blacklist.Contains(rpc.from) {\n\t\tfor _, pmsg := range rpc.GetPublish() {", New: "\tif p.blacklist != nil && p.blacklist.Contains(rpc.from) && len(rpc.GetSubscriptions()) == 0 {\n\t\tfor _, pmsg := range rpc.GetPublish() {", Expect: "R16.8"},
			{Name: "no-recheck-after-validation", File: "pubsub.go", Old: "\t\t\tif p.blacklist.Contains(msg.ReceivedFrom) {\n\t\t\t\tp.logger.Debug(\"dropping validated message from blacklisted peer\"", New: "\t\t\tif false && p.blacklist.Contains(msg.ReceivedFrom) {\n\t\t\t\tp.logger.Debug(\"dropping validated message from blacklisted peer\"", Expect: "R16.6"},
			{Name: "shouldPush-skip-author-blacklist", File: "pubsub.go", Old: "\t// even if they are forwarded by good peers\n\tif p.blacklist.Contains(msg.GetFrom()) {", New: "\t// even if they are forwarded by good peers\n\tif p.blacklist.Contains(msg.GetFrom()) && msg.GetFrom() != src {", Expect: "R16.1"},
			{Name: "blacklist-arm-no-router-notify", File: "pubsub.go", Old: "\t\t\t\tdelete(p.peers, pid)\n\t\t\t\tp.rt.OnClosedOutboundStream(pid)\n\t\t\t}\n\t\t\t// what the peer announced", New: "\t\t\t\tdelete(p.peers, pid)\n\t\t\t}\n\t\t\t// what the peer announced", Expect: "R16.2"},
			{Name: "blacklist-arm-clears-topics-only-with-queue", File: "pubsub.go", Old: "\t\t\t\tp.rt.OnClosedOutboundStream(pid)\n\t\t\t}\n\t\t\t// what the peer announced came in over its own stream, whether or not we have one to it\n\t\t\tp.clearPeerFromTopicsState(pid)\n", New: "\t\t\t\tp.rt.OnClosedOutboundStream(pid)\n\t\t\t\tp.clearPeerFromTopicsState(pid)\n\t\t\t}\n", Expect: "R16.2"},
			{Name: "iwant-serves-blacklisted-source", File: "gossipsub.go", Old: "\t\t\tif gs.p.blacklist.Contains(msg.ReceivedFrom) || gs.p.blacklist.Contains(msg.GetFrom()) {\n\t\t\t\tcontinue\n\t\t\t}\n", New: "\t\t\tif gs.p.blacklist.Contains(msg.GetFrom()) {\n\t\t\t\tcontinue\n\t\t\t}\n", Expect: "R16.7"},
			{Name: "iwant-serves-blacklisted-author", File: "gossipsub.go", Old: "\t\t\tif gs.p.blacklist.Contains(msg.ReceivedFrom) || gs.p.blacklist.Contains(msg.GetFrom()) {\n\t\t\t\tcontinue\n\t\t\t}\n", New: "\t\t\tif gs.p.blacklist.Contains(msg.ReceivedFrom) && gs.p.blacklist.Contains(msg.GetFrom()) {\n\t\t\t\tcontinue\n\t\t\t}\n", Expect: "R16.7"},
			{Name: "blacklist-arm-skip-when-already-listed", File: "pubsub.go", Old: "\t\t\tp.blacklist.Add(pid)\n\n\t\t\tq, ok := p.peers[pid]", New: "\t\t\tif !p.blacklist.Add(pid) {\n\t\t\t\tcontinue\n\t\t\t}\n\n\t\t\tq, ok := p.peers[pid]", Expect: "R16.2"},
			{Name: "closed-stream-mesh-removal-conditional", File: "gossipsub.go", Old: "\tdelete(gs.peers, p)\n\tfor topic, peers := range gs.mesh {", New: "\tif _, known := gs.peers[p]; !known {\n\t\treturn\n\t}\n\tdelete(gs.peers, p)\n\tfor topic, peers := range gs.mesh {", Expect: "R07.5"},
			{Name: "newstream-hello-before-blacklist", File: "pubsub.go", Old: "\t\t\tif p.blacklist.Contains(pid) {\n\t\t\t\tp.logger.Warn(\"closing stream for blacklisted peer\", \"peer\", pid)", New: "\t\t\tif p.blacklist.Contains(pid) && q != nil && q.closed {\n\t\t\t\tp.logger.Warn(\"closing stream for blacklisted peer\", \"peer\", pid)", Expect: "R16.3"},
			{Name: "pending-peers-skip-check", File: "pubsub.go", Old: "\t\tif p.blacklist.Contains(pid) {\n\t\t\tp.logger.Warn(\"ignoring connection from blacklisted peer\", \"peer\", pid)\n\t\t\tcontinue\n\t\t}", New: "\t\tif p.blacklist.Contains(pid) && len(p.peers) > 0 {\n\t\t\tp.logger.Warn(\"ignoring connection from blacklisted peer\", \"peer\", pid)\n\t\t\tcontinue\n\t\t}", Expect: "R16.3"},
			{Name: "timecached-contains-other-key", File: "blacklist.go", Old: "\treturn b.tc.Has(p.String())", New: "\treturn b.tc.Has(string(p))", Expect: "R16.5"},
		}})
}

func isPbMsgField(name string) VPred { return isFieldOf("pb.Message." + name) }

func atomSigNil() Atom {
	return AtomNil("msg.Signature == nil", isPbMsgField("Signature"))
}

func returnsIn(f *Func, fn func(r *ast.ReturnStmt)) {
	inspectNoLit(f.Body, func(n ast.Node) bool {
		if r, ok := n.(*ast.ReturnStmt); ok {
			fn(r)
		}
		return true
	})
}

func shouldPushGuards(c *RuleCtx, rule string, which string) {
	p := c.P
	f := c.MustFn(rule, fnShouldPush)
	if f == nil {
		return
	}
	g := p.Graph(f)
	blSrc := AtomBool("blacklist.Contains(ReceivedFrom)", func(v *V) bool {
		return v.IsCall(fnBLContains) && len(v.Args) == 2 && v.Args[1].IsField("Message.ReceivedFrom")
	})
	blFrom := AtomBool("blacklist.Contains(GetFrom())", func(v *V) bool {
		return v.IsCall(fnBLContains) && len(v.Args) == 2 && stripConv(v.Args[1]).IsCall(fnMsgGetFrom)
	})
	polNil := AtomCmp("checkSigningPolicy(msg) == nil", isCallTo(fnCheckPolicy), "==", isNilV)
	fromSelf := AtomCmp("GetFrom() == self", func(v *V) bool { return stripConv(v).IsCall(fnMsgGetFrom) }, "==", isCallTo(fnHostID))
	srcNotSelf := AtomCmp("ReceivedFrom != self", isFieldOf("Message.ReceivedFrom"), "!=", isCallTo(fnHostID))
	n := 0
	returnsIn(f, func(r *ast.ReturnStmt) {
		if len(r.Results) != 1 || !p.R(f).Val(r.Results[0]).IsConst("true") {
			if len(r.Results) == 1 && !p.R(f).Val(r.Results[0]).IsConst("false") {
				c.Undecided(rule, f.Name, "return value", r, "shouldPush returns a non-constant; the admission analysis needs constant returns")
			}
			return
		}
		n++
		if which == "C03" {
			ok, why := p.DomAny(f, r, AtomWant{polNil, true})
			c.Check(ok, rule, f.Name, "admit only if signing policy satisfied", r, why, why)
			pt, _ := g.Locate(r)
			ok2 := g.Dominated(pt, g.EdgesNotBoth(fromSelf, srcNotSelf))
			c.Check(ok2, rule, f.Name, "admit only if not (author==self and forwarder!=self)", r, "every admitting path refutes the self-origin condition", "an admitting path does not refute `GetFrom()==self && ReceivedFrom!=self`")
		} else {
			ok, why := p.DomAny(f, r, AtomWant{blSrc, false})
			c.Check(ok, rule, f.Name, "admit only if forwarder not blacklisted", r, why, why)
			ok, why = p.DomAny(f, r, AtomWant{blFrom, false})
			c.Check(ok, rule, f.Name, "admit only if author not blacklisted", r, why, why)
		}
	})
	if n == 0 {
		c.Undecided(rule, f.Name, "return true", f.Decl, "no `return true` in shouldPush")
	}
	// handleIncomingRPC: messages are appended for pushing only on shouldPush == true; pushMsg only from there
	if h := c.MustFn(rule, fnHandleRPC); h != nil {
		sp := AtomBool("shouldPush(msg)", isCallTo(fnShouldPush))
		rv := map[string]bool{}
		for _, cs := range p.Sites(h, false, fnPushMsg) {
			for _, l := range p.EnclosingLoops(cs.Call) {
				if r, ok := l.(*ast.RangeStmt); ok {
					rv[p.R(h).Val(r.X).String()] = true
				}
			}
		}
		cnt := 0
		inspectNoLit(h.Body, func(x ast.Node) bool {
			as, ok := x.(*ast.AssignStmt)
			if !ok || len(as.Lhs) != 1 || len(as.Rhs) != 1 {
				return true
			}
			call, isCall := as.Rhs[0].(*ast.CallExpr)
			if !isCall || p.CalleeName(h.Info(), call) != "builtin.append" || !rv[p.R(h).Val(as.Lhs[0]).String()] {
				return true
			}
			cnt++
			ok2, why := p.DomAny(h, as, AtomWant{sp, true})
			c.Check(ok2, rule, h.Name, "queued for pushMsg only if shouldPush", as, why, why)
			return true
		})
		if cnt == 0 {
			c.Undecided(rule, h.Name, "append to push list", h.Decl, "no append to the slice pushMsg ranges over")
		}
		callers := p.CallerNames(fnPushMsg)
		ok, extra := subset(callers, fnHandleRPC)
		c.Check(ok && len(callers) > 0, rule, fnPushMsg, "called only by handleIncomingRPC", nil, "callers: "+strings.Join(callers, ","), "pushMsg also referenced from "+strings.Join(extra, ","))
	}
}

func runC03(c *RuleCtx) {
	p := c.P
	shouldPushGuards(c, "R03.1", "C03")
	if f := c.MustFn("R03.1", fnValidateLocal); f != nil {
		polNil := AtomCmp("checkSigningPolicy(msg) == nil", isCallTo(fnCheckPolicy), "==", isNilV)
		for _, cs := range p.Sites(f, true, fnValidate) {
			ok, why := p.DomAny(f, cs.Call, AtomWant{polNil, true})
			c.Check(ok, "R03.1", f.Name, "policy check before validate", cs.Call, why, why)
		}
	}
	// R03.2
	sigNil := atomSigNil()
	validSig := AtomBool("validateSignature(msg)", isCallTo(fnValidateSig))
	if f := c.MustFn("R03.2", fnValidate); f != nil {
		sites := p.Sites(f, true, fnMarkSeen)
		if len(sites) == 0 {
			c.Undecided("R03.2", f.Name, "markSeen", f.Decl, "no markSeen call")
		}
		for _, cs := range sites {
			ok, why := p.DomAny(f, cs.Call, AtomWant{sigNil, true}, AtomWant{validSig, true})
			c.Check(ok, "R03.2", f.Name, "markSeen only if unsigned or signature verified", cs.Call, why, why)
		}
		// the failed-verification edge leads to RejectMessage(RejectInvalidSignature) and an error return
		g := p.Graph(f)
		for _, e := range g.AtomEdges(validSig, false) {
			ok, _ := g.MustPass(EdgeTarget(e), PassOpts{}, func(n ast.Node) bool {
				for _, cs := range p.CallsIn(f, n, false) {
					if strings.HasSuffix(cs.Name, ".RejectMessage") && len(cs.Call.Args) == 2 && p.R(f).Val(cs.Call.Args[1]).IsConst("RejectInvalidSignature") {
						return true
					}
				}
				return false
			})
			c.Check(ok, "R03.2", f.Name, "invalid signature traced as RejectInvalidSignature", e.From.Nodes[len(e.From.Nodes)-1], "the failing edge reports RejectInvalidSignature", "the failing edge does not report RejectInvalidSignature")
		}
	}
	if f := c.MustFn("R03.2", fnValidateSig); f != nil {
		errNil := AtomCmp("verifyMessageSignature == nil", isCallTo(fnVerifySig), "==", isNilV)
		returnsIn(f, func(r *ast.ReturnStmt) {
			if len(r.Results) == 1 && p.R(f).Val(r.Results[0]).IsConst("true") {
				ok, why := p.DomAny(f, r, AtomWant{errNil, true})
				c.Check(ok, "R03.2", f.Name, "true only if verifyMessageSignature returned nil", r, why, why)
			} else if len(r.Results) == 1 && !p.R(f).Val(r.Results[0]).IsConst("false") {
				c.Undecided("R03.2", f.Name, "return value", r, "non-constant result")
			}
		})
		// the verified message is the received protobuf
		for _, cs := range p.Sites(f, true, fnVerifySig) {
			v := p.R(f).Val(cs.Call.Args[0])
			c.Check(v.IsField("Message.Message"), "R03.2", f.Name, "verifies the received protobuf", cs.Call, "argument is "+v.String(), "argument is "+v.String()+", not msg.Message")
		}
	}
	if f := c.MustFn("R03.2", "(*validation).Push"); f != nil {
		returnsIn(f, func(r *ast.ReturnStmt) {
			if len(r.Results) == 1 && p.R(f).Val(r.Results[0]).IsConst("true") {
				ok, why := p.DomAny(f, r, AtomWant{sigNil, true})
				c.Check(ok, "R03.2", f.Name, "pipeline bypass only for unsigned messages", r, why, why)
			}
		})
	}
	// R03.3 verifyMessageSignature
	if f := c.MustFn("R03.3", fnVerifySig); f != nil {
		res := p.R(f)
		vs := p.Sites(f, false, fnPubKeyVerify)
		if len(vs) != 1 {
			c.Undecided("R03.3", f.Name, "Verify call", f.Decl, "expected exactly one PubKey.Verify call")
		}
		for _, cs := range vs {
			v := res.Val(cs.Call)
			okKey := len(v.Args) == 3 && v.Args[0].Kind == "tuple" && v.Args[0].Name == "0" && v.Args[0].Args[0].IsCall("messagePubKey")
			c.Check(okKey, "R03.3", f.Name, "key from messagePubKey(m)", cs.Call, "receiver is "+v.Args[0].String(), "Verify is called on "+v.Args[0].String())
			okData := len(v.Args) == 3 && v.Args[1].IsCall("withSignPrefix") && len(v.Args[1].Args) == 1 && v.Args[1].Args[0].Kind == "tuple" && v.Args[1].Args[0].Args[0].IsCall("pb.(*Message).Marshal")
			c.Check(okData, "R03.3", f.Name, "data is withSignPrefix(Marshal(copy))", cs.Call, "data is "+v.Args[1].String(), "verified bytes are "+v.Args[1].String())
			okSig := len(v.Args) == 3 && v.Args[2].IsField("pb.Message.Signature")
			c.Check(okSig, "R03.3", f.Name, "signature is m.Signature", cs.Call, "signature operand is "+v.Args[2].String(), "signature operand is "+v.Args[2].String())
			valid := AtomBool("valid", func(x *V) bool { return x.Kind == "tuple" && x.Name == "0" && x.Args[0].IsCall(fnPubKeyVerify) })
			verr := AtomCmp("Verify err == nil", func(x *V) bool { return x.Kind == "tuple" && x.Name == "1" && x.Args[0].IsCall(fnPubKeyVerify) }, "==", isNilV)
			kerr := AtomCmp("messagePubKey err == nil", func(x *V) bool { return x.Kind == "tuple" && x.Name == "1" && x.Args[0].IsCall("messagePubKey") }, "==", isNilV)
			returnsIn(f, func(r *ast.ReturnStmt) {
				if len(r.Results) != 1 {
					return
				}
				if !isNilV(res.Val(r.Results[0])) {
					return
				}
				for _, aw := range []AtomWant{{valid, true}, {verr, true}, {kerr, true}} {
					ok, why := p.DomAny(f, r, aw)
					c.Check(ok, "R03.3", f.Name, "nil only if "+aw.A.Desc, r, why, why)
				}
			})
		}
		// the marshalled copy: a by-value copy of *m in which exactly Signature and Key are cleared
		cleared := map[string]bool{}
		var bad []string
		var copyObj string
		for _, s := range p.StoresTo2(f, "pb.Message.") {
			base := unparen(s.LHS)
			if se, ok := base.(*ast.SelectorExpr); ok {
				if id, ok := se.X.(*ast.Ident); ok {
					t := f.Info().TypeOf(id)
					if t != nil && typeString(t, modPath) == "pb.Message" {
						copyObj = id.Name
						if isNilV(res.Val(s.RHS)) {
							cleared[strings.TrimPrefix(s.Field, "pb.Message.")] = true
						} else {
							bad = append(bad, s.Field+" set to non-nil")
						}
						continue
					}
				}
			}
			bad = append(bad, s.Field+" written through the received message")
		}
		var cl []string
		for k := range cleared {
			cl = append(cl, k)
		}
		sort.Strings(cl)
		okc := len(bad) == 0 && strings.Join(cl, ",") == "Key,Signature"
		c.Check(okc, "R03.3", f.Name, "copy clears exactly Signature and Key", f.Decl, "copy "+copyObj+" clears "+strings.Join(cl, ","), "fields cleared on the copy: ["+strings.Join(cl, ",")+"] "+strings.Join(bad, "; "))
		// Marshal is invoked on that copy
		for _, cs := range p.Sites(f, false, "pb.(*Message).Marshal") {
			se, _ := unparen(cs.Call.Fun).(*ast.SelectorExpr)
			okm := false
			if se != nil {
				if id, ok := se.X.(*ast.Ident); ok && id.Name == copyObj {
					okm = true
				}
			}
			c.Check(okm, "R03.3", f.Name, "Marshal on the cleared copy", cs.Call, "receiver "+copyObj, "Marshal is not invoked on the cleared copy")
		}
	}
	if f := c.MustFn("R03.3", "messagePubKey"); f != nil {
		res := p.R(f)
		keyNil := AtomNil("m.Key == nil", isPbMsgField("Key"))
		fromID := func(v *V) bool {
			return v.Kind == "tuple" && v.Name == "0" && v.Args[0].IsCall(fnIDFromBytes) && len(v.Args[0].Args) == 1 && v.Args[0].Args[0].IsField("pb.Message.From")
		}
		matches := AtomBool("pid.MatchesPublicKey(pubk)", func(v *V) bool {
			return v.IsCall(fnMatchesPubKey) && len(v.Args) == 2 && fromID(v.Args[0]) &&
				v.Args[1].Kind == "tuple" && v.Args[1].Args[0].IsCall(fnUnmarshalPub) && v.Args[1].Args[0].Args[0].IsField("pb.Message.Key")
		})
		extractOK := AtomCmp("ExtractPublicKey err == nil", func(v *V) bool {
			return v.Kind == "tuple" && v.Name == "1" && v.Args[0].IsCall(fnExtractPubKey) && fromID(v.Args[0].Args[0])
		}, "==", isNilV)
		idOK := AtomCmp("IDFromBytes err == nil", func(v *V) bool {
			return v.Kind == "tuple" && v.Name == "1" && v.Args[0].IsCall(fnIDFromBytes)
		}, "==", isNilV)
		n := 0
		returnsIn(f, func(r *ast.ReturnStmt) {
			if len(r.Results) != 2 || !isNilV(res.Val(r.Results[1])) {
				return
			}
			n++
			ok, why := p.DomAny(f, r, AtomWant{keyNil, true}, AtomWant{matches, true})
			c.Check(ok, "R03.3", f.Name, "attached key accepted only if it matches the author ID", r, why, why)
			ok, why = p.DomAny(f, r, AtomWant{keyNil, false}, AtomWant{extractOK, true})
			c.Check(ok, "R03.3", f.Name, "without attached key the key is extracted from the author ID", r, why, why)
			ok, why = p.DomAny(f, r, AtomWant{idOK, true})
			c.Check(ok, "R03.3", f.Name, "author ID parsed from m.From", r, why, why)
		})
		if n == 0 {
			c.Undecided("R03.3", f.Name, "success return", f.Decl, "no `return pubk, nil`")
		}
	}
	// R03.4 policy table
	if f := c.MustFn("R03.4", fnCheckPolicy); f != nil {
		checkPolicyTable(c, f)
	}
	// R03.5 signing side
	if f := c.MustFn("R03.5", "(*Topic).validate"); f != nil {
		g := p.Graph(f)
		signs := p.Sites(f, false, "signMessage")
		if len(signs) == 0 {
			c.Undecided("R03.5", f.Name, "signMessage", f.Decl, "no signMessage call")
		}
		for _, sc := range signs {
			sp, _ := g.Locate(sc.Call)
			bad := ""
			for _, s := range p.StoresTo2(f, "pb.Message.") {
				tp, ok := g.Locate(s.Node)
				if ok && g.ReachableFrom(sp.After(), tp, nil, nil) {
					bad = s.Field + " at " + p.Pos(s.Node)
				}
			}
			c.Check(bad == "", "R03.5", f.Name, "no message field stored after signing", sc.Call, "no store to the message is reachable after signMessage", "the message is modified after it was signed: "+bad)
			// the signed object is the one placed in the Message handed to the pipeline
			mv := p.R(f).Val(sc.Call.Args[2])
			okSame := false
			inspectNoLit(f.Body, func(x ast.Node) bool {
				cl, ok := x.(*ast.CompositeLit)
				if !ok || typeString(f.Info().TypeOf(cl), modPath) != "Message" {
					return true
				}
				for _, el := range cl.Elts {
					if kv, ok := el.(*ast.KeyValueExpr); ok {
						if id, ok := kv.Key.(*ast.Ident); ok && id.Name == "Message" {
							if p.R(f).Val(kv.Value).Equal(mv) {
								okSame = true
							} else {
								// through local copies (the result of a constructor helper): every non-nil value that can reach
								// the wrapped field is the signed object
								all, some := true, false
								for _, ch := range p.R(f).Sources(kv.Value) {
									if ch.Zero || (ch.Leaf != nil && ch.Leaf.IsConst("nil")) {
										continue
									}
									if ch.Leaf != nil && ch.Leaf.Equal(mv) {
										some = true
									} else {
										all = false
									}
								}
								if all && some {
									okSame = true
								}
							}
						}
					}
				}
				return true
			})
			c.Check(okSame, "R03.5", f.Name, "published message wraps the signed protobuf", sc.Call, "Message{Message: m} uses the signed object", "the Message handed to the pipeline does not wrap the signed protobuf")
		}
	}
	if f := c.MustFn("R03.5", "signMessage"); f != nil {
		g := p.Graph(f)
		ms := p.Sites(f, false, "pb.(*Message).Marshal")
		if len(ms) != 1 {
			c.Undecided("R03.5", f.Name, "Marshal", f.Decl, "expected exactly one Marshal call")
		}
		for _, mc := range ms {
			mp, _ := g.Locate(mc.Call)
			for _, s := range p.StoresTo2(f, "pb.Message.") {
				tp, _ := g.Locate(s.Node)
				before := g.ReachableFrom(tp.After(), mp, nil, nil)
				c.Check(!before, "R03.5", f.Name, "store to "+s.Field+" after Marshal", s.Node, "the field is set only after the signed bytes were produced", "the message is modified before the bytes to sign are produced")
			}
		}
		for _, cs := range p.Sites(f, false, p2p+"crypto.PrivKey.Sign") {
			v := p.R(f).Val(cs.Call)
			ok := len(v.Args) == 2 && v.Args[1].IsCall("withSignPrefix") && v.Args[1].Args[0].Kind == "tuple" && v.Args[1].Args[0].Args[0].IsCall("pb.(*Message).Marshal")
			c.Check(ok, "R03.5", f.Name, "signs withSignPrefix(Marshal(m))", cs.Call, "signed bytes: "+v.Args[1].String(), "signed bytes are "+v.String())
		}
	}
	// R03.6 immutability of accepted protobufs
	allowed := []string{"(*Topic).validate", "signMessage", fnVerifySig}
	n := 0
	for _, s := range p.AllStores() {
		if !strings.HasPrefix(s.Field, "pb.Message.") {
			continue
		}
		n++
		root := s.Fn.Root().Name
		c.Check(inSet(root, allowed...), "R03.6", root, "writes "+s.Field, s.Node, "write happens while a local message is built/signed or on the verifier's private copy", "a field of a pb.Message is written outside message construction/signing: forwarded copies would no longer be field-for-field what was accepted/signed")
	}
	// mutating generated methods on pb.Message outside the decoder
	for _, cs := range p.AllSites("pb.(*Message).Reset", "pb.(*Message).Unmarshal", "pb.(*Message).XXX_Merge", "pb.(*Message).XXX_Unmarshal", "pb.(*Message).XXX_DiscardUnknown") {
		c.Bad("R03.6", cs.Fn.Root().Name, "mutating call "+cs.Name, cs.Call, "a pb.Message is mutated in place outside the decoder")
	}
	if n < 4 {
		c.Undecided("R03.6", "pb.Message", "field stores", nil, "fewer pb.Message field stores than known (anchor drift)")
	}
	c.Min["R03.1"] = 5
	c.Min["R03.2"] = 5
	c.Min["R03.3"] = 11
	c.Min["R03.4"] = 6
	c.Min["R03.5"] = 5
	c.Min["R03.6"] = 4
}

// StoresTo2 lists stores in f (and nested literals) whose field name has the given prefix.
func (p *Prog) StoresTo2(f *Func, prefix string) []Store {
	var out []Store
	for _, s := range p.AllStores() {
		if s.Fn.Root() == f.Root() && strings.HasPrefix(s.Field, prefix) {
			out = append(out, s)
		}
	}
	return out
}

func checkPolicyTable(c *RuleCtx, f *Func) {
	p := c.P
	g := p.Graph(f)
	atoms := []NamedAtom{
		{"V", AtomBool("mustVerify()", isCallTo("MessageSignaturePolicy.mustVerify"))},
		{"S", AtomBool("mustSign()", isCallTo("MessageSignaturePolicy.mustSign"))},
		{"sig", AtomCmp("Signature != nil", isPbMsgField("Signature"), "!=", isNilV)},
		{"anon", AtomCmp("signID == \"\"", isFieldOf("PubSub.signID"), "==", func(v *V) bool { return v != nil && (v.Name == `""`) })},
		{"seqno", AtomCmp("Seqno != nil", isPbMsgField("Seqno"), "!=", isNilV)},
		{"from", AtomCmp("From != nil", isPbMsgField("From"), "!=", isNilV)},
		{"key", AtomCmp("Key != nil", isPbMsgField("Key"), "!=", isNilV)},
	}
	paths, err := g.EnumPaths(atoms, 256)
	if err != nil {
		c.Undecided("R03.4", f.Name, "path enumeration", f.Decl, err.Error())
		return
	}
	V, S, sig, anon := FAtom("V"), FAtom("S"), FAtom("sig"), FAtom("anon")
	auth := FOr(FAtom("seqno"), FAtom("from"), FAtom("key"))
	cases := []struct {
		name   string
		f      Formula
		reason string
	}{
		{"strict-sign without signature", FAnd(V, S, FNot(sig)), "RejectMissingSignature"},
		{"no-sign policy with signature", FAnd(V, FNot(S), sig), "RejectUnexpectedSignature"},
		{"anonymous mode with author data", FAnd(V, FNot(S), FNot(sig), anon, auth), "RejectUnexpectedAuthInfo"},
	}
	reject := FOr(cases[0].f, cases[1].f, cases[2].f)
	nRej, nAcc := 0, 0
	for i, pi := range paths {
		if pi.Ret == nil || len(pi.Ret.Results) != 1 {
			c.Undecided("R03.4", f.Name, "path without return", f.Decl, "a path ends without a single-value return")
			continue
		}
		retNil := isNilV(p.R(f).Val(pi.Ret.Results[0]))
		want, known := pi.Eval(reject)
		desc := pi.String()
		switch {
		case !known:
			c.Bad("R03.4", f.Name, "path decides the policy", pi.Ret, "a path returns without testing enough of the policy inputs to decide the table: established {"+desc+"}")
		case want && retNil:
			c.Bad("R03.4", f.Name, "rejecting case returns error", pi.Ret, "a path on which the policy table demands rejection returns nil: {"+desc+"}")
		case !want && !retNil:
			c.Bad("R03.4", f.Name, "accepting case returns nil", pi.Ret, "a path on which the policy table accepts returns an error: {"+desc+"}")
		case want:
			nRej++
			// matching reason in RejectMessage and in the returned error
			reason := ""
			for _, cs := range cases {
				if v, k := pi.Eval(cs.f); k && v {
					reason = cs.reason
				}
			}
			traced := false
			for _, n := range pi.Nodes {
				for _, cs := range p.CallsIn(f, n, false) {
					if cs.Name == fnRejectMsg && len(cs.Call.Args) == 2 && p.R(f).Val(cs.Call.Args[1]).IsConst(reason) {
						traced = true
					}
				}
			}
			errReason := false
			ast.Inspect(pi.Ret.Results[0], func(x ast.Node) bool {
				if kv, ok := x.(*ast.KeyValueExpr); ok {
					if p.R(f).Val(kv.Value).IsConst(reason) {
						errReason = true
					}
				}
				return true
			})
			c.Check(traced && errReason, "R03.4", f.Name, "reject path reports "+reason, pi.Ret, "path {"+desc+"} traces and returns "+reason, "path {"+desc+"} does not report "+reason+" both to the tracer and in the error")
		default:
			nAcc++
			_ = i
		}
	}
	c.Check(nRej >= 3 && nAcc >= 1, "R03.4", f.Name, "table coverage", f.Decl, "all three rejecting cases and the accepting case occur", "the function no longer has the three rejecting cases and an accepting path")
	c.OK("R03.4", f.Name, "paths enumerated", f.Decl, "acyclic; paths enumerated and compared with the policy table")
	c.Note = append(c.Note, "R03.4 enumerated paths of checkSigningPolicy: "+itoa(len(paths)))
}

func itoa(n int) string { return strconv.Itoa(n) }

func runC16(c *RuleCtx) {
	p := c.P
	shouldPushGuards(c, "R16.1", "C16")
	blPid := func(v *V) bool { return v.IsCall(fnBLContains) }
	// R16.2 blacklist arm
	if f := c.MustFn("R16.2", fnProcessLoop); f != nil {
		g := p.Graph(f)
		clause := selectClauseOn(p, f, "PubSub.blacklistPeer")
		if clause == nil {
			c.Undecided("R16.2", f.Name, "blacklistPeer arm", f.Decl, "no select clause receives from p.blacklistPeer")
		} else {
			body := g.ClauseBody(clause)
			_, _, until := forLoopOf(p, g, f)
			ok, _ := g.MustPass(Point{body, 0}, PassOpts{Until: until}, p.callPred(f, fnBLAdd))
			c.Check(ok, "R16.2", f.Name, "blacklist.Add on every path of the arm", clause, "always added", "the arm can complete without blacklist.Add")
			present := AtomLookupOK("queue present in p.peers", isFieldOf("PubSub.peers"), nil)
			// the cleanup decision is reached on every path of the arm (no early exit, e.g. on Add's result)
			okLook, _ := g.MustPass(Point{body, 0}, PassOpts{Until: until}, func(n ast.Node) bool {
				for _, e := range append(g.AtomEdges(present, true), g.AtomEdges(present, false)...) {
					if condNodeOf(e) == n && within(n, clause) {
						return true
					}
				}
				return false
			})
			c.Check(okLook, "R16.2", f.Name, "queue lookup (cleanup decision) on every path of the arm", clause, "always reached", "the blacklist arm can leave before looking up the peer's queue: an already connected peer would keep its queue, topic membership and mesh slots")
			// topic membership is learnt from the peer's own (inbound) stream, which exists independently of our
			// queue to it: it is forgotten on every path of the arm, not only when a queue is present
			okClr, _ := g.MustPass(Point{body, 0}, PassOpts{Until: until}, p.callPred(f, "(*PubSub).clearPeerFromTopicsState"))
			c.Check(okClr, "R16.2", f.Name, "topic state cleared on every path of the arm", clause, "always", "BlacklistPeer forgets the peer's topics only when an outbound queue exists: a peer known only through its inbound stream (stream set-up, failed or refused outbound stream) stays in p.topics, is counted by EnoughPeers and reported to new event handlers")
			var edges []Edge
			for _, e := range g.AtomEdges(present, true) {
				if within(e.From.Nodes[len(e.From.Nodes)-1], clause) {
					edges = append(edges, e)
				}
			}
			if len(edges) == 0 {
				c.Undecided("R16.2", f.Name, "queue-present edge", clause, "no lookup of p.peers in the blacklist arm")
			}
			for _, e := range edges {
				for _, req := range []string{"(*rpcQueue).Close", "(*PubSub).clearPeerFromTopicsState", "PubSubRouter.OnClosedOutboundStream"} {
					ok, _ := g.MustPass(EdgeTarget(e), PassOpts{Until: until}, p.callPred(f, req))
					c.Check(ok, "R16.2", f.Name, "queue-present edge reaches "+req, clause, "always", "the blacklist arm can finish without "+req)
				}
				ok, _ := g.MustPass(EdgeTarget(e), PassOpts{Until: until}, func(n ast.Node) bool { return isDeleteOf(p, f, n, "PubSub.peers") })
				c.Check(ok, "R16.2", f.Name, "queue-present edge deletes from p.peers", clause, "always", "the blacklisted peer's queue can stay in p.peers")
			}
		}
		// R16.3 newPeerStream arm
		clause = selectClauseOn(p, f, "PubSub.newPeerStream")
		if clause == nil {
			c.Undecided("R16.3", f.Name, "newPeerStream arm", f.Decl, "no select clause receives from p.newPeerStream")
		} else {
			bl := AtomBool("blacklist.Contains(pid)", blPid)
			n := 0
			inspectNoLit(clause, func(x ast.Node) bool {
				s, ok := x.(*ast.SendStmt)
				if !ok {
					return true
				}
				n++
				ok2, why := p.DomAny(f, s, AtomWant{bl, false})
				c.Check(ok2, "R16.3", f.Name, "hello sent only if not blacklisted", s, why, why)
				return true
			})
			for _, cs := range p.Sites(f, false, "PubSubRouter.OnNewOutboundStream") {
				ok2, why := p.DomAny(f, cs.Call, AtomWant{bl, false})
				c.Check(ok2, "R16.3", f.Name, "router told of the stream only if not blacklisted", cs.Call, why, why)
				n++
			}
			if n < 2 {
				c.Undecided("R16.3", f.Name, "hello send", clause, "hello-packet send / OnNewOutboundStream not found")
			}
			_, _, until := forLoopOf(p, g, f)
			for _, e := range g.AtomEdges(bl, true) {
				if !within(e.From.Nodes[len(e.From.Nodes)-1], clause) {
					continue
				}
				ok, _ := g.MustPass(EdgeTarget(e), PassOpts{Until: until}, p.callPred(f, "(*rpcQueue).Close"))
				ok2, _ := g.MustPass(EdgeTarget(e), PassOpts{Until: until}, func(n ast.Node) bool { return isDeleteOf(p, f, n, "PubSub.peers") })
				ok3, _ := g.MustPass(EdgeTarget(e), PassOpts{Until: until}, func(n ast.Node) bool {
					for _, cs := range p.CallsIn(f, n, false) {
						if strings.HasSuffix(cs.Name, "Stream.Reset") || strings.HasSuffix(cs.Name, ".Reset") {
							return true
						}
					}
					return false
				})
				c.Check(ok && ok2 && ok3, "R16.3", f.Name, "blacklisted stream: queue closed+removed, stream reset", clause, "all three on every path", "the blacklisted edge does not always close the queue, delete it from p.peers and reset the stream")
			}
		}
	}
	if f := c.MustFn("R16.3", "(*PubSub).handlePendingPeers"); f != nil {
		bl := AtomBool("blacklist.Contains(pid)", blPid)
		n := 0
		for _, s := range p.StoresTo2(f, "PubSub.peers") {
			if s.Kind != "elem-assign" {
				continue
			}
			n++
			ok, why := p.DomAny(f, s.Node, AtomWant{bl, false})
			c.Check(ok, "R16.3", f.Name, "queue created only if not blacklisted", s.Node, why, why)
		}
		if n == 0 {
			c.Undecided("R16.3", f.Name, "queue creation", f.Decl, "no store into p.peers")
		}
	}
	// the router-side half of R16.2: OnClosedOutboundStream removes the peer from every mesh and fanout map (shared C07 R07.5)
	{
		sub := &RuleCtx{P: p, Prop: c.Prop, Min: map[string]int{}}
		runC07(sub)
		for _, o := range sub.Obs {
			if o.Rule == "R07.5" && strings.Contains(o.Key, "OnClosedOutboundStream") {
				c.Obs = append(c.Obs, o)
			}
		}
	}
	// R16.4 pushes take their queue from p.peers in the same step
	checkPushReceivers(c, "R16.4")
	// R16.5 key agreement
	for _, impl := range []string{"MapBlacklist", "*TimeCachedBlacklist"} {
		name := func(m string) string {
			if strings.HasPrefix(impl, "*") {
				return "(" + impl + ")." + m
			}
			return impl + "." + m
		}
		add, con := c.MustFn("R16.5", name("Add")), c.MustFn("R16.5", name("Contains"))
		if add == nil || con == nil {
			continue
		}
		ka, kc := keyExprOf(p, add), keyExprOf(p, con)
		c.Check(ka != "" && ka == kc, "R16.5", impl, "Add and Contains use the same key", add.Decl, "key expression: "+ka, "Add keys by "+ka+" but Contains keys by "+kc)
	}
	// R16.6 messages that were inside the validation pipeline when their sender or author was blacklisted: the
	// only way a validated remote message re-enters delivery is the sendMsg arm of the event loop (R02.2), and
	// that arm calls publishMessage only on the false edges of blacklist.Contains(ReceivedFrom) and Contains(author)
	if f := c.MustFn("R16.6", fnProcessLoop); f != nil {
		blSrc := AtomBool("blacklist.Contains(ReceivedFrom)", func(v *V) bool {
			return v.IsCall(fnBLContains) && len(v.Args) == 2 && v.Args[1].IsField("Message.ReceivedFrom")
		})
		blFrom := AtomBool("blacklist.Contains(GetFrom())", func(v *V) bool {
			return v.IsCall(fnBLContains) && len(v.Args) == 2 && stripConv(v.Args[1]).IsCall(fnMsgGetFrom)
		})
		n := 0
		for _, cs := range p.Sites(f, false, fnPublishMsg) {
			// the call in the arm that receives from PubSub.sendMsg
			cc, _ := p.Enclosing(cs.Call, func(x ast.Node) bool { _, ok := x.(*ast.CommClause); return ok }, true).(*ast.CommClause)
			if cc == nil || cc.Comm == nil {
				continue
			}
			isSendMsgArm := false
			ast.Inspect(cc.Comm, func(x ast.Node) bool {
				if u, ok := x.(*ast.UnaryExpr); ok && u.Op.String() == "<-" && p.R(f).Val(u.X).IsField("PubSub.sendMsg") {
					isSendMsgArm = true
				}
				return true
			})
			if !isSendMsgArm {
				continue
			}
			n++
			ok, why := p.DomAny(f, cs.Call, AtomWant{blSrc, false})
			c.Check(ok, "R16.6", f.Name, "validated message delivered only if its forwarder is not blacklisted", cs.Call, why, "a message that was being validated when its forwarder was blacklisted is still delivered and forwarded: "+why)
			ok, why = p.DomAny(f, cs.Call, AtomWant{blFrom, false})
			c.Check(ok, "R16.6", f.Name, "validated message delivered only if its author is not blacklisted", cs.Call, why, "a message that was being validated when its author was blacklisted is still delivered and forwarded: "+why)
		}
		if n == 0 {
			c.Undecided("R16.6", f.Name, "sendMsg arm", f.Decl, "no publishMessage call in the arm receiving from PubSub.sendMsg")
		}
	}
	// R16.7 the message cache outlives the blacklisting of a message's source: answering IWANT from it is
	// forwarding, so a cached message goes into the reply only on the false edges of both blacklist tests
	if f := c.MustFn("R16.7", "(*GossipSubRouter).handleIWant"); f != nil {
		blSrc := AtomBool("blacklist.Contains(ReceivedFrom)", func(v *V) bool {
			return v.IsCall(fnBLContains) && len(v.Args) == 2 && v.Args[1].IsField("Message.ReceivedFrom")
		})
		blFrom := AtomBool("blacklist.Contains(GetFrom())", func(v *V) bool {
			return v.IsCall(fnBLContains) && len(v.Args) == 2 && stripConv(v.Args[1]).IsCall(fnMsgGetFrom)
		})
		fromCache := func(v *V) bool {
			return v.Has(func(x *V) bool { return x.IsCall("(*MessageCache).GetForPeer") || x.IsCall("(*MessageCache).Get") })
		}
		n := 0
		use := func(val ast.Expr, at ast.Node) {
			if !fromCache(p.R(f).Val(val)) {
				return
			}
			n++
			ok, why := p.DomAny(f, at, AtomWant{blSrc, false})
			c.Check(ok, "R16.7", f.Name, "cached message served only if its forwarder is not blacklisted", at, why, "IWANT is answered with a cached message whose forwarder may have been blacklisted since it was cached: "+why)
			ok, why = p.DomAny(f, at, AtomWant{blFrom, false})
			c.Check(ok, "R16.7", f.Name, "cached message served only if its author is not blacklisted", at, why, "IWANT is answered with a cached message whose author may have been blacklisted since it was cached: "+why)
		}
		for _, mi := range p.mapInserts(f) {
			if as := mi.Stmt; as != nil && len(as.Rhs) == 1 {
				use(as.Rhs[0], mi.Stmt)
			}
		}
		for _, ap := range p.localAppends(f) {
			if as := ap.Stmt; as != nil && len(as.Rhs) == 1 {
				if ce, ok := unparen(as.Rhs[0]).(*ast.CallExpr); ok {
					for _, a := range ce.Args[1:] {
						use(a, ap.Stmt)
					}
				}
			}
		}
		if n == 0 {
			c.Undecided("R16.7", f.Name, "cached message put into the reply", f.Decl, "no map insert/append of a value obtained from the message cache")
		}
		// inventory: the cache is read for sending only here
		for _, cs := range p.AllSites("(*MessageCache).GetForPeer", "(*MessageCache).Get") {
			root := cs.Fn.Root().Name
			c.Check(root == f.Name, "R16.7", root, "message cache read for sending only by handleIWant", cs.Call, "handleIWant", "the message cache is also read by "+root+", which is not covered by the blacklist re-check")
		}
	}
	// R16.8 a blacklisted peer keeps its inbound stream (nothing closes it), so handleIncomingRPC is where what it
	// says must stop: the topic-map bookkeeping, the router's HandleRPC/Preprocess (GRAFT, IHAVE/IWANT, extension and
	// partial-message payloads handed to the application) and pushMsg are reached only on the false edge of
	// blacklist.Contains(rpc.from)
	if f := c.MustFn("R16.8", fnHandleRPC); f != nil {
		blFrom := AtomBool("blacklist.Contains(rpc.from)", func(v *V) bool {
			return v.IsCall(fnBLContains) && len(v.Args) == 2 && v.Args[1].IsField("RPC.from")
		})
		n := 0
		need := func(site ast.Node, what string) {
			n++
			// (a nil blacklist has no members: bare PubSub values built by unit tests)
			noBL := AtomNil("p.blacklist == nil", isFieldOf("PubSub.blacklist"))
			ok, why := p.DomAny(f, site, AtomWant{blFrom, false}, AtomWant{noBL, true})
			c.Check(ok, "R16.8", f.Name, what+" only for a sender that is not blacklisted", site, why, "an RPC from a blacklisted peer (whose inbound stream stays open) still reaches "+what+": "+why)
		}
		for _, cs := range p.Sites(f, false, "PubSubRouter.HandleRPC") {
			need(cs.Call, "the router's HandleRPC")
		}
		for _, cs := range p.Sites(f, false, "PubSubRouter.Preprocess") {
			need(cs.Call, "the router's Preprocess")
		}
		// (messages themselves are stopped by shouldPush, R16.1)
		for _, mi := range p.mapInserts(f) {
			mv := p.R(f).Val(mi.Map)
			if mv != nil && (mv.Has(func(x *V) bool { return x.IsField("PubSub.topics") })) {
				need(mi.Stmt, "the topic-map bookkeeping")
			}
		}
		if n < 3 {
			c.Undecided("R16.8", f.Name, "ingress effects", f.Decl, "fewer effect sites than known (HandleRPC, Preprocess, topic-map insert): "+itoa(n))
		}
		c.Min["R16.8"] = 3
	}
	// "nothing further is sent" after the queue was closed rests on the queue itself: a closed queue hands out
	// nothing (even with a backlog) and the writer leaves on the error — decided under C15, re-evaluated here
	{
		sub := &RuleCtx{P: c.P, Prop: c.Prop, Min: map[string]int{}}
		runC15(sub)
		for _, o := range sub.Obs {
			if o.Rule == "R15.5" || o.Rule == "R15.6" {
				c.Obs = append(c.Obs, o)
			}
		}
		c.Min["R15.5"] = 9
		c.Min["R15.6"] = 2
	}
	c.Min["R16.6"] = 2
	c.Min["R16.7"] = 3
	c.Min["R16.1"] = 4
	c.Min["R16.2"] = 7
	c.Min["R07.5"] = 4
	c.Min["R16.3"] = 4
	c.Min["R16.4"] = 5
	c.Min["R16.5"] = 2
}

// keyExprOf: the canonical form of the key used for the map index / TimeCache call in a blacklist method.
func keyExprOf(p *Prog, f *Func) string {
	key := ""
	inspectNoLit(f.Body, func(n ast.Node) bool {
		switch x := n.(type) {
		case *ast.IndexExpr:
			key = "index:" + p.R(f).Val(x.Index).String()
		case *ast.CallExpr:
			nm := p.CalleeName(f.Info(), x)
			if strings.HasPrefix(nm, "timecache.TimeCache.") && len(x.Args) == 1 {
				key = "tc:" + p.R(f).Val(x.Args[0]).String()
			}
		}
		return true
	})
	return key
}

func isDeleteOf(p *Prog, f *Func, n ast.Node, field string) bool {
	found := false
	inspectNoLit(n, func(x ast.Node) bool {
		if ce, ok := x.(*ast.CallExpr); ok && p.CalleeName(f.Info(), ce) == "builtin.delete" && len(ce.Args) == 2 {
			if p.R(f).Val(ce.Args[0]).IsField(field) {
				found = true
			}
		}
		return true
	})
	return found
}

func selectClauseOn(p *Prog, f *Func, chanField string) *ast.CommClause {
	var clause *ast.CommClause
	inspectNoLit(f.Body, func(n ast.Node) bool {
		cc, ok := n.(*ast.CommClause)
		if !ok || cc.Comm == nil {
			return true
		}
		var rx ast.Expr
		switch s := cc.Comm.(type) {
		case *ast.ExprStmt:
			rx = s.X
		case *ast.AssignStmt:
			if len(s.Rhs) == 1 {
				rx = s.Rhs[0]
			}
		}
		if rx == nil {
			return true
		}
		if u, ok := unparen(rx).(*ast.UnaryExpr); ok && u.Op.String() == "<-" {
			if p.R(f).Val(u.X).IsField(chanField) {
				clause = cc
			}
		}
		return true
	})
	return clause
}

// checkPushReceivers: every Push/UrgentPush receiver is obtained from p.peers
// (lookup or range) in the same function, or is a parameter of a function all
// of whose call sites pass such a value.
func checkPushReceivers(c *RuleCtx, rule string) {
	p := c.P
	sites := p.AllSites("(*rpcQueue).Push", "(*rpcQueue).UrgentPush")
	for _, cs := range sites {
		recv := p.callReceiver(cs)
		if recv == nil {
			c.Undecided(rule, cs.Fn.Name, "push receiver", cs.Call, "receiver expression not recognised")
			continue
		}
		ok, why := queueFromPeers(p, cs.Fn, recv, 0)
		c.Check(ok, rule, cs.Fn.Root().Name, "push receiver comes from p.peers", cs.Call, why, why)
	}
}

func queueFromPeers(p *Prog, f *Func, x ast.Expr, depth int) (bool, string) {
	v := p.R(f).Val(x)
	fromPeers := func(v *V) bool {
		if v == nil {
			return false
		}
		if (v.Kind == "lookupval" || v.Kind == "index") && v.Args[0].IsField("PubSub.peers") {
			return true
		}
		return false
	}
	if fromPeers(v) {
		return true, "receiver is " + v.String()
	}
	id, ok := unparen(x).(*ast.Ident)
	if !ok {
		return false, "receiver " + v.String() + " is not taken from p.peers"
	}
	obj := f.Info().Uses[id]
	// range value over p.peers
	for _, d := range p.R(f).Defs(obj) {
		if d.kind == "range-val" && p.R(f).Val(d.rangeX).IsField("PubSub.peers") {
			return true, "receiver is the range value of p.peers"
		}
	}
	// parameter: all call sites must pass a p.peers value
	if depth < 2 && f.Decl != nil && f.Type.Params != nil {
		idx := -1
		i := 0
		for _, fld := range f.Type.Params.List {
			for _, nm := range fld.Names {
				if f.Info().Defs[nm] == obj {
					idx = i
				}
				i++
			}
		}
		if idx >= 0 {
			refs := p.Refs(f.Name)
			if len(refs) == 0 {
				return false, "receiver is a parameter of a function without visible callers"
			}
			for _, r := range refs {
				call := p.callOfRef(r)
				if !r.IsCall || call == nil || idx >= len(call.Args) {
					return false, "function is referenced as a value at " + p.Pos(r.Id)
				}
				if ok, why := queueFromPeers(p, r.Fn, call.Args[idx], depth+1); !ok {
					return false, "caller " + r.Fn.Name + ": " + why
				}
			}
			return true, "receiver is a parameter; every caller passes a queue looked up in p.peers"
		}
	}
	return false, "receiver " + v.String() + " is not taken from p.peers in this step"
}
