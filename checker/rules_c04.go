package main

import (
	"go/ast"
	"go/types"
	"strings"
)

// prevStmt returns the statement just before n in its statement list (nil if n is first).
func prevStmt(p *Prog, n ast.Node) ast.Stmt {
	var list []ast.Stmt
	switch par := p.parents[n].(type) {
	case *ast.BlockStmt:
		list = par.List
	case *ast.CaseClause:
		list = par.Body
	case *ast.CommClause:
		list = par.Body
	}
	for i, s := range list {
		if ast.Node(s) == n && i > 0 {
			return list[i-1]
		}
	}
	return nil
}

var verdicts = []string{"ValidationAccept", "ValidationReject", "ValidationIgnore", "validationThrottled"}

func init() {
	register(&Property{ID: "C04", Run: runC04,
		Explain: "Verdict logic decided by value-set propagation over the four-value verdict enum (T5) plus dominance: (R04.1) validateMsg returns only Accept/Reject/Ignore (out-of-range -> Ignore); (R04.2) in validate the value set of the inline result is {Accept} at onValid, within {Accept,Ignore} at the asynchronous hand-off, Reject leads to RejectMessage(RejectValidationFailed)+error, Ignore without async validators to RejectValidationIgnored+error; (R04.3) validateTopic combines verdicts monotonically in the order Accept<Ignore<Throttled<Reject (every assignment `result=C` happens where the current set is below C and in the arm of the received verdict C), which makes the outcome independent of completion order, and the collecting loop is left early only where the combined verdict is already {Reject} (no later verdict can be lost); (R04.4) doValidateTopic calls onValid only with result in {Accept} even when the inline stage said Ignore, and each non-accept arm reports the matching reason; (R04.5) peerScore.RejectMessage never reaches markInvalidMessageDelivery for throttled/ignored/queue-full/blacklist reasons and always penalises the forwarder (and every recorded duplicate sender) for RejectValidationFailed; (R04.7) the validator list attached to a queued message is a private copy (no append through an alias of the shared default list); (R04.6) local publishing validates synchronously (all validators inline) and surfaces the pipeline's error. The promise tracker's per-reason rows (C17 PROM) are re-evaluated here: a throttled or ignored message penalises nobody through broken promises either. NOT decided: validator timeouts, purity of user validators.",
		Assume:  []string{"user validators return a ValidationResult (any int value)", "go/cfg fallthrough edges are modelled by x/tools"},
		Mutants: []Mutant{
			{Name: "validateMsg-unknown-passthrough", File: "validation.go", Old: "\t\tval.logger.Warn(\"Unexpected result from validator; ignoring message\", \"result\", r)\n\t\treturn ValidationIgnore", New: "\t\tval.logger.Warn(\"Unexpected result from validator; ignoring message\", \"result\", r)\n\t\treturn r", Expect: "R04.1"},
			{Name: "inline-ignore-then-accept", File: "validation.go", Old: "\t\tswitch val.validateMsg(v.p.ctx, src, msg) {\n\t\tcase ValidationAccept:\n", New: "\t\tswitch val.validateMsg(v.p.ctx, src, msg) {\n\t\tcase ValidationAccept:\n\t\t\tresult = ValidationAccept\n", Expect: "R04.2"},
			{Name: "inline-ignore-delivered", File: "validation.go", Old: "\tif result == ValidationIgnore {\n\t\tv.tracer.RejectMessage(msg, RejectValidationIgnored)", New: "\tif result == ValidationIgnore && !synchronous {\n\t\tv.tracer.RejectMessage(msg, RejectValidationIgnored)", Expect: "R04.2"},
			{Name: "async-upgrade", File: "validation.go", Old: "\tif result == ValidationAccept && r != ValidationAccept {\n\t\tresult = r\n\t}", New: "\tif result != ValidationAccept && r != ValidationAccept {\n\t\tresult = r\n\t}", Expect: "R04.4"},
			{Name: "topic-throttled-stops-collection", File: "validation.go", Old: "\t\tcase validationThrottled:\n\t\t\tresult = validationThrottled\n", New: "\t\tcase validationThrottled:\n\t\t\tresult = validationThrottled\n\t\t\tbreak loop\n", Expect: "R04.3"},
			{Name: "topic-ignore-overrides-throttled", File: "validation.go", Old: "\t\t\tif result != validationThrottled {\n\t\t\t\tresult = ValidationIgnore\n\t\t\t}", New: "\t\t\tresult = ValidationIgnore", Expect: "R04.3"},
			{Name: "topic-reject-not-sticky", File: "validation.go", Old: "\t\t\tresult = ValidationReject\n\t\t\tbreak loop\n\t\tcase ValidationIgnore:\n\t\t\t// throttled", New: "\t\t\tresult = ValidationReject\n\t\t\tif rcount > 8 {\n\t\t\t\tbreak loop\n\t\t\t}\n\t\tcase ValidationIgnore:\n\t\t\t// throttled", Expect: "R04.3"},
			{Name: "reject-reason-swapped", File: "validation.go", Old: "\t\tv.p.logger.Debug(\"message validation punted; ignoring message from peer\", \"peer\", src)\n\t\tv.tracer.RejectMessage(msg, RejectValidationIgnored)", New: "\t\tv.p.logger.Debug(\"message validation punted; ignoring message from peer\", \"peer\", src)\n\t\tv.tracer.RejectMessage(msg, RejectValidationFailed)", Expect: "R04.4"},
			{Name: "score-penalise-ignored", File: "score.go", Old: "\tcase RejectValidationIgnored:\n\t\t// we were explicitly instructed by the validator to ignore the message but not penalize\n\t\t// the peer\n\t\tdrec.status = deliveryIgnored\n\t\tdrec.peers = nil\n\t\treturn", New: "\tcase RejectValidationIgnored:\n\t\t// we were explicitly instructed by the validator to ignore the message but not penalize\n\t\t// the peer\n\t\tdrec.status = deliveryIgnored", Expect: "R04.5"},
			{Name: "score-skip-forwarder-penalty", File: "score.go", Old: "\tps.markInvalidMessageDelivery(msg.ReceivedFrom, msg.GetTopic())\n\tfor p := range drec.peers {", New: "\tif len(drec.peers) == 0 {\n\t\tps.markInvalidMessageDelivery(msg.ReceivedFrom, msg.GetTopic())\n\t}\n\tfor p := range drec.peers {", Expect: "R04.5"},
			{Name: "local-async-allowed", File: "validation.go", Old: "\t\tif val.validateInline || synchronous {", New: "\t\tif val.validateInline || (synchronous && len(vals) == 1) {", Expect: "R04.6"},
			{Name: "getValidators-aliases-defaults", File: "validation.go", Old: "\tvar vals []*validatorImpl\n\tvals = append(vals, v.defaultVals...)\n", New: "\tvals := v.defaultVals\n", Expect: "R04.7"},
			{Name: "publish-swallows-error", File: "topic.go", Old: "\terr := t.p.val.ValidateLocal(msg)\n\tif err != nil {\n\t\treturn nil, err\n\t}\n\treturn msg, nil", New: "\terr := t.p.val.ValidateLocal(msg)\n\tif err != nil && !pub.local {\n\t\treturn nil, err\n\t}\n\treturn msg, nil", Expect: "R02.2"},
		}})
}

func rejectCallWith(p *Prog, f *Func, reason string) func(ast.Node) bool {
	return func(n ast.Node) bool {
		for _, cs := range p.CallsIn(f, n, false) {
			if strings.HasSuffix(cs.Name, ".RejectMessage") && len(cs.Call.Args) == 2 && p.R(f).Val(cs.Call.Args[1]).IsConst(reason) {
				return true
			}
		}
		return false
	}
}

func runC04(c *RuleCtx) {
	p := c.P
	// ---- R04.1
	var msgSet ValSet
	if f := c.MustFn("R04.1", "(*validatorImpl).validateMsg"); f != nil {
		ef := &EnumFlow{P: p, F: f, Universe: verdicts, TypeName: "ValidationResult"}
		ef.Run()
		msgSet = ef.ReturnSet(0)
		c.Check(msgSet.SubsetOf("ValidationAccept", "ValidationReject", "ValidationIgnore"), "R04.1", f.Name, "return set within {Accept,Reject,Ignore}", f.Decl, "return set "+msgSet.String(), "validateMsg may return "+msgSet.String()+" (an out-of-range verdict must become Ignore)")
	} else {
		return
	}
	// validateSingleTopic / validateTopic / summaries
	summ := func(callee string) ValSet {
		switch callee {
		case "(*validatorImpl).validateMsg":
			return msgSet
		}
		return nil
	}
	var singleSet, topicSet ValSet
	if f := c.MustFn("R04.3", "(*validation).validateSingleTopic"); f != nil {
		ef := &EnumFlow{P: p, F: f, Universe: verdicts, TypeName: "ValidationResult", Summary: summ}
		ef.Run()
		singleSet = ef.ReturnSet(0)
		c.Check(singleSet.SubsetOf(verdicts...), "R04.3", f.Name, "return set within the four verdicts", f.Decl, "return set "+singleSet.String(), "may return "+singleSet.String())
	}
	// ---- R04.3 validateTopic
	if f := c.MustFn("R04.3", "(*validation).validateTopic"); f != nil {
		summ2 := func(callee string) ValSet {
			if callee == "(*validation).validateSingleTopic" {
				return singleSet
			}
			return summ(callee)
		}
		ef := &EnumFlow{P: p, F: f, Universe: verdicts, TypeName: "ValidationResult", Summary: summ2}
		ef.Run()
		topicSet = ef.ReturnSet(0)
		c.Check(topicSet.SubsetOf(verdicts...), "R04.3", f.Name, "return set within the four verdicts", f.Decl, "return set "+topicSet.String(), "may return "+topicSet.String())
		rank := map[string]int{"ValidationAccept": 0, "ValidationIgnore": 1, "validationThrottled": 2, "ValidationReject": 3}
		n := 0
		inspectNoLit(f.Body, func(x ast.Node) bool {
			as, ok := x.(*ast.AssignStmt)
			if !ok || len(as.Lhs) != 1 || len(as.Rhs) != 1 || !ef.isEnumTyped(as.Lhs[0]) {
				return true
			}
			if _, isId := as.Lhs[0].(*ast.Ident); !isId {
				return true
			}
			rv := p.R(f).Val(as.Rhs[0])
			if rv.Kind != "const" {
				c.Bad("R04.3", f.Name, "verdict assigned from a non-constant", as, "the combined verdict is assigned "+rv.String()+"; the monotone-join argument needs constant assignments")
				return true
			}
			r, known := rank[rv.Name]
			if !known {
				c.Bad("R04.3", f.Name, "unknown verdict constant", as, rv.Name)
				return true
			}
			n++
			if as.Tok.String() == ":=" { // initialisation
				c.Check(rv.Name == "ValidationAccept", "R04.3", f.Name, "combination starts at Accept", as, "initialised to Accept", "the combined verdict does not start at Accept")
				return true
			}
			cur, _ := ef.At(as, as.Lhs[0])
			okMono := true
			for v := range cur {
				if rk, ok := rank[v]; !ok || rk > r {
					okMono = false
				}
			}
			c.Check(okMono, "R04.3", f.Name, "monotone: result="+rv.Name+" only over lower verdicts", as, "current set "+cur.String()+" <= "+rv.Name, "the assignment result="+rv.Name+" can overwrite a stronger verdict: current set "+cur.String())
			// the arm is the one of the received verdict
			recvIs := AtomCmp("received verdict == "+rv.Name, func(v *V) bool { return v.Kind == "unop" && v.Name == "<-" }, "==", isConstV(rv.Name))
			ok2, why := p.DomAny(f, as, AtomWant{recvIs, true})
			c.Check(ok2, "R04.3", f.Name, "result="+rv.Name+" only in the arm of that received verdict", as, why, why)
			return true
		})
		// a verdict may also be returned directly from the collecting loop (`return ValidationReject`)
		returnsIn(f, func(r *ast.ReturnStmt) {
			if len(r.Results) == 1 && len(p.EnclosingLoops(r)) > 0 {
				if v := p.R(f).Val(r.Results[0]); v.Kind == "const" {
					if _, known := rank[v.Name]; known {
						n++
					}
				}
			}
		})
		if n < 4 {
			c.Undecided("R04.3", f.Name, "verdict assignments", f.Decl, "expected the initialisation and three assignments of the combined verdict")
		}
		// every verdict is collected unless the outcome is already the strongest one: the collecting loop (the loop
		// that receives from the result channel) is left early only where the combined verdict is {Reject}
		var collect ast.Stmt
		inspectNoLit(f.Body, func(x ast.Node) bool {
			u, ok := x.(*ast.UnaryExpr)
			if !ok || u.Op.String() != "<-" {
				return true
			}
			if t := f.Info().TypeOf(u); t == nil || !strings.HasSuffix(t.String(), "ValidationResult") {
				return true
			}
			if ls := p.EnclosingLoops(u); len(ls) > 0 {
				collect = ls[0]
			}
			return true
		})
		if collect == nil {
			c.Undecided("R04.3", f.Name, "verdict collection loop", f.Decl, "no loop receiving validator verdicts")
		} else {
			var resObj ast.Expr
			inspectNoLit(f.Body, func(x ast.Node) bool {
				if as, ok := x.(*ast.AssignStmt); ok && as.Tok.String() == ":=" && len(as.Lhs) == 1 && len(as.Rhs) == 1 {
					if v := p.R(f).Val(as.Rhs[0]); v.IsConst("ValidationAccept") {
						resObj = as.Lhs[0]
					}
				}
				return true
			})
			exits := LoopEarlyExits(collect)
			nEx := 0
			for _, ex := range exits {
				nEx++
				okEx := false
				detail := "combined verdict unknown at the exit"
				if rs, isRet := ex.(*ast.ReturnStmt); isRet && len(rs.Results) == 1 {
					// leaving by returning a verdict: what matters is the verdict returned
					if cur, def := ef.At(rs, rs.Results[0]); def {
						okEx = cur.SubsetOf("ValidationReject")
						detail = "returned verdict " + cur.String()
					}
				} else if resObj != nil {
					cur, def := ef.At(ex, resObj)
					if !def {
						// a break/continue is not a CFG node: take the state after the statement in front of it
						if prev := prevStmt(p, ex); prev != nil {
							cur, def = ef.After(prev, resObj)
						}
					}
					if def {
						okEx = cur.SubsetOf("ValidationReject")
						detail = "combined verdict " + cur.String() + " at the exit"
					}
				}
				c.Check(okEx, "R04.3", f.Name, "collection stops early only on Reject", ex, detail, "the collecting loop is left before every validator's verdict was received although the outcome can still get stronger ("+detail+"): a later Reject is lost and nobody is penalised")
			}
			if nEx == 0 {
				c.Check(true, "R04.3", f.Name, "collection stops early only on Reject", collect, "the loop has no early exit", "")
			}
		}
	}
	// ---- R04.2 validate
	if f := c.MustFn("R04.2", fnValidate); f != nil {
		ef := &EnumFlow{P: p, F: f, Universe: verdicts, TypeName: "ValidationResult", Summary: summ}
		ef.Run()
		// the verdict variable: argument #3 of doValidateTopic
		var resultExpr ast.Expr
		var goSite ast.Node
		for _, cs := range p.Sites(f, true, "(*validation).doValidateTopic") {
			if len(cs.Call.Args) == 5 {
				resultExpr = cs.Call.Args[3]
				// climb to the statement in f that creates the closure
				var n ast.Node = cs.Call
				for p.EnclosingFunc(n) != f && p.EnclosingFunc(n) != nil {
					n = p.EnclosingFunc(n).Lit
				}
				goSite = n
			}
		}
		if resultExpr == nil {
			c.Undecided("R04.2", f.Name, "async hand-off", f.Decl, "doValidateTopic call with the inline verdict not found")
		} else {
			s, _ := ef.At(goSite, resultExpr)
			c.Check(s.SubsetOf("ValidationAccept", "ValidationIgnore"), "R04.2", f.Name, "verdict at async hand-off within {Accept,Ignore}", goSite, "set "+s.String(), "the asynchronous stage can be entered with inline verdict "+s.String())
			for _, cs := range p.Sites(f, false, "var:onValid") {
				s, _ := ef.At(cs.Call, resultExpr)
				c.Check(s.SubsetOf("ValidationAccept"), "R04.2", f.Name, "verdict at onValid is {Accept}", cs.Call, "set "+s.String(), "onValid (delivery/forwarding) is reachable with inline verdict "+s.String())
			}
			// no assignment to the verdict after the closure was created
			g := p.Graph(f)
			gp, _ := g.Locate(goSite)
			inspectNoLit(f.Body, func(x ast.Node) bool {
				as, ok := x.(*ast.AssignStmt)
				if !ok {
					return true
				}
				for _, l := range as.Lhs {
					if ef.keyOf(l) != "" && ef.keyOf(l) == ef.keyOf(resultExpr) {
						ap, _ := g.Locate(as)
						if g.ReachableFrom(gp, ap, nil, nil) {
							c.Bad("R04.2", f.Name, "verdict reassigned after hand-off", as, "the captured verdict is modified after the asynchronous stage was started")
						}
					}
				}
				return true
			})
			// only Reject / Ignore constants are assigned, each in the arm of that validator verdict
			inspectNoLit(f.Body, func(x ast.Node) bool {
				as, ok := x.(*ast.AssignStmt)
				if !ok || len(as.Lhs) != 1 || len(as.Rhs) != 1 || ef.keyOf(as.Lhs[0]) != ef.keyOf(resultExpr) || ef.keyOf(as.Lhs[0]) == "" {
					return true
				}
				rv := p.R(f).Val(as.Rhs[0])
				if as.Tok.String() == ":=" {
					c.Check(rv.IsConst("ValidationAccept"), "R04.2", f.Name, "inline verdict starts at Accept", as, "Accept", "starts at "+rv.String())
					return true
				}
				okc := rv.IsConst("ValidationReject", "ValidationIgnore")
				c.Check(okc, "R04.2", f.Name, "inline verdict only lowered to Reject/Ignore", as, "assigned "+rv.String(), "the inline verdict is assigned "+rv.String())
				if okc {
					armIs := AtomCmp("validateMsg(...) == "+rv.Name, isCallTo("(*validatorImpl).validateMsg"), "==", isConstV(rv.Name))
					ok2, why := p.DomAny(f, as, AtomWant{armIs, true})
					c.Check(ok2, "R04.2", f.Name, "result="+rv.Name+" in the arm of that verdict", as, why, why)
					if rv.Name == "ValidationIgnore" {
						cur, _ := ef.At(as, as.Lhs[0])
						c.Check(cur.SubsetOf("ValidationAccept", "ValidationIgnore"), "R04.2", f.Name, "Ignore never overwrites Reject", as, "current "+cur.String(), "Ignore can overwrite "+cur.String())
					}
				}
				return true
			})
			// Reject edge -> RejectValidationFailed + error return; Ignore edge (sync part) -> RejectValidationIgnored + error
			for _, tc := range []struct{ verdict, reason string }{{"ValidationReject", "RejectValidationFailed"}, {"ValidationIgnore", "RejectValidationIgnored"}} {
				a := AtomCmp("result == "+tc.verdict, func(v *V) bool { return v.Kind == "var" && ef.keyOf(v.Node.(ast.Expr)) == ef.keyOf(resultExpr) }, "==", isConstV(tc.verdict))
				edges := g.AtomEdges(a, true)
				if len(edges) == 0 {
					c.Bad("R04.2", f.Name, tc.verdict+" edge", f.Decl, "no branch on result == "+tc.verdict)
				}
				for _, e := range edges {
					ok, _ := g.MustPass(EdgeTarget(e), PassOpts{}, rejectCallWith(p, f, tc.reason))
					c.Check(ok, "R04.2", f.Name, tc.verdict+" edge reports "+tc.reason, e.From.Nodes[len(e.From.Nodes)-1], "always reported", "the "+tc.verdict+" edge can leave without RejectMessage("+tc.reason+")")
					ok2, _ := g.MustPass(EdgeTarget(e), PassOpts{}, func(n ast.Node) bool {
						r, ok := n.(*ast.ReturnStmt)
						return ok && len(r.Results) == 1 && p.R(f).Val(r.Results[0]).Kind == "comp"
					})
					c.Check(ok2, "R04.2", f.Name, tc.verdict+" edge returns an error", e.From.Nodes[len(e.From.Nodes)-1], "returns ValidationError", "the "+tc.verdict+" edge can return without an error value")
				}
			}
		}
		// R04.6 synchronous => inline
		syncA := AtomBool("synchronous", isParam(f, 3))
		n := 0
		inspectNoLit(f.Body, func(x ast.Node) bool {
			as, ok := x.(*ast.AssignStmt)
			if !ok || len(as.Lhs) != 1 || len(as.Rhs) != 1 {
				return true
			}
			id, ok := as.Lhs[0].(*ast.Ident)
			call, ok2 := as.Rhs[0].(*ast.CallExpr)
			if !ok || !ok2 || p.CalleeName(f.Info(), call) != "builtin.append" {
				return true
			}
			// the slice later handed to doValidateTopic is the async list
			isAsync := false
			for _, cs := range p.Sites(f, true, "(*validation).doValidateTopic") {
				if a0, ok := cs.Call.Args[0].(*ast.Ident); ok && f.Info().Uses[a0] == f.Info().Uses[id] {
					isAsync = true
				}
			}
			if !isAsync {
				return true
			}
			n++
			ok3, why := p.DomAny(f, as, AtomWant{syncA, false})
			c.Check(ok3, "R04.6", f.Name, "validators go to the async list only when not synchronous", as, why, why)
			return true
		})
		if n == 0 {
			// the partition may live in a private helper: inline, async := partition(vals, synchronous). Follow the
			// list handed to doValidateTopic to the helper result it is assigned from, and the synchronous flag to the
			// helper parameter it is passed as
			for _, cs := range p.Sites(f, true, "(*validation).doValidateTopic") {
				a0, ok := cs.Call.Args[0].(*ast.Ident)
				if !ok {
					continue
				}
				obj := f.Info().Uses[a0]
				for _, d := range p.R(f).Defs(obj) {
					call, ok := unparen(d.rhs).(*ast.CallExpr)
					if d.kind != "assign" || d.rhs == nil || !ok || d.idx < 0 {
						continue
					}
					h := p.Fn(p.CalleeName(f.Info(), call))
					if h == nil || h.Body == nil || h.Type.Results == nil {
						continue
					}
					// the helper parameter that receives `synchronous`
					syncIdx := -1
					for i, a := range call.Args {
						if isParam(f, 3)(p.R(f).Val(a)) {
							syncIdx = i
						}
					}
					// the result variable at position d.idx
					var resObj types.Object
					k := 0
					for _, fl := range h.Type.Results.List {
						for _, nm := range fl.Names {
							if k == d.idx {
								resObj = h.Info().Defs[nm]
							}
							k++
						}
					}
					if resObj == nil {
						returnsIn(h, func(r *ast.ReturnStmt) {
							if d.idx < len(r.Results) {
								if id, ok := unparen(r.Results[d.idx]).(*ast.Ident); ok {
									resObj = h.Info().Uses[id]
								}
							}
						})
					}
					if syncIdx < 0 || resObj == nil {
						continue
					}
					hs := AtomBool("synchronous", isParam(h, syncIdx))
					for _, ap := range p.localAppends(h) {
						if ap.Obj != resObj {
							continue
						}
						n++
						ok3, why := p.DomAny(h, ap.Stmt, AtomWant{hs, false})
						c.Check(ok3, "R04.6", f.Name, "validators go to the async list only when not synchronous", ap.Stmt, why, why)
					}
				}
			}
		}
		if n == 0 {
			c.Undecided("R04.6", f.Name, "async list", f.Decl, "append to the asynchronous validator list not found")
		}
	}
	if f := c.MustFn("R04.6", fnValidateLocal); f != nil {
		for _, cs := range p.Sites(f, false, fnValidate) {
			okc := len(cs.Call.Args) == 5 && p.R(f).Val(cs.Call.Args[3]).IsConst("true")
			c.Check(okc, "R04.6", f.Name, "local validation is synchronous", cs.Call, "synchronous=true", "ValidateLocal does not pass synchronous=true")
		}
	}
	// Topic.Publish returns the error unless it is a duplicate
	if f := c.MustFn("R04.6", "(*Topic).Publish"); f != nil {
		errNil := AtomCmp("validate err == nil", func(v *V) bool { return v.Kind == "tuple" && v.Name == "1" && v.Args[0].IsCall("(*Topic).validate") }, "==", isNilV)
		isDup := AtomBool("errors.Is(err, dupeErr{})", func(v *V) bool { return v.IsCall("errors.Is") })
		returnsIn(f, func(r *ast.ReturnStmt) {
			if len(r.Results) != 1 || !isNilV(p.R(f).Val(r.Results[0])) {
				return
			}
			ok, why := p.DomAny(f, r, AtomWant{errNil, true}, AtomWant{isDup, true})
			c.Check(ok, "R04.6", f.Name, "nil returned only on success or duplicate", r, why, why)
		})
	}
	// ---- R04.4 doValidateTopic
	if f := c.MustFn("R04.4", "(*validation).doValidateTopic"); f != nil {
		summ3 := func(callee string) ValSet {
			if callee == "(*validation).validateTopic" {
				return topicSet
			}
			return nil
		}
		g := p.Graph(f)
		var resExpr ast.Expr
		// the inline verdict is the 4th parameter, the delivery callback the 5th — whatever they are called
		inlineName, onValidName := "r", "onValid"
		if o := paramObj(f, 3); o != nil {
			inlineName = o.Name()
		}
		if o := paramObj(f, 4); o != nil {
			onValidName = o.Name()
		}
		// the combined verdict: the local that receives validateTopic's result
		inspectNoLit(f.Body, func(x ast.Node) bool {
			if as, ok := x.(*ast.AssignStmt); ok && len(as.Lhs) == 1 && len(as.Rhs) == 1 && resExpr == nil {
				if call, ok := unparen(as.Rhs[0]).(*ast.CallExpr); ok && p.CalleeName(f.Info(), call) == "(*validation).validateTopic" {
					resExpr = as.Lhs[0]
				}
			}
			return true
		})
		for _, in := range [][]string{{"ValidationAccept"}, {"ValidationIgnore"}, {"ValidationAccept", "ValidationIgnore"}} {
			ps := ValSet{}
			for _, x := range in {
				ps[x] = true
			}
			ef := &EnumFlow{P: p, F: f, Universe: verdicts, TypeName: "ValidationResult", Summary: summ3, Params: map[string]ValSet{inlineName: ps}}
			ef.Run()
			for _, cs := range p.Sites(f, false, "var:"+onValidName) {
				reach := ef.NodeReachable(cs.Call)
				if len(in) == 1 && in[0] == "ValidationIgnore" {
					c.Check(!reach, "R04.4", f.Name, "inline Ignore never upgraded by async Accept", cs.Call, "onValid is value-unreachable when the inline verdict is Ignore", "onValid is reachable although the inline stage returned Ignore")
				}
			}
			if len(in) == 2 {
				// the dispatch (switch or if-chain) covers every value the verdict can take: the "unexpected result" panic
				// is value-unreachable
				nPanic := 0
				for _, cs := range p.FuncCalls(f, false) {
					if cs.Name != "builtin.panic" {
						continue
					}
					nPanic++
					c.Check(!ef.NodeReachable(cs.Call), "R04.4", f.Name, "switched verdict within the four handled values", cs.Call, "the default arm is value-unreachable", "the verdict can take a value none of the arms handles: the default arm panics")
				}
				if nPanic == 0 {
					c.Check(true, "R04.4", f.Name, "switched verdict within the four handled values", f.Decl, "no panic in the dispatch", "")
				}
			}
		}
		for _, tc := range []struct{ verdict, reason string }{{"ValidationReject", "RejectValidationFailed"}, {"ValidationIgnore", "RejectValidationIgnored"}, {"validationThrottled", "RejectValidationThrottled"}} {
			if resExpr == nil {
				break
			}
			// comparisons of the combined-verdict variable itself (by object: its value is reassigned along the way)
			var resObj types.Object
			if id, ok := unparen(resExpr).(*ast.Ident); ok {
				resObj = f.Info().ObjectOf(id)
			}
			verdictConst := tc.verdict
			a := Atom{Desc: "result == " + tc.verdict, Match: func(g *Graph, e ast.Expr) (bool, bool) {
				be, ok := unparen(e).(*ast.BinaryExpr)
				if !ok || (be.Op.String() != "==" && be.Op.String() != "!=") {
					return false, false
				}
				isRes := func(x ast.Expr) bool {
					id, ok := unparen(x).(*ast.Ident)
					if !ok || resObj == nil {
						return false
					}
					o := g.F.Info().ObjectOf(id)
					// the variable itself or a plain copy of it (the parameter binding of an inlined helper)
					return o == resObj || g.P.R(g.F).CopyRoot(o) == resObj
				}
				isC := func(x ast.Expr) bool { return g.P.R(g.F).Val(x).IsConst(verdictConst) }
				if (isRes(be.X) && isC(be.Y)) || (isRes(be.Y) && isC(be.X)) {
					return true, be.Op.String() == "=="
				}
				return false, false
			}}
			edges := g.AtomEdges(a, true)
			if len(edges) == 0 {
				c.Bad("R04.4", f.Name, tc.verdict+" arm", f.Decl, "no arm for "+tc.verdict)
			}
			for _, e := range edges {
				ok, _ := g.MustPass(EdgeTarget(e), PassOpts{}, rejectCallWith(p, f, tc.reason))
				c.Check(ok, "R04.4", f.Name, tc.verdict+" arm reports "+tc.reason, e.From.Nodes[len(e.From.Nodes)-1], "always", "the arm does not always report "+tc.reason)
				// and no other reason
				for _, other := range []string{"RejectValidationFailed", "RejectValidationIgnored", "RejectValidationThrottled"} {
					if other == tc.reason {
						continue
					}
					pt := EdgeTarget(e)
					bad := false
					for _, b := range g.C.Blocks {
						for i, n := range b.Nodes {
							if rejectCallWith(p, f, other)(n) && g.ReachableFrom(pt, Point{b, i}, nil, nil) {
								// reachable through this arm only if not via another arm's edge: arms do not flow into each other except by fallthrough
								if b.Stmt != nil && e.From.Succs[e.Succ].Stmt == b.Stmt {
									bad = true
								}
							}
						}
					}
					if bad {
						c.Bad("R04.4", f.Name, tc.verdict+" arm reports "+other, e.From.Nodes[len(e.From.Nodes)-1], "the "+tc.verdict+" arm reports the wrong reason "+other)
					}
				}
			}
		}
		// only an Accept result is replaced, and only by a non-Accept inline verdict
		inspectNoLit(f.Body, func(x ast.Node) bool {
			as, ok := x.(*ast.AssignStmt)
			if !ok || as.Tok.String() != "=" || len(as.Lhs) != 1 || len(as.Rhs) != 1 {
				return true
			}
			if resExpr == nil || !p.R(f).Val(as.Lhs[0]).Equal(&V{Kind: "var", Name: "result"}) && p.R(f).Val(as.Rhs[0]).Kind != "var" {
				return true
			}
			return true
		})
	}
	// ---- R04.5 penalty mapping
	if f := c.MustFn("R04.5", "(*peerScore).RejectMessage"); f != nil {
		reasons := []string{"RejectBlacklstedPeer", "RejectBlacklistedSource", "RejectMissingSignature", "RejectUnexpectedSignature", "RejectUnexpectedAuthInfo", "RejectInvalidSignature", "RejectValidationQueueFull", "RejectValidationThrottled", "RejectValidationFailed", "RejectValidationIgnored", "RejectSelfOrigin"}
		noPenalty := []string{"RejectValidationThrottled", "RejectValidationIgnored", "RejectValidationQueueFull", "RejectBlacklstedPeer", "RejectBlacklistedSource"}
		ef := &EnumFlow{P: p, F: f, Universe: reasons, TypeName: "string"}
		ef.Run()
		var reasonExpr ast.Expr
		inspectNoLit(f.Body, func(x ast.Node) bool {
			if sw, ok := x.(*ast.SwitchStmt); ok && sw.Tag != nil && reasonExpr == nil {
				if id, ok := sw.Tag.(*ast.Ident); ok && f.Info().Uses[id] != nil && f.Info().Uses[id] == paramObj(f, 1) {
					reasonExpr = sw.Tag
				}
			}
			return true
		})
		if reasonExpr == nil {
			c.Undecided("R04.5", f.Name, "switch on reason", f.Decl, "no switch on the reason parameter")
		} else {
			sites := p.Sites(f, false, "(*peerScore).markInvalidMessageDelivery")
			if len(sites) < 2 {
				c.Undecided("R04.5", f.Name, "penalty sites", f.Decl, "expected penalty calls in RejectMessage")
			}
			for _, cs := range sites {
				s, _ := ef.At(cs.Call, reasonExpr)
				bad := ""
				for _, np := range noPenalty {
					if s[np] {
						bad += np + " "
					}
				}
				c.Check(bad == "", "R04.5", f.Name, "no penalty for ignore/throttle/queue-full/blacklist reasons", cs.Call, "reason set at the penalty excludes the no-penalty reasons", "markInvalidMessageDelivery is reachable with reason "+bad)
			}
			// RejectValidationFailed: forwarder penalised on every path with status unknown; every recorded duplicate too
			ef2 := &EnumFlow{P: p, F: f, Universe: reasons, TypeName: "string", Params: map[string]ValSet{"reason": {"RejectValidationFailed": true}}}
			ef2.Run()
			g := p.Graph(f)
			cut := ef2.InfeasibleEdges()
			notUnknown := AtomCmp("drec.status != deliveryUnknown", isFieldOf("deliveryRecord.status"), "!=", isConstV("deliveryUnknown"))
			for _, e := range g.AtomEdges(notUnknown, true) {
				cut[e] = true
			}
			ok, _ := g.MustPass(g.Entry(), PassOpts{Cut: cut}, func(n ast.Node) bool {
				for _, cs := range p.CallsIn(f, n, false) {
					if cs.Name == "(*peerScore).markInvalidMessageDelivery" && p.R(f).Val(cs.Call.Args[0]).IsField("Message.ReceivedFrom") {
						return true
					}
				}
				return false
			})
			c.Check(ok, "R04.5", f.Name, "RejectValidationFailed always penalises the forwarder", f.Decl, "on every path feasible for reason=RejectValidationFailed with an untraced record", "a RejectValidationFailed path with an untraced record skips the forwarder's penalty")
			rs := p.RangesOver(f, isFieldOf("deliveryRecord.peers"))
			if len(rs) == 0 {
				c.Bad("R04.5", f.Name, "duplicate senders penalised", f.Decl, "no loop over the recorded duplicate senders")
			}
			for _, r := range rs {
				ok, why := p.LoopBodyMust(f, r, nil, p.callPred(f, "(*peerScore).markInvalidMessageDelivery"))
				c.Check(ok, "R04.5", f.Name, "every recorded duplicate sender penalised", r, why, why)
				rp, _ := g.Locate(r.X)
				ok2, _ := g.MustPass(g.Entry(), PassOpts{Cut: cut}, func(n ast.Node) bool { return n == ast.Node(r.X) })
				_ = rp
				c.Check(ok2, "R04.5", f.Name, "duplicate-sender loop on every RejectValidationFailed path", r, "always reached", "the loop is skipped on a RejectValidationFailed path")
			}
		}
	}
	// ---- R04.7 validator lists handed to the pipeline are never extended in place
	nAlias := 0
	for _, a := range p.AliasingAppends() {
		if strings.HasPrefix(a.Field, "validation.") || strings.HasPrefix(a.Field, "validateReq.") {
			nAlias++
			c.Bad("R04.7", a.Fn.Root().Name, "append aliases "+a.Field, a.Call, "append() extends (an alias of) the shared validator list "+a.Field+" without storing the result back: with spare capacity a later call overwrites the validators of a queued message")
		}
	}
	if nAlias == 0 {
		c.OK("R04.7", "validation", "no aliasing append on validator lists", nil, "no append() in the module extends a validator list field through an alias")
	}
	c.Min["R04.1"] = 1
	c.Min["R04.2"] = 10
	c.Min["R04.3"] = 8
	c.Min["R04.4"] = 5
	c.Min["R04.5"] = 5
	c.Min["R04.6"] = 3
	// C04's last sentence also rests on the local-publish chain of C02 (R02.2); evaluate it here too
	runLocalPublishChain(c)
	// "dropped without penalising anyone" has a second penaliser besides the scorer: the IWANT promise tracker, whose
	// RejectMessage decides per reason whether a promised message counts as arrived (C17 PROM rows on the reasons)
	{
		sub := &RuleCtx{P: c.P, Prop: c.Prop, Min: map[string]int{}}
		runC17(sub)
		n := 0
		for _, o := range sub.Obs {
			if o.Rule == "PROM" && strings.Contains(o.Key, "(*gossipTracer).RejectMessage") {
				c.Obs = append(c.Obs, o)
				n++
			}
		}
		if n == 0 {
			c.Undecided("PROM", "(*gossipTracer).RejectMessage", "promise accounting per reject reason", nil, "no PROM obligation on gossipTracer.RejectMessage found")
		}
	}
}

// runLocalPublishChain re-evaluates the R02.2 obligations that C04's "never leaves the node" clause depends on.
func runLocalPublishChain(c *RuleCtx) {
	sub := &RuleCtx{P: c.P, Prop: c.Prop, Min: map[string]int{}}
	runC02(sub)
	for _, o := range sub.Obs {
		if o.Rule == "R02.2" {
			c.Obs = append(c.Obs, o)
		}
	}
}
