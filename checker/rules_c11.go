package main

import (
	"fmt"
	"go/ast"
	"go/types"
	"os"
	"reflect"
	"strings"
)

func init() {
	register(&Property{ID: "C11", Run: runC11,
		Explain: "RPC splitting decided as exhaustiveness, grow-then-check discipline and gating: (R11.1) on the slow path of RPC.split every wire field of pb.RPC and pb.ControlMessage (enumerated from the struct tags on every run) is both read from the receiver and stored into the fragment being built; sub-messages rebuilt for a new fragment keep their non-split fields (every ControlIHave literal carries the TopicID of the IHAVE being split); copyRPC copies the whole struct and the control message; (R11.2) in the gossipsub router queue pushes happen only in doSendRPC, which is called only by sendRPC; (R11.3) sendRPC sends an RPC unsplit only behind `Size() < maxMessageSize` evaluated after all piggybacking, sends a fragment only behind the false edge of `Size() > maxMessageSize`, drops (and reports) on the true edge, and splits with the same limit; (R11.4) doDropRPC traces DROP_RPC and re-queues the control part; (R11.5) grow-then-check: every statement that adds content to the fragment (append / set) is followed on every path by a `Size() > limit` test before the next growth or yield, the overflow branch removes exactly what was added, yields, and restarts the fragment with that element; every yield result is honoured; a non-empty remainder is yielded at the end; (R11.6) no empty RPC is produced: every direct call of the iterator's consumer is evaluated only when the fragment's Size() is not zero; (R11.3, extended) inside the split loop sendRPC drops exactly the oversized fragment (never the RPC being split, whose control part the lazy iterator is still reading) and the loop over the fragments has no early exit. (audit round) R11.6 judges emptiness by content: the guard is a predicate reading messages, subscriptions and all five control lists; (R11.7) the hello packet is split or size-tested before it is written (known finding F37). (R11.8) pushControl stores only where nothing is pending or merges with the pending GRAFT/PRUNE. NOT decided: that fragments fit the limit and carry each element exactly once and in order as an arithmetic fact per input (Size() arithmetic and slice bookkeeping).",
		Assume:  []string{"gogo-generated Size() is exact", "struct tags `protobuf:` mark exactly the wire fields"},
		Mutants: []Mutant{
			{Name: "skip-wrapper-answers-false", File: "pubsub.go", Old: "\t\tyield := func(r RPC) bool { return !r.hasContent() || yieldRPC(r) }", New: "\t\tyield := func(r RPC) bool { return r.hasContent() && yieldRPC(r) }", Expect: "R11.6"},
			{Name: "pushcontrol-overwrites", File: "gossipsub.go", Old: "\t\tif pending, ok := gs.control[p]; ok && pending != ctl {\n\t\t\tctl.Graft = append(pending.Graft, ctl.Graft...)\n\t\t\tctl.Prune = append(pending.Prune, ctl.Prune...)\n\t\t}\n", New: "", Expect: "R11.8"},
			{Name: "pushcontrol-merges-grafts-only", File: "gossipsub.go", Old: "\t\t\tctl.Prune = append(pending.Prune, ctl.Prune...)\n", New: "", Expect: "R11.8"},
			{Name: "split-drops-idontwant", File: "pubsub.go", Old: "\t\t\tfor _, idontwant := range ctl.GetIdontwant() {", New: "\t\t\tfor _, idontwant := range []*pb.ControlIDontWant(nil) {", Expect: "R11.1"},
			{Name: "split-drops-partial", File: "pubsub.go", Old: "\t\tif rpc.Partial != nil {\n\t\t\tif nextRPC.Partial = rpc.Partial; nextRPC.Size() > limit {", New: "\t\tif rpc.Partial != nil && nextRPC.Control == nil {\n\t\t\tif nextRPC.Partial = rpc.Partial; nextRPC.Size() > limit {", Expect: "R11.1"},
			{Name: "split-ihave-loses-topic", File: "pubsub.go", Old: "\t\t\t\t\t\t\tIhave: []*pb.ControlIHave{{TopicID: ihave.TopicID, MessageIDs: []string{msgID}}},", New: "\t\t\t\t\t\t\tIhave: []*pb.ControlIHave{{MessageIDs: []string{msgID}}},", Expect: "R11.1"},
			{Name: "copyrpc-shares-control", File: "comm.go", Old: "\tif rpc.Control != nil {\n\t\tres.Control = new(pb.ControlMessage)\n\t\t*res.Control = *rpc.Control\n\t}", New: "", Expect: "R11.1"},
			{Name: "heartbeat-pushes-directly", File: "gossipsub.go", Old: "\tfor p, ihave := range gs.gossip {\n\t\tdelete(gs.gossip, p)\n\t\tout := rpcWithControl(nil, ihave, nil, nil, nil, nil)\n\t\tgs.sendRPC(p, out, false)", New: "\tfor p, ihave := range gs.gossip {\n\t\tdelete(gs.gossip, p)\n\t\tout := rpcWithControl(nil, ihave, nil, nil, nil, nil)\n\t\tif q, ok := gs.p.peers[p]; ok {\n\t\t\tgs.doSendRPC(out, p, q, false)\n\t\t}", Expect: "R11.2"},
			{Name: "sendrpc-size-before-piggyback", File: "gossipsub.go", Old: "\t// do we own the RPC?\n\town := false\n", New: "\t// do we own the RPC?\n\town := out.Size() > gs.p.maxMessageSize\n", Expect: "R11.3-pre"},
			{Name: "sendrpc-le-limit", File: "gossipsub.go", Old: "\tif out.Size() < gs.p.maxMessageSize {\n\t\tgs.doSendRPC(out, p, q, urgent)", New: "\tif out.Size() <= gs.p.maxMessageSize+1 {\n\t\tgs.doSendRPC(out, p, q, urgent)", Expect: "R11.3"},
			{Name: "sendrpc-oversized-fragment-sent", File: "gossipsub.go", Old: "\t\t\tgs.doDropRPC(&rpc, p, fmt.Sprintf(\"Dropping oversized RPC. Size: %d, limit: %d. (Over by %d bytes)\", rpc.Size(), gs.p.maxMessageSize, rpc.Size()-gs.p.maxMessageSize))\n\t\t\tcontinue\n", New: "\t\t\tgs.doDropRPC(&rpc, p, fmt.Sprintf(\"Dropping oversized RPC. Size: %d, limit: %d. (Over by %d bytes)\", rpc.Size(), gs.p.maxMessageSize, rpc.Size()-gs.p.maxMessageSize))\n", Expect: "R11.3"},
			{Name: "split-other-limit", File: "gossipsub.go", Old: "\tfor rpc := range out.split(gs.p.maxMessageSize) {", New: "\tfor rpc := range out.split(gs.p.maxMessageSize * 2) {", Expect: "R11.3"},
			{Name: "dropRPC-no-retry", File: "gossipsub.go", Old: "\tctl := rpc.GetControl()\n\tif ctl != nil {\n\t\tgs.pushControl(p, ctl)\n\t}\n}", New: "}", Expect: "R11.4"},
			{Name: "split-yields-empty", File: "pubsub.go", Old: "\t\tyield := func(r RPC) bool { return !r.hasContent() || yieldRPC(r) }", New: "\t\tyield := func(r RPC) bool { return yieldRPC(r) }", Expect: "R11.6"},
			{Name: "split-empty-judged-by-size", File: "pubsub.go", Old: "\t\tyield := func(r RPC) bool { return !r.hasContent() || yieldRPC(r) }", New: "\t\tyield := func(r RPC) bool { return r.Size() == 0 || yieldRPC(r) }", Expect: "R11.6"},
			{Name: "content-test-forgets-idontwant", File: "pubsub.go", Old: "\tfor _, idontwant := range ctl.Idontwant {\n\t\tif len(idontwant.MessageIDs) > 0 {\n\t\t\treturn true\n\t\t}\n\t}\n\treturn false\n", New: "\treturn false\n", Expect: "R11.6"},
			{Name: "drop-whole-rpc", File: "gossipsub.go", Old: "\t\t\tgs.doDropRPC(&rpc, p, fmt.Sprintf(\"Dropping oversized", New: "\t\t\tgs.doDropRPC(out, p, fmt.Sprintf(\"Dropping oversized", Expect: "R11.3"},
			{Name: "drop-ends-iteration", File: "gossipsub.go", Old: "rpc.Size()-gs.p.maxMessageSize))\n\t\t\tcontinue\n", New: "rpc.Size()-gs.p.maxMessageSize))\n\t\t\treturn\n", Expect: "R11.3"},
			{Name: "split-control-header-unchecked", File: "pubsub.go", Old: "\t\t\t\tnextRPC.Control = &pb.ControlMessage{}\n\t\t\t\tif nextRPC.Size() > limit {\n\t\t\t\t\tnextRPC.Control = nil\n\t\t\t\t\tif !yield(nextRPC) {\n\t\t\t\t\t\treturn\n\t\t\t\t\t}\n\t\t\t\t\tnextRPC = RPC{RPC: pb.RPC{Control: &pb.ControlMessage{}}, from: rpc.from}\n\t\t\t\t}\n", New: "\t\t\t\tnextRPC.Control = &pb.ControlMessage{}\n", Expect: "R11.5"},
			{Name: "split-graft-overflow-keeps-element", File: "pubsub.go", Old: "\t\t\t\t\tnextRPC.Control.Graft = nextRPC.Control.Graft[:len(nextRPC.Control.Graft)-1]\n", New: "", Expect: "R11.5"},
			{Name: "split-prune-restart-loses-element", File: "pubsub.go", Old: "\t\t\t\t\tnextRPC = RPC{RPC: pb.RPC{Control: &pb.ControlMessage{}}, from: rpc.from}\n\t\t\t\t\tnextRPC.Control.Prune = append(nextRPC.Control.Prune, prune)\n", New: "\t\t\t\t\tnextRPC = RPC{RPC: pb.RPC{Control: &pb.ControlMessage{}}, from: rpc.from}\n", Expect: "R11.5"},
			{Name: "split-final-remainder-dropped", File: "pubsub.go", Old: "\t\tif nextRPC.Size() > 0 {\n\t\t\tif !yield(nextRPC) {\n\t\t\t\treturn\n\t\t\t}\n\t\t}\n\t}\n}", New: "\t}\n}", Expect: "R11.5"},
		}})
}

// wireFields lists the fields of a pb struct that carry a `protobuf:` tag.
func wireFields(p *Prog, typeName string) []string {
	var out []string
	for _, pk := range p.Pkgs {
		if !strings.HasSuffix(pk.PkgPath, "/pb") {
			continue
		}
		o := pk.Types.Scope().Lookup(typeName)
		if o == nil {
			continue
		}
		st, ok := o.Type().Underlying().(*types.Struct)
		if !ok {
			continue
		}
		for i := 0; i < st.NumFields(); i++ {
			if _, ok := reflect.StructTag(st.Tag(i)).Lookup("protobuf"); ok {
				out = append(out, st.Field(i).Name())
			}
		}
	}
	return out
}

func runC11(c *RuleCtx) {
	p := c.P
	split := c.MustFn("R11.1", "(*RPC).split")
	if split != nil && len(split.Children) == 1 {
		lit := split.Children[0]
		g := p.Graph(lit)
		// the fragment variable: the argument of yield
		var frag types.Object
		yields := p.YieldSites(lit)
		for _, y := range yields {
			if id, ok := unparen(y.Call.Args[0]).(*ast.Ident); ok {
				frag = lit.Info().Uses[id]
			}
		}
		if frag == nil || len(yields) < 10 {
			c.Undecided("R11.1", split.Name, "fragment variable", split.Decl, "could not identify the fragment handed to yield")
			return
		}
		onFrag := func(e ast.Expr) bool {
			for {
				switch x := unparen(e).(type) {
				case *ast.SelectorExpr:
					e = x.X
				case *ast.IndexExpr:
					e = x.X
				case *ast.Ident:
					// the fragment, or a local alias of one of its sub-messages (lastIHave)
					if lit.Info().Uses[x] == frag {
						return true
					}
					if d, ok := p.R(lit).SingleDef(lit.Info().Uses[x]); ok && d.rhs != nil && d.kind == "assign" {
						e = d.rhs
						continue
					}
					return false
				default:
					return false
				}
			}
		}
		// the fast-path return: everything after it is the slow path
		rpcFields, ctlFields := wireFields(p, "RPC"), wireFields(p, "ControlMessage")
		if len(rpcFields) < 5 || len(ctlFields) < 6 {
			c.Undecided("R11.1", "pb", "wire fields", nil, "could not enumerate the wire fields of pb.RPC / pb.ControlMessage")
		}
		type fieldUse struct{ read, stored bool }
		uses := map[string]*fieldUse{}
		for _, f := range rpcFields {
			uses["pb.RPC."+f] = &fieldUse{}
		}
		for _, f := range ctlFields {
			uses["pb.ControlMessage."+f] = &fieldUse{}
		}
		// slow path region: nodes not dominated... simply: positions after the fast-path `return` statement
		var fastRet *ast.ReturnStmt
		inspectNoLit(lit.Body, func(n ast.Node) bool {
			if r, ok := n.(*ast.ReturnStmt); ok && fastRet == nil {
				// the first return that is not inside an `if !yield(...)`
				par := p.parents[p.parents[r]]
				if is, ok := par.(*ast.IfStmt); ok {
					if cv := p.R(lit).Val(is.Cond); cv.Has(isYieldCall(yields)) {
						return true
					}
				}
				fastRet = r
			}
			return true
		})
		if fastRet == nil {
			c.Undecided("R11.1", split.Name, "fast path", split.Decl, "fast-path return not found")
			return
		}
		slow := func(n ast.Node) bool { return n.Pos() > fastRet.End() }
		// Publish is handled before the fast path
		prePublish := func(n ast.Node) bool { return n.Pos() < fastRet.Pos() }
		inspectNoLit(lit.Body, func(n ast.Node) bool {
			switch x := n.(type) {
			case *ast.SelectorExpr:
				s, ok := lit.Info().Selections[x]
				if !ok || s.Kind() != types.FieldVal {
					// getter call ctl.GetX()
					return true
				}
				fn := fieldOwnerName(s)
				u := uses[fn]
				if u == nil {
					return true
				}
				region := slow(x) || (fn == "pb.RPC.Publish" && prePublish(x))
				if !region {
					return true
				}
				if onFrag(x.X) {
					if p.isWriteAccess(x) {
						u.stored = true
					}
				} else {
					u.read = true
				}
			case *ast.CallExpr:
				nm := p.CalleeName(lit.Info(), x)
				for _, f := range ctlFields {
					if nm == "pb.(*ControlMessage).Get"+f && slow(x) {
						uses["pb.ControlMessage."+f].read = true
					}
				}
			case *ast.KeyValueExpr:
				// fields set in fragment-restart literals count as stores
				if id, ok := x.Key.(*ast.Ident); ok && slow(x) {
					if cl, ok := p.parents[x].(*ast.CompositeLit); ok {
						tn := typeString(lit.Info().TypeOf(cl), modPath)
						if u := uses[tn+"."+id.Name]; u != nil {
							u.stored = true
						}
					}
				}
			}
			return true
		})
		for _, f := range append(prefixAll("pb.RPC.", rpcFields), prefixAll("pb.ControlMessage.", ctlFields)...) {
			u := uses[f]
			c.Check(u.read && u.stored, "R11.1", split.Name, "wire field "+f+" carried into the fragments", split.Decl, "read from the receiver and stored into the fragment", "the slow path of split never "+map[bool]string{true: "stores", false: "reads"}[u.read]+" "+f+": that part of an oversized RPC is silently dropped")
		}
		// every part is processed on every path of the slow path (returns caused by the consumer stopping are fine)
		{
			yieldStop := func(b *cfgBlock) bool {
				if len(b.Nodes) == 0 {
					return false
				}
				r, ok := b.Nodes[len(b.Nodes)-1].(*ast.ReturnStmt)
				if !ok {
					return false
				}
				for x := p.parents[r]; x != nil; x = p.parents[x] {
					if is, ok := x.(*ast.IfStmt); ok {
						if p.R(lit).Val(is.Cond).Has(isYieldCall(yields)) {
							return true
						}
					}
					if _, ok := x.(*ast.FuncLit); ok {
						break
					}
				}
				return false
			}
			// start of the slow path: the statement after the fast-path if
			var slowStart ast.Node
			for x := p.parents[fastRet]; x != nil; x = p.parents[x] {
				if bl, ok := p.parents[x].(*ast.BlockStmt); ok && bl == lit.Body {
					for i, st := range bl.List {
						if st == x && i+1 < len(bl.List) {
							slowStart = bl.List[i+1]
						}
					}
					break
				}
			}
			sp, okS := g.Locate(slowStart)
			ctlNil := AtomNil("rpc.Control == nil", isFieldOf("pb.RPC.Control"))
			if !okS {
				c.Undecided("R11.1", split.Name, "slow path start", split.Decl, "not located")
			} else {
				check := func(field string, cut cutSet, pred func(ast.Node) bool) {
					ok, _ := g.MustPass(sp, PassOpts{Cut: cut, ExitOK: yieldStop}, pred)
					c.Check(ok, "R11.1", split.Name, field+" processed on every slow-path run", split.Decl, "reached on every path (except when the consumer stops)", "a path through the slow path of split skips "+field+": that part of an oversized RPC can be dropped")
				}
				rangeOver := func(match VPred) func(ast.Node) bool {
					return func(n ast.Node) bool {
						e, ok := n.(ast.Expr)
						if !ok {
							return false
						}
						if _, isRange := p.parents[n].(*ast.RangeStmt); !isRange {
							return false
						}
						return match(p.R(lit).Val(e))
					}
				}
				check("pb.RPC.Subscriptions", nil, rangeOver(func(v *V) bool { return v.IsField("pb.RPC.Subscriptions") }))
				for _, f := range []string{"Graft", "Prune", "Iwant", "Ihave", "Idontwant"} {
					ff := f
					check("pb.ControlMessage."+ff, edgeCut(g.AtomEdges(ctlNil, true)), rangeOver(func(v *V) bool {
						return v.IsCall("pb.(*ControlMessage).Get"+ff) || v.IsField("pb.ControlMessage."+ff)
					}))
				}
				storeOf := func(field string) func(ast.Node) bool {
					return func(n ast.Node) bool {
						for _, s := range p.AllStores() {
							if s.Fn == lit && s.Field == field && s.Node == n && onFrag(s.LHS) && !isNilV(p.R(lit).Val(s.RHS)) {
								return true
							}
						}
						return false
					}
				}
				extNil := AtomNil("extensions == nil", func(v *V) bool {
					return v.IsCall("pb.(*ControlMessage).GetExtensions") || v.IsField("pb.ControlMessage.Extensions")
				})
				check("pb.ControlMessage.Extensions", g.CutAny(AtomWant{ctlNil, true}, AtomWant{extNil, true}), storeOf("pb.ControlMessage.Extensions"))
				for _, f := range []string{"Partial", "TestExtension"} {
					isN := AtomNil("rpc."+f+" == nil", func(v *V) bool { return v.IsField("pb.RPC."+f) && !onFrag(v.Node.(ast.Expr)) })
					check("pb.RPC."+f, edgeCut(g.AtomEdges(isN, true)), storeOf("pb.RPC."+f))
				}
			}
		}
		// rebuilt IHAVEs keep their topic
		nI := 0
		inspectNoLit(lit.Body, func(n ast.Node) bool {
			cl, ok := n.(*ast.CompositeLit)
			if !ok {
				return true
			}
			t := lit.Info().TypeOf(cl)
			if t == nil || strings.TrimPrefix(typeString(t, modPath), "*") != "pb.ControlIHave" {
				return true
			}
			nI++
			has := false
			for _, el := range cl.Elts {
				if kv, ok := el.(*ast.KeyValueExpr); ok {
					if id, ok := kv.Key.(*ast.Ident); ok && id.Name == "TopicID" {
						v := p.R(lit).Val(kv.Value)
						has = v.IsField("pb.ControlIHave.TopicID") && v.Args[0].Kind == "rangeval"
					}
				}
			}
			c.Check(has, "R11.1", split.Name, "rebuilt IHAVE keeps the topic of the IHAVE being split", cl, "TopicID: ihave.TopicID", "an IHAVE rebuilt for a new fragment loses its topic: the ids after the split point are detached from their topic")
			return true
		})
		if nI < 2 {
			c.Undecided("R11.1", split.Name, "IHAVE literals", split.Decl, "fewer ControlIHave literals than known")
		}
		// ---------- R11.5 grow-then-check
		isSizeTest := func(n ast.Node) bool {
			e, ok := n.(ast.Expr)
			if !ok {
				return false
			}
			v := p.R(lit).Val(e)
			return v.Has(func(x *V) bool {
				if x.Kind != "op" || (x.Name != ">" && x.Name != "<" && x.Name != ">=" && x.Name != "<=") {
					return false
				}
				sz := func(y *V) bool { return y.IsCall("pb.(*RPC).Size") || y.IsCall("(*RPC).Size") }
				lim := isParam(lit, 0)
				return (sz(x.Args[0]) && lim(x.Args[1])) || (sz(x.Args[1]) && lim(x.Args[0]))
			})
		}
		type growth struct {
			node ast.Node
			what string
		}
		var grows []growth
		for _, s := range p.AllStores() {
			if s.Fn != lit || !slow(s.Node) {
				continue
			}
			if !onFrag(s.LHS) {
				continue
			}
			rv := p.R(lit).Val(s.RHS)
			if isNilV(rv) || rv.Kind == "slice" {
				continue // removal
			}
			grows = append(grows, growth{s.Node, s.Field})
		}
		if len(grows) < 12 {
			c.Undecided("R11.5", split.Name, "growth sites", split.Decl, "fewer growth statements than known ("+itoa(len(grows))+")")
		}
		isGrowOrYield := func(except ast.Node) func(ast.Node) bool {
			return func(n ast.Node) bool {
				if n == except {
					return false
				}
				for _, gx := range grows {
					if gx.node == n {
						return true
					}
				}
				for _, y := range yields {
					if contains(n, y.Call) {
						return true
					}
				}
				return false
			}
		}
		for _, gx := range grows {
			gp, ok := g.Locate(gx.node)
			if !ok {
				continue
			}
			// restart statements (inside an overflow branch, after a yield) re-add the one element; they are followed by the loop continuing
			if g.DominatedByNode(gp, func(n ast.Node) bool {
				for _, y := range yields {
					if contains(n, y.Call) && sameIfBody(p, y.Call, gx.node) {
						return true
					}
				}
				return false
			}) {
				continue
			}
			// before a size test, neither another growth nor a yield nor the function end may be reached
			bad := false
			seen := map[*cfgBlock]bool{}
			var walk func(b *cfgBlock, start int)
			walk = func(b *cfgBlock, start int) {
				for i := start; i < len(b.Nodes); i++ {
					if isSizeTest(b.Nodes[i]) {
						return
					}
					if isGrowOrYield(gx.node)(b.Nodes[i]) {
						bad = true
						return
					}
				}
				if len(b.Succs) == 0 {
					bad = true
					return
				}
				for _, s := range b.Succs {
					if !seen[s] {
						seen[s] = true
						walk(s, 0)
					}
				}
			}
			walk(gp.B, gp.I+1)
			c.Check(!bad, "R11.5", split.Name, "growth of "+gx.what+" followed by a size test", gx.node, "every path tests Size() against the limit before the next growth or yield", "content is added to the fragment ("+gx.what+") and the next growth/yield/end can be reached without testing the size: a fragment can exceed the limit")
		}
		// overflow branches: remove what was added, yield, restart with the element
		nOv := 0
		inspectNoLit(lit.Body, func(n ast.Node) bool {
			is, ok := n.(*ast.IfStmt)
			if !ok || !slow(is) || is.Init == nil || !isSizeTest(is.Cond) {
				return true
			}
			as, ok := is.Init.(*ast.AssignStmt)
			if !ok || len(as.Lhs) != 1 {
				return true
			}
			nOv++
			lhs := p.R(lit).Val(as.Lhs[0]).String()
			removed, yielded, restarted := false, false, false
			for _, st := range is.Body.List {
				if a2, ok := st.(*ast.AssignStmt); ok && len(a2.Lhs) == 1 {
					if p.R(lit).Val(a2.Lhs[0]).String() == lhs || sameSelector(a2.Lhs[0], as.Lhs[0]) {
						rv := p.R(lit).Val(a2.Rhs[0])
						if isNilV(rv) || rv.Kind == "slice" {
							removed = true
						}
					}
					if id, ok := a2.Lhs[0].(*ast.Ident); ok && lit.Info().Uses[id] == frag {
						restarted = true
					}
				}
				ast.Inspect(st, func(x ast.Node) bool {
					if ce, ok := x.(*ast.CallExpr); ok && isYieldCall(yields)(&V{Kind: "call", Node: ce}) {
						yielded = true
					}
					return true
				})
			}
			c.Check(removed && yielded && restarted, "R11.5", split.Name, "overflow branch removes, yields, restarts", is, "all three present", "the overflow branch for "+lhs+" does not (remove the element, yield the fragment, restart the fragment): removed="+boolStr(removed)+" yielded="+boolStr(yielded)+" restarted="+boolStr(restarted))
			// the restart re-adds the element: within the branch, after the restart, the element/field is set again
			if restarted {
				readd := false
				afterRestart := false
				for _, st := range is.Body.List {
					if a2, ok := st.(*ast.AssignStmt); ok && len(a2.Lhs) == 1 {
						if id, ok := a2.Lhs[0].(*ast.Ident); ok && lit.Info().Uses[id] == frag {
							afterRestart = true
							// element inside the literal?
							fld := lastSel(as.Lhs[0])
							ast.Inspect(a2.Rhs[0], func(x ast.Node) bool {
								if kv, ok := x.(*ast.KeyValueExpr); ok {
									if k, ok := kv.Key.(*ast.Ident); ok && k.Name == fld {
										readd = true
									}
								}
								return true
							})
							continue
						}
						if afterRestart && (sameSelector(a2.Lhs[0], as.Lhs[0]) || lastSel(a2.Lhs[0]) == lastSel(as.Lhs[0])) {
							readd = true
						}
					}
				}
				c.Check(readd, "R11.5", split.Name, "restarted fragment carries the element that did not fit", is, "re-added", "after an overflow on "+lhs+" the new fragment does not contain the element that did not fit: it is lost")
			}
			return true
		})
		if nOv < 12 {
			c.Undecided("R11.5", split.Name, "overflow branches", split.Decl, "fewer grow-and-test statements than known ("+itoa(nOv)+")")
		}
		// every yield result honoured (stop when the consumer stops)
		for _, y := range yields {
			par := p.parents[y.Call]
			honoured := false
			for x := par; x != nil; x = p.parents[x] {
				if is, ok := x.(*ast.IfStmt); ok && within(y.Call, is.Cond) {
					for _, st := range is.Body.List {
						if _, isRet := st.(*ast.ReturnStmt); isRet {
							honoured = true
						}
					}
					break
				}
				if _, ok := x.(ast.Stmt); ok {
					// a bare `yield(x)` followed directly by return is fine too
					if es, ok := x.(*ast.ExprStmt); ok && es.X == y.Call {
						if bl, ok := p.parents[es].(*ast.BlockStmt); ok {
							for i, st := range bl.List {
								if st == es && i+1 < len(bl.List) {
									if _, isRet := bl.List[i+1].(*ast.ReturnStmt); isRet {
										honoured = true
									}
								} else if st == es && i+1 == len(bl.List) {
									honoured = true
								}
							}
						}
					}
					break
				}
			}
			c.Check(honoured, "R11.5", split.Name, "consumer's stop request honoured", y.Call, "returns when yield reports false", "iteration continues after the consumer stopped")
		}
		// the final remainder is yielded (form-independent): after every growth of the fragment, every path to a
		// normal exit passes a yield unless it refutes `Size() > 0`; and the last yield is only reached with Size() > 0
		isFragSize := func(v *V) bool { return v.IsCall("pb.(*RPC).Size") || v.IsCall("(*RPC).Size") }
		sizePos := AtomCmp("fragment.Size() > 0", isFragSize, ">", isZero)
		lastNonEmpty := len(grows) > 0 && len(yields) > 0
		cutEmpty := g.CutAny(AtomWant{sizePos, false})
		hasYield := func(n ast.Node) bool {
			for _, y := range yields {
				if contains(n, y.Call) {
					return true
				}
			}
			return false
		}
		for _, gx := range grows {
			gp, ok := g.Locate(gx.node)
			if !ok {
				lastNonEmpty = false
				continue
			}
			if okp, _ := g.MustPass(gp.After(), PassOpts{Cut: cutEmpty}, hasYield); !okp {
				lastNonEmpty = false
			}
		}
		if len(yields) > 0 {
			last := yields[0]
			for _, y := range yields {
				if y.Call.Pos() > last.Call.Pos() {
					last = y
				}
			}
			guarded, _ := p.DomAny(lit, last.Call, AtomWant{sizePos, true})
			if !guarded {
				// `if Size() > 0 && !yield(x)`: the call is evaluated only behind its left conjuncts
				for x := p.parents[ast.Node(last.Call)]; x != nil; x = p.parents[x] {
					be, ok := x.(*ast.BinaryExpr)
					if !ok {
						if _, isExpr := x.(ast.Expr); isExpr {
							continue
						}
						break
					}
					if be.Op.String() == "&&" && within(last.Call, be.Y) {
						if okm, sense := matchN(g, sizePos, be.X); okm && sense {
							guarded = true
						}
					}
				}
			}
			if !guarded {
				lastNonEmpty = false
			}
		}
		// R11.6 no empty RPC is produced: every direct call of the consumer is evaluated only when the fragment's
		// Size() is not zero — by a dominating test, or as the right operand of `Size() == 0 ||` / `Size() > 0 &&`
		{
			// "empty" is judged by content, not by size: a fragment that holds nothing but an empty control
			// message (or control entries listing no message ID) has a non-zero Size(). The guard must be a
			// content predicate: a bool function of the fragment that looks at the messages, the subscriptions
			// and every list of the control message; its polarity is read off its own returns.
			contentFields := []string{"pb.RPC.Publish", "pb.RPC.Subscriptions", "pb.ControlMessage.Ihave", "pb.ControlMessage.Iwant", "pb.ControlMessage.Graft", "pb.ControlMessage.Prune", "pb.ControlMessage.Idontwant"}
			contentPred := func(name string) (bool, bool) {
				fn := p.Fn(name)
				if fn == nil || fn.Body == nil || fn.Type.Results == nil || len(fn.Type.Results.List) != 1 {
					return false, false
				}
				if t := fn.Info().TypeOf(fn.Type.Results.List[0].Type); t == nil || t.String() != "bool" {
					return false, false
				}
				read := map[string]bool{}
				for _, cf := range contentFields {
					// directly, or in a private helper the predicate delegates a part to (the control half, say)
					if readsFieldDeep(p, fn, cf, 1) {
						read[cf] = true
					}
				}
				if os.Getenv("PSCHECK_DEBUG_C11") != "" {
					fmt.Fprintln(os.Stderr, "contentPred", name, "read", read)
				}
				if len(read) != len(contentFields) {
					return false, false
				}
				// polarity: what the predicate answers for an RPC that has messages. The edge on which "no messages" is
				// established has a sibling edge on which messages may be present; the constant returned from there
				// (if/else chain, `||` condition and switch case list alike) is the answer for content
				hasMsgs := AtomCmp("len(Publish) > 0", func(v *V) bool {
					return v.Kind == "len" && len(v.Args) == 1 && v.Args[0].IsField("pb.RPC.Publish")
				}, ">", isZero)
				pol, found := false, false
				fg := p.Graph(fn)
				retConst := func(want string) func(ast.Node) bool {
					return func(n ast.Node) bool {
						r, ok := n.(*ast.ReturnStmt)
						return ok && len(r.Results) == 1 && p.R(fn).Val(r.Results[0]).IsConst(want)
					}
				}
				for _, e := range fg.AtomEdges(hasMsgs, false) {
					sib := Edge{e.From, 1 - e.Succ}
					for _, want := range []string{"true", "false"} {
						if ok, _ := fg.MustPass(EdgeTarget(sib), PassOpts{}, retConst(want)); ok {
							other := "false"
							if want == "false" {
								other = "true"
							}
							if !fg.ReachableNode(EdgeTarget(sib), retConst(other), retConst(want)) {
								pol, found = want == "true", true
							}
						}
					}
				}
				if os.Getenv("PSCHECK_DEBUG_C11") != "" {
					fmt.Fprintln(os.Stderr, "contentPred", name, "found", found, "pol", pol)
				}
				return found, pol
			}
			nonEmptyOf := func(fn *Func, arg ast.Expr) Atom {
				av := p.R(fn).Val(arg)
				return Atom{Desc: "fragment has no content", Match: func(g *Graph, e ast.Expr) (bool, bool) {
					v := g.P.R(g.F).Val(e)
					if v == nil || v.Kind != "call" || len(v.Args) != 1 {
						return false, false
					}
					a0 := v.Args[0]
					if a0.Kind == "unop" && a0.Name == "&" {
						a0 = a0.Args[0]
					}
					if !a0.Equal(av) {
						return false, false
					}
					ok, trueMeansContent := contentPred(v.Name)
					if !ok {
						return false, false
					}
					return true, !trueMeansContent
				}}
			}
			cc := p.ConsumerCalls(lit)
			if len(cc) == 0 {
				c.Undecided("R11.6", split.Name, "consumer calls", split.Decl, "no call of the iterator's consumer found")
			}
			for i, cs := range cc {
				if len(cs.Call.Args) != 1 {
					continue
				}
				empty := nonEmptyOf(cs.Fn, cs.Call.Args[0])
				guarded, why := p.DomAny(cs.Fn, cs.Call, AtomWant{empty, false})
				if !guarded {
					for x := p.parents[ast.Node(cs.Call)]; x != nil; x = p.parents[x] {
						be, ok := x.(*ast.BinaryExpr)
						if !ok {
							if _, isExpr := x.(ast.Expr); isExpr {
								continue
							}
							break
						}
						if !within(cs.Call, be.Y) {
							continue
						}
						okm, sense := matchN(p.Graph(cs.Fn), empty, be.X)
						// a || b evaluates b only when a is false; a && b only when a is true
						if okm && ((be.Op.String() == "||" && sense) || (be.Op.String() == "&&" && !sense)) {
							guarded = true
						}
					}
				}
				suffix := ""
				if i > 0 {
					suffix = "#" + itoa(i+1)
				}
				c.Check(guarded, "R11.6", split.Name, "consumer called only with a non-empty RPC"+suffix, cs.Call, "guarded by a test of the fragment's content", "an RPC without content can be handed to the consumer (it would be queued and sent): in front of an element that cannot fit by itself the accumulated fragment is empty, and a fragment holding only an empty control message has a non-zero Size(), so a size test does not catch it: "+why)
			}
			c.Min["R11.6"] = 1
			// a wrapper around the consumer (the closure that skips content-less fragments) answers for the consumer:
			// every caller reads `false` as "the consumer has stopped" and ends the split. So the wrapper may answer
			// false only when the consumer was called and said so; when it skips a fragment it must answer true
			for _, cs := range cc {
				w := cs.Fn
				if w == lit || w.Lit == nil {
					continue // a direct call from the iterator body, not from a wrapper
				}
				wg := p.Graph(w)
				consumerCall := AtomBool("consumer(fragment)", isYieldCall(cc))
				k := 0
				returnsIn(w, func(r *ast.ReturnStmt) {
					if len(r.Results) != 1 {
						return
					}
					k++
					rv := p.R(w).Val(r.Results[0])
					ok := rv.IsConst("true") || isYieldCall(cc)(rv) || wg.ExprEntails(r.Results[0], false, AtomWant{consumerCall, false})
					suffix := ""
					if k > 1 {
						suffix = "#" + itoa(k)
					}
					c.Check(ok, "R11.6", split.Name, "skipping a fragment does not stop the split"+suffix, r, "the wrapper answers false only with the consumer's own false", "the wrapper around the consumer can answer false without the consumer having been called (for a fragment it skips): every `if !yield(...) { return }` reads that as \"the consumer has stopped\", so the split ends early and everything not yet yielded — including the element that cannot fit and should be reported as dropped — is lost")
				})
			}
		}
		c.Check(lastNonEmpty, "R11.5", split.Name, "non-empty remainder yielded at the end", split.Decl, "final `if Size() > 0 { yield }`", "the last fragment is not yielded (its contents are lost) or an empty RPC can be yielded")
	} else if split != nil {
		c.Undecided("R11.1", split.Name, "iterator closure", split.Decl, "split no longer returns a single function literal")
	}
	// copyRPC
	if f := c.MustFn("R11.1", "copyRPC"); f != nil {
		whole, ctl := false, false
		inspectNoLit(f.Body, func(n ast.Node) bool {
			as, ok := n.(*ast.AssignStmt)
			if !ok || len(as.Lhs) != 1 {
				return true
			}
			if st, ok := unparen(as.Lhs[0]).(*ast.StarExpr); ok {
				if rs, ok := unparen(as.Rhs[0]).(*ast.StarExpr); ok {
					lt := f.Info().TypeOf(st.X)
					if lt != nil && strings.HasSuffix(lt.String(), ".RPC") && !strings.Contains(lt.String(), "/pb.") {
						if id, ok := unparen(rs.X).(*ast.Ident); ok && f.Info().Uses[id] != nil && f.Info().Uses[id] == paramObj(f, 0) {
							whole = true
						}
					}
					if lt != nil && strings.HasSuffix(lt.String(), "pb.ControlMessage") {
						ctl = true
					}
				}
			}
			return true
		})
		c.Check(whole, "R11.1", f.Name, "copies every field of the RPC", f.Decl, "*res = *rpc", "copyRPC does not copy the whole struct")
		c.Check(ctl, "R11.1", f.Name, "control message copied, not shared", f.Decl, "*res.Control = *rpc.Control", "the copy shares its ControlMessage with the original: piggybacking would modify the caller's RPC (e.g. one shared by several recipients)")
	}
	// ---------- R11.2 ownership
	{
		n := 0
		for _, cs := range p.AllSites("(*rpcQueue).Push", "(*rpcQueue).UrgentPush") {
			root := cs.Fn.Root()
			if root.File != "gossipsub.go" && root.File != "extensions.go" && root.File != "gossipsub_feat.go" {
				continue
			}
			n++
			c.Check(root.Name == "(*GossipSubRouter).doSendRPC", "R11.2", root.Name, "gossipsub pushes only in doSendRPC", cs.Call, "doSendRPC", "the gossipsub router pushes to a peer queue outside doSendRPC (bypassing the size gate)")
		}
		if n < 2 {
			c.Undecided("R11.2", "gossipsub pushes", "sites", nil, "fewer than two push sites in the gossipsub router")
		}
		callers := p.CallerNames("(*GossipSubRouter).doSendRPC")
		ok, extra := subset(callers, fnSendRPC)
		c.Check(ok && len(callers) > 0, "R11.2", "doSendRPC", "called only by sendRPC", nil, strings.Join(callers, ","), "doSendRPC also called from "+strings.Join(extra, ",")+" (bypassing the size gate)")
	}
	// ---------- R11.3 size gate
	if f := c.MustFn("R11.3", fnSendRPC); f != nil {
		g := p.Graph(f)
		maxF := isFieldOf("PubSub.maxMessageSize")
		isSize := func(v *V) bool { return v.IsCall("pb.(*RPC).Size") || v.IsCall("(*RPC).Size") }
		sites := p.Sites(f, false, "(*GossipSubRouter).doSendRPC")
		if len(sites) != 2 {
			c.Undecided("R11.3", f.Name, "send sites", f.Decl, "expected two doSendRPC calls")
		}
		for _, cs := range sites {
			arg := p.R(f).Val(cs.Call.Args[0])
			inSplit := len(p.EnclosingLoops(cs.Call)) > 0
			if inSplit {
				over := AtomCmp("fragment.Size() > maxMessageSize", func(v *V) bool {
					return isSize(v) && len(v.Args) == 1 && !(v.Args[0].Kind == "var" && v.Args[0].Obj == paramObj(f, 1))
				}, ">", maxF)
				ok, why := p.DomAny(f, cs.Call, AtomWant{over, false})
				c.Check(ok, "R11.3", f.Name, "fragment sent only if not over the limit", cs.Call, why, "an oversized fragment can be queued: "+why)
				for _, e := range g.AtomEdges(over, true) {
					okd, _ := g.MustPass(EdgeTarget(e), PassOpts{Until: p.iterationUntil(f, cs.Call)}, p.callPred(f, "(*GossipSubRouter).doDropRPC"))
					c.Check(okd, "R11.3", f.Name, "oversized fragment dropped and reported", condNodeOf(e), "doDropRPC", "an oversized fragment is neither sent nor reported as dropped")
				}
				// what is dropped is the fragment, not the RPC being split: doDropRPC re-queues and strips the control part of
				// its argument, and the lazy split iterator is still reading the original
				for _, l := range p.EnclosingLoops(cs.Call) {
					for _, ds := range p.Sites(f, false, "(*GossipSubRouter).doDropRPC") {
						if !within(ds.Call, l) || len(ds.Call.Args) < 1 {
							continue
						}
						av := p.R(f).Val(ds.Call.Args[0])
						isFrag := (av.Kind == "rangekey" || av.Kind == "rangeval") && av.Args[0].IsCall("(*RPC).split")
						// &rpc: the loop variable of the range over split (its address is taken, so it does not resolve)
						if rs, ok := l.(*ast.RangeStmt); ok && !isFrag && p.R(f).Val(rs.X).IsCall("(*RPC).split") {
							arg := unparen(ds.Call.Args[0])
							if u, ok := arg.(*ast.UnaryExpr); ok && u.Op.String() == "&" {
								arg = unparen(u.X)
							}
							if id, ok := arg.(*ast.Ident); ok {
								for _, kv := range []ast.Expr{rs.Key, rs.Value} {
									if kid, ok := kv.(*ast.Ident); ok && f.Info().Uses[id] != nil && f.Info().Uses[id] == f.Info().Defs[kid] {
										isFrag = true
									}
								}
							}
						}
						c.Check(isFrag, "R11.3", f.Name, "the dropped RPC is the oversized fragment", ds.Call, av.String(), "inside the split loop doDropRPC is handed "+av.String()+" instead of the fragment: the whole RPC is reported dropped, its IHAVE/IWANT/IDONTWANT are stripped while later fragments are still being built from it (they are lost) and its GRAFT/PRUNE are queued for retry although later fragments still carry them (duplicated)")
					}
				}
				// the loop ranges over split(maxMessageSize) of the RPC being sent
				for _, l := range p.EnclosingLoops(cs.Call) {
					if r, ok := l.(*ast.RangeStmt); ok {
						rv := p.R(f).Val(r.X)
						okl := rv.IsCall("(*RPC).split") && len(rv.Args) == 2 && maxF(rv.Args[1])
						c.Check(okl, "R11.3", f.Name, "split with the configured limit", r, rv.String(), "split is called with "+rv.String())
						// every fragment is considered: dropping one that cannot fit must not end the iteration
						early, at := LoopHasEarlyExit(r)
						c.Check(!early, "R11.3", f.Name, "every fragment of the split is considered", r, "the loop over the fragments has no early exit", "the loop over the fragments can be left early at "+p.Pos(at)+": the fragments after it (which would fit) are never queued")
					}
				}
				_ = arg
			} else {
				fits := AtomCmp("out.Size() < maxMessageSize", func(v *V) bool {
					return isSize(v) && len(v.Args) == 1 && v.Args[0].Kind == "var" && v.Args[0].Obj == paramObj(f, 1)
				}, "<", maxF)
				ok, why := p.DomAny(f, cs.Call, AtomWant{fits, true})
				c.Check(ok, "R11.3", f.Name, "unsplit send only below the limit", cs.Call, why, "an RPC can be queued whole without `Size() < maxMessageSize`: "+why)
			}
		}
		// the size is evaluated after all piggybacking: no modification of the RPC is reachable after a Size() evaluation
		nSz := 0
		for _, cs := range p.FuncCalls(f, false) {
			if !(cs.Name == "pb.(*RPC).Size" || cs.Name == "(*RPC).Size") {
				continue
			}
			se, _ := unparen(cs.Call.Fun).(*ast.SelectorExpr)
			if se == nil || p.R(f).Val(se.X).Name != "out" {
				continue
			}
			nSz++
			sp, _ := g.Locate(cs.Call)
			bad := ""
			for _, m := range p.Sites(f, false, "(*GossipSubRouter).piggybackControl", "(*GossipSubRouter).piggybackGossip", "copyRPC") {
				mp, _ := g.Locate(m.Call)
				if g.ReachableFrom(sp, mp, nil, nil) {
					bad = shortFn(m.Name) + " at " + p.Pos(m.Call)
				}
			}
			c.Check(bad == "", "R11.3-pre", f.Name, "size evaluated after piggybacking", cs.Call, "no piggyback/copy is reachable after the size evaluation", "the RPC's size is evaluated and the RPC is then still modified ("+bad+"): the gate would not see the piggybacked content")
		}
		if nSz == 0 {
			c.Bad("R11.3-pre", f.Name, "size evaluated after piggybacking", f.Decl, "no Size() evaluation on the outgoing RPC")
		}
	}
	// ---------- R11.4
	if f := c.MustFn("R11.4", "(*GossipSubRouter).doDropRPC"); f != nil {
		ok, why := p.MustCallFromEntry(f, "(*pubsubTracer).DropRPC")
		c.Check(ok, "R11.4", f.Name, "drop is traced", f.Decl, why, why)
		g := p.Graph(f)
		noCtl := AtomNil("ctl == nil", isCallTo("pb.(*RPC).GetControl"))
		ok2, _ := g.MustPass(g.Entry(), PassOpts{Cut: edgeCut(g.AtomEdges(noCtl, true))}, p.callPred(f, "(*GossipSubRouter).pushControl"))
		c.Check(ok2, "R11.4", f.Name, "control part re-queued for retry", f.Decl, "pushControl whenever the RPC has a control message", "GRAFT/PRUNE of a dropped RPC are not re-queued")
	}
	if f := c.MustFn("R11.4", "(*GossipSubRouter).pushControl"); f != nil {
		cleared := map[string]bool{}
		for _, s := range p.StoresTo2(f, "pb.ControlMessage.") {
			if isNilV(p.R(f).Val(s.RHS)) {
				cleared[strings.TrimPrefix(s.Field, "pb.ControlMessage.")] = true
			}
		}
		c.Check(!cleared["Graft"] && !cleared["Prune"] && cleared["Ihave"] && cleared["Iwant"] && cleared["Idontwant"], "R11.4", f.Name, "retries keep GRAFT/PRUNE and drop gossip", f.Decl, "clears Ihave/Iwant/Idontwant only", "pushControl clears the wrong fields")
	}
	checkHelloBounded(c)
	checkPushControlMerges(c)
	c.Min["R11.1"] = 24
	c.Min["R11.2"] = 3
	c.Min["R11.3"] = 4
	c.Min["R11.3-pre"] = 1
	c.Min["R11.4"] = 3
	c.Min["R11.5"] = 40
}

func prefixAll(pre string, xs []string) []string {
	var out []string
	for _, x := range xs {
		out = append(out, pre+x)
	}
	return out
}

func lastSel(e ast.Expr) string {
	e = unparen(e)
	if se, ok := e.(*ast.SelectorExpr); ok {
		return se.Sel.Name
	}
	return ""
}

func sameSelector(a, b ast.Expr) bool {
	return types.ExprString(unparen(a)) == types.ExprString(unparen(b))
}

// sameIfBody: a and b are statements of the same if-body block (b after a).
func sameIfBody(p *Prog, a, b ast.Node) bool {
	blockOf := func(n ast.Node) *ast.BlockStmt {
		for x := p.parents[n]; x != nil; x = p.parents[x] {
			if bl, ok := x.(*ast.BlockStmt); ok {
				if _, isIf := p.parents[bl].(*ast.IfStmt); isIf {
					return bl
				}
			}
			if _, ok := x.(*ast.FuncLit); ok {
				return nil
			}
		}
		return nil
	}
	// a may be nested in `if !yield(..) {return}` inside the overflow block: climb one more level
	ba, bb := blockOf(a), blockOf(b)
	if ba == nil || bb == nil {
		return false
	}
	if ba == bb {
		return a.Pos() < b.Pos()
	}
	if up := blockOf(p.parents[ba]); up != nil && up == bb {
		return a.Pos() < b.Pos()
	}
	return false
}

// R11.7: the first message on a new outbound stream — the hello packet with every subscription and relay —
// does not travel through the router's sendRPC: the event loop hands it to the writer on the FirstMessage
// channel. For "an outbound RPC that exceeds the maximum message size is split" to cover it, what is sent on
// that channel must come out of RPC.split or be behind a size test against the limit.
func checkHelloBounded(c *RuleCtx) {
	p := c.P
	f := c.MustFn("R11.7", fnProcessLoop)
	if f == nil {
		return
	}
	n := 0
	inspectNoLit(f.Body, func(x ast.Node) bool {
		s, ok := x.(*ast.SendStmt)
		if !ok {
			return true
		}
		cv := p.R(f).Val(s.Chan)
		if cv == nil || cv.Kind != "field" || !strings.HasSuffix(cv.Name, ".FirstMessage") {
			return true
		}
		n++
		split := false
		for _, ch := range p.R(f).Sources(s.Value) {
			if ch.Leaf != nil && ch.Leaf.Has(func(v *V) bool { return v.IsCall("(*RPC).split") }) {
				split = true
			}
		}
		sv := p.R(f).Val(s.Value)
		small := AtomCmp("hello.Size() < maxMessageSize", func(v *V) bool {
			return (v.IsCall("pb.(*RPC).Size") || v.IsCall("(*RPC).Size")) && len(v.Args) == 1 && v.Args[0].Equal(sv)
		}, "<", func(v *V) bool { return v.IsField("PubSub.maxMessageSize") })
		bounded, _ := p.DomAny(f, s, AtomWant{small, true})
		c.Check(split || bounded, "R11.7", f.Name, "hello packet bounded or split before it is written", s, "split / size-tested", "the hello packet (all subscriptions and relays of the node in one RPC) is handed to the stream writer whole, without RPC.split and without a size test against maxMessageSize: with enough topics it exceeds the limit, the remote reader resets the stream on every attempt and the peer never learns any of the node's topics")
		return true
	})
	if n == 0 {
		c.Undecided("R11.7", f.Name, "hello send", f.Decl, "no send on a FirstMessage channel found (anchor drift)")
	}
	c.Min["R11.7"] = 1
}

// R11.8: GRAFT and PRUNE of a dropped RPC are kept for a retry in gs.control[p]. The fragments of one split RPC
// are dropped one after the other when the queue is full, so the store must not replace what is already pending:
// pushControl stores only where no entry exists, or what it stores carries the pending entry's GRAFTs and PRUNEs.
func checkPushControlMerges(c *RuleCtx) {
	p := c.P
	f := c.MustFn("R11.8", "(*GossipSubRouter).pushControl")
	if f == nil {
		return
	}
	pendingField := func(name string) func(*V) bool {
		return func(v *V) bool {
			return v != nil && v.Has(func(x *V) bool {
				return x.IsField("pb.ControlMessage."+name) && len(x.Args) > 0 && x.Args[0].Has(func(y *V) bool {
					return (y.Kind == "lookupval" || y.Kind == "index") && y.Args[0].IsField(gsField("control"))
				})
			})
		}
	}
	absent := AtomLookupOK("entry pending in gs.control", isFieldOf(gsField("control")), nil)
	n := 0
	for _, s := range p.StoresTo2(f, gsField("control")) {
		if s.Kind != "elem-assign" {
			continue
		}
		n++
		okAbsent, _ := p.DomAny(f, s.Node, AtomWant{absent, false})
		carries := map[string]bool{}
		for _, name := range []string{"Graft", "Prune"} {
			for _, fs := range p.StoresTo2(f, "pb.ControlMessage."+name) {
				if fs.RHS != nil && pendingField(name)(p.R(f).Val(fs.RHS)) {
					carries[name] = true
				}
			}
		}
		ok := okAbsent || (carries["Graft"] && carries["Prune"])
		c.Check(ok, "R11.8", f.Name, "pending GRAFT/PRUNE survive another drop", s.Node, "stored only when nothing is pending, or merged with the pending entry", "gs.control[p] is overwritten: when the fragments of one split RPC are dropped one by one on a full queue, each drop replaces the GRAFTs and PRUNEs kept for a retry by the previous one, and only the last fragment's are ever re-sent")
	}
	if n == 0 {
		c.Undecided("R11.8", f.Name, "retry store", f.Decl, "pushControl does not store into gs.control (anchor drift)")
	}
	c.Min["R11.8"] = 1
}
