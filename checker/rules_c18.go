package main

import (
	"go/ast"
	"strings"
)

func init() {
	register(&Property{ID: "C18", Run: runC18,
		Explain: "Peer-event stream decided as membership<->event pairing, lock discipline and the coalescing shape: (R18.1) the inner maps of p.topics are written only by handleIncomingRPC and clearPeerFromTopicsState; a PeerJoin is emitted only on the edge 'key was absent before the store' and on every such path (when a topic handle exists), the presence test precedes the store; every delete of a present key is followed on every path by notifyLeave with the same topic and peer; notifyLeave/Topic.sendNotification fan out to every handler; (R18.2) evtLog is accessed only with evtLogMx held, except the seeding inside EventHandler's thunk, which precedes the registration of the handler (publication point); (R18.3) seeding and registration happen in one thunk handed to the event loop, and the API waits for it; (R18.4) addToEventLog stores only on the key-absent edge, on the key-present edge it only deletes and only when the pending type differs, and never overwrites; the wake-up signal is attempted after a store; (R18.5) a successfully pulled event is always returned (no path drops it), pullFromEventLog deletes exactly the entry it returns, the signal is re-armed when entries remain, and the wait is context-bound; (R18.6) evtHandlers is accessed under evtHandlerMux. NOT decided: end-to-end reconstruction of the peer set under arbitrary consumer interleavings (a history property).",
		Assume:  []string{"the event loop is the only writer of p.topics", "sync.Mutex/RWMutex semantics"},
		Mutants: []Mutant{
			{Name: "leave-skipped-for-last-peer", File: "pubsub.go", Old: "\t\t\tdelete(tmap, pid)\n\t\t\tif len(tmap) == 0 {\n\t\t\t\tdelete(p.topics, t)\n\t\t\t}\n\t\t\tp.notifyLeave(t, pid)", New: "\t\t\tdelete(tmap, pid)\n\t\t\tif len(tmap) == 0 {\n\t\t\t\tdelete(p.topics, t)\n\t\t\t\tcontinue\n\t\t\t}\n\t\t\tp.notifyLeave(t, pid)", Expect: "R18.1"},
			{Name: "join-on-changed-flags", File: "pubsub.go", Old: "\t\t\tif !seenBefore {\n\t\t\t\tif topic, ok := p.myTopics[t]; ok {", New: "\t\t\tif !seenBefore || pts.requestsPartial {\n\t\t\t\tif topic, ok := p.myTopics[t]; ok {", Expect: "R18.1"},
			{Name: "seen-test-after-store", File: "pubsub.go", Old: "\t\t\t_, seenBefore := tmap[rpc.from]\n\t\t\ttmap[rpc.from] = pts\n", New: "\t\t\ttmap[rpc.from] = pts\n\t\t\t_, seenBefore := tmap[rpc.from]\n", Expect: "R18.1"},
			{Name: "unsubscribe-no-leave", File: "pubsub.go", Old: "\t\t\t\tif len(tmap) == 0 {\n\t\t\t\t\tdelete(p.topics, t)\n\t\t\t\t}\n\t\t\t\tp.notifyLeave(t, rpc.from)", New: "\t\t\t\tif len(tmap) == 0 {\n\t\t\t\t\tdelete(p.topics, t)\n\t\t\t\t} else {\n\t\t\t\t\tp.notifyLeave(t, rpc.from)\n\t\t\t\t}", Expect: "R18.1"},
			{Name: "notification-unlocked", File: "topic.go", Old: "\tt.evtLogMx.Lock()\n\tt.addToEventLog(evt)\n\tt.evtLogMx.Unlock()\n", New: "\tt.addToEventLog(evt)\n", Expect: "R18.2"},
			{Name: "register-before-seeding", File: "topic.go", Old: "\t\ttmap := t.p.topics[t.topic]\n\t\tfor p := range tmap {\n\t\t\th.evtLog[p] = PeerJoin\n\t\t}\n\n\t\tt.evtHandlerMux.Lock()\n\t\tt.evtHandlers[h] = struct{}{}\n\t\tt.evtHandlerMux.Unlock()\n", New: "\t\tt.evtHandlerMux.Lock()\n\t\tt.evtHandlers[h] = struct{}{}\n\t\tt.evtHandlerMux.Unlock()\n\n\t\ttmap := t.p.topics[t.topic]\n\t\tfor p := range tmap {\n\t\t\th.evtLog[p] = PeerJoin\n\t\t}\n", Expect: "R18.2"},
			{Name: "coalesce-overwrites", File: "topic.go", Old: "\t} else if e != evt.Type {\n\t\tdelete(t.evtLog, evt.Peer)\n\t}", New: "\t} else if e != evt.Type {\n\t\tt.evtLog[evt.Peer] = evt.Type\n\t}", Expect: "R18.4"},
			{Name: "coalesce-deletes-same-type", File: "topic.go", Old: "\t} else if e != evt.Type {\n\t\tdelete(t.evtLog, evt.Peer)", New: "\t} else {\n\t\t_ = e\n\t\tdelete(t.evtLog, evt.Peer)", Expect: "R18.4"},
			{Name: "next-drops-event-on-cancel", File: "topic.go", Old: "\t\tevt, ok := t.pullFromEventLog()\n\t\tif ok {\n", New: "\t\tevt, ok := t.pullFromEventLog()\n\t\tif ok && ctx.Err() != nil {\n\t\t\tt.evtLogMx.Unlock()\n\t\t\treturn PeerEvent{}, ctx.Err()\n\t\t}\n\t\tif ok {\n", Expect: "R18.5"},
			{Name: "next-no-rearm", File: "topic.go", Old: "\t\t\tif len(t.evtLog) > 0 {\n\t\t\t\tselect {\n\t\t\t\tcase t.evtLogCh <- struct{}{}:\n\t\t\t\tdefault:\n\t\t\t\t}\n\t\t\t}\n", New: "", Expect: "R18.5"},
			{Name: "pull-without-delete", File: "topic.go", Old: "\t\tevt := PeerEvent{Peer: k, Type: v}\n\t\tdelete(t.evtLog, k)\n", New: "\t\tevt := PeerEvent{Peer: k, Type: v}\n", Expect: "R18.5"},
			{Name: "handlers-unlocked-cancel", File: "topic.go", Old: "\ttopic.evtHandlerMux.Lock()\n\tdelete(topic.evtHandlers, t)\n\tt.topic.evtHandlerMux.Unlock()", New: "\tdelete(topic.evtHandlers, t)", Expect: "R18.6"},
		}})
}

func runC18(c *RuleCtx) {
	p := c.P
	innerTopics := func(f *Func) func(e ast.Expr) bool {
		return func(e ast.Expr) bool {
			v := p.R(f).Val(e)
			if v == nil {
				return false
			}
			if (v.Kind == "index" || v.Kind == "lookupval" || v.Kind == "rangeval") && v.Args[0].IsField("PubSub.topics") {
				return true
			}
			if v.Kind == "var" && v.Obj != nil {
				for _, d := range p.R(f).Defs(v.Obj) {
					if d.kind == "assign" && d.rhs != nil {
						if dv := p.R(f).Val(d.rhs); (dv.Kind == "index" || dv.Kind == "lookupval") && dv.Args[0].IsField("PubSub.topics") {
							return true
						}
					}
				}
			}
			return false
		}
	}
	// R18.1
	nIns, nDel := 0, 0
	for _, fn := range []string{fnHandleRPC, "(*PubSub).clearPeerFromTopicsState"} {
		f := c.MustFn("R18.1", fn)
		if f == nil {
			continue
		}
		g := p.Graph(f)
		inner := innerTopics(f)
		for _, mi := range p.mapInserts(f) {
			if !inner(mi.Map) {
				continue
			}
			nIns++
			kv := p.R(f).Val(mi.Key)
			absent := AtomBool("peer already in the topic map", func(v *V) bool {
				return v.Kind == "lookupok" && v.Args[1].Equal(kv) && inner(v.Args[0].Node.(ast.Expr))
			})
			// the presence test is evaluated before the store
			sp, _ := g.Locate(mi.Stmt)
			var lookups []ast.Node
			inspectNoLit(f.Body, func(x ast.Node) bool {
				as, ok := x.(*ast.AssignStmt)
				if !ok || len(as.Lhs) != 2 || len(as.Rhs) != 1 {
					return true
				}
				if ix, ok := unparen(as.Rhs[0]).(*ast.IndexExpr); ok && inner(ix.X) && p.R(f).Val(ix.Index).Equal(kv) && sameLoop(p, as, mi.Stmt) {
					lookups = append(lookups, as)
				}
				return true
			})
			okOrder := false
			for _, ln := range lookups {
				if g.DominatedByNode(sp, func(n ast.Node) bool { return n == ln }) {
					okOrder = true
				}
			}
			c.Check(okOrder, "R18.1", f.Name, "presence tested before the membership store", mi.Stmt, "the lookup dominates the store", "the 'seen before' test does not precede the store: every (re)subscription would look already known, or new")
			// join emitted only when absent, and always when absent (given a topic handle)
			joins := p.joinNotifications(f)
			if len(joins) == 0 {
				c.Bad("R18.1", f.Name, "PeerJoin emitted for a new member", mi.Stmt, "no PeerJoin notification in the function")
			}
			for _, j := range joins {
				ok, why := p.DomAny(f, j, AtomWant{absent, false})
				c.Check(ok, "R18.1", f.Name, "PeerJoin only for a peer that was not yet a member", j, why, "a PeerJoin can be emitted for a peer that already is a member (duplicate join): "+why)
				// same peer, same topic
			}
			haveTopic := lookupIn("topic handle exists", isFieldOf("PubSub.myTopics"))
			cut := g.CutAny(AtomWant{absent, true}, AtomWant{haveTopic, false})
			ok, _ := g.MustPass(sp.After(), PassOpts{Cut: cut, Until: p.iterationUntil(f, mi.Stmt)}, func(n ast.Node) bool {
				for _, j := range joins {
					if contains(n, j) {
						return true
					}
				}
				return false
			})
			c.Check(ok, "R18.1", f.Name, "every new member is announced with PeerJoin", mi.Stmt, "every path not refuting 'absent before' (with a topic handle) emits PeerJoin", "a new member can be recorded without a PeerJoin event")
		}
		for _, d := range p.mapDeletes(f) {
			if !inner(d.Map) {
				continue
			}
			nDel++
			dp, _ := g.Locate(d.Call)
			kv, mv := p.R(f).Val(d.Key), p.R(f).Val(d.Map)
			_ = mv
			ok, _ := g.MustPass(dp.After(), PassOpts{Until: p.iterationUntil(f, d.Call)}, func(n ast.Node) bool {
				for _, cs := range p.CallsIn(f, n, false) {
					if cs.Name == "(*PubSub).notifyLeave" && p.R(f).Val(cs.Call.Args[1]).Equal(kv) {
						return true
					}
				}
				return false
			})
			c.Check(ok, "R18.1", f.Name, "every removed member is announced with PeerLeave", d.Call, "notifyLeave(topic, peer) on every path after the delete", "a member can be removed without a PeerLeave event (e.g. when it was the last one)")
			present := AtomBool("peer in the topic map", func(v *V) bool { return v.Kind == "lookupok" && v.Args[1].Equal(kv) })
			ok2, why := p.DomAny(f, d.Call, AtomWant{present, true})
			c.Check(ok2, "R18.1", f.Name, "leave only for a present member", d.Call, why, why)
		}
		// notifyLeave only after a delete
		for _, cs := range p.Sites(f, false, "(*PubSub).notifyLeave") {
			cp, _ := g.Locate(cs.Call)
			ok := g.DominatedByNode(cp, func(n ast.Node) bool {
				for _, d := range p.mapDeletes(f) {
					if contains(n, d.Call) && inner(d.Map) && sameLoop(p, d.Call, cs.Call) {
						return true
					}
				}
				return false
			})
			c.Check(ok, "R18.1", f.Name, "PeerLeave only after removing the member", cs.Call, "dominated by the delete", "a PeerLeave can be emitted without removing a member")
		}
	}
	if nIns != 1 || nDel != 2 {
		c.Undecided("R18.1", "p.topics", "membership writes", nil, "expected one insert and two delete sites, found "+itoa(nIns)+"/"+itoa(nDel))
	}
	callers := p.CallerNames("(*PubSub).notifyLeave")
	ok, extra := subset(callers, fnHandleRPC, "(*PubSub).clearPeerFromTopicsState")
	c.Check(ok, "R18.1", "notifyLeave", "called only by the membership writers", nil, strings.Join(callers, ","), "also from "+strings.Join(extra, ","))
	if f := c.MustFn("R18.1", "(*PubSub).notifyLeave"); f != nil {
		g := p.Graph(f)
		have := lookupIn("topic handle exists", isFieldOf("PubSub.myTopics"))
		okn, _ := g.MustPass(g.Entry(), PassOpts{Cut: edgeCut(g.AtomEdges(have, false))}, func(n ast.Node) bool {
			for _, cs := range p.CallsIn(f, n, false) {
				if cs.Name == "(*Topic).sendNotification" {
					if cl := compositeOf(cs.Call.Args[0]); cl != nil && len(cl.Elts) == 2 && p.R(f).Val(cl.Elts[0]).IsConst("PeerLeave") {
						return true
					}
				}
			}
			return false
		})
		c.Check(okn, "R18.1", f.Name, "notifyLeave emits PeerLeave whenever a handle exists", f.Decl, "always", "notifyLeave can return without emitting PeerLeave")
	}
	if f := c.MustFn("R18.1", "(*Topic).sendNotification"); f != nil {
		for _, r := range p.RangesOver(f, isFieldOf("Topic.evtHandlers")) {
			ok, why := p.LoopBodyMust(f, r, nil, p.callPred(f, "(*TopicEventHandler).sendNotification"))
			c.Check(ok, "R18.1", f.Name, "every handler receives the event", r, why, why)
		}
	}
	// R18.2 lock discipline on evtLog
	n := c.CheckGuardedField("R18.2", "TopicEventHandler.evtLog", "TopicEventHandler.evtLogMx", func(a FieldAccess) string {
		if a.Fn.Root().Name != "(*Topic).EventHandler" {
			return ""
		}
		if a.Fn.Lit == nil {
			// the composite literal initialiser is not a selector access; nothing else expected here
			return ""
		}
		// seeding inside the thunk: must precede the registration store
		g := p.Graph(a.Fn)
		ap, ok := g.Locate(a.Sel)
		if !ok {
			return ""
		}
		for _, s := range p.StoresTo2(a.Fn, "Topic.evtHandlers") {
			if s.Fn != a.Fn {
				continue
			}
			sp, _ := g.Locate(s.Node)
			if g.ReachableFrom(sp, ap, nil, nil) {
				return "" // seeding after publication: not exempt
			}
			return "seeding of a handler not yet registered (registration follows in the same event-loop thunk)"
		}
		return ""
	})
	if n < 6 {
		c.Undecided("R18.2", "evtLog", "accesses", nil, "fewer evtLog accesses than known")
	}
	// R18.3 seeding + registration in one thunk on eval; API waits
	if f := c.MustFn("R18.3", "(*Topic).EventHandler"); f != nil {
		var thunk *Func
		for _, ch := range f.Children {
			if len(p.StoresTo2(ch, "Topic.evtHandlers")) > 0 {
				thunk = ch
			}
		}
		if thunk == nil {
			c.Bad("R18.3", f.Name, "registration thunk", f.Decl, "the handler is not registered inside a thunk")
		} else {
			seeds := false
			for _, mi := range p.mapInserts(thunk) {
				if p.R(thunk).Val(mi.Map).IsField("TopicEventHandler.evtLog") && p.R(thunk).Val(mi.Stmt.Rhs[0]).IsConst("PeerJoin") {
					kv := p.R(thunk).Val(mi.Key)
					if kv.Kind == "rangekey" && kv.Args[0].Has(func(v *V) bool { return v.IsField("PubSub.topics") }) {
						seeds = true
					}
				}
			}
			c.Check(seeds, "R18.3", f.Name, "log seeded with the current members as PeerJoin", thunk.Lit, "range over p.topics[topic]", "the new handler is not seeded with the current members")
			sent := false
			inspectNoLit(f.Body, func(x ast.Node) bool {
				if s, ok := x.(*ast.SendStmt); ok && p.R(f).Val(s.Chan).IsField("PubSub.eval") && p.litArg(f, s.Value) == thunk {
					sent = true
				}
				return true
			})
			c.Check(sent, "R18.3", f.Name, "seeding and registration run inside the event loop", f.Decl, "thunk sent on p.eval", "the registration thunk is not handed to the event loop (membership could change between seeding and registration)")
		}
	}
	// R18.4 coalescing
	if f := c.MustFn("R18.4", "(*TopicEventHandler).addToEventLog"); f != nil {
		g := p.Graph(f)
		present := lookupIn("peer has a pending event", isFieldOf("TopicEventHandler.evtLog"))
		differs := AtomCmp("pending type != new type", func(v *V) bool { return v.Kind == "lookupval" }, "!=", isFieldOf("PeerEvent.Type"))
		nS, nD := 0, 0
		for _, mi := range p.mapInserts(f) {
			if !p.R(f).Val(mi.Map).IsField("TopicEventHandler.evtLog") {
				continue
			}
			nS++
			ok, why := p.DomAny(f, mi.Stmt, AtomWant{present, false})
			c.Check(ok, "R18.4", f.Name, "store only when no event is pending for the peer", mi.Stmt, why, "an existing pending event can be overwritten: "+why)
			rv, kv := p.R(f).Val(mi.Stmt.Rhs[0]), p.R(f).Val(mi.Key)
			c.Check(rv.IsField("PeerEvent.Type") && kv.IsField("PeerEvent.Peer"), "R18.4", f.Name, "stores the event's own peer and type", mi.Stmt, kv.String()+" -> "+rv.String(), "stored "+kv.String()+" -> "+rv.String())
			// wake-up attempted
			sp, _ := g.Locate(mi.Stmt)
			oks, _ := g.MustPass(sp.After(), PassOpts{}, func(n ast.Node) bool {
				s, ok := n.(*ast.SendStmt)
				return ok && p.R(f).Val(s.Chan).IsField("TopicEventHandler.evtLogCh")
			})
			c.Check(oks, "R18.4", f.Name, "consumer signalled after a store", mi.Stmt, "send on evtLogCh attempted", "a stored event may never wake the consumer")
		}
		for _, d := range p.mapDeletes(f) {
			if !p.R(f).Val(d.Map).IsField("TopicEventHandler.evtLog") {
				continue
			}
			nD++
			ok, why := p.DomAny(f, d.Call, AtomWant{present, true})
			ok2, why2 := p.DomAny(f, d.Call, AtomWant{differs, true})
			c.Check(ok && ok2, "R18.4", f.Name, "pending event cancelled only by the opposite event", d.Call, why+"; "+why2, "a pending event can be deleted by an event of the same type (a join or leave would be lost): "+why2)
		}
		c.Check(nS == 1 && nD == 1, "R18.4", f.Name, "one store and one delete", f.Decl, "1/1", "unexpected number of writes to the event log")
		// opposite event always cancels: paths with present && differs must delete
		cut := g.CutAny(AtomWant{present, false}, AtomWant{differs, false})
		okc, _ := g.MustPass(g.Entry(), PassOpts{Cut: cut}, func(n ast.Node) bool { return isDeleteOf(p, f, n, "TopicEventHandler.evtLog") })
		c.Check(okc, "R18.4", f.Name, "opposite event always cancels the pending one", f.Decl, "every path not refuting 'pending and different' deletes", "an opposite event can leave the pending one in place (reordering)")
	}
	// R18.5 consumer
	if f := c.MustFn("R18.5", "(*TopicEventHandler).NextPeerEvent"); f != nil {
		g := p.Graph(f)
		pulled := AtomBool("an event was pulled", func(v *V) bool {
			return v.Kind == "tuple" && v.Name == "1" && v.Args[0].IsCall("(*TopicEventHandler).pullFromEventLog")
		})
		edges := g.AtomEdges(pulled, true)
		if len(edges) == 0 {
			c.Bad("R18.5", f.Name, "pulled event returned", f.Decl, "the result of pullFromEventLog is not tested")
		}
		// every return reachable without refuting 'pulled' after the pull returns that event with a nil error
		for _, cs := range p.Sites(f, false, "(*TopicEventHandler).pullFromEventLog") {
			pp, _ := g.Locate(cs.Call)
			cut := edgeCut(g.AtomEdges(pulled, false))
			bad := ""
			returnsIn(f, func(r *ast.ReturnStmt) {
				rp, _ := g.Locate(r)
				if !g.ReachableFrom(pp.After(), rp, cut, func(n ast.Node) bool {
					return n != cs.Call && p.NodeCalls(f, n, "(*TopicEventHandler).pullFromEventLog")
				}) {
					return
				}
				v0, v1 := p.R(f).Val(r.Results[0]), p.R(f).Val(r.Results[1])
				if !(v0.Kind == "tuple" && v0.Name == "0" && v0.Args[0].IsCall("(*TopicEventHandler).pullFromEventLog") && isNilV(v1)) {
					bad = p.Pos(r)
				}
			})
			c.Check(bad == "", "R18.5", f.Name, "a pulled event is always returned", cs.Call, "every return reachable after a successful pull returns that event", "an event already removed from the log can be dropped (return at "+bad+" does not deliver it)")
		}
		// re-arm
		more := AtomCmp("len(evtLog) > 0", func(v *V) bool { return v.Kind == "len" && v.Args[0].IsField("TopicEventHandler.evtLog") }, ">", isZero)
		for _, e := range edges {
			cut := edgeCut(g.AtomEdges(more, false))
			ok, _ := g.MustPass(EdgeTarget(e), PassOpts{Cut: cut}, func(n ast.Node) bool {
				s, ok := n.(*ast.SendStmt)
				return ok && p.R(f).Val(s.Chan).IsField("TopicEventHandler.evtLogCh")
			})
			c.Check(ok && len(g.AtomEdges(more, true)) > 0, "R18.5", f.Name, "signal re-armed while entries remain", condNodeOf(e), "every returning path not refuting len(evtLog) > 0 attempts the send", "events can remain in the log without a pending wake-up signal")
		}
	}
	if f := c.MustFn("R18.5", "(*TopicEventHandler).pullFromEventLog"); f != nil {
		returnsIn(f, func(r *ast.ReturnStmt) {
			if len(r.Results) != 2 || !p.R(f).Val(r.Results[1]).IsConst("true") {
				return
			}
			g := p.Graph(f)
			rp, _ := g.Locate(r)
			ok := g.DominatedByNode(rp, func(n ast.Node) bool {
				for _, d := range p.mapDeletes(f) {
					if contains(n, d.Call) && p.R(f).Val(d.Map).IsField("TopicEventHandler.evtLog") && p.R(f).Val(d.Key).Kind == "rangekey" {
						return true
					}
				}
				return false
			})
			c.Check(ok, "R18.5", f.Name, "returned entry removed from the log", r, "delete dominates the return", "an event can be returned without being removed (duplicate delivery)")
		})
	}
	// R18.6 evtHandlers under evtHandlerMux
	n6 := c.CheckGuardedField("R18.6", "Topic.evtHandlers", "Topic.evtHandlerMux", func(a FieldAccess) string {
		root := a.Fn.Root().Name
		if root == "(*PubSub).tryJoin" {
			return "constructor: topic not yet published"
		}
		if root == "(*PubSub).handleRemoveTopic" {
			return "len() read by the event loop while closing the topic (Topic.mux held exclusively by Close; handlers register through the loop)"
		}
		return ""
	})
	if n6 < 3 {
		c.Undecided("R18.6", "evtHandlers", "accesses", nil, "fewer accesses than known")
	}
	c.Min["R18.1"] = 12
	c.Min["R18.2"] = 6
	c.Min["R18.3"] = 2
	c.Min["R18.4"] = 6
	c.Min["R18.5"] = 3
	c.Min["R18.6"] = 3
}

// joinNotifications lists sendNotification(PeerEvent{PeerJoin, ...}) calls in f.
func (p *Prog) joinNotifications(f *Func) []ast.Node {
	var out []ast.Node
	for _, cs := range p.Sites(f, false, "(*Topic).sendNotification") {
		if cl := compositeOf(cs.Call.Args[0]); cl != nil && len(cl.Elts) >= 1 {
			first := cl.Elts[0]
			if kv, ok := first.(*ast.KeyValueExpr); ok {
				first = kv.Value
			}
			if p.R(f).Val(first).IsConst("PeerJoin") {
				out = append(out, cs.Call)
			}
		}
	}
	return out
}
