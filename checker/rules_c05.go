package main

import (
	"go/ast"
	"go/token"
	"go/types"
	"strings"
)

func init() {
	register(&Property{ID: "C05", Run: runC05,
		Explain: "Announcement bookkeeping decided for every operation history as pairing/guard/ownership rules: (R05.1) announce and rt.Join/rt.Leave are called only by the four subscription/relay handlers, announce(t,true) always together with rt.Join and after disc.Advertise, announce(t,false) with rt.Leave and disc.StopAdvertise; (R05.2) the subscribe-side pair happens exactly when no subscription and no relay existed (and the topic is not fanout-only), the unsubscribe-side pair exactly when the last one went away — both directions: dominance of the pair by the guard, and every path not refuting the guard performs the pair; the un-announcement additionally requires that a subscription set existed (a handle cancelled twice does not announce or Leave again); myRelays is incremented only by handleAddRelay, decremented only by handleRemoveRelay under a non-zero test and deleted when it reaches zero; mySubs entries are created/deleted only by the subscription handlers; (R05.3) a cancelled subscription's error is stored before its channel is closed, Next reports it on the closed edge, close is once-only; (R05.4) the first message on a new outbound stream is the hello packet (through the router hook) and the writer sends it before popping the queue; getHelloPacket lists every subscription (except fanout-only topics) and every relay; (R05.5) a retried announcement is re-sent only if the current interest state still equals the announced one (path table of the retry thunk), through the event loop, and an announcement whose queue push failed — in announce and in the retry itself — is always scheduled for another retry for the same peer, topic and flag; (R05.6) remote interest bookkeeping (inner maps of p.topics) is written only by handleIncomingRPC and clearPeerFromTopicsState, is processed before and independently of the router's AcceptFrom verdict, every removal of a peer's queue is paired with clearPeerFromTopicsState and rt.OnClosedOutboundStream, and a closed inbound stream always clears the peer's topic state. (R05.8) a peer whose writer is respawned keeps its announced topics, and every dead peer is respawned or forgotten; (R05.9) every function that decides from p.mySubs whether a subscription is announced has a branch depending on Topic.fanoutOnly in front of the announcement; (R11.7, shared) the hello packet is split or size-tested before it is written (known finding F37). NOT decided: convergence once the network is quiet, ordering of hello vs queued announcements across goroutines.",
		Assume:  []string{"the event loop owns mySubs/myRelays/topics (single-threaded)"},
		Mutants: []Mutant{
			{Name: "addsub-announce-without-join", File: "pubsub.go", Old: "\t\t\tp.announce(sub.topic, true)\n\t\t\tp.rt.Join(sub.topic)\n", New: "\t\t\tp.announce(sub.topic, true)\n\t\t\tif len(p.peers) > 0 {\n\t\t\t\tp.rt.Join(sub.topic)\n\t\t\t}\n", Expect: "R05.1"},
			{Name: "addsub-guard-ignores-relays", File: "pubsub.go", Old: "\tif len(subs) == 0 && p.myRelays[sub.topic] == 0 {", New: "\tif len(subs) == 0 {", Expect: "R05.2"},
			{Name: "rmsub-announce-while-relayed", File: "pubsub.go", Old: "\t\tif p.myRelays[sub.topic] == 0 {\n\t\t\tp.disc.StopAdvertise(sub.topic)", New: "\t\tif p.myRelays[sub.topic] <= 1 {\n\t\t\tp.disc.StopAdvertise(sub.topic)", Expect: "R05.2"},
			{Name: "rmrelay-keeps-zero-entry", File: "pubsub.go", Old: "\tif p.myRelays[topic] == 0 {\n\t\tdelete(p.myRelays, topic)\n", New: "\tif p.myRelays[topic] == 0 {\n", Expect: "R05.2"},
			{Name: "addrelay-second-ref-announces", File: "pubsub.go", Old: "\tif p.myRelays[topic] == 1 && len(p.mySubs[topic]) == 0 {", New: "\tif p.myRelays[topic] >= 1 && len(p.mySubs[topic]) == 0 {", Expect: "R05.2"},
			{Name: "cancel-close-before-err", File: "pubsub.go", Old: "\tsub.err = ErrSubscriptionCancelled\n\tsub.close()\n", New: "\tsub.close()\n\tsub.err = ErrSubscriptionCancelled\n", Expect: "R05.3"},
			{Name: "hello-skips-router-hook", File: "pubsub.go", Old: "\t\t\thelloPacket = p.rt.OnNewOutboundStream(pid, s.Protocol(), helloPacket)\n\t\t\ts.FirstMessage <- helloPacket", New: "\t\t\t_ = p.rt.OnNewOutboundStream(pid, s.Protocol(), helloPacket)\n\t\t\ts.FirstMessage <- &RPC{}", Expect: "R05.4"},
			{Name: "hello-announces-fanout-only", File: "comm.go", Old: "\t\tif topic := p.myTopics[t]; topic != nil && topic.fanoutOnly {\n\t\t\tcontinue\n\t\t}\n", New: "", Expect: "R05.4"},
			{Name: "retry-not-rearmed", File: "pubsub.go", Old: "\t\tp.tracer.DropRPC(out, pid)\n\t\tgo p.announceRetry(pid, topic, sub)\n\t\treturn\n", New: "\t\tp.tracer.DropRPC(out, pid)\n\t\treturn\n", Expect: "R05.5"},
			{Name: "double-cancel-unannounces", File: "pubsub.go", Old: "\tif subs == nil {\n\t\treturn\n\t}\n\n\tsub.err = ErrSubscriptionCancelled", New: "\tsub.err = ErrSubscriptionCancelled", Expect: "R05.2"},
			{Name: "retry-unsub-always", File: "pubsub.go", Old: "\t\tif (ok && sub) || (!ok && !sub) {\n\t\t\tp.doAnnounceRetry(pid, topic, sub)\n\t\t}", New: "\t\tif ok && !sub {\n\t\t\treturn\n\t\t}\n\t\tp.doAnnounceRetry(pid, topic, sub)", Expect: "R05.5"},
			{Name: "acceptfrom-before-subscriptions", File: "pubsub.go", Old: "\t\treturn\n\t}\n\n\tsubs := rpc.GetSubscriptions()", New: "\t\treturn\n\t}\n\n\tif p.rt.AcceptFrom(rpc.from) == AcceptNone {\n\t\treturn\n\t}\n\tsubs := rpc.GetSubscriptions()", Expect: "R05.6"},
			{Name: "closed-incoming-keeps-topics", File: "pubsub.go", Old: "\tp.clearPeerFromTopicsState(pid)\n\tp.rt.OnClosedIncomingStream(pid, proto)", New: "\tif _, ok := p.peers[pid]; !ok {\n\t\tp.clearPeerFromTopicsState(pid)\n\t}\n\tp.rt.OnClosedIncomingStream(pid, proto)", Expect: "R05.6"},
			{Name: "deadpeer-keeps-topics", File: "pubsub.go", Old: "\t\t\tcontinue\n\t\t}\n\n\t\tp.clearPeerFromTopicsState(pid)\n\t}\n}\n", New: "\t\t\tcontinue\n\t\t}\n\t}\n}\n", Expect: "R05.6"},
			{Name: "deadpeer-gives-up-keeping-topics", File: "pubsub.go", Old: "\t\t\t\tp.logger.Debug(\"error updating backoff\", \"err\", err, \"peer\", pid)\n\t\t\t\tp.clearPeerFromTopicsState(pid)\n\t\t\t\tcontinue\n", New: "\t\t\t\tp.logger.Debug(\"error updating backoff\", \"err\", err, \"peer\", pid)\n\t\t\t\tcontinue\n", Expect: "R05.6"},
			{Name: "deadpeer-respawn-forgets-topics", File: "pubsub.go", Old: "\t\tp.rt.OnClosedOutboundStream(pid)\n\n\t\tif p.host.Network().Connectedness(pid) == network.Connected {\n\t\t\tbackoffDelay, err := p.deadPeerBackoff.updateAndGet(pid)", New: "\t\tp.rt.OnClosedOutboundStream(pid)\n\t\tp.clearPeerFromTopicsState(pid)\n\n\t\tif p.host.Network().Connectedness(pid) == network.Connected {\n\t\t\tbackoffDelay, err := p.deadPeerBackoff.updateAndGet(pid)", Expect: "R05.8"},
			{Name: "retry-ignores-fanout-only", File: "pubsub.go", Old: "\t\tok := (okSubs && !fanoutOnly) || okRelays\n", New: "\t\t_ = fanoutOnly\n\t\tok := okSubs || okRelays\n", Expect: "R05.9"},
			{Name: "retry-never-reads-fanout-only", File: "pubsub.go", Old: "\t\tt := p.myTopics[topic]\n\t\tfanoutOnly := t != nil && t.fanoutOnly\n\n\t\tok := (okSubs && !fanoutOnly) || okRelays\n", New: "\t\tok := okSubs || okRelays\n", Expect: "R05.9"},
		}})
}

func runC05(c *RuleCtx) {
	p := c.P
	const (
		fnAnnounce = "(*PubSub).announce"
		rtJoin     = "PubSubRouter.Join"
		rtLeave    = "PubSubRouter.Leave"
		fnAdv      = "(*discover).Advertise"
		fnStopAdv  = "(*discover).StopAdvertise"
	)
	handlers := []string{"(*PubSub).handleAddSubscription", "(*PubSub).handleRemoveSubscription", "(*PubSub).handleAddRelay", "(*PubSub).handleRemoveRelay"}
	// R05.1 ownership
	for _, callee := range []string{fnAnnounce, rtJoin, rtLeave} {
		callers := p.CallerNames(callee)
		ok, extra := subset(callers, handlers...)
		c.Check(ok && len(callers) > 0, "R05.1", callee, "called only by the subscription/relay handlers", nil, strings.Join(callers, ","), "also called from "+strings.Join(extra, ","))
	}
	lenSubs0 := func(f *Func) Atom {
		return AtomCmp("no subscriptions for the topic", func(v *V) bool {
			if v.Kind != "len" {
				return false
			}
			a := v.Args[0]
			return (a.Kind == "index" || a.Kind == "lookupval") && a.Args[0].IsField("PubSub.mySubs")
		}, "==", isZero)
	}
	// the relay count: myRelays[topic] itself, or the updated value `old ± 1` held in a local, provided exactly
	// that value is what the handler stores back (then the local equals the map entry from the store on)
	relaysIs := func(n string) Atom {
		isCount := func(v *V) bool { return v != nil && v.Kind == "index" && v.Args[0].IsField("PubSub.myRelays") }
		return Atom{Desc: "myRelays[topic] == " + n, Match: func(g *Graph, e ast.Expr) (bool, bool) {
			updated := func(v *V) bool {
				if isCount(v) {
					return true
				}
				if v == nil || v.Kind != "op" || (v.Name != "+" && v.Name != "-") || len(v.Args) != 2 || !isCount(v.Args[0]) || !v.Args[1].IsConst("1") {
					return false
				}
				for _, s := range g.P.AllStores() {
					if s.Fn.Root() == g.F.Root() && s.Field == "PubSub.myRelays" && s.Kind == "elem-assign" && s.RHS != nil && g.P.R(s.Fn).Val(s.RHS).Equal(v) {
						return true
					}
				}
				return false
			}
			return AtomCmp("", updated, "==", isLit(n)).Match(g, e)
		}}
	}
	notFanoutOnly := Atom{Desc: "topic not fanout-only", Match: func(g *Graph, e ast.Expr) (bool, bool) {
		v := g.P.R(g.F).Val(e)
		if v.IsField("Topic.fanoutOnly") {
			return true, false
		}
		return false, false
	}}
	topicNil := AtomNil("topic handle == nil", func(v *V) bool {
		return (v.Kind == "index" || v.Kind == "lookupval") && v.Args[0].IsField("PubSub.myTopics")
	})
	type side struct {
		fn        string
		sub       bool
		guards    []Atom // all must hold (true)
		fanoutChk bool
	}
	for _, sd := range []side{
		{handlers[0], true, nil, true},
		{handlers[1], false, nil, true},
		{handlers[2], true, nil, false},
		{handlers[3], false, nil, false},
	} {
		f := c.MustFn("R05.1", sd.fn)
		if f == nil {
			continue
		}
		g := p.Graph(f)
		want := "false"
		router, disc := rtLeave, fnStopAdv
		if sd.sub {
			want, router, disc = "true", rtJoin, fnAdv
		}
		var ann []CallSite
		for _, cs := range p.Sites(f, false, fnAnnounce) {
			if p.R(f).Val(cs.Call.Args[1]).IsConst(want) {
				ann = append(ann, cs)
			} else {
				c.Bad("R05.1", f.Name, "announce polarity", cs.Call, "this handler announces with the wrong subscribe flag")
			}
		}
		if len(ann) != 1 {
			c.Undecided("R05.1", f.Name, "announce site", f.Decl, "expected exactly one announce call")
			continue
		}
		a := ann[0]
		ap, _ := g.Locate(a.Call)
		// pairing with the router call: each implies the other
		ok1, _ := g.MustPass(ap.After(), PassOpts{}, p.callPred(f, router))
		rsites := p.Sites(f, false, router)
		ok2 := len(rsites) == 1
		for _, rs := range rsites {
			if !p.DomCall(f, rs.Call, fnAnnounce) {
				ok2 = false
			}
		}
		c.Check(ok1 && ok2, "R05.1", f.Name, "announce paired with rt."+shortFn(router), a.Call, "announce is always followed by the router call and the router call always preceded by announce", "announcement and router "+shortFn(router)+" are not paired on every path")
		c.Check(p.DomCall(f, a.Call, disc), "R05.1", f.Name, "discovery "+shortFn(disc)+" before announce", a.Call, "dominated", "the announcement is not preceded by disc."+shortFn(disc))
		// R05.2 guards (both directions)
		var guards []Atom
		switch sd.fn {
		case handlers[0]:
			guards = []Atom{lenSubs0(f), relaysIs("0")}
		case handlers[1]:
			guards = []Atom{lenSubs0(f), relaysIs("0")}
		case handlers[2]:
			guards = []Atom{relaysIs("1"), lenSubs0(f)}
		case handlers[3]:
			guards = []Atom{relaysIs("0"), lenSubs0(f)}
		}
		// len(subs) in the subscription handlers is taken on the local `subs`
		lenLocal := AtomCmp("no subscriptions for the topic", func(v *V) bool {
			if v.Kind != "len" {
				return false
			}
			a := v.Args[0]
			return (a.Kind == "index" || a.Kind == "lookupval") && a.Args[0].IsField("PubSub.mySubs")
		}, "==", isZero)
		_ = lenLocal
		cut := cutSet{}
		for _, ga := range guards {
			ok, why := p.DomAny(f, a.Call, AtomWant{ga, true})
			c.Check(ok, "R05.2", f.Name, "announce only if "+ga.Desc, a.Call, why, why)
		}
		for _, e := range g.EdgesRefutingAll(guards...) {
			cut[e] = true
		}
		if sd.fanoutChk {
			pt, _ := g.Locate(a.Call)
			okf := g.Dominated(pt, announceableEdges(g, topicNil, notFanoutOnly))
			c.Check(okf, "R05.2", f.Name, "no announcement for fanout-only topics", a.Call, "dominated by `topic == nil || !topic.fanoutOnly`", "a fanout-only topic can be announced")
			// refuted: topic != nil and fanoutOnly
			for _, e := range g.AtomEdges(notFanoutOnly, false) {
				cut[e] = true
			}
			isFO := Atom{Desc: "fanout-only", Match: func(g *Graph, e ast.Expr) (bool, bool) { ok, s := notFanoutOnly.Match(g, e); return ok, !s }}
			notNil := Atom{Desc: "topic != nil", Match: func(g *Graph, e ast.Expr) (bool, bool) { ok, s := topicNil.Match(g, e); return ok, !s }}
			for _, e := range g.EdgesRefutingAll(notNilOrTrue(notNil), isFO) {
				_ = e
			}
			// the false edge of `topic == nil || !topic.fanoutOnly` refutes announceability
			for _, blk := range g.C.Blocks {
				if g.condOf[blk] == nil {
					continue
				}
				for s := 0; s < 2; s++ {
					for _, fc := range g.EdgeFacts(Edge{blk, s}) {
						if ok, sense := notFanoutOnly.Match(g, fc.E); ok && fc.Truth != sense {
							cut[Edge{blk, s}] = true
						}
					}
				}
			}
		}
		// early return edges that mean "nothing to do" (unknown subscription / relay count already zero) are refutations too
		if sd.fn == handlers[1] {
			subsNil := AtomNil("no subscription set", func(v *V) bool {
				return (v.Kind == "index" || v.Kind == "lookupval") && v.Args[0].IsField("PubSub.mySubs")
			})
			for _, e := range g.AtomEdges(subsNil, true) {
				cut[e] = true
			}
			// … and conversely the un-announcement happens only for a topic that had a subscription set: cancelling a
			// handle twice (or one whose topic has no subscriptions left) must not announce / Leave a second time
			hadSubs, why := p.DomAny(f, a.Call, AtomWant{subsNil, false}, AtomWant{AtomBool("subscription was registered", func(v *V) bool {
				return v != nil && v.Kind == "lookupok" && ((v.Args[0].Kind == "index" || v.Args[0].Kind == "lookupval") && v.Args[0].Args[0].IsField("PubSub.mySubs") || v.Args[0].IsField("PubSub.mySubs"))
			}), true})
			c.Check(hadSubs, "R05.2", f.Name, "un-announce only when a subscription was actually removed", a.Call, why, "the unsubscribe announcement / router Leave can run for a topic that has no subscription set (a handle cancelled twice): peers and the trace see a second LEAVE: "+why)
		}
		if sd.fn == handlers[3] {
			// the entry test `myRelays[topic] == 0` (nothing to cancel) precedes the decrement; only the test after the decrement is the guard
			for _, e := range g.AtomEdges(relaysIs("0"), true) {
				if !g.DominatedByNode(Point{e.From, len(e.From.Nodes) - 1}, isCounterStepNode(p, f, "PubSub.myRelays", -1)) {
					cut[e] = true
				}
			}
		}
		okAll, _ := g.MustPass(g.Entry(), PassOpts{Cut: cut}, func(n ast.Node) bool { return contains(n, a.Call) })
		c.Check(okAll, "R05.2", f.Name, "announce whenever the guard holds", a.Call, "every path that does not refute the guard announces", "a path on which the first/last-reference condition is not refuted skips the announcement")
	}
	// R05.2 counters: who may write
	for _, s := range p.StoresTo("PubSub.myRelays") {
		root := s.Fn.Root().Name
		kind := s.Kind
		step := counterStep(p, s.Fn, s)
		if step != 0 {
			kind = "elem-incdec"
		}
		switch kind {
		case "elem-incdec":
			inc := step > 0
			if inc {
				c.Check(root == handlers[2], "R05.2", root, "relay count incremented", s.Node, "handleAddRelay", "myRelays incremented outside handleAddRelay")
			} else {
				okr := root == handlers[3]
				if okr {
					nz := relaysIs("0")
					ok, _ := p.DomAny(s.Fn, s.Node, AtomWant{nz, false})
					okr = ok
				}
				c.Check(okr, "R05.2", root, "relay count decremented only when non-zero", s.Node, "handleRemoveRelay under a non-zero test", "myRelays can be decremented below zero or outside handleRemoveRelay")
			}
		case "delete":
			ok, _ := p.DomAny(s.Fn, s.Node, AtomWant{relaysIs("0"), true})
			c.Check(root == handlers[3] && ok, "R05.2", root, "relay entry deleted at zero", s.Node, "on the count == 0 edge", "myRelays entry deleted elsewhere or not at zero")
		case "assign":
			c.Check(strings.HasPrefix(root, "NewPubSub"), "R05.2", root, "myRelays replaced", s.Node, "constructor", "myRelays replaced outside the constructor")
		default:
			c.Bad("R05.2", root, "unexpected write to myRelays: "+s.Kind, s.Node, "unrecognised write")
		}
	}
	if f := c.MustFn("R05.2", handlers[3]); f != nil {
		// at zero the entry is deleted (hello packet and retry logic read the key set)
		g := p.Graph(f)
		cut := cutSet{}
		for _, e := range g.AtomEdges(relaysIs("0"), false) {
			cut[e] = true
		}
		var dec ast.Node
		isDec := isCounterStepNode(p, f, "PubSub.myRelays", -1)
		inspectNoLit(f.Body, func(n ast.Node) bool {
			if isDec(n) {
				dec = n
			}
			return true
		})
		if dec == nil {
			c.Bad("R05.2", f.Name, "zero relay entry deleted", f.Decl, "no decrement")
		} else {
			dp, _ := g.Locate(dec)
			ok, _ := g.MustPass(dp.After(), PassOpts{Cut: cut}, func(n ast.Node) bool { return isDeleteOf(p, f, n, "PubSub.myRelays") })
			c.Check(ok, "R05.2", f.Name, "zero relay entry deleted", dec, "every path not refuting count == 0 deletes the entry", "a relay count can reach zero and stay in myRelays: the hello packet and announceRetry read the key set and would keep announcing the topic")
		}
	}
	for _, s := range p.StoresTo("PubSub.mySubs") {
		root := s.Fn.Root().Name
		c.Check(inSet(root, handlers[0], handlers[1]) || strings.HasPrefix(root, "NewPubSub"), "R05.2", root, "mySubs written", s.Node, "subscription handlers", "mySubs is written outside the subscription handlers")
	}
	// R05.3
	if f := c.MustFn("R05.3", handlers[1]); f != nil {
		for _, cs := range p.Sites(f, false, "(*Subscription).close") {
			g := p.Graph(f)
			cp, _ := g.Locate(cs.Call)
			ok := g.DominatedByNode(cp, func(n ast.Node) bool {
				for _, s := range p.StoresTo2(f, "Subscription.err") {
					if s.Node == n && p.R(f).Val(s.RHS).Kind == "var" {
						return true
					}
				}
				return false
			})
			c.Check(ok, "R05.3", f.Name, "cancellation error stored before the channel is closed", cs.Call, "the store to sub.err dominates sub.close()", "a reader can observe the closed channel before the cancellation error is stored")
		}
		// the cancelled subscription is removed from the set
		g := p.Graph(f)
		ok, _ := g.MustPass(g.Entry(), PassOpts{Cut: edgeCut(g.AtomEdges(AtomNil("no subscription set", func(v *V) bool {
			return (v.Kind == "index" || v.Kind == "lookupval") && v.Args[0].IsField("PubSub.mySubs")
		}), true))}, func(n ast.Node) bool {
			for _, d := range p.mapDeletes(f) {
				if contains(n, d.Call) && p.R(f).Val(d.Key).Kind == "var" {
					return true
				}
			}
			return false
		})
		c.Check(ok, "R05.3", f.Name, "cancelled subscription removed", f.Decl, "deleted from the topic's set on every path", "a cancelled subscription can stay registered")
	}
	if f := c.MustFn("R05.3", "(*Subscription).Next"); f != nil {
		n := 0
		returnsIn(f, func(r *ast.ReturnStmt) {
			if len(r.Results) == 2 && p.R(f).Val(r.Results[1]).IsField("Subscription.err") {
				n++
			}
		})
		c.Check(n == 1, "R05.3", f.Name, "Next reports the stored error on the closed edge", f.Decl, "returns sub.err", "Next does not return sub.err when the channel is closed")
	}
	if f := c.MustFn("R05.3", "(*Subscription).close"); f != nil {
		c.Check(len(p.Sites(f, false, "sync.(*Once).Do")) == 1, "R05.3", f.Name, "close is once-only", f.Decl, "through sync.Once", "the subscription channel can be closed twice")
	}
	// R05.4 hello first
	if f := c.MustFn("R05.4", fnProcessLoop); f != nil {
		n := 0
		inspectNoLit(f.Body, func(x ast.Node) bool {
			s, ok := x.(*ast.SendStmt)
			if !ok || !p.R(f).Val(s.Chan).IsField("peerOutgoingStream.FirstMessage") {
				return true
			}
			n++
			v := p.R(f).Val(s.Value)
			ok2 := v.IsCall("PubSubRouter.OnNewOutboundStream") && len(v.Args) == 4 && v.Args[3].IsCall("(*PubSub).getHelloPacket")
			c.Check(ok2, "R05.4", f.Name, "first message is the hello packet (through the router hook)", s, v.String(), "the first message on a new stream is "+v.String())
			return true
		})
		if n == 0 {
			c.Bad("R05.4", f.Name, "first message is the hello packet (through the router hook)", f.Decl, "no send on FirstMessage")
		}
	}
	if f := c.MustFn("R05.4", "(*PubSub).handleSendingMessages"); f != nil {
		g := p.Graph(f)
		for _, cs := range p.Sites(f, false, "(*rpcQueue).Pop") {
			pp, _ := g.Locate(cs.Call)
			ok := g.DominatedByNode(pp, func(n ast.Node) bool {
				found := false
				ast.Inspect(n, func(x ast.Node) bool {
					if u, ok := x.(*ast.UnaryExpr); ok && u.Op == token.ARROW {
						if v := p.R(f).Val(u.X); isParam(f, 3)(v) {
							found = true
						}
					}
					return true
				})
				return found
			})
			c.Check(ok, "R05.4", f.Name, "hello consumed before the queue is served", cs.Call, "the receive from firstMessage dominates Pop", "queued announcements can be written before the hello packet")
		}
	}
	if f := c.MustFn("R05.4", "(*PubSub).getHelloPacket"); f != nil {
		// fanout-only topics are not announced; everything else is (exhaustiveness is R01.4)
		for _, r := range p.RangesOver(f, isFieldOf("PubSub.mySubs")) {
			g := p.Graph(f)
			fo := Atom{Desc: "topic fanout-only", Match: func(g *Graph, e ast.Expr) (bool, bool) {
				if g.P.R(g.F).Val(e).IsField("Topic.fanoutOnly") {
					return true, true
				}
				return false, false
			}}
			var ins []MapInsert
			for _, mi := range p.mapInserts(f) {
				if within(mi.Stmt, r) {
					ins = append(ins, mi)
				}
			}
			if len(ins) != 1 {
				c.Undecided("R05.4", f.Name, "subscription collection", r, "expected one insertion per subscribed topic")
				continue
			}
			pt, _ := g.Locate(ins[0].Stmt)
			tn := AtomNil("topic handle == nil", func(v *V) bool {
				return (v.Kind == "index" || v.Kind == "lookupval") && v.Args[0].IsField("PubSub.myTopics")
			})
			nfo := Atom{Desc: "not fanout-only", Match: func(g *Graph, e ast.Expr) (bool, bool) { ok, s := fo.Match(g, e); return ok, !s }}
			ok := g.Dominated(pt, announceableEdges(g, tn, nfo))
			c.Check(ok, "R05.4", f.Name, "fanout-only topics are not in the hello packet", ins[0].Stmt, "dominated by `topic == nil || !fanoutOnly`", "a fanout-only topic is announced in the hello packet")
			okAll, why := p.LoopBodyMust(f, r, g.AtomEdges(fo, true), func(n ast.Node) bool { return contains(n, ins[0].Stmt) })
			c.Check(okAll, "R05.4", f.Name, "every other subscribed topic is in the hello packet", r, why, why)
		}
		for _, r := range p.RangesOver(f, isFieldOf("PubSub.myRelays")) {
			okAll, why := p.LoopBodyMust(f, r, nil, func(n ast.Node) bool {
				for _, mi := range p.mapInserts(f) {
					if contains(n, mi.Stmt) {
						return true
					}
				}
				return false
			})
			c.Check(okAll, "R05.4", f.Name, "every relayed topic is in the hello packet", r, why, why)
		}
		// each entry says subscribe=true
		for _, cs := range p.Sites(f, false, "github.com/gogo/protobuf/proto.Bool") {
			c.Check(p.R(f).Val(cs.Call.Args[0]).IsConst("true"), "R05.4", f.Name, "hello entries are subscriptions", cs.Call, "Subscribe=true", "a hello entry is not a subscription")
		}
	}
	// R05.5 retry re-validation
	// R05.5 (re-arm): an announcement whose queue push failed is always scheduled for (another) retry —
	// in announce and in the retry itself — for the same peer, topic and flag
	for _, fn := range []string{fnAnnounce, "(*PubSub).doAnnounceRetry"} {
		f := c.MustFn("R05.5", fn)
		if f == nil {
			continue
		}
		g := p.Graph(f)
		pushes := p.Sites(f, false, "(*rpcQueue).Push", "(*rpcQueue).UrgentPush")
		if len(pushes) == 0 {
			c.Undecided("R05.5", f.Name, "announcement push", f.Decl, "no queue push found")
		}
		np := 0
		for paramObj(f, np) != nil {
			np++
		}
		for _, ps := range pushes {
			failed := AtomCmp("push error != nil", func(v *V) bool { return v != nil && v.Kind == "call" && v.Node == ast.Node(ps.Call) }, "!=", isNilV)
			edges := g.AtomEdges(failed, true)
			if len(edges) == 0 {
				c.Bad("R05.5", f.Name, "failed announcement re-armed", ps.Call, "the result of the announcement push is not tested")
				continue
			}
			isRearm := func(n ast.Node) bool {
				gs, ok := n.(*ast.GoStmt)
				if !ok || p.CalleeName(f.Info(), gs.Call) != "(*PubSub).announceRetry" || len(gs.Call.Args) != 3 {
					return false
				}
				// same topic and flag as the announcement being made (the last two parameters of both functions)
				return isParam(f, np-2)(p.R(f).Val(gs.Call.Args[1])) && isParam(f, np-1)(p.R(f).Val(gs.Call.Args[2]))
			}
			for _, e := range edges {
				ok, _ := g.MustPass(EdgeTarget(e), PassOpts{Until: p.iterationUntil(f, ps.Call)}, isRearm)
				c.Check(ok, "R05.5", f.Name, "failed announcement re-armed", ps.Call, "every path from the failed push schedules announceRetry(peer, topic, flag)", "an announcement dropped because the peer's queue was full is not scheduled for a retry: the peer never learns of the (un)subscription")
			}
		}
	}
	if f := c.MustFn("R05.5", "(*PubSub).announceRetry"); f != nil {
		var thunk *Func
		for _, ch := range f.Children {
			if len(p.Sites(ch, false, "(*PubSub).doAnnounceRetry")) > 0 {
				thunk = ch
			}
		}
		if thunk == nil {
			c.Bad("R05.5", f.Name, "retry thunk", f.Decl, "the retry is not performed by a thunk that calls doAnnounceRetry")
		} else {
			g := p.Graph(thunk)
			look := func(field string) VPred {
				return func(v *V) bool { return v != nil && v.Kind == "lookupok" && v.Args[0].IsField(field) }
			}
			// subscriptions count unless the topic is fanout-only (R05.9 demands that this is consulted): the
			// subscription operand is the lookup itself or its conjunction with a negated fanout-only test
			subsHeld := func(v *V) bool {
				if look("PubSub.mySubs")(v) {
					return true
				}
				if v.Kind == "op" && v.Name == "&&" {
					for i := 0; i < 2; i++ {
						o := v.Args[1-i]
						if look("PubSub.mySubs")(v.Args[i]) && o.Kind == "unop" && o.Name == "!" && o.Has(func(x *V) bool { return x.IsField("Topic.fanoutOnly") }) {
							return true
						}
					}
				}
				return false
			}
			held := AtomBool("interest still held", func(v *V) bool {
				if v.Kind == "op" && v.Name == "||" {
					return (subsHeld(v.Args[0]) && look("PubSub.myRelays")(v.Args[1])) || (look("PubSub.myRelays")(v.Args[0]) && subsHeld(v.Args[1]))
				}
				return false
			})
			subA := AtomBool("announcing a subscription", isParam(thunk, 2))
			paths, err := g.EnumPaths([]NamedAtom{{"held", held}, {"sub", subA}}, 128)
			if err != nil {
				c.Undecided("R05.5", f.Name, "retry thunk paths", thunk.Lit, err.Error())
			} else {
				bad := ""
				nCall := 0
				for _, pi := range paths {
					called := false
					for _, n := range pi.Nodes {
						if p.NodeCalls(thunk, n, "(*PubSub).doAnnounceRetry") {
							called = true
						}
					}
					h, hk := pi.Val["held"]
					s, sk := pi.Val["sub"]
					if called {
						nCall++
					}
					if !hk || !sk {
						bad = "a path decides without testing both the current interest and the announced flag {" + pi.String() + "}"
					} else if called != (h == s) {
						if called {
							bad = "the retry is re-sent although the current state differs from the announcement {" + pi.String() + "}"
						} else {
							bad = "a still-valid retry is dropped {" + pi.String() + "}"
						}
					}
				}
				c.Check(bad == "" && nCall > 0, "R05.5", f.Name, "retry re-sent iff current interest == announced flag", thunk.Lit, itoa(len(paths))+" paths of the thunk agree with the table", bad)
			}
			// handed to the event loop
			okSend := false
			inspectNoLit(f.Body, func(x ast.Node) bool {
				if s, ok := x.(*ast.SendStmt); ok && p.R(f).Val(s.Chan).IsField("PubSub.eval") {
					if p.litArg(f, s.Value) == thunk {
						okSend = true
					}
				}
				return true
			})
			c.Check(okSend, "R05.5", f.Name, "retry runs inside the event loop", f.Decl, "the thunk is sent on p.eval", "the retry thunk is not handed to the event loop")
			callers := p.CallerNames("(*PubSub).doAnnounceRetry")
			ok, extra := subset(callers, f.Name)
			c.Check(ok, "R05.5", "doAnnounceRetry", "called only from the retry thunk", nil, strings.Join(callers, ","), "also from "+strings.Join(extra, ","))
		}
	}
	// R05.6 remote bookkeeping
	{
		// writers of inner maps of p.topics and of the outer map
		for _, f := range p.All {
			if p.IsGenerated(f.Body) || f.Pkg != p.Main {
				continue
			}
			root := f.Root().Name
			inner := func(e ast.Expr) bool {
				v := p.R(f).Val(e)
				if v == nil {
					return false
				}
				if (v.Kind == "index" || v.Kind == "lookupval" || v.Kind == "rangeval") && v.Args[0].IsField("PubSub.topics") {
					return true
				}
				if v.Kind == "var" && v.Obj != nil {
					for _, d := range p.R(f).Defs(v.Obj) {
						if d.kind == "assign" && d.rhs != nil {
							if dv := p.R(f).Val(d.rhs); (dv.Kind == "index" || dv.Kind == "lookupval") && dv.Args[0].IsField("PubSub.topics") {
								return true
							}
						}
					}
				}
				return false
			}
			for _, mi := range p.mapInserts(f) {
				if inner(mi.Map) {
					c.Check(root == fnHandleRPC, "R05.6", root, "remote interest recorded", mi.Stmt, "by handleIncomingRPC", "a peer is recorded as interested outside handleIncomingRPC")
				}
			}
			for _, d := range p.mapDeletes(f) {
				if inner(d.Map) {
					c.Check(inSet(root, fnHandleRPC, "(*PubSub).clearPeerFromTopicsState"), "R05.6", root, "remote interest removed", d.Call, "by handleIncomingRPC / clearPeerFromTopicsState", "remote interest is removed by an unexpected function")
				}
			}
		}
	}
	if f := c.MustFn("R05.6", fnHandleRPC); f != nil {
		g := p.Graph(f)
		var subsLoop *ast.RangeStmt
		for _, r := range p.RangesOver(f, func(v *V) bool {
			return v.Has(func(x *V) bool { return x.IsCall("pb.(*RPC).GetSubscriptions") }) || (v.Kind == "var" && v.Obj != nil && func() bool {
				// the (possibly filtered) local that holds the RPC's subscriptions
				for _, d := range p.R(f).Defs(v.Obj) {
					if d.rhs != nil && p.R(f).Val(d.rhs).Has(func(x *V) bool { return x.IsCall("pb.(*RPC).GetSubscriptions") }) {
						return true
					}
				}
				return false
			}())
		}) {
			subsLoop = r
		}
		if subsLoop == nil {
			c.Bad("R05.6", f.Name, "subscription bookkeeping loop", f.Decl, "no loop over the RPC's subscriptions")
		} else {
			lp, _ := g.Locate(subsLoop.X)
			dom := g.DominatedByNode(lp, p.callPred(f, rtAcceptFrom))
			c.Check(!dom, "R05.6", f.Name, "interest processed independently of AcceptFrom", subsLoop, "the subscription loop is not behind the router's AcceptFrom verdict", "subscription announcements are processed only after the router's AcceptFrom verdict: a graylisted peer's (un)subscriptions are lost")
			// reached on every path except inspector rejection / filter error
			inspErr := AtomCmp("inspector error != nil", func(v *V) bool { return v.IsCall("field:PubSub.appSpecificRpcInspector") }, "!=", isNilV)
			filtErr := AtomCmp("filter error != nil", func(v *V) bool {
				return v.Kind == "tuple" && v.Name == "1" && v.Args[0].IsCall("SubscriptionFilter.FilterIncomingSubscriptions")
			}, "!=", isNilV)
			anyErr := AtomCmp("err != nil", isErrorVar, "!=", isNilV)
			// ... and except for a blacklisted sender, which is in no topic (C16 R16.8)
			blFrom := AtomBool("blacklist.Contains(rpc.from)", func(v *V) bool {
				return v.IsCall(fnBLContains) && len(v.Args) == 2 && v.Args[1].IsField("RPC.from")
			})
			cut := g.CutAny(AtomWant{inspErr, true}, AtomWant{filtErr, true}, AtomWant{anyErr, true})
			for _, e := range g.AtomEdges(blFrom, true) {
				cut[e] = true
			}
			ok, _ := g.MustPass(g.Entry(), PassOpts{Cut: cut}, func(n ast.Node) bool { return n == ast.Node(subsLoop.X) })
			c.Check(ok, "R05.6", f.Name, "subscriptions of every inspected RPC are processed", subsLoop, "the loop is on every path except inspector rejection / filter error / blacklisted sender", "an RPC can be dropped before its subscription announcements are processed")
			if early, n := LoopHasEarlyExit(subsLoop); early {
				c.Bad("R05.6", f.Name, "subscription loop exhaustive", n, "the loop over subscriptions can be left early")
			}
		}
	}
	// removal of a registered queue is paired with clearing topic state and telling the router
	for _, fn := range []string{"(*PubSub).handleDeadPeers", fnProcessLoop} {
		f := c.MustFn("R05.6", fn)
		if f == nil {
			continue
		}
		g := p.Graph(f)
		for _, s := range p.StoresTo2(f, "PubSub.peers") {
			if s.Kind != "delete" || s.Fn != f {
				continue
			}
			// only removals of a peer whose queue was registered AND whose stream was up: in processLoop,
			// the newPeerError arm (stream never opened) and the blacklisted-new-stream arm (no hello sent) are exempt
			if fn == fnProcessLoop {
				cl := selectClauseOn(p, f, "PubSub.blacklistPeer")
				if cl == nil || !within(s.Node, cl) {
					continue
				}
			}
			sp, _ := g.Locate(s.Node)
			until := map[*cfgBlock]bool{}
			if fn == fnProcessLoop {
				_, _, until = forLoopOf(p, g, f)
			} else {
				until = p.iterationUntil(f, s.Node)
			}
			for _, req := range []string{"(*PubSub).clearPeerFromTopicsState", "PubSubRouter.OnClosedOutboundStream"} {
				pred := p.callPred(f, req)
				if req == "(*PubSub).clearPeerFromTopicsState" {
					// a peer whose writer is respawned in the same step is not gone: its announced topics stay (R05.8)
					inner := pred
					pred = func(n ast.Node) bool {
						if inner(n) {
							return true
						}
						if gs, ok := n.(*ast.GoStmt); ok {
							name := p.CalleeName(f.Info(), gs.Call)
							return name == "(*PubSub).handleNewPeerWithBackoff" || name == "(*PubSub).handleNewPeer"
						}
						return false
					}
				}
				ok, _ := g.MustPass(sp.After(), PassOpts{Until: until}, pred)
				c.Check(ok, "R05.6", f.Name, "queue removal paired with "+shortFn(req), s.Node, "always follows", "a peer's outbound queue is removed without "+shortFn(req))
			}
		}
	}
	if f := c.MustFn("R05.6", "(*PubSub).onClosedIncomingStream"); f != nil {
		ok, why := p.MustCallFromEntry(f, "(*PubSub).clearPeerFromTopicsState")
		c.Check(ok, "R05.6", f.Name, "closed inbound stream clears the peer's topic state", f.Decl, why, "a peer's interest entries can survive the close of its inbound stream (the stream they were learned on): "+why)
	}
	if f := c.MustFn("R05.6", "(*PubSub).clearPeerFromTopicsState"); f != nil {
		for _, r := range p.RangesOver(f, isFieldOf("PubSub.topics")) {
			g := p.Graph(f)
			present := lookupIn("peer in topic map", func(v *V) bool { return v.Kind == "rangeval" })
			ok, why := p.LoopBodyMust(f, r, g.AtomEdges(present, false), func(n ast.Node) bool {
				for _, d := range p.mapDeletes(f) {
					if contains(n, d.Call) && p.R(f).Val(d.Map).Kind == "rangeval" {
						return true
					}
				}
				return false
			})
			c.Check(ok, "R05.6", f.Name, "peer removed from every topic", r, why, why)
		}
	}
	c.Min["R05.1"] = 11
	c.Min["R05.2"] = 19
	c.Min["R05.3"] = 4
	c.Min["R05.4"] = 6
	c.Min["R05.5"] = 5
	c.Min["R05.6"] = 11
	checkInterestKept(c)
	// the hello packet carries the whole interest set: if it cannot be delivered the views never converge (shared with C11)
	checkHelloBounded(c)
}

func edgeCut(sets ...[]Edge) cutSet {
	cs := cutSet{}
	for _, s := range sets {
		for _, e := range s {
			cs[e] = true
		}
	}
	return cs
}

// announceableEdges: edges establishing `topic == nil || !topic.fanoutOnly` in any of its syntactic forms.
func announceableEdges(g *Graph, topicNil, notFanoutOnly Atom) []Edge {
	isFO := Atom{Desc: "fanout-only", Match: func(g *Graph, e ast.Expr) (bool, bool) { ok, s := notFanoutOnly.Match(g, e); return ok, !s }}
	notNil := Atom{Desc: "topic != nil", Match: func(g *Graph, e ast.Expr) (bool, bool) { ok, s := topicNil.Match(g, e); return ok, !s }}
	out := g.EdgesEither(topicNil, notFanoutOnly)
	out = append(out, g.EdgesNotBoth(notNil, isFO)...)
	return out
}

func notNilOrTrue(a Atom) Atom { return a }

// readsFieldDeep: f (or a function literal inside it, or an unexported same-package function it calls,
// one level) reads the struct field owner.name.
func readsFieldDeep(p *Prog, f *Func, field string, depth int) bool {
	found := false
	ast.Inspect(f.Body, func(x ast.Node) bool {
		if se, ok := x.(*ast.SelectorExpr); ok && !found {
			if sel := f.Info().Selections[se]; sel != nil && sel.Kind() == types.FieldVal {
				if p.R(f).Val(se).IsField(field) {
					found = true
				}
			}
		}
		return !found
	})
	if found || depth == 0 {
		return found
	}
	for _, cs := range p.FuncCalls(f, true) {
		if callee := p.Fn(cs.Name); callee != nil && callee != f && callee.Body != nil {
			if readsFieldDeep(p, callee, field, depth-1) {
				return true
			}
		}
	}
	return false
}

// R05.8 / R05.9: two more clauses of C05 that the audit of the unmodified tree showed to be violated.
func checkInterestKept(c *RuleCtx) {
	p := c.P
	// R05.8: a transient reset of OUR stream to a peer must not make us forget what the peer announced (that
	// came in over the peer's own stream, and the peer will not say it again). In handleDeadPeers no iteration
	// both clears the peer's topic state and respawns the writer for it.
	if f := c.MustFn("R05.8", "(*PubSub).handleDeadPeers"); f != nil {
		g := p.Graph(f)
		var respawn []ast.Node
		inspectNoLit(f.Body, func(x ast.Node) bool {
			if gs, ok := x.(*ast.GoStmt); ok {
				name := p.CalleeName(f.Info(), gs.Call)
				if name == "(*PubSub).handleNewPeerWithBackoff" || name == "(*PubSub).handleNewPeer" {
					respawn = append(respawn, gs)
				}
			}
			return true
		})
		if len(respawn) == 0 {
			c.Undecided("R05.8", f.Name, "writer respawn", f.Decl, "no `go handleNewPeer…` for a peer that is still connected")
		}
		clears := p.Sites(f, false, "(*PubSub).clearPeerFromTopicsState")
		n := 0
		for _, rs := range respawn {
			n++
			rp, ok := g.Locate(rs)
			if !ok {
				c.Undecided("R05.8", f.Name, "writer respawn", rs, "not located")
				continue
			}
			// stay within one iteration: do not follow edges back to the loop head
			cut := cutSet{}
			for blk := range p.iterationUntil(f, rs) {
				for _, b := range g.C.Blocks {
					for si, s := range b.Succs {
						if s == blk {
							cut[Edge{b, si}] = true
						}
					}
				}
			}
			bad := ""
			for _, cs := range clears {
				cp, ok := g.Locate(cs.Call)
				if !ok {
					continue
				}
				if g.ReachableFrom(cp.After(), rp, cut, nil) || g.ReachableFrom(rp.After(), cp, cut, nil) {
					bad = "clearPeerFromTopicsState at " + p.Pos(cs.Call) + " and the respawn at " + p.Pos(rs) + " lie on one path"
				}
			}
			c.Check(bad == "", "R05.8", f.Name, "a respawned peer keeps its announced topics", rs, "no path of an iteration both clears the topic state and respawns the writer", "when only our outbound stream to a still-connected peer dies, its announced interest is thrown away although it arrived over the peer's own, intact stream; the peer does not announce it again, so the node's list of peers in the topic stays wrong: "+bad)
		}
		// and a peer that is given up is still forgotten: every path that neither respawns nor skips an unknown peer clears
		known := AtomLookupOK("queue present in p.peers", isFieldOf("PubSub.peers"), nil)
		for _, e := range g.AtomEdges(known, true) {
			cut := cutSet{}
			ok, _ := g.MustPass(EdgeTarget(e), PassOpts{Cut: cut, Until: p.iterationUntil(f, condNodeOf(e))}, func(nd ast.Node) bool {
				if p.NodeCalls(f, nd, "(*PubSub).clearPeerFromTopicsState") {
					return true
				}
				for _, rs := range respawn {
					if nd == rs || contains(nd, rs) {
						return true
					}
				}
				return false
			})
			c.Check(ok, "R05.8", f.Name, "a dead peer is respawned or forgotten", condNodeOf(e), "every path of the iteration respawns the writer or clears the topic state", "a dead peer can be dropped from p.peers without being respawned and without its topic state being cleared")
		}
	}
	// R05.9: every function that decides from p.mySubs whether a subscription is announced consults the
	// topic's fanout-only mark (subscriptions on a fanout-only topic are never announced): sibling agreement
	// between the hello packet, the two subscription handlers and the announcement retry.
	n := 0
	for _, f := range p.All {
		if p.IsGenerated(f.Body) || f.Body == nil {
			continue
		}
		// deciders: read p.mySubs and emit/queue an announcement themselves
		readsSubs := false
		ast.Inspect(f.Body, func(x ast.Node) bool {
			if fl, ok := x.(*ast.FuncLit); ok && fl != f.Lit {
				return false
			}
			if se, ok := x.(*ast.SelectorExpr); ok {
				if p.R(f).Val(se).IsField("PubSub.mySubs") {
					readsSubs = true
				}
			}
			return true
		})
		if !readsSubs {
			continue
		}
		// the relay handlers look at mySubs only to see whether the relay is the first/last interest; a relay
		// cannot exist on a fanout-only topic (Topic.Relay refuses), so the mark does not concern them
		writesRelays := false
		for _, s := range p.StoresTo2(f, "PubSub.myRelays") {
			_ = s
			writesRelays = true
		}
		if writesRelays {
			continue
		}
		announces := len(p.Sites(f, false, "(*PubSub).announce", "(*PubSub).doAnnounceRetry")) > 0
		if !announces {
			// builds subscription options directly (hello packet)
			ast.Inspect(f.Body, func(x ast.Node) bool {
				if cl, ok := x.(*ast.CompositeLit); ok {
					if t := f.Info().TypeOf(cl); t != nil && strings.HasSuffix(t.String(), "pb.RPC_SubOpts") {
						announces = true
					}
				}
				return true
			})
		}
		if !announces {
			continue
		}
		n++
		// the mark must take part in the decision: some branch condition whose value depends on Topic.fanoutOnly
		// (through any locals) decides, by one of its edges, whether an announcing statement is reached
		ok := false
		g := p.Graph(f)
		var sites []ast.Node
		for _, cs := range p.Sites(f, false, "(*PubSub).announce", "(*PubSub).doAnnounceRetry") {
			sites = append(sites, cs.Call)
		}
		for _, mi := range p.mapInserts(f) {
			sites = append(sites, mi.Stmt)
		}
		for _, blk := range g.C.Blocks {
			cond := g.condOf[blk]
			if cond == nil || !blk.Live {
				continue
			}
			cv := p.R(f).Val(cond)
			dep := cv != nil && cv.Has(func(x *V) bool { return x.IsField("Topic.fanoutOnly") })
			if !dep {
				// a helper predicate (one level) that reads the mark
				for _, cs := range p.CallsIn(f, cond, false) {
					if callee := p.Fn(cs.Name); callee != nil && callee.Body != nil && readsFieldDeep(p, callee, "Topic.fanoutOnly", 0) {
						dep = true
					}
				}
			}
			if !dep {
				continue
			}
			for _, st := range sites {
				pt, located := g.Locate(st)
				if !located {
					continue
				}
				if g.Dominated(pt, []Edge{{blk, 0}}) || g.Dominated(pt, []Edge{{blk, 1}}) {
					ok = true
				}
			}
		}
		c.Check(ok, "R05.9", f.Name, "announcement decision consults the fanout-only mark", f.DeclNode(), "a branch that depends on Topic.fanoutOnly decides whether the announcement is made", "this function decides from p.mySubs whether a subscription is announced, but no branch that depends on Topic.fanoutOnly stands before the announcement (unlike its siblings): a subscription on a fanout-only topic, which must not be announced, is announced by it")
	}
	if n < 4 {
		c.Undecided("R05.9", "announcement deciders", "inventory", nil, "fewer deciders than known (hello packet, add/remove subscription, announce retry): "+itoa(n))
	}
	c.Min["R05.8"] = 2
	c.Min["R05.9"] = 4
}
