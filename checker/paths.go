package main

// Path enumeration for small acyclic functions: every entry->exit path with the
// valuation of named atoms it establishes (short-circuit operators are expanded
// into alternatives, contradictory valuations are pruned).

import (
	"fmt"
	"go/ast"
	"go/constant"
	"go/token"
	"go/types"

	"golang.org/x/tools/go/cfg"
)

type NamedAtom struct {
	Name string
	A    Atom
}

type PathInfo struct {
	Val     map[string]bool // atoms established on the path
	Nodes   []ast.Node      // CFG nodes passed, in order
	Exit    *cfg.Block
	Ret     *ast.ReturnStmt // nil if control falls off the end / panics
	Stopped ast.Node        // set when the path ended at a StopAt node
}

type literal struct {
	e     ast.Expr
	truth bool
}

// dnf expands "condition == truth" into alternatives of leaf literals (short-circuit order). It works on
// the boolean structure of the canonical value (boolean locals unfolded), so `atomic := !p.Skip; if atomic ||`
// yields the same literals as the inlined condition.
func dnf(g *Graph, e ast.Expr, truth bool, whole func(ast.Expr) bool) [][]literal {
	return dnfForm(g.formulaOf(e), truth, whole)
}

// whole(e) reports that some atom recognises the compound expression e as a unit: it is then a leaf.
func dnfForm(f *bform, truth bool, whole func(ast.Expr) bool) [][]literal {
	if f.op == "root" {
		return dnfForm(f.kids[0], truth, whole)
	}
	if f.op != "leaf" && f.expr != nil && whole != nil && whole(f.expr) {
		return [][]literal{{{f.expr, truth}}}
	}
	switch f.op {
	case "not":
		return dnfForm(f.kids[0], !truth, whole)
	case "and", "or":
		isAnd := f.op == "and"
		// (A && B) true  = A true , B true            (product)
		// (A && B) false = A false | A true , B false  (short-circuit order)
		// (A || B) true  = A true | A false , B true
		// (A || B) false = A false , B false
		if (isAnd && truth) || (!isAnd && !truth) {
			var out [][]literal
			for _, a := range dnfForm(f.kids[0], truth, whole) {
				for _, b := range dnfForm(f.kids[1], truth, whole) {
					out = append(out, append(append([]literal{}, a...), b...))
				}
			}
			return out
		}
		out := dnfForm(f.kids[0], truth, whole)
		for _, a := range dnfForm(f.kids[0], !truth, whole) {
			for _, b := range dnfForm(f.kids[1], truth, whole) {
				out = append(out, append(append([]literal{}, a...), b...))
			}
		}
		return out
	}
	return [][]literal{{{f.leaf, truth}}}
}

// EnumOpts: StopAt ends a path at the first node satisfying it (the node is recorded in Stopped);
// BoolVars enables constant propagation of local boolean flags along each path.
type EnumOpts struct {
	StopAt   func(ast.Node) bool
	BoolVars bool
}

func (g *Graph) EnumPaths(atoms []NamedAtom, maxPaths int) ([]PathInfo, error) {
	return g.EnumPathsOpt(atoms, maxPaths, EnumOpts{})
}

func (g *Graph) EnumPathsOpt(atoms []NamedAtom, maxPaths int, opt EnumOpts) ([]PathInfo, error) {
	var out []PathInfo
	info := g.F.Info()
	boolConst := func(e ast.Expr) (bool, bool) {
		if tv, ok := info.Types[e]; ok && tv.Value != nil && tv.Value.Kind() == constant.Bool {
			return constant.BoolVal(tv.Value), true
		}
		return false, false
	}
	varOf := func(e ast.Expr) types.Object {
		if id, ok := unparen(e).(*ast.Ident); ok {
			if o, ok := info.Uses[id].(*types.Var); ok && !o.IsField() {
				return o
			}
			if o, ok := info.Defs[id].(*types.Var); ok {
				return o
			}
		}
		return nil
	}
	type benv map[types.Object]bool
	fi := g.flags()
	whole := func(e ast.Expr) bool {
		for _, na := range atoms {
			if ok, _ := na.A.Match(g, e); ok {
				return true
			}
		}
		return false
	}
	onStack := map[*cfg.Block]bool{}
	var err error
	var initFe flagEnv
	if fi != nil {
		initFe = make(flagEnv, len(fi.idx))
	}
	var walkE func(b *cfg.Block, val map[string]bool, nodes []ast.Node, env benv, fe flagEnv)
	walk := func(b *cfg.Block, val map[string]bool, nodes []ast.Node) { walkE(b, val, nodes, benv{}, initFe) }
	walkE = func(b *cfg.Block, val map[string]bool, nodes []ast.Node, env benv, fe flagEnv) {
		walk := func(b *cfg.Block, val map[string]bool, nodes []ast.Node) { walkE(b, val, nodes, env, fe) }
		if err != nil {
			return
		}
		if onStack[b] {
			err = fmt.Errorf("control-flow cycle through block %d: the function is not acyclic", b.Index)
			return
		}
		onStack[b] = true
		defer func() { onStack[b] = false }()
		nodes = append([]ast.Node{}, nodes...)
		for _, n := range b.Nodes {
			nodes = append(nodes, n)
			if opt.StopAt != nil && opt.StopAt(n) {
				out = append(out, PathInfo{Val: val, Nodes: nodes, Exit: b, Stopped: n})
				if len(out) > maxPaths {
					err = fmt.Errorf("more than %d paths", maxPaths)
				}
				return
			}
			if fi != nil {
				fe = fi.apply(fe, n)
			}
			if opt.BoolVars {
				// flag := <bool const> / flag = <bool const>; anything else assigned to a tracked flag forgets it
				var lhs, rhs []ast.Expr
				switch s := n.(type) {
				case *ast.AssignStmt:
					lhs, rhs = s.Lhs, s.Rhs
				case *ast.ValueSpec:
					for _, id := range s.Names {
						lhs = append(lhs, id)
					}
					rhs = s.Values
				}
				if len(lhs) > 0 {
					ne := benv{}
					for k, v := range env {
						ne[k] = v
					}
					for i, l := range lhs {
						o := varOf(l)
						if o == nil {
							continue
						}
						delete(ne, o)
						if len(rhs) == len(lhs) {
							if bv, ok := boolConst(rhs[i]); ok {
								ne[o] = bv
							}
						}
					}
					env = ne
				}
			}
		}
		if isSelectDeadEnd(b) {
			return
		}
		if len(b.Succs) == 0 {
			pi := PathInfo{Val: val, Nodes: nodes, Exit: b}
			if len(b.Nodes) > 0 {
				if r, ok := b.Nodes[len(b.Nodes)-1].(*ast.ReturnStmt); ok {
					pi.Ret = r
				}
			}
			out = append(out, pi)
			if len(out) > maxPaths {
				err = fmt.Errorf("more than %d paths", maxPaths)
			}
			return
		}
		cond := g.condOf[b]
		for si, s := range b.Succs {
			if cond == nil || len(b.Succs) != 2 {
				walk(s, val, nodes)
				continue
			}
			if fi != nil && !g.feasible(fi, b, si, fe) {
				continue // refuted by the constant / nil-ness flags set earlier on this path
			}
			for _, alt := range dnf(g, cond, si == 0, whole) {
				nv := map[string]bool{}
				for k, v := range val {
					nv[k] = v
				}
				feasible := true
				for _, lit := range alt {
					if opt.BoolVars {
						if o := varOf(lit.e); o != nil {
							if known, ok := env[o]; ok && known != lit.truth {
								feasible = false
							}
						}
					}
					if lit.e == nil {
						continue
					}
					for _, na := range atoms {
						if ok, sense := matchN(g, na.A, lit.e); ok {
							v := lit.truth == sense
							if old, had := nv[na.Name]; had && old != v {
								feasible = false
							}
							nv[na.Name] = v
						}
					}
				}
				if feasible {
					walk(s, nv, nodes)
				}
			}
		}
	}
	walk(g.C.Blocks[0], map[string]bool{}, nil)
	return out, err
}

// Tri-valued evaluation of a formula over a partial valuation.
type Formula func(get func(name string) (val, known bool)) (val, known bool)

func FAtom(name string) Formula {
	return func(get func(string) (bool, bool)) (bool, bool) { return get(name) }
}
func FNot(f Formula) Formula {
	return func(get func(string) (bool, bool)) (bool, bool) {
		v, k := f(get)
		return !v, k
	}
}
func FAnd(fs ...Formula) Formula {
	return func(get func(string) (bool, bool)) (bool, bool) {
		allKnown := true
		for _, f := range fs {
			v, k := f(get)
			if k && !v {
				return false, true
			}
			if !k {
				allKnown = false
			}
		}
		return true, allKnown
	}
}
func FOr(fs ...Formula) Formula {
	return func(get func(string) (bool, bool)) (bool, bool) {
		allKnown := true
		for _, f := range fs {
			v, k := f(get)
			if k && v {
				return true, true
			}
			if !k {
				allKnown = false
			}
		}
		return false, allKnown
	}
}

func (pi PathInfo) Eval(f Formula) (val, known bool) {
	return f(func(n string) (bool, bool) {
		v, ok := pi.Val[n]
		return v, ok
	})
}

func (pi PathInfo) String() string {
	s := ""
	for k, v := range pi.Val {
		s += fmt.Sprintf("%s=%v ", k, v)
	}
	return s
}

// AtomEdgesNotBoth returns the edges on which "not (A and B)" is established:
// A false, B false, or the false edge of a conjunction of the two.
func (g *Graph) EdgesNotBoth(a, b Atom) []Edge {
	set := map[Edge]bool{}
	for _, e := range g.AtomEdges(a, false) {
		set[e] = true
	}
	for _, e := range g.AtomEdges(b, false) {
		set[e] = true
	}
	for _, blk := range g.C.Blocks {
		if !blk.Live || g.condOf[blk] == nil {
			continue
		}
		for s := 0; s < 2; s++ {
			e := Edge{blk, s}
			for _, f := range g.EdgeFacts(e) {
				be, ok := unparen(f.E).(*ast.BinaryExpr)
				if !ok || be.Op != token.LAND || f.Truth {
					continue
				}
				okA, sA := matchN(g, a, be.X)
				okB, sB := matchN(g, b, be.Y)
				if !(okA && okB) {
					okA, sA = matchN(g, a, be.Y)
					okB, sB = matchN(g, b, be.X)
				}
				if okA && okB && sA && sB {
					set[e] = true
				}
			}
		}
	}
	for _, e := range g.EdgesEntailing(AtomWant{a, false}, AtomWant{b, false}) {
		set[e] = true
	}
	var out []Edge
	for e := range set {
		out = append(out, e)
	}
	return out
}

// EdgesEither returns the edges on which "A or B" is established.
func (g *Graph) EdgesEither(a, b Atom) []Edge {
	set := map[Edge]bool{}
	for _, e := range g.AtomEdges(a, true) {
		set[e] = true
	}
	for _, e := range g.AtomEdges(b, true) {
		set[e] = true
	}
	for _, blk := range g.C.Blocks {
		if !blk.Live || g.condOf[blk] == nil {
			continue
		}
		for s := 0; s < 2; s++ {
			e := Edge{blk, s}
			for _, f := range g.EdgeFacts(e) {
				be, ok := unparen(f.E).(*ast.BinaryExpr)
				if !ok || be.Op != token.LOR || !f.Truth {
					continue
				}
				okA, sA := matchN(g, a, be.X)
				okB, sB := matchN(g, b, be.Y)
				if !(okA && okB) {
					okA, sA = matchN(g, a, be.Y)
					okB, sB = matchN(g, b, be.X)
				}
				if okA && okB && sA && sB {
					set[e] = true
				}
			}
		}
	}
	for _, e := range g.EdgesEntailing(AtomWant{a, true}, AtomWant{b, true}) {
		set[e] = true
	}
	var out []Edge
	for e := range set {
		out = append(out, e)
	}
	return out
}

// DomEdges: target dominated by the given edge set.
func (p *Prog) DomEdges(f *Func, target ast.Node, edges []Edge) bool {
	g := p.Graph(f)
	pt, ok := g.Locate(target)
	if !ok {
		return false
	}
	return g.Dominated(pt, edges)
}

// matchN matches an atom against an expression, looking through leading negations.
func matchN(g *Graph, a Atom, e ast.Expr) (bool, bool) {
	flip := false
	e = unparen(e)
	for {
		u, ok := e.(*ast.UnaryExpr)
		if !ok || u.Op != token.NOT {
			break
		}
		flip = !flip
		e = unparen(u.X)
	}
	ok, s := a.Match(g, e)
	if flip {
		s = !s
	}
	return ok, s
}

// EdgesRefutingAll returns the edges on which the conjunction of the atoms is refuted:
// some atom is false, or the edge is the false edge of a conjunction all of whose leaves are among the atoms.
func (g *Graph) EdgesRefutingAll(atoms ...Atom) []Edge {
	set := map[Edge]bool{}
	for _, a := range atoms {
		for _, e := range g.AtomEdges(a, false) {
			set[e] = true
		}
	}
	var leavesAll func(e ast.Expr) bool
	leavesAll = func(e ast.Expr) bool {
		e = unparen(e)
		if be, ok := e.(*ast.BinaryExpr); ok && be.Op == token.LAND {
			return leavesAll(be.X) && leavesAll(be.Y)
		}
		for _, a := range atoms {
			if ok, s := matchN(g, a, e); ok && s {
				return true
			}
		}
		return false
	}
	for _, blk := range g.C.Blocks {
		if !blk.Live || g.condOf[blk] == nil {
			continue
		}
		for s := 0; s < 2; s++ {
			e := Edge{blk, s}
			for _, f := range g.EdgeFacts(e) {
				be, ok := unparen(f.E).(*ast.BinaryExpr)
				if ok && be.Op == token.LAND && !f.Truth && leavesAll(be) {
					set[e] = true
				}
			}
		}
	}
	var lits []AtomWant
	for _, a := range atoms {
		lits = append(lits, AtomWant{a, false})
	}
	for _, e := range g.EdgesEntailing(lits...) {
		set[e] = true
	}
	var out []Edge
	for e := range set {
		out = append(out, e)
	}
	return out
}
