package main

// R10.8 NaN hygiene of accepted parameters (C10: "for every parameter set the library accepts computing a
// score never fails or yields NaN"). Structural necessary condition: every float64 parameter that reaches the
// score unconditionally is tested with isInvalidNumber on every accepting path of its validator (or is known
// to be zero there: the dismissed zero groups of non-atomic mode). "Reaches unconditionally":
//   - every weight W of a term `sum += Q * W` in score() (NaN * 0 is NaN, so a disabled component does not help);
//   - every decay factor D with `C *= D` for a stored counter C whose term is added without a comparison on C
//     guarding it (a NaN counter fails every comparison, so guarded terms drop out by themselves).
// The inventory is recomputed from score()/refreshScores() on every run.

import (
	"go/ast"
	"go/token"
	"go/types"
	"sort"
	"strings"
)

func checkNaNHygiene(c *RuleCtx) {
	p := c.P
	f := c.MustFn("R10.8", "(*peerScore).score")
	if f == nil {
		return
	}
	isParamField := func(v *V) (string, bool) {
		if v == nil || v.Kind != "field" {
			return "", false
		}
		if !strings.HasPrefix(v.Name, "TopicScoreParams.") && !strings.HasPrefix(v.Name, "PeerScoreParams.") {
			return "", false
		}
		if fv, ok := v.Obj.(*types.Var); ok {
			if b, ok := fv.Type().Underlying().(*types.Basic); ok && b.Kind() == types.Float64 {
				return v.Name, true
			}
		}
		return "", false
	}
	isCounterField := func(v *V) (string, bool) {
		if v == nil || v.Kind != "field" {
			return "", false
		}
		if !strings.HasPrefix(v.Name, "topicStats.") && !strings.HasPrefix(v.Name, "peerStats.") {
			return "", false
		}
		if fv, ok := v.Obj.(*types.Var); ok {
			if b, ok := fv.Type().Underlying().(*types.Basic); ok && b.Kind() == types.Float64 {
				return v.Name, true
			}
		}
		return "", false
	}
	need := map[string]string{} // parameter field -> why it reaches the score unconditionally
	unguardedCounters := map[string]bool{}
	g := p.Graph(f)
	inspectNoLit(f.Body, func(x ast.Node) bool {
		as, ok := x.(*ast.AssignStmt)
		if !ok || as.Tok != token.ADD_ASSIGN || len(as.Rhs) != 1 {
			return true
		}
		if t := f.Info().TypeOf(as.Lhs[0]); t == nil || t.String() != "float64" {
			return true
		}
		rv := p.R(f).Val(as.Rhs[0])
		if rv.Kind != "op" || rv.Name != "*" {
			return true
		}
		for i, a := range rv.Args {
			if w, ok := isParamField(a); ok {
				need[w] = "weight of the score term at " + p.Pos(as)
				q := rv.Args[1-i]
				// counters inside the quantity, and whether a comparison on them guards the addition
				q.Has(func(y *V) bool {
					cn, ok := isCounterField(y)
					if !ok {
						return false
					}
					guard := Atom{Desc: "comparison on " + cn, Match: func(g *Graph, e ast.Expr) (bool, bool) {
						be, ok := unparen(e).(*ast.BinaryExpr)
						if !ok || negOp(be.Op.String()) == "" {
							return false, false
						}
						has := func(z ast.Expr) bool { return g.P.R(g.F).Val(z).Has(func(u *V) bool { return u.IsField(cn) }) }
						return has(be.X) || has(be.Y), true
					}}
					edges := append(g.AtomEdges(guard, true), g.AtomEdges(guard, false)...)
					pt, located := g.Locate(as)
					if !located || len(edges) == 0 || !g.Dominated(pt, edges) {
						unguardedCounters[cn] = true
					}
					return false
				})
			}
		}
		return true
	})
	// decay factors of unguarded counters: C *= D anywhere in the module
	for _, s := range p.AllStores() {
		if !unguardedCounters[s.Field] || (s.Kind != "opassign" && s.Kind != "elem-opassign") || s.Tok != token.MUL_ASSIGN || s.RHS == nil {
			continue
		}
		if d, ok := isParamField(p.R(s.Fn).Val(s.RHS)); ok {
			need[d] = "decay factor of " + s.Field + " (multiplied in at " + p.Pos(s.Node) + "), whose score term is added without a guard on the counter"
		}
	}
	if len(need) < 8 {
		c.Undecided("R10.8", f.Name, "parameter inventory", f.Decl, "fewer float parameters reach the score than known ("+itoa(len(need))+")")
	}
	var names []string
	for n := range need {
		names = append(names, n)
	}
	sort.Strings(names)
	for _, fld := range names {
		owner := fld[:strings.Index(fld, ".")]
		isF := isFieldOf(fld)
		nanTest := AtomBool("isInvalidNumber("+fld+")", func(v *V) bool {
			return v.IsCall("isInvalidNumber") && len(v.Args) == 1 && isF(v.Args[0])
		})
		zero := AtomCmp(fld+" == 0", isF, "==", isZero)
		// the validator of the owning struct that tests this field
		var vf *Func
		for _, cand := range p.All {
			if cand.Parent != nil || cand.Obj == nil || !strings.HasPrefix(cand.Name, "(*"+owner+").validate") {
				continue
			}
			for _, cs := range p.FuncCalls(cand, false) {
				if cs.Name == "isInvalidNumber" && len(cs.Call.Args) == 1 && isF(p.R(cand).Val(cs.Call.Args[0])) {
					vf = cand
				}
			}
		}
		if vf == nil {
			c.Bad("R10.8", "(*"+owner+").validate", fld+" tested for NaN/Inf", nil, "no validator of "+owner+" tests "+fld+" with isInvalidNumber although it is the "+need[fld]+": a NaN or infinite value is accepted and makes every score NaN")
			continue
		}
		n := 0
		returnsIn(vf, func(r *ast.ReturnStmt) {
			if len(r.Results) != 1 || !isNilV(p.R(vf).Val(r.Results[0])) {
				return
			}
			n++
			ok, why := p.DomAny(vf, r, AtomWant{nanTest, false}, AtomWant{zero, true})
			suffix := ""
			if n > 1 {
				suffix = "#" + itoa(n)
			}
			c.Check(ok, "R10.8", vf.Name, fld+" accepted only if finite"+suffix, r, why, "parameters can be accepted without "+fld+" having passed isInvalidNumber (it is the "+need[fld]+"): a NaN/Inf value makes the score NaN: "+why)
		})
		if n == 0 {
			c.Undecided("R10.8", vf.Name, fld+" accepting return", vf.Decl, "no `return nil`")
		}
	}
	c.Min["R10.8"] = 10
}
