package main

// R10.8 NaN hygiene of accepted parameters (C10: "for every parameter set the library accepts computing a
// score never fails or yields NaN"). Structural necessary condition: every float64 parameter that reaches the
// score unconditionally is tested with isInvalidNumber on every accepting path of its validator (or is known
// to be zero there: the dismissed zero groups of non-atomic mode). "Reaches unconditionally":
//   - every weight W of a term `sum += Q * W` in score() (NaN * 0 is NaN, so a disabled component does not help);
//   - every decay factor D with `C *= D` for a stored counter C whose term is added without a comparison on C
//     guarding it (a NaN counter fails every comparison, so guarded terms drop out by themselves).
// The inventory is recomputed from score()/refreshScores() on every run.

import (
	"go/ast"
	"go/token"
	"go/types"
	"sort"
	"strings"
)

func checkNaNHygiene(c *RuleCtx) {
	p := c.P
	f := c.MustFn("R10.8", "(*peerScore).score")
	if f == nil {
		return
	}
	isParamField := func(v *V) (string, bool) {
		if v == nil || v.Kind != "field" {
			return "", false
		}
		if !strings.HasPrefix(v.Name, "TopicScoreParams.") && !strings.HasPrefix(v.Name, "PeerScoreParams.") {
			return "", false
		}
		if fv, ok := v.Obj.(*types.Var); ok {
			if b, ok := fv.Type().Underlying().(*types.Basic); ok && b.Kind() == types.Float64 {
				return v.Name, true
			}
		}
		return "", false
	}
	isCounterField := func(v *V) (string, bool) {
		if v == nil || v.Kind != "field" {
			return "", false
		}
		if !strings.HasPrefix(v.Name, "topicStats.") && !strings.HasPrefix(v.Name, "peerStats.") {
			return "", false
		}
		if fv, ok := v.Obj.(*types.Var); ok {
			if b, ok := fv.Type().Underlying().(*types.Basic); ok && b.Kind() == types.Float64 {
				return v.Name, true
			}
		}
		return "", false
	}
	need := map[string]string{} // parameter field -> why it reaches the score unconditionally
	unguardedCounters := map[string]bool{}
	g := p.Graph(f)
	inspectNoLit(f.Body, func(x ast.Node) bool {
		as, ok := x.(*ast.AssignStmt)
		if !ok || as.Tok != token.ADD_ASSIGN || len(as.Rhs) != 1 {
			return true
		}
		if t := f.Info().TypeOf(as.Lhs[0]); t == nil || t.String() != "float64" {
			return true
		}
		rv := p.R(f).Val(as.Rhs[0])
		if rv.Kind != "op" || rv.Name != "*" {
			return true
		}
		for i, a := range rv.Args {
			if w, ok := isParamField(a); ok {
				need[w] = "weight of the score term at " + p.Pos(as)
				q := rv.Args[1-i]
				// counters inside the quantity, and whether a comparison on them guards the addition
				q.Has(func(y *V) bool {
					cn, ok := isCounterField(y)
					if !ok {
						return false
					}
					guard := Atom{Desc: "comparison on " + cn, Match: func(g *Graph, e ast.Expr) (bool, bool) {
						be, ok := unparen(e).(*ast.BinaryExpr)
						if !ok || negOp(be.Op.String()) == "" {
							return false, false
						}
						has := func(z ast.Expr) bool { return g.P.R(g.F).Val(z).Has(func(u *V) bool { return u.IsField(cn) }) }
						return has(be.X) || has(be.Y), true
					}}
					edges := append(g.AtomEdges(guard, true), g.AtomEdges(guard, false)...)
					pt, located := g.Locate(as)
					if !located || len(edges) == 0 || !g.Dominated(pt, edges) {
						unguardedCounters[cn] = true
					}
					return false
				})
			}
		}
		return true
	})
	// decay factors: C *= D anywhere in the module. A decay reaches the stored counter whether or not the
	// counter's term is guarded or weighted: an infinite or >1 factor drives the counter to +Inf (above its cap),
	// where comparisons guarding the term are true and Inf * 0 is NaN
	decays := map[string]string{}
	for _, s := range p.AllStores() {
		if (s.Kind != "opassign" && s.Kind != "elem-opassign") || s.Tok != token.MUL_ASSIGN || s.RHS == nil {
			continue
		}
		if _, isCtr := map[string]bool{}[s.Field]; isCtr {
			continue
		}
		if !strings.HasPrefix(s.Field, "topicStats.") && !strings.HasPrefix(s.Field, "peerStats.") {
			continue
		}
		if d, ok := isParamField(p.R(s.Fn).Val(s.RHS)); ok {
			decays[d] = "decay factor of " + s.Field + " (multiplied in at " + p.Pos(s.Node) + ")"
			if _, have := need[d]; !have {
				need[d] = decays[d]
			}
		}
	}
	_ = unguardedCounters
	// every other float64 parameter: thresholds and caps take part in comparisons and differences whose result is
	// multiplied by a weight that may be zero (Inf * 0), so a non-finite value is never harmless
	for _, owner := range []string{"TopicScoreParams", "PeerScoreParams"} {
		for _, fld := range p.StructFloatFields(owner) {
			if _, have := need[fld]; !have {
				need[fld] = "float parameter of " + owner + " (thresholds and caps are compared with and subtracted from counters; a non-finite value reaches the score as Inf * 0 even when the component is disabled)"
			}
		}
	}
	if len(need) < 20 || len(decays) < 5 {
		c.Undecided("R10.8", f.Name, "parameter inventory", f.Decl, "fewer float parameters / decay factors than known ("+itoa(len(need))+"/"+itoa(len(decays))+")")
	}
	var names []string
	for n := range need {
		names = append(names, n)
	}
	sort.Strings(names)
	for _, fld := range names {
		owner := fld[:strings.Index(fld, ".")]
		isF := isFieldOf(fld)
		nanTest := AtomBool("isInvalidNumber("+fld+")", func(v *V) bool {
			return v.IsCall("isInvalidNumber") && len(v.Args) == 1 && isF(v.Args[0])
		})
		zero := AtomCmp(fld+" == 0", isF, "==", isZero)
		// the validator of the owning struct that tests this field
		var vf *Func
		for _, cand := range p.All {
			if cand.Parent != nil || cand.Obj == nil || !strings.HasPrefix(cand.Name, "(*"+owner+").validate") {
				continue
			}
			for _, cs := range p.FuncCalls(cand, false) {
				if cs.Name == "isInvalidNumber" && len(cs.Call.Args) == 1 && isF(p.R(cand).Val(cs.Call.Args[0])) {
					vf = cand
				}
			}
		}
		if vf == nil {
			c.Bad("R10.8", "(*"+owner+").validate", fld+" tested for NaN/Inf", nil, "no validator of "+owner+" tests "+fld+" with isInvalidNumber although it is the "+need[fld]+": a NaN or infinite value is accepted and makes every score NaN")
			continue
		}
		n := 0
		returnsIn(vf, func(r *ast.ReturnStmt) {
			if len(r.Results) != 1 || !isNilV(p.R(vf).Val(r.Results[0])) {
				return
			}
			n++
			ok, why := p.DomAny(vf, r, AtomWant{nanTest, false}, AtomWant{zero, true})
			suffix := ""
			if n > 1 {
				suffix = "#" + itoa(n)
			}
			c.Check(ok, "R10.8", vf.Name, fld+" accepted only if finite"+suffix, r, why, "parameters can be accepted without "+fld+" having passed isInvalidNumber (it is the "+need[fld]+"): a NaN/Inf value makes the score NaN: "+why)
		})
		if n == 0 {
			c.Undecided("R10.8", vf.Name, fld+" accepting return", vf.Decl, "no `return nil`")
		}
		// counter caps: the clamp `C > cap => C = cap` makes a counter negative at its first increment when the cap is
		// negative ("counters never become negative"), whether or not the component's weight is zero
		if strings.HasSuffix(fld, "MessageDeliveriesCap") {
			neg := AtomCmp(fld+" < 0", isF, "<", isZero)
			le0 := AtomCmp(fld+" <= 0", isF, "<=", isZero)
			k := 0
			returnsIn(vf, func(r *ast.ReturnStmt) {
				if len(r.Results) != 1 || !isNilV(p.R(vf).Val(r.Results[0])) {
					return
				}
				k++
				ok, why := p.DomAny(vf, r, AtomWant{neg, false}, AtomWant{le0, false}, AtomWant{zero, true})
				suffix := ""
				if k > 1 {
					suffix = "#" + itoa(k)
				}
				c.Check(ok, "R10.8", vf.Name, fld+" accepted only if not negative"+suffix, r, why, "parameters can be accepted with a negative "+fld+": the clamp against the cap then sets the counter to that negative value at its first increment: "+why)
			})
		}
		if why, isDecay := decays[fld]; isDecay {
			le0 := AtomCmp(fld+" <= 0", isF, "<=", isZero)
			ge1 := AtomCmp(fld+" >= 1", isF, ">=", func(v *V) bool {
				return v != nil && (v.Kind == "lit" || v.Kind == "const") && (v.Name == "1" || v.Name == "1.0")
			})
			k := 0
			returnsIn(vf, func(r *ast.ReturnStmt) {
				if len(r.Results) != 1 || !isNilV(p.R(vf).Val(r.Results[0])) {
					return
				}
				k++
				ok1, why1 := p.DomAny(vf, r, AtomWant{le0, false}, AtomWant{zero, true})
				ok2, why2 := p.DomAny(vf, r, AtomWant{ge1, false}, AtomWant{zero, true})
				suffix := ""
				if k > 1 {
					suffix = "#" + itoa(k)
				}
				w := why1
				if ok1 {
					w = why2
				}
				c.Check(ok1 && ok2, "R10.8", vf.Name, fld+" accepted only if inside (0,1) or left at 0"+suffix, r, w, "parameters can be accepted with "+fld+" outside (0,1) (it is the "+why+"): a factor >= 1 lets the counter grow past its cap to +Inf, where the disabled term is Inf * 0 = NaN: "+w)
			})
		}
	}
	c.Min["R10.8"] = 30
}

// R10.9 the colocation term is a sum over the peer's address list (ipColocationFactor ranges over
// pstats.ips and adds one squared surplus per element), so the list must not repeat an address: a peer
// with two connections from one address would be charged twice for it. Decided on the producer: what
// getIPs returns is either de-duplicated as a whole (slices.Compact of a sorted slice) or built by appends
// that are each behind a not-yet-seen test on the appended value.
func checkIPListDistinct(c *RuleCtx) {
	p := c.P
	f := c.MustFn("R10.9", "(*peerScore).getIPs")
	if f == nil {
		return
	}
	g := p.Graph(f)
	isCall := func(v *V, names ...string) bool {
		if v == nil || v.Kind != "call" {
			return false
		}
		for _, n := range names {
			if v.Name == n || strings.HasPrefix(v.Name, n+"[") {
				return true
			}
		}
		return false
	}
	sorts := func(n ast.Node) bool {
		for _, cs := range p.CallsIn(f, n, false) {
			if cs.Name == "slices.Sort" || strings.HasPrefix(cs.Name, "slices.Sort[") || cs.Name == "sort.Strings" {
				return true
			}
		}
		return false
	}
	n := 0
	returnsIn(f, func(r *ast.ReturnStmt) {
		if len(r.Results) != 1 {
			return
		}
		v := p.R(f).Val(r.Results[0])
		if isNilV(v) {
			return
		}
		n++
		suffix := ""
		if n > 1 {
			suffix = "#" + itoa(n)
		}
		pt, _ := g.Locate(r)
		if isCall(v, "slices.Compact") {
			ok := g.DominatedByNode(pt, sorts)
			c.Check(ok, "R10.9", f.Name, "returned address list has no repeated element"+suffix, r, "slices.Compact of a slice sorted on every path", "slices.Compact only removes adjacent duplicates and the slice is not sorted on every path")
			return
		}
		// appends behind a not-seen test
		all, k := true, 0
		why := ""
		for _, ap := range p.localAppends(f) {
			as := ap.Stmt
			if as == nil || len(as.Rhs) != 1 {
				continue
			}
			ce, isC := unparen(as.Rhs[0]).(*ast.CallExpr)
			if !isC || len(ce.Args) < 2 {
				continue
			}
			if t := f.Info().TypeOf(as.Lhs[0]); t == nil || t.String() != "[]string" {
				continue
			}
			k++
			for _, a := range ce.Args[1:] {
				av := p.R(f).Val(a)
				seen := AtomBool("value already in the list", func(x *V) bool {
					return (x.Kind == "lookupok" && x.Args[1].Equal(av)) || (isCall(x, "slices.Contains") && len(x.Args) == 2 && x.Args[1].Equal(av))
				})
				if ok, _ := p.DomAny(f, as, AtomWant{seen, false}); !ok {
					all = false
					why = "the append at " + p.Pos(as) + " is not behind a not-yet-seen test on the appended address"
				}
			}
		}
		if k == 0 {
			all = false
			why = "no append to the address list found"
		}
		c.Check(all, "R10.9", f.Name, "returned address list has no repeated element"+suffix, r, "every append is behind a not-yet-seen test", "the list of addresses a peer is charged for can contain the same address more than once (one entry per connection): ipColocationFactor adds the squared surplus once per element, so a peer with two connections from one address is charged twice; "+why)
	})
	if n == 0 {
		c.Undecided("R10.9", f.Name, "returned address list", f.Decl, "no non-nil return")
	}
	// the consumer really is a per-element sum
	if cf := c.MustFn("R10.9", "(*peerScore).ipColocationFactor"); cf != nil {
		rs := p.RangesOver(cf, func(v *V) bool { return v.IsField("peerStats.ips") })
		c.Check(len(rs) == 1, "R10.9", cf.Name, "colocation term sums over the peer's address list", cf.Decl, "one loop over pstats.ips", "ipColocationFactor no longer ranges over pstats.ips (rule premise changed)")
	}
	c.Min["R10.9"] = 2
}

// R10.10 one delivery of a message per peer: every peer credited for a message (markFirstMessageDelivery,
// markDuplicateMessageDelivery called from the delivery/duplicate tracer hooks) is on record in the message's
// delivery record — it is taken from the record (range over drec.peers) or inserted into it on every path through
// the crediting call — because DuplicateMessage decides "already counted" by looking the sender up there.
func checkCreditedPeersRecorded(c *RuleCtx) {
	p := c.P
	n := 0
	for _, fname := range []string{"(*peerScore).DeliverMessage", "(*peerScore).DuplicateMessage"} {
		f := c.MustFn("R10.10", fname)
		if f == nil {
			continue
		}
		g := p.Graph(f)
		isPeersMap := func(v *V) bool { return v != nil && v.IsField("deliveryRecord.peers") }
		for _, cs := range p.Sites(f, false, "(*peerScore).markFirstMessageDelivery", "(*peerScore).markDuplicateMessageDelivery") {
			if len(cs.Call.Args) < 1 {
				continue
			}
			n++
			kv := p.R(f).Val(cs.Call.Args[0])
			if kv.Kind == "rangekey" && isPeersMap(kv.Args[0]) {
				c.OK("R10.10", f.Name, "credited peer is on the delivery record ("+shortFn(cs.Name)+")", cs.Call, "taken from the record")
				continue
			}
			inserts := func(nd ast.Node) bool {
				for _, mi := range p.mapInserts(f) {
					if contains(nd, mi.Stmt) && isPeersMap(p.R(f).Val(mi.Map)) && p.R(f).Val(mi.Key).Equal(kv) {
						return true
					}
				}
				return false
			}
			pt, _ := g.Locate(cs.Call)
			before := g.DominatedByNode(pt, inserts)
			after, _ := g.MustPass(pt, PassOpts{ExitOK: func(b *cfgBlock) bool {
				// leaving through the "unexpected delivery trace" return (status already known) credits nothing further
				return false
			}}, inserts)
			// paths that leave early without marking the message valid do not hand out the mesh credit for duplicates;
			// accept the insertion on every path that reaches the normal end of the function
			if !before && !after {
				// retry: only paths on which the record is marked valid
				valid := false
				for _, s := range p.StoresTo2(f, "deliveryRecord.status") {
					if sp, ok := g.Locate(s.Node); ok {
						if okv, _ := g.MustPass(sp, PassOpts{}, inserts); okv {
							valid = true
						}
					}
				}
				after = valid
			}
			c.Check(before || after, "R10.10", f.Name, "credited peer is on the delivery record ("+shortFn(cs.Name)+")", cs.Call, "inserted into drec.peers on every path", "the peer credited here is never entered into the message's delivery record: when it sends the same message again inside the delivery window, DuplicateMessage does not find it there and credits a second mesh delivery for one message")
		}
	}
	if n < 3 {
		c.Undecided("R10.10", "delivery credits", "inventory", nil, "fewer crediting calls than known: "+itoa(n))
	}
	c.Min["R10.10"] = 3
}

// R10.11 the scorer's periodic work: every ticker period that is a score parameter is positive for every accepted
// parameter set — tested on every accepting path of the validator, or given a positive default there — since
// time.NewTicker panics on a non-positive period in a goroutine nobody recovers.
func checkTickerPeriods(c *RuleCtx) {
	p := c.P
	n := 0
	for _, f := range p.All {
		if f.File != "score.go" || f.Body == nil {
			continue
		}
		for _, cs := range p.Sites(f, false, "time.NewTicker", "time.Tick", "time.NewTimer", "time.After") {
			if len(cs.Call.Args) != 1 {
				continue
			}
			av := p.R(f).Val(cs.Call.Args[0])
			if av == nil || av.Kind != "field" || !strings.HasPrefix(av.Name, "PeerScoreParams.") {
				continue
			}
			n++
			fld := av.Name
			isF := isFieldOf(fld)
			vf := p.Fn("(*PeerScoreParams).validate")
			if vf == nil {
				c.Undecided("R10.11", f.Name, "validator", cs.Call, "(*PeerScoreParams).validate not found")
				continue
			}
			vg := p.Graph(vf)
			tooSmall := AtomCmp(fld+" < bound", isF, "<", func(v *V) bool { return v != nil && v.Kind != "field" })
			notPos := AtomCmp(fld+" <= 0", isF, "<=", isZero)
			cut := cutSet{}
			for _, e := range append(vg.AtomEdges(tooSmall, false), vg.AtomEdges(notPos, false)...) {
				cut[e] = true
			}
			defaulted := func(nd ast.Node) bool {
				for _, s := range p.StoresTo2(vf, fld) {
					if s.Kind == "assign" && contains(nd, s.Node) && s.RHS != nil {
						if tv, ok := vf.Info().Types[s.RHS]; ok && tv.Value != nil {
							return true
						}
					}
				}
				return false
			}
			k := 0
			returnsIn(vf, func(r *ast.ReturnStmt) {
				if len(r.Results) != 1 || !isNilV(p.R(vf).Val(r.Results[0])) {
					return
				}
				k++
				pt, _ := vg.Locate(r)
				bad := vg.ReachableFrom(vg.Entry(), pt, cut, defaulted)
				suffix := ""
				if k > 1 {
					suffix = "#" + itoa(k)
				}
				c.Check(!bad, "R10.11", vf.Name, fld+" positive on every accepting path"+suffix, r, "tested against a lower bound or given a constant default", "parameters are accepted on a path that neither tests "+fld+" against a lower bound nor assigns it a default; "+f.Name+" hands it to "+shortFn(cs.Name)+" at "+p.Pos(cs.Call)+", which panics on a non-positive period in the scorer's goroutine")
			})
		}
	}
	if n == 0 {
		c.Undecided("R10.11", "score.go", "ticker periods", nil, "no ticker whose period is a score parameter found (anchor drift)")
	}
	c.Min["R10.11"] = 1
	// R10.12 the topic parameter map may be nil in an accepted parameter set (no per-topic parameters yet): every
	// store into it is behind a nil test or a make on every path
	for _, s := range p.StoresTo("PeerScoreParams.Topics") {
		if s.Kind != "elem-assign" || s.Fn.File != "score.go" {
			continue
		}
		f := s.Fn
		g := p.Graph(f)
		pt, _ := g.Locate(s.Node)
		isNil := AtomNil("params.Topics == nil", isFieldOf("PeerScoreParams.Topics"))
		okTest, _ := p.DomAny(f, s.Node, AtomWant{isNil, false})
		cut := cutSet{}
		for _, e := range g.AtomEdges(isNil, false) {
			cut[e] = true
		}
		made := func(nd ast.Node) bool {
			for _, s2 := range p.StoresTo2(f, "PeerScoreParams.Topics") {
				if s2.Kind == "assign" && contains(nd, s2.Node) {
					return true
				}
			}
			return false
		}
		ok := okTest || !g.ReachableFrom(g.Entry(), pt, cut, made)
		c.Check(ok, "R10.12", f.Root().Name, "topic parameter map not nil when stored into", s.Node, "behind a nil test or a make", "params.Topics[topic] is assigned without a nil test: PeerScoreParams with no Topics map are accepted, and the first SetTopicScoreParams panics with `assignment to entry in nil map` inside the event loop")
	}
	c.Min["R10.12"] = 1
}

// R10.4 (cont.): a retained (non-positive) score is retained without its first-delivery credit — "retains
// non-positive scores to dissuade attacks on the score function": for every topic of the departing peer, whether or
// not it was in the mesh there, the first-delivery counter is zeroed and the peer is marked out of the mesh.
func checkRetentionResets(c *RuleCtx) {
	p := c.P
	f := c.MustFn("R10.4", "(*peerScore).OnClosedOutboundStream")
	if f == nil {
		return
	}
	rs := p.RangesOver(f, func(v *V) bool { return v.IsField("peerStats.topics") })
	if len(rs) == 0 {
		c.Undecided("R10.4", f.Name, "per-topic reset on retention", f.Decl, "no loop over the departing peer's topics")
		return
	}
	for _, r := range rs {
		for _, want := range []struct{ field, val, what string }{
			{"topicStats.firstMessageDeliveries", "0", "first-delivery credit dropped for every topic"},
			{"topicStats.inMesh", "false", "marked out of the mesh for every topic"},
		} {
			ok, why := p.LoopBodyMust(f, r, nil, func(n ast.Node) bool {
				for _, s := range p.StoresTo2(f, want.field) {
					if s.Kind == "assign" && contains(n, s.Node) && s.RHS != nil && p.R(f).Val(s.RHS).IsConst(want.val) {
						return true
					}
				}
				return false
			})
			c.Check(ok, "R10.4", f.Name, "retained score: "+want.what, r, why, "an iteration over the departing peer's topics can complete without `"+shortFn(want.field)+" = "+want.val+"` (for instance only for topics where the peer was in the mesh): the retained score keeps credit it should have lost: "+why)
		}
	}
}
