package main

import (
	"go/ast"
	"go/types"
	"strings"
)

func init() {
	register(&Property{ID: "C09", Run: runC09,
		Explain: "Gate table (T6): each score threshold of C09 is one normalised comparison between a score value (peerScore.Score or the heartbeat's memoising closure) and a named threshold field, with a named effect, decided by edge-cut dominance on go/cfg — including the boundary operator (< vs <=). Rows: G1 AcceptFrom (direct => AcceptAll; score<graylist => AcceptNone; else the gater), G2/G3 IHAVE/IWANT ignored below gossipThreshold before any effect, G4 emitGossip recipients (>= gossipThreshold, not excluded, not direct, mesh-capable), G5/G6 flood-publish and floodsub recipients (direct or >= publishThreshold), G7 fanout selection filters (>= publishThreshold, not direct), G8 fanout drop (< publishThreshold or left topic), G9 GRAFT from negative score refused with PRUNE, doPX=false on every refusing path that does not know the score to be non-negative, backoff added, G10 heartbeat prunes negative scores with noPX, G11/G12 PX only at/above acceptPXThreshold and only with a valid signed record matching the peer ID, G13 gater result set within {AcceptAll,AcceptControl}, G14 handleIncomingRPC arms (AcceptNone returns before everything; AcceptControl reaches HandleRPC on every path and never pushMsg), G15 threshold validation orderings. (audit round) G9: score freshness in handleGraft; G12: the record's signing key belongs to the advertised peer ID. (second wave) G11: handlePrune reads the score per entry; G10: the heartbeat's pruning closures drop the score memo entry. NOT decided: that Score is computed correctly (C10), timing of 'next heartbeat'.",
		Assume:  []string{"peerScore.Score returns the peer's score (C10)", "single-definition locals are not modified between definition and test (checked by reaching definitions)"},
		Mutants: []Mutant{
			{Name: "heartbeat-memo-kept-after-prune", File: "gossipsub.go", Old: "\t\t\t// leaving a mesh changes the peer's score: the other topics are judged with the new one\n\t\t\tdelete(scores, p)\n", New: "", Expect: "G10"},
			{Name: "graylist-le", File: "gossipsub.go", Old: "if gs.score.Score(p) < gs.graylistThreshold {", New: "if gs.score.Score(p) <= gs.graylistThreshold {", Expect: "G1"},
			{Name: "acceptfrom-direct-after-graylist", File: "gossipsub.go", Old: "\t_, direct := gs.direct[p]\n\tif direct {\n\t\treturn AcceptAll\n\t}\n\n\tif gs.score.Score(p) < gs.graylistThreshold {\n\t\treturn AcceptNone\n\t}", New: "\tif gs.score.Score(p) < gs.graylistThreshold {\n\t\treturn AcceptNone\n\t}\n\t_, direct := gs.direct[p]\n\tif direct {\n\t\treturn AcceptAll\n\t}", Expect: "G1"},
			{Name: "ihave-threshold-wrong-field", File: "gossipsub.go", Old: "\tif score < gs.gossipThreshold {\n\t\tgs.logger.Debug(\"IHAVE: ignoring peer with score below threshold\"", New: "\tif score < gs.graylistThreshold {\n\t\tgs.logger.Debug(\"IHAVE: ignoring peer with score below threshold\"", Expect: "G2"},
			{Name: "iwant-threshold-after-effect", File: "gossipsub.go", Old: "\tif score < gs.gossipThreshold {\n\t\tgs.logger.Debug(\"IWANT: ignoring peer with score below threshold\"", New: "\tif score <= gs.gossipThreshold && score < 0 {\n\t\tgs.logger.Debug(\"IWANT: ignoring peer with score below threshold\"", Expect: "G3"},
			{Name: "emitgossip-gt", File: "gossipsub.go", Old: "gs.score.Score(p) >= gs.gossipThreshold {\n\t\t\tpeers = append(peers, p)", New: "gs.score.Score(p) > gs.gossipThreshold {\n\t\t\tpeers = append(peers, p)", Expect: "G4"},
			{Name: "emitgossip-direct-included", File: "gossipsub.go", Old: "if !inExclude && !direct && gs.feature(GossipSubFeatureMesh, gs.peers[p]) && gs.score.Score(p) >= gs.gossipThreshold {", New: "if !inExclude && (!direct || len(exclude) == 0) && gs.feature(GossipSubFeatureMesh, gs.peers[p]) && gs.score.Score(p) >= gs.gossipThreshold {", Expect: "G4"},
			{Name: "floodpublish-no-threshold", File: "gossipsub.go", Old: "\t\t\t\tif direct || gs.score.Score(p) >= gs.publishThreshold {", New: "\t\t\t\tif direct || gs.score.Score(p) >= gs.gossipThreshold {", Expect: "G5"},
			{Name: "floodsub-peers-gt", File: "gossipsub.go", Old: "if !gs.feature(GossipSubFeatureMesh, gs.peers[p]) && gs.score.Score(p) >= gs.publishThreshold {", New: "if !gs.feature(GossipSubFeatureMesh, gs.peers[p]) && gs.score.Score(p) > gs.publishThreshold {", Expect: "G5"},
			{Name: "fanout-filter-direct", File: "gossipsub.go", Old: "\t\t\treturn !direct && gs.score.Score(p) >= gs.publishThreshold\n", New: "\t\t\treturn (!direct || len(peers) == 0) && gs.score.Score(p) >= gs.publishThreshold\n", Expect: "G7"},
			{Name: "fanout-keep-le", File: "gossipsub.go", Old: "\t\t\tif !ok || score(p) < gs.publishThreshold {", New: "\t\t\tif !ok || score(p) <= gs.publishThreshold {", Expect: "G8"},
			{Name: "graft-negative-keeps-px", File: "gossipsub.go", Old: "\t\t\t// but we won't PX to them\n\t\t\tdoPX = false\n", New: "\t\t\t// but we won't PX to them\n", Expect: "G9"},
			{Name: "graft-dhi-before-score", File: "gossipsub.go", Old: "\t\t// check the score\n\t\tif score < 0 {", New: "\t\tif len(peers) >= gs.params.Dhi && !gs.outbound[p] {\n\t\t\tprune = append(prune, topic)\n\t\t\tgs.addBackoff(p, topic, false)\n\t\t\tcontinue\n\t\t}\n\n\t\t// check the score\n\t\tif score < 0 {", Expect: "G9"},
			{Name: "join-promotes-negative", File: "gossipsub.go", Old: "\t\t\tif gs.score.Score(p) < 0 || doBackOff || direct {\n\t\t\t\tdelete(gmap, p)", New: "\t\t\tif gs.score.Score(p) < gs.publishThreshold || doBackOff || direct {\n\t\t\t\tdelete(gmap, p)", Expect: "G9"},
			{Name: "graft-stale-score", File: "gossipsub.go", Old: "\t\t\t// the penalty has lowered the score; the remaining GRAFTs are judged with the new one\n\t\t\tscore = gs.score.Score(p)\n", New: "", Expect: "G9"},
			{Name: "px-record-key-unchecked", File: "gossipsub.go", Old: "\t\t\tif !p.MatchesPublicKey(envelope.PublicKey) {\n", New: "\t\t\tif false && !p.MatchesPublicKey(envelope.PublicKey) {\n", Expect: "G12"},
			{Name: "px-record-key-checked-against-sender", File: "gossipsub.go", Old: "\t\t\tif !p.MatchesPublicKey(envelope.PublicKey) {\n", New: "\t\t\tif !rec.PeerID.MatchesPublicKey(envelope.PublicKey) && len(rec.Addrs) == 0 {\n", Expect: "G12"},
			{Name: "heartbeat-negative-no-nopx", File: "gossipsub.go", Old: "\t\t\t\tprunePeer(p)\n\t\t\t\tnoPX[p] = true\n", New: "\t\t\t\tprunePeer(p)\n", Expect: "G10"},
			{Name: "heartbeat-negative-le", File: "gossipsub.go", Old: "\t\t\tif score(p) < 0 {\n\t\t\t\tgs.logger.Debug(\"HEARTBEAT: Prune peer with negative score\"", New: "\t\t\tif score(p) < gs.gossipThreshold {\n\t\t\t\tgs.logger.Debug(\"HEARTBEAT: Prune peer with negative score\"", Expect: "G10"},
			{Name: "px-threshold-le", File: "gossipsub.go", Old: "\t\t\tif score < gs.acceptPXThreshold {", New: "\t\t\tif score <= gs.acceptPXThreshold && score < 0 {", Expect: "G11"},
			{Name: "px-record-peerid-unchecked", File: "gossipsub.go", Old: "\t\t\tif rec.PeerID != p {", New: "\t\t\tif rec.PeerID != p && len(rec.Addrs) == 0 {", Expect: "G12"},
			{Name: "gater-returns-none", File: "peer_gater.go", Old: "\tpg.logger.Debug(\"throttling peer\", \"peer\", p, \"threshold\", threshold)\n\treturn AcceptControl", New: "\tpg.logger.Debug(\"throttling peer\", \"peer\", p, \"threshold\", threshold)\n\tif threshold < 0.01 {\n\t\treturn AcceptNone\n\t}\n\treturn AcceptControl", Expect: "G13"},
			{Name: "acceptcontrol-skips-handlerpc", File: "pubsub.go", Old: "\t\t\tp.logger.Debug(\"peer was throttled by router; ignoring payload messages\", \"peer\", rpc.from, \"messageCount\", len(rpc.GetPublish()))\n", New: "\t\t\tp.logger.Debug(\"peer was throttled by router; ignoring payload messages\", \"peer\", rpc.from, \"messageCount\", len(rpc.GetPublish()))\n\t\t\treturn\n", Expect: "R01.3"},
			{Name: "thresholds-publish-order", File: "score_params.go", Old: "if p.PublishThreshold > 0 || p.PublishThreshold > p.GossipThreshold || isInvalidNumber(p.PublishThreshold) {", New: "if p.PublishThreshold > 0 || isInvalidNumber(p.PublishThreshold) {", Expect: "G15"},
		}})
}

func thr(n string) VPred { return isFieldOf(gsField(n)) }

func runC09(c *RuleCtx) {
	p := c.P
	// ---------- G1 AcceptFrom
	if f := c.MustFn("G1", "(*GossipSubRouter).AcceptFrom"); f != nil {
		g := p.Graph(f)
		sc := isScoreOf(p, f)
		gray := AtomCmp("score < graylistThreshold", sc, "<", thr("graylistThreshold"))
		direct := lookupIn("p in gs.direct", isDirectMap)
		n := 0
		returnsIn(f, func(r *ast.ReturnStmt) {
			if len(r.Results) != 1 {
				return
			}
			v := p.R(f).Val(r.Results[0])
			switch {
			case v.IsConst("AcceptNone"):
				n++
				ok, why := p.DomAny(f, r, AtomWant{gray, true})
				c.Check(ok, "G1", f.Name, "AcceptNone only if score < graylistThreshold", r, why, why)
				ok, why = p.DomAny(f, r, AtomWant{direct, false})
				c.Check(ok, "G1", f.Name, "AcceptNone never for direct peers", r, why, why)
			case v.IsConst("AcceptAll"):
				ok, why := p.DomAny(f, r, AtomWant{direct, true})
				c.Check(ok, "G1", f.Name, "unconditional AcceptAll only for direct peers", r, why, why)
			case v.IsCall("(*peerGater).AcceptFrom"):
				n++
				ok, why := p.DomAny(f, r, AtomWant{gray, false})
				c.Check(ok, "G1", f.Name, "gater consulted only at/above graylistThreshold", r, why, why)
			default:
				c.Undecided("G1", f.Name, "return value", r, "unrecognised return "+v.String())
			}
		})
		for _, e := range g.AtomEdges(gray, true) {
			ok, _ := g.MustPass(EdgeTarget(e), PassOpts{}, func(n ast.Node) bool {
				r, ok := n.(*ast.ReturnStmt)
				return ok && len(r.Results) == 1 && p.R(f).Val(r.Results[0]).IsConst("AcceptNone")
			})
			c.Check(ok, "G1", f.Name, "score < graylistThreshold => AcceptNone", condNodeOf(e), "the below-threshold edge returns AcceptNone", "the below-threshold edge can return something else than AcceptNone")
		}
		for _, e := range g.AtomEdges(direct, true) {
			ok, _ := g.MustPass(EdgeTarget(e), PassOpts{}, func(n ast.Node) bool {
				r, ok := n.(*ast.ReturnStmt)
				return ok && len(r.Results) == 1 && p.R(f).Val(r.Results[0]).IsConst("AcceptAll")
			})
			c.Check(ok, "G1", f.Name, "direct => AcceptAll", condNodeOf(e), "the direct edge returns AcceptAll", "a direct peer's RPC is not always accepted in full")
		}
		if n < 2 {
			c.Undecided("G1", f.Name, "returns", f.Decl, "expected AcceptNone and gater returns")
		}
	}
	// ---------- G2/G3 handleIHave / handleIWant
	for _, row := range []struct{ id, fn string }{{"G2", "(*GossipSubRouter).handleIHave"}, {"G3", "(*GossipSubRouter).handleIWant"}} {
		f := c.MustFn(row.id, row.fn)
		if f == nil {
			continue
		}
		g := p.Graph(f)
		below := AtomCmp("score < gossipThreshold", isScoreOf(p, f), "<", thr("gossipThreshold"))
		edges := g.AtomEdges(below, true)
		if len(edges) == 0 {
			c.Bad(row.id, f.Name, "score < gossipThreshold gate", f.Decl, "no branch compares the peer's score with gossipThreshold using <")
			continue
		}
		for _, e := range edges {
			ok, _ := g.MustPass(EdgeTarget(e), PassOpts{}, func(n ast.Node) bool {
				r, ok := n.(*ast.ReturnStmt)
				return ok && len(r.Results) == 1 && isNilV(p.R(f).Val(r.Results[0]))
			})
			c.Check(ok, row.id, f.Name, "below gossipThreshold => return nil", condNodeOf(e), "returns nil", "the below-threshold edge does not return nil")
		}
		// every effect of the handler is behind the gate
		n := 0
		for _, s := range p.AllStores() {
			if s.Fn.Root() != f {
				continue
			}
			n++
			ok, why := p.DomDeep(f, s.Node, AtomWant{below, false})
			c.Check(ok, row.id, f.Name, "state change behind the gate: "+s.Field, s.Node, why, why)
		}
		for _, cs := range p.Sites(f, true, "(*gossipTracer).AddPromise", "(*MessageCache).GetForPeer", "(*PubSub).seenMessage") {
			n++
			ok, why := p.DomDeep(f, cs.Call, AtomWant{below, false})
			c.Check(ok, row.id, f.Name, "effect behind the gate: "+shortFn(cs.Name), cs.Call, why, why)
		}
		if n == 0 {
			c.Undecided(row.id, f.Name, "effects", f.Decl, "no effects found in the handler")
		}
	}
	// ---------- G4 emitGossip
	if f := c.MustFn("G4", "(*GossipSubRouter).emitGossip"); f != nil {
		sc := isScoreOf(p, f)
		n := 0
		for _, ap := range p.localAppends(f) {
			loops := p.EnclosingLoops(ap.Stmt)
			if len(loops) == 0 {
				continue
			}
			r, ok := loops[0].(*ast.RangeStmt)
			if !ok || !p.R(f).Val(r.X).Has(func(v *V) bool { return v.IsField("PubSub.topics") }) {
				continue
			}
			n++
			for _, aw := range []AtomWant{
				{AtomCmp("score >= gossipThreshold", sc, ">=", thr("gossipThreshold")), true},
				{lookupIn("p in exclude", func(v *V) bool { return v.Kind == "var" }), false},
				{lookupIn("p in gs.direct", isDirectMap), false},
				{AtomBool("feature(Mesh, proto)", func(v *V) bool {
					return v.IsCall(fnFeature) && len(v.Args) == 3 && v.Args[1].IsConst("GossipSubFeatureMesh")
				}), true},
			} {
				ok, why := p.DomAny(f, ap.Stmt, aw)
				c.Check(ok, "G4", f.Name, "gossip candidate only if "+aw.A.Desc+"="+boolStr(aw.Want), ap.Stmt, why, why)
			}
		}
		if n == 0 {
			c.Undecided("G4", f.Name, "candidate collection", f.Decl, "no append inside a range over the topic's peers")
		}
	}
	// ---------- G5/G6 rpcs
	if f := c.MustFn("G5", "(*GossipSubRouter).rpcs"); f != nil {
		n5 := 0
		for _, lit := range f.Children {
			sc := isScoreOf(p, lit)
			ge := AtomCmp("score >= publishThreshold", sc, ">=", thr("publishThreshold"))
			direct := lookupIn("p in gs.direct", isDirectMap)
			for _, ins := range p.mapInserts(lit) {
				kv := p.R(lit).Val(ins.Key)
				if kv.Kind != "rangekey" || !kv.Args[0].Has(func(v *V) bool { return v.IsField("PubSub.topics") }) {
					continue // recipients taken from direct / mesh / fanout maps: other rows
				}
				n5++
				g := p.Graph(lit)
				pt, _ := g.Locate(ins.Stmt)
				ok := g.Dominated(pt, g.EdgesEither(direct, ge))
				c.Check(ok, "G5", f.Name, "topic peer becomes recipient only if direct or score >= publishThreshold", ins.Stmt, "every path establishes direct or score >= publishThreshold", "a topic peer can become a recipient without being direct or having score >= publishThreshold")
			}
		}
		if n5 < 2 {
			c.Undecided("G5", f.Name, "flood recipients", f.Decl, "expected the flood-publish and floodsub-peer insertions")
		}
	}
	// ---------- G7 fanout selection filters
	for _, row := range []struct{ fn string }{{fnFanoutPeers}, {fnHeartbeat}} {
		f := c.MustFn("G7", row.fn)
		if f == nil {
			continue
		}
		n := 0
		for _, cs := range p.Sites(f, true, fnGetPeers) {
			if row.fn == fnHeartbeat {
				// only the fanout-maintenance call: inside the range over gs.fanout
				in := false
				for _, l := range p.EnclosingLoops(cs.Call) {
					if r, ok := l.(*ast.RangeStmt); ok && p.R(cs.Fn).Val(r.X).IsField(gsField("fanout")) {
						in = true
					}
				}
				if !in {
					continue
				}
			}
			lit := p.litArg(cs.Fn, cs.Call.Args[2])
			if lit == nil {
				c.Undecided("G7", f.Name, "fanout filter", cs.Call, "filter argument is not a function literal")
				continue
			}
			n++
			sc := isScoreOf(p, lit)
			ok, why := p.ReturnsTrueOnlyIf(lit, AtomWant{AtomCmp("score >= publishThreshold", sc, ">=", thr("publishThreshold")), true})
			c.Check(ok, "G7", f.Name, "fanout candidate only if score >= publishThreshold", cs.Call, why, why)
			ok, why = p.ReturnsTrueOnlyIf(lit, AtomWant{lookupIn("p in gs.direct", isDirectMap), false})
			c.Check(ok, "G7", f.Name, "fanout candidate never direct", cs.Call, why, why)
		}
		if n == 0 {
			c.Undecided("G7", f.Name, "fanout getPeers call", f.Decl, "no fanout selection found")
		}
	}
	// ---------- G8 fanout keep
	if f := c.MustFn("G8", fnHeartbeat); f != nil {
		g := p.Graph(f)
		sc := isScoreOf(p, f)
		lt := AtomCmp("score < publishThreshold", sc, "<", thr("publishThreshold"))
		gone := AtomBool("still in topic", func(v *V) bool {
			return v.Kind == "lookupok" && v.Args[0].Has(func(x *V) bool { return x.IsField("PubSub.topics") })
		})
		goneNeg := Atom{Desc: "not in topic", Match: func(g *Graph, e ast.Expr) (bool, bool) {
			ok, s := gone.Match(g, e)
			return ok, !s
		}}
		edges := g.EdgesEither(goneNeg, lt)
		var fanEdges []Edge
		for _, e := range edges {
			for _, l := range p.EnclosingLoops(condNodeOf(e)) {
				if r, ok := l.(*ast.RangeStmt); ok && innerMapOf("fanout")(p.R(f).Val(r.X)) {
					fanEdges = append(fanEdges, e)
				}
			}
		}
		if len(fanEdges) == 0 {
			c.Bad("G8", f.Name, "fanout drop gate", f.Decl, "no branch in the fanout maintenance loop tests `left topic || score < publishThreshold`")
		}
		for _, e := range fanEdges {
			until := p.iterationUntil(f, condNodeOf(e))
			ok, _ := g.MustPass(EdgeTarget(e), PassOpts{Until: until}, func(n ast.Node) bool {
				for _, d := range p.mapDeletes(f) {
					if contains(n, d.Call) && innerMapOf("fanout")(p.R(f).Val(d.Map)) {
						return true
					}
				}
				return false
			})
			c.Check(ok, "G8", f.Name, "below publishThreshold (or left topic) => dropped from fanout", condNodeOf(e), "the edge always deletes the peer from the fanout map", "a fanout peer below the publish threshold can be kept")
		}
	}
	// ---------- G9 handleGraft negative score
	if f := c.MustFn("G9", fnHandleGraft); f != nil {
		g := p.Graph(f)
		sc := isScoreOf(p, f)
		neg := AtomCmp("score < 0", sc, "<", isZero)
		edges := g.AtomEdges(neg, true)
		if len(edges) == 0 {
			c.Bad("G9", f.Name, "score < 0 gate", f.Decl, "no branch tests score < 0")
		}
		// the doPX variable: third argument of makePrune
		var doPX types.Object
		for _, cs := range p.Sites(f, true, fnMakePrune) {
			if id, ok := unparen(cs.Call.Args[2]).(*ast.Ident); ok {
				doPX = p.R(f).CopyRoot(f.Info().Uses[id])
			} else {
				c.Bad("G9", f.Name, "makePrune doPX operand", cs.Call, "the PX flag handed to makePrune is not the handler's doPX variable: "+p.Src(cs.Call.Args[2]))
			}
		}
		// the prune list: the slice ranged over by the loop that calls makePrune
		var pruneObj types.Object
		for _, cs := range p.Sites(f, false, fnMakePrune) {
			for _, l := range p.EnclosingLoops(cs.Call) {
				if r, ok := l.(*ast.RangeStmt); ok {
					if id, ok := unparen(r.X).(*ast.Ident); ok {
						pruneObj = p.R(f).CopyRoot(f.Info().Uses[id])
					}
				}
			}
		}
		if doPX == nil || pruneObj == nil {
			c.Undecided("G9", f.Name, "doPX / prune list", f.Decl, "could not identify the PX flag and the list of topics to PRUNE")
		} else {
			isPruneAppend := func(n ast.Node) bool {
				for _, ap := range p.localAppends(f) {
					if ap.Obj == pruneObj && contains(n, ap.Stmt) {
						return true
					}
				}
				return false
			}
			for _, e := range edges {
				until := p.iterationUntil(f, condNodeOf(e))
				ok, _ := g.MustPass(EdgeTarget(e), PassOpts{Until: until}, isPruneAppend)
				c.Check(ok, "G9", f.Name, "negative score => PRUNE queued", condNodeOf(e), "always", "a GRAFT from a negative-score peer is not always answered with PRUNE")
				ok, _ = g.MustPass(EdgeTarget(e), PassOpts{Until: until}, p.callPred(f, fnAddBackoff, fnDoAddBO))
				c.Check(ok, "G9", f.Name, "negative score => backoff added", condNodeOf(e), "always", "no backoff is recorded for the refused peer")
			}
			// every refusing path either knows score >= 0 or clears doPX
			n := 0
			for _, ap := range p.localAppends(f) {
				if ap.Obj != pruneObj {
					continue
				}
				n++
				okScore, _ := p.DomAny(f, ap.Stmt, AtomWant{neg, false})
				until := p.iterationUntil(f, ap.Stmt)
				pt, _ := g.Locate(ap.Stmt)
				okAfter, _ := g.MustPass(pt, PassOpts{Until: until}, p.assignsConst(f, doPX, "false"))
				okBefore := g.DominatedByNode(pt, func(n ast.Node) bool {
					// cleared earlier in the same iteration: the assignment lies inside the loop body
					return p.assignsConst(f, doPX, "false")(n) && len(p.EnclosingLoops(n)) > 0 && sameLoop(p, n, ap.Stmt)
				})
				c.Check(okScore || okAfter || okBefore, "G9", f.Name, "PRUNE without PX unless score known >= 0", ap.Stmt, "the refusing path clears doPX or is dominated by score >= 0", "a PRUNE is queued on a path where the score may be negative and doPX is not cleared: peer exchange would be sent to a negatively scored peer")
			}
			if n < 3 {
				c.Undecided("G9", f.Name, "PRUNE append sites", f.Decl, "fewer PRUNE-queueing sites than known")
			}
			// doPX is only ever lowered
			inspectNoLit(f.Body, func(x ast.Node) bool {
				as, rhs := isAssignTo(f, x, doPX)
				if as == nil {
					return true
				}
				v := p.R(f).Val(rhs)
				ok := v.IsConst("false") || (as.Tok.String() == ":=" && v.IsField(gsField("doPX")))
				c.Check(ok, "G9", f.Name, "doPX only initialised from gs.doPX or set false", as, "assigned "+v.String(), "doPX is assigned "+v.String())
				return true
			})
		}
	}
	checkScoreFreshness(c, "G9", fnHandleGraft)
	checkScoreFreshness(c, "G11", "(*GossipSubRouter).handlePrune")
	checkMemoInvalidated(c, "G10")
	// G9 also covers Join: fanout members with negative score are not promoted (shared with C07 R07.1)
	checkJoinPromotion(c, "G9", true, false, false)
	// ---------- G10 heartbeat negative-score prune
	if f := c.MustFn("G10", fnHeartbeat); f != nil {
		g := p.Graph(f)
		sc := isScoreOf(p, f)
		neg := AtomCmp("score < 0", sc, "<", isZero)
		pruners := p.closuresCalling(f, fnTrPrune)
		var edges []Edge
		for _, e := range g.AtomEdges(neg, true) {
			for _, l := range p.EnclosingLoops(condNodeOf(e)) {
				if r, ok := l.(*ast.RangeStmt); ok && innerMapOf("mesh")(p.R(f).Val(r.X)) {
					edges = append(edges, e)
				}
			}
		}
		if len(edges) == 0 || len(pruners) == 0 {
			c.Bad("G10", f.Name, "negative-score prune", f.Decl, "no `score < 0` test inside a loop over the mesh members (or no pruning closure)")
		}
		for _, e := range edges {
			until := p.iterationUntil(f, condNodeOf(e))
			ok, _ := g.MustPass(EdgeTarget(e), PassOpts{Until: until}, func(n ast.Node) bool {
				for _, pr := range pruners {
					for _, cs := range p.callsOfClosure(f, pr) {
						if contains(n, cs.Call) {
							return true
						}
					}
				}
				return false
			})
			c.Check(ok, "G10", f.Name, "negative score => pruned", condNodeOf(e), "always", "a mesh member with negative score can survive the heartbeat")
			ok, _ = g.MustPass(EdgeTarget(e), PassOpts{Until: until}, func(n ast.Node) bool {
				as, ok := n.(*ast.AssignStmt)
				if !ok || len(as.Lhs) != 1 || len(as.Rhs) != 1 {
					return false
				}
				ix, ok := unparen(as.Lhs[0]).(*ast.IndexExpr)
				if !ok || !p.R(f).Val(as.Rhs[0]).IsConst("true") {
					return false
				}
				// the map later handed to sendGraftPrune as noPX
				for _, cs := range p.Sites(f, false, "(*GossipSubRouter).sendGraftPrune") {
					if len(cs.Call.Args) == 3 && p.R(f).Val(cs.Call.Args[2]).Equal(p.R(f).Val(ix.X)) {
						return true
					}
				}
				return false
			})
			c.Check(ok, "G10", f.Name, "negative score => noPX", condNodeOf(e), "always", "the PRUNE for a negative-score peer may carry peer exchange")
			// the loop visits every member
			for _, l := range p.EnclosingLoops(condNodeOf(e)) {
				if early, n := LoopHasEarlyExit(l); early {
					c.Bad("G10", f.Name, "negative-score loop exhaustive", n, "the loop over mesh members can be left early")
				}
				break
			}
		}
	}
	if f := c.MustFn("G10", "(*GossipSubRouter).sendGraftPrune"); f != nil {
		// PX flag handed to makePrune is gs.doPX && !noPX[p]
		for _, cs := range p.Sites(f, true, fnMakePrune) {
			v := p.R(cs.Fn).Val(cs.Call.Args[2])
			ok := v.Kind == "op" && v.Name == "&&" && v.Has(func(x *V) bool { return x.IsField(gsField("doPX")) }) &&
				v.Has(func(x *V) bool { return x.Kind == "unop" && x.Name == "!" && x.Args[0].Kind == "index" })
			c.Check(ok, "G10", f.Name, "PX flag is gs.doPX && !noPX[p]", cs.Call, v.String(), "the PX flag is "+v.String())
		}
	}
	// ---------- G11 handlePrune / G12 pxConnect
	if f := c.MustFn("G11", "(*GossipSubRouter).handlePrune"); f != nil {
		sc := isScoreOf(p, f)
		lt := AtomCmp("score < acceptPXThreshold", sc, "<", thr("acceptPXThreshold"))
		sites := p.Sites(f, true, "(*GossipSubRouter).pxConnect")
		if len(sites) == 0 {
			c.Undecided("G11", f.Name, "pxConnect", f.Decl, "no pxConnect call")
		}
		for _, cs := range sites {
			ok, why := p.DomAny(f, cs.Call, AtomWant{lt, false})
			c.Check(ok, "G11", f.Name, "PX followed only at/above acceptPXThreshold", cs.Call, why, why)
		}
		callers := p.CallerNames("(*GossipSubRouter).pxConnect")
		ok, extra := subset(callers, f.Name)
		c.Check(ok, "G11", "pxConnect", "called only by handlePrune", nil, strings.Join(callers, ","), "also called from "+strings.Join(extra, ","))
	}
	if f := c.MustFn("G12", "(*GossipSubRouter).pxConnect"); f != nil {
		noRec := AtomNil("SignedPeerRecord == nil", isFieldOf("pb.PeerInfo.SignedPeerRecord"))
		const consume = p2p + "record.ConsumeEnvelope"
		envOK := AtomCmp("ConsumeEnvelope err == nil", func(v *V) bool { return v.Kind == "tuple" && v.Name == "2" && v.Args[0].IsCall(consume) }, "==", isNilV)
		isRec := AtomBool("payload is *peer.PeerRecord", func(v *V) bool { return v.Kind == "assertok" })
		idEq := AtomCmp("rec.PeerID == p", func(v *V) bool { return v.Kind == "field" && strings.HasSuffix(v.Name, "PeerRecord.PeerID") }, "==", func(v *V) bool {
			return stripConv(v).IsField("pb.PeerInfo.PeerID")
		})
		// the envelope is self-signed: ConsumeEnvelope verifies the signature against the key embedded in the
		// envelope, so the record is "valid for the advertised peer ID" only if that key is the peer's own
		keyOK := AtomBool("peer ID matches the envelope's public key", func(v *V) bool {
			if !v.IsCall(p2p+"core/peer.ID.MatchesPublicKey") && !(v.Kind == "call" && strings.HasSuffix(v.Name, "peer.ID.MatchesPublicKey")) {
				// equivalent: peer.IDFromPublicKey(envelope.PublicKey) compared with p is handled by idFromKey below
				return false
			}
			return v.Has(func(x *V) bool { return x.Kind == "field" && strings.HasSuffix(x.Name, "Envelope.PublicKey") })
		})
		n := 0
		for _, ap := range p.localAppends(f) {
			v := p.R(f).Val(ap.Call.Args[len(ap.Call.Args)-1])
			if v.Kind != "comp" || v.Name != "connectInfo" {
				continue
			}
			n++
			for _, a := range []Atom{envOK, isRec, idEq, keyOK} {
				ok, why := p.DomAny(f, ap.Stmt, AtomWant{noRec, true}, AtomWant{a, true})
				c.Check(ok, "G12", f.Name, "connect only without record or with "+a.Desc, ap.Stmt, why, why)
			}
			// the envelope handed on is the validated one (or nil)
			if cl, ok := unparen(ap.Call.Args[len(ap.Call.Args)-1]).(*ast.CompositeLit); ok && len(cl.Elts) == 2 {
				if _, ok := cl.Elts[1].(*ast.Ident); ok {
					good := true
					// every value that can reach the forwarded field (through any number of local copies) is nil /
					// the zero value, or the consumed envelope moved there behind the peer-ID check
					for _, ch := range p.R(f).Sources(cl.Elts[1]) {
						if ch.Zero || (ch.Leaf != nil && ch.Leaf.IsConst("nil")) {
							continue
						}
						rv := ch.Leaf
						if rv == nil || !(rv.Kind == "tuple" && rv.Name == "0" && rv.Args[0].IsCall(consume)) {
							good = false
							continue
						}
						guarded := false
						for _, n := range ch.Nodes {
							if ok2, _ := p.DomAny(f, n, AtomWant{idEq, true}); ok2 {
								guarded = true
							}
						}
						if !guarded {
							good = false
						}
					}
					c.Check(good, "G12", f.Name, "forwarded record is the validated envelope", ap.Stmt, "spr is only assigned the consumed envelope after the peer-ID check", "the signed record handed to the connector is not (only) the validated envelope")
				}
			}
		}
		if n == 0 {
			c.Undecided("G12", f.Name, "connect list", f.Decl, "no append of connectInfo")
		}
	}
	// ---------- G13 gater result set
	if f := c.MustFn("G13", "(*peerGater).AcceptFrom"); f != nil {
		ef := &EnumFlow{P: p, F: f, Universe: []string{"AcceptNone", "AcceptControl", "AcceptAll"}, TypeName: "AcceptStatus"}
		ef.Run()
		s := ef.ReturnSet(0)
		c.Check(s.SubsetOf("AcceptAll", "AcceptControl"), "G13", f.Name, "return set within {AcceptAll, AcceptControl}", f.Decl, "return set "+s.String(), "the validation gater can return "+s.String()+": it must only ever suppress payload, never control traffic")
	}
	// ---------- G14 handleIncomingRPC arms
	if f := c.MustFn("G14", fnHandleRPC); f != nil {
		g := p.Graph(f)
		arm := func(k string) Atom { return AtomCmp("AcceptFrom == "+k, isCallTo(rtAcceptFrom), "==", isConstV(k)) }
		for _, e := range g.AtomEdges(arm("AcceptNone"), true) {
			pt := EdgeTarget(e)
			reach := false
			for _, cs := range p.Sites(f, false, rtHandleRPC, fnPushMsg, "PubSubRouter.Preprocess") {
				tp, _ := g.Locate(cs.Call)
				if g.ReachableFrom(pt, tp, nil, nil) {
					reach = true
				}
			}
			c.Check(!reach, "G14", f.Name, "AcceptNone arm processes nothing", condNodeOf(e), "neither HandleRPC nor pushMsg is reachable from the arm", "a graylisted peer's RPC reaches HandleRPC/pushMsg")
		}
		if len(g.AtomEdges(arm("AcceptNone"), true)) == 0 {
			c.Bad("G14", f.Name, "AcceptNone arm", f.Decl, "no arm for AcceptNone")
		}
		for _, cs := range p.Sites(f, false, fnPushMsg) {
			ok, why := p.DomAny(f, cs.Call, AtomWant{arm("AcceptAll"), true})
			c.Check(ok, "G14", f.Name, "payload processed only on AcceptAll", cs.Call, why, why)
		}
		for _, k := range []string{"AcceptAll", "AcceptControl"} {
			for _, e := range g.AtomEdges(arm(k), true) {
				ok, _ := g.MustPass(EdgeTarget(e), PassOpts{}, p.callPred(f, rtHandleRPC))
				c.Check(ok, "R01.3", f.Name, k+" arm reaches rt.HandleRPC", condNodeOf(e), "every path of the arm hands the RPC to the router", "a path of the "+k+" arm returns without rt.HandleRPC: control traffic would be suppressed")
			}
		}
		// the router is consulted only after subscription bookkeeping? (not required) — but control handling
		// must not depend on the gater: AcceptFrom is evaluated exactly once
		c.Check(len(p.Sites(f, false, rtAcceptFrom)) == 1, "G14", f.Name, "AcceptFrom evaluated once", f.Decl, "one call", "AcceptFrom is not evaluated exactly once")
	}
	// ---------- G15 threshold validation
	if f := c.MustFn("G15", "(*PeerScoreThresholds).validate"); f != nil {
		checkThresholdValidation(c, f)
	}
	c.Min["G1"] = 6
	c.Min["G2"] = 4
	c.Min["G3"] = 2
	c.Min["G4"] = 4
	c.Min["G5"] = 2
	c.Min["G7"] = 4
	c.Min["G8"] = 1
	c.Min["G9"] = 8
	c.Min["G10"] = 4
	c.Min["G11"] = 2
	c.Min["G12"] = 4
	c.Min["G13"] = 1
	c.Min["G14"] = 3
	c.Min["G15"] = 8
}

func sameLoop(p *Prog, a, b ast.Node) bool {
	la, lb := p.EnclosingLoops(a), p.EnclosingLoops(b)
	return len(la) > 0 && len(lb) > 0 && la[0] == lb[0]
}

// checkThresholdValidation: with SkipAtomicValidation false (atomic mode), `return nil`
// is reached only if none of the rejecting comparisons holds.
func checkThresholdValidation(c *RuleCtx, f *Func) {
	p := c.P
	fld := func(n string) VPred { return isFieldOf("PeerScoreThresholds." + n) }
	skip := AtomBool("SkipAtomicValidation", fld("SkipAtomicValidation"))
	inval := func(n string) Atom {
		return AtomBool("isInvalidNumber("+n+")", func(v *V) bool {
			return v.IsCall("isInvalidNumber") && len(v.Args) == 1 && v.Args[0].IsField("PeerScoreThresholds."+n)
		})
	}
	atoms := []NamedAtom{
		{"skip", skip},
		{"gossip>0", AtomCmp("Gossip > 0", fld("GossipThreshold"), ">", isZero)},
		{"publish>0", AtomCmp("Publish > 0", fld("PublishThreshold"), ">", isZero)},
		{"publish>gossip", AtomCmp("Publish > Gossip", fld("PublishThreshold"), ">", fld("GossipThreshold"))},
		{"graylist>0", AtomCmp("Graylist > 0", fld("GraylistThreshold"), ">", isZero)},
		{"graylist>publish", AtomCmp("Graylist > Publish", fld("GraylistThreshold"), ">", fld("PublishThreshold"))},
		{"acceptpx<0", AtomCmp("AcceptPX < 0", fld("AcceptPXThreshold"), "<", isZero)},
		{"oppgraft<0", AtomCmp("OpportunisticGraft < 0", fld("OpportunisticGraftThreshold"), "<", isZero)},
		{"nan:gossip", inval("GossipThreshold")},
		{"nan:publish", inval("PublishThreshold")},
		{"nan:graylist", inval("GraylistThreshold")},
		{"nan:acceptpx", inval("AcceptPXThreshold")},
		{"nan:oppgraft", inval("OpportunisticGraftThreshold")},
	}
	g := p.Graph(f)
	paths, err := g.EnumPaths(atoms, 20000)
	if err != nil {
		c.Undecided("G15", f.Name, "path enumeration", f.Decl, err.Error())
		return
	}
	mustBeFalse := []string{"gossip>0", "publish>0", "publish>gossip", "graylist>0", "graylist>publish", "acceptpx<0", "oppgraft<0", "nan:gossip", "nan:publish", "nan:graylist", "nan:acceptpx", "nan:oppgraft"}
	missing := map[string]bool{}
	nAcc := 0
	for _, pi := range paths {
		if pi.Ret == nil || len(pi.Ret.Results) != 1 || !isNilV(p.R(f).Val(pi.Ret.Results[0])) {
			continue
		}
		if v, known := pi.Val["skip"]; known && v {
			continue // non-atomic mode: partial validation by design
		}
		nAcc++
		for _, a := range mustBeFalse {
			if v, known := pi.Val[a]; !known || v {
				missing[a] = true
			}
		}
	}
	for _, a := range mustBeFalse {
		c.Check(!missing[a], "G15", f.Name, "atomic mode accepts only if not "+a, f.Decl, "every accepting atomic-mode path refutes "+a, "thresholds can be accepted in atomic mode without refuting `"+a+"`")
	}
	c.Check(nAcc > 0, "G15", f.Name, "accepting atomic-mode path exists", f.Decl, itoa(len(paths))+" paths enumerated", "no accepting path")
}
