package main

import (
	"encoding/json"
	"flag"
	"fmt"
	"go/ast"
	"os"
	"os/exec"
	"path/filepath"
	"runtime/debug"
	"sort"
	"strconv"
	"strings"
	"time"
)

// Obligation is one rule instance.
type Obligation struct {
	Key     string `json:"key"`     // rule|function|construct — stable, no positions
	Rule    string `json:"rule"`    // e.g. R02.1
	Site    string `json:"site"`    // file:line (diagnostic only)
	Verdict string `json:"verdict"` // discharged | violated | undecided
	Detail  string `json:"detail"`
}

type RuleCtx struct {
	P    *Prog
	Prop string
	Obs  []*Obligation
	seen map[string]int
	Min  map[string]int // rule -> minimum number of instances confirmed by hand
	Note []string
}

func (c *RuleCtx) add(rule, fn, construct string, site ast.Node, verdict, detail string) *Obligation {
	key := rule + "|" + fn + "|" + construct
	if c.seen == nil {
		c.seen = map[string]int{}
	}
	c.seen[key]++
	if n := c.seen[key]; n > 1 {
		key = key + "#" + strconv.Itoa(n)
	}
	o := &Obligation{Key: key, Rule: rule, Verdict: verdict, Detail: detail}
	if site != nil {
		o.Site = c.P.Pos(site)
	}
	c.Obs = append(c.Obs, o)
	return o
}

func (c *RuleCtx) OK(rule, fn, construct string, site ast.Node, detail string) {
	c.add(rule, fn, construct, site, "discharged", detail)
}
func (c *RuleCtx) Bad(rule, fn, construct string, site ast.Node, detail string) {
	c.add(rule, fn, construct, site, "violated", detail)
}
func (c *RuleCtx) Undecided(rule, fn, construct string, site ast.Node, detail string) {
	c.add(rule, fn, construct, site, "undecided", detail)
}

// Check records discharged/violated by cond.
func (c *RuleCtx) Check(cond bool, rule, fn, construct string, site ast.Node, okDetail, badDetail string) bool {
	if cond {
		c.OK(rule, fn, construct, site, okDetail)
	} else {
		c.Bad(rule, fn, construct, site, badDetail)
	}
	return cond
}

// MustFn resolves an anchor function; unresolved anchors are undecided obligations.
func (c *RuleCtx) MustFn(rule, name string) *Func {
	f := c.P.Fn(name)
	if f == nil {
		c.Undecided(rule, name, "anchor", nil, "anchor function "+name+" not found in the module (renamed or removed?)")
	}
	return f
}

type Property struct {
	ID       string
	Run      func(c *RuleCtx)
	Explain  string
	Assume   []string
	Mutants  []Mutant
	MinTotal int
}

var registry = map[string]*Property{}

func register(p *Property) { registry[p.ID] = p }

type knownFinding struct {
	Property string `json:"property"`
	Key      string `json:"key"`
	What     string `json:"what"`
}
type knownFile struct {
	Findings []knownFinding `json:"findings"`
	Fixed    []string       `json:"fixed"`
}

func loadKnown(path string) (*knownFile, error) {
	var k knownFile
	b, err := os.ReadFile(path)
	if err != nil {
		if os.IsNotExist(err) {
			return &k, nil
		}
		return nil, err
	}
	if err := json.Unmarshal(b, &k); err != nil {
		return nil, err
	}
	return &k, nil
}

// routeAEnv overrides the environment of the go/packages driver so that `go list` is the default go
// command, which selects the cached go1.25.0 toolchain named by /repo/go.mod (DESIGN.md §1, route A).
func routeAEnv() []string {
	var keep []string
	for _, d := range filepath.SplitList(os.Getenv("PATH")) {
		if !strings.Contains(d, "/opt/veriftools/go") {
			keep = append(keep, d)
		}
	}
	return []string{"PATH=" + strings.Join(keep, string(os.PathListSeparator)), "GOTOOLCHAIN=auto", "GOSUMDB=sum.golang.org", "GOROOT="}
}

func verifDir() string {
	if d := os.Getenv("VERIF_DIR"); d != "" {
		return d
	}
	exe, err := os.Executable()
	if err == nil {
		d := filepath.Dir(filepath.Dir(exe)) // /verif/bin/pscheck -> /verif
		if _, err := os.Stat(filepath.Join(d, "properties.jsonl")); err == nil {
			return d
		}
	}
	return "/verif"
}

func main() {
	var (
		prop    = flag.String("prop", "", "property id (C01..C20)")
		tier    = flag.String("tier", "quick", "quick|thorough")
		repo    = flag.String("repo", "/repo", "repository root")
		dump    = flag.String("dump", "", "debug: funcs | cfg:<func> | calls:<func> | chan")
		replay  = flag.String("replay", "", "violation file: re-evaluate only the listed keys")
		noEvid  = flag.Bool("no-evidence", false, "do not write evidence (used for variants)")
		jsonOut = flag.Bool("json", false, "print obligations as JSON on stdout")
		mutOnly = flag.String("mutant", "", "run only the named mutant (thorough self-audit debugging)")
		canon   = flag.String("canon", "auto", "canonical view (helper inlining): auto = only when the plain evaluation is not clean | off | force")
	)
	flag.Parse()
	start := time.Now()
	defer func() {
		if r := recover(); r != nil {
			fmt.Fprintf(os.Stderr, "pscheck: internal error (broken check, not a verdict): %v\n%s\n", r, debug.Stack())
			os.Exit(2)
		}
	}()
	noCanon, forceCanon = *canon == "off", *canon == "force"
	if strings.HasPrefix(*dump, "canon") {
		cr, err := canonicalise(LoadOptions{Repo: *repo})
		if err != nil {
			fmt.Fprintln(os.Stderr, "canonicalise:", err)
			os.Exit(2)
		}
		fmt.Println("inlined:")
		for _, n := range cr.Inlined {
			fmt.Println("  ", n)
		}
		fmt.Println("not inlined (candidate helpers the inliner declined):")
		for _, n := range cr.Skipped {
			fmt.Println("  ", n)
		}
		if i := strings.Index(*dump, ":"); i >= 0 {
			dir := (*dump)[i+1:]
			os.MkdirAll(dir, 0o755)
			for f, b := range cr.Overlay {
				os.WriteFile(filepath.Join(dir, filepath.Base(f)), b, 0o644)
			}
		}
		return
	}
	if *dump != "" {
		p, err := Load(LoadOptions{Repo: *repo})
		if err != nil {
			fmt.Fprintln(os.Stderr, "load:", err)
			os.Exit(2)
		}
		if forceCanon { // debug dumps of the canonical view
			if cr, err := canonicalise(LoadOptions{Repo: *repo}); err == nil && cr.Prog != nil {
				p = cr.Prog
			}
		}
		doDump(p, *dump)
		return
	}
	pr := registry[*prop]
	if pr == nil {
		fmt.Fprintf(os.Stderr, "pscheck: unknown property %q\n", *prop)
		os.Exit(2)
	}
	vd := verifDir()
	known, err := loadKnown(filepath.Join(vd, "known_findings.json"))
	if err != nil {
		fmt.Fprintln(os.Stderr, "known_findings.json:", err)
		os.Exit(2)
	}
	knownForCanon = known
	seed := 0
	if s := os.Getenv("VERIF_SEED"); s != "" {
		seed, _ = strconv.Atoi(s)
	}

	res := runProperty(pr, LoadOptions{Repo: *repo})
	if res.Err != nil {
		fmt.Fprintf(os.Stderr, "pscheck: %s: broken check (not a verdict): %v\n", pr.ID, res.Err)
		os.Exit(2)
	}
	configs := []configResult{{Name: "linux/amd64 (route B)", Obligations: len(res.Obs), Same: true, Toolchain: driverGoVersion(*repo, nil), Std: res.Std}}
	var audit []mutantResult
	if *tier == "thorough" {
		// (a) other build configurations, each diffed against the primary table
		for _, cfgx := range []struct {
			name string
			opt  LoadOptions
		}{
			{"linux/amd64 (route A: the go1.25.0 toolchain the test suite is built with)", LoadOptions{Repo: *repo, Env: routeAEnv()}},
			{"linux/386", LoadOptions{Repo: *repo, Env: []string{"GOARCH=386"}}},
			{"tags=verif", LoadOptions{Repo: *repo, Tags: "verif"}},
		} {
			r2 := runProperty(pr, cfgx.opt)
			if r2.Err != nil {
				fmt.Fprintf(os.Stderr, "pscheck: %s: configuration %s: broken check: %v\n", pr.ID, cfgx.name, r2.Err)
				os.Exit(2)
			}
			same, diff := sameVerdicts(res.Obs, r2.Obs)
			configs = append(configs, configResult{Name: cfgx.name, Obligations: len(r2.Obs), Same: same, Diff: diff, Toolchain: driverGoVersion(*repo, cfgx.opt.Env), Std: r2.Std})
			if !same {
				// evaluate the union: violations present only under the other configuration count
				for _, o := range r2.Obs {
					if o.Verdict != "discharged" && !hasKey(res.Obs, o.Key) {
						o.Detail = "[" + cfgx.name + "] " + o.Detail
						res.Obs = append(res.Obs, o)
					}
				}
			}
		}
		// (c) mutation self-audit
		audit = runMutants(pr, *repo, *mutOnly)
	}

	// classify
	var viol, undec, knownHit []*Obligation
	matchedKnown := map[string]bool{}
	for _, o := range res.Obs {
		if *replay != "" {
			continue
		}
		switch o.Verdict {
		case "violated":
			if kf := findKnown(known, pr.ID, o.Key); kf != nil {
				knownHit = append(knownHit, o)
				matchedKnown[kf.Key] = true
				fmt.Printf("KNOWN-FINDING: property=%s %s [%s]\n", pr.ID, kf.What, o.Key)
			} else {
				viol = append(viol, o)
			}
		case "undecided":
			undec = append(undec, o)
		}
	}
	if *replay != "" {
		viol, undec = replayFilter(*replay, res.Obs)
	}
	discharged := 0
	for _, o := range res.Obs {
		if o.Verdict == "discharged" {
			discharged++
		}
	}
	// instance-count floors
	var floorFail []string
	counts := map[string]int{}
	for _, o := range res.Obs {
		counts[o.Rule]++
	}
	for rule, min := range res.Min {
		if counts[rule] < min {
			floorFail = append(floorFail, fmt.Sprintf("%s: %d instances < %d confirmed by hand", rule, counts[rule], min))
		}
	}
	sort.Strings(floorFail)
	auditFail := 0
	for _, m := range audit {
		if m.Status == "missed" {
			auditFail++
		}
	}

	if *jsonOut {
		b, _ := json.MarshalIndent(res.Obs, "", " ")
		fmt.Println(string(b))
	}
	fmt.Printf("pscheck %s tier=%s: %d obligations, %d discharged, %d violated (%d known), %d undecided; packages=%d functions=%d; %.1fs\n",
		pr.ID, *tier, len(res.Obs), discharged, len(viol)+len(knownHit), len(knownHit), len(undec),
		res.Stats["packages"], res.Stats["functions"], time.Since(start).Seconds())
	for _, o := range viol {
		fmt.Printf("  violated  %s  at %s: %s\n", o.Key, o.Site, o.Detail)
	}
	for _, o := range undec {
		fmt.Printf("  undecided %s  at %s: %s\n", o.Key, o.Site, o.Detail)
	}
	for _, f := range floorFail {
		fmt.Printf("  floor     %s\n", f)
	}
	for _, m := range audit {
		if m.Status != "caught" {
			fmt.Printf("  self-audit mutant %s: %s %s\n", m.Name, m.Status, m.Note)
		}
	}

	exit := 0
	violFile := filepath.Join(vd, "evidence", pr.ID+".violation.json")
	if len(viol)+len(undec)+len(floorFail) > 0 {
		exit = 1
	}
	if !*noEvid {
		os.MkdirAll(filepath.Join(vd, "evidence"), 0o755)
		if exit == 1 {
			var all []*Obligation
			all = append(all, viol...)
			all = append(all, undec...)
			b, _ := json.MarshalIndent(map[string]any{"property": pr.ID, "obligations": all, "floors": floorFail}, "", " ")
			os.WriteFile(violFile, b, 0o644)
		} else {
			os.Remove(violFile)
		}
		writeEvidence(vd, pr, res, *tier, seed, discharged, len(viol)+len(undec), knownHit, configs, audit, floorFail, time.Since(start).Seconds())
	}
	if exit == 1 {
		fmt.Printf("VIOLATION property=%s replay=%s\n", pr.ID, violFile)
		os.Exit(1)
	}
	if auditFail > 0 {
		fmt.Fprintf(os.Stderr, "pscheck: %s: self-audit: %d mutant(s) not detected — the check is broken, not the tree\n", pr.ID, auditFail)
		os.Exit(2)
	}
}

type runResult struct {
	Obs   []*Obligation
	Min   map[string]int
	Stats map[string]int
	Note  []string
	Err   error
	Std   string
	Canon []string // helpers inlined when the verdict was obtained on the canonical view
}

// runProperty evaluates the rules on the tree as it is and, only if that evaluation is not clean,
// once more on the canonical view (non-anchor private helpers inlined, see inline.go). The canonical
// view is semantically equivalent, so a clean evaluation of it is a verdict about the tree itself.
func runProperty(pr *Property, opt LoadOptions) runResult {
	if forceCanon {
		cr, err := canonicalise(opt)
		if err != nil {
			return runResult{Err: err}
		}
		if cr.Prog == nil {
			return runPlain(pr, opt, nil)
		}
		r := runPlain(pr, opt, cr.Prog)
		r.Canon = cr.Inlined
		r.Note = append(r.Note, "forced canonical view; inlined: "+strings.Join(cr.Inlined, ", "))
		return r
	}
	res := runPlain(pr, opt, nil)
	if res.Err != nil || noCanon || !res.unclean(pr.ID) {
		return res
	}
	cr, err := canonicalise(opt)
	if err != nil || cr == nil || cr.Prog == nil {
		if err != nil {
			res.Note = append(res.Note, "canonical view not available: "+firstLine(err.Error()))
		}
		return res
	}
	res2 := runPlain(pr, opt, cr.Prog)
	if res2.Err == nil && !res2.unclean(pr.ID) {
		res2.Note = append(res2.Note, "evaluated on the canonical view (inlined private helpers: "+strings.Join(cr.Inlined, ", ")+"); the plain view had "+fmt.Sprint(res.countUnclean(pr.ID))+" unrecognised/violated obligations caused by the helper boundaries")
		res2.Canon = cr.Inlined
		return res2
	}
	res.Note = append(res.Note, "canonical view (inlined: "+strings.Join(cr.Inlined, ", ")+") does not satisfy the rules either")
	return res
}

var noCanon, forceCanon bool
var knownForCanon *knownFile

func (r runResult) countUnclean(prop string) int {
	n := 0
	for _, o := range r.Obs {
		switch o.Verdict {
		case "violated":
			if knownForCanon == nil || findKnown(knownForCanon, prop, o.Key) == nil {
				n++
			}
		case "undecided":
			n++
		}
	}
	counts := map[string]int{}
	for _, o := range r.Obs {
		counts[o.Rule]++
	}
	for rule, min := range r.Min {
		if counts[rule] < min {
			n++
		}
	}
	return n
}

func (r runResult) unclean(prop string) bool { return r.countUnclean(prop) > 0 }

func runPlain(pr *Property, opt LoadOptions, pre *Prog) (res runResult) {
	defer func() {
		if r := recover(); r != nil {
			res.Err = fmt.Errorf("panic in analyser: %v\n%s", r, debug.Stack())
		}
	}()
	p := pre
	if p == nil {
		var err error
		p, err = Load(opt)
		if err != nil {
			return runResult{Err: err}
		}
	}
	if len(p.Pkgs) < 5 {
		return runResult{Err: fmt.Errorf("only %d module packages loaded (expected >= 5)", len(p.Pkgs))}
	}
	c := &RuleCtx{P: p, Prop: pr.ID, Min: map[string]int{}}
	func() {
		// an internal error while evaluating the rules means an anchored construct has a shape the
		// rules do not recognise: reported as an undecided obligation (fails the check), never as "held"
		defer func() {
			if r := recover(); r != nil {
				st := string(debug.Stack())
				if i := strings.Index(st, "panic("); i >= 0 {
					st = st[i:]
				}
				if len(st) > 900 {
					st = st[:900]
				}
				c.Undecided("INTERNAL", pr.ID, "rule evaluation", nil, fmt.Sprintf("the analyser could not process a construct anchored by this property (unrecognised shape): %v; %s", r, strings.ReplaceAll(st, "\n", " | ")))
			}
		}()
		pr.Run(c)
	}()
	sort.SliceStable(c.Obs, func(i, j int) bool { return c.Obs[i].Key < c.Obs[j].Key })
	return runResult{Obs: c.Obs, Min: c.Min, Stats: p.Stats, Note: c.Note, Std: p.StdRoot}
}

type configResult struct {
	Name        string   `json:"name"`
	Obligations int      `json:"obligations"`
	Same        bool     `json:"same_verdicts_as_primary"`
	Diff        []string `json:"diff,omitempty"`
	Toolchain   string   `json:"go_list_toolchain,omitempty"`
	Std         string   `json:"stdlib_loaded_from,omitempty"`
}

// driverGoVersion reports the version of the go command the go/packages driver runs under the given
// extra environment (so the evidence shows which toolchain's view of the build was analysed).
func driverGoVersion(repo string, extra []string) string {
	cmd := exec.Command("go", "env", "GOVERSION")
	cmd.Dir = repo
	cmd.Env = append(os.Environ(), extra...)
	for _, kv := range extra {
		if strings.HasPrefix(kv, "PATH=") {
			// resolve "go" in the overridden PATH
			for _, d := range filepath.SplitList(strings.TrimPrefix(kv, "PATH=")) {
				if st, err := os.Stat(filepath.Join(d, "go")); err == nil && !st.IsDir() {
					cmd.Path = filepath.Join(d, "go")
					break
				}
			}
		}
	}
	out, err := cmd.Output()
	if err != nil {
		return "unknown (" + err.Error() + ")"
	}
	return strings.TrimSpace(string(out))
}

func hasKey(obs []*Obligation, k string) bool {
	for _, o := range obs {
		if o.Key == k {
			return true
		}
	}
	return false
}

func sameVerdicts(a, b []*Obligation) (bool, []string) {
	ma := map[string]string{}
	for _, o := range a {
		ma[o.Key] = o.Verdict
	}
	var diff []string
	mb := map[string]bool{}
	for _, o := range b {
		mb[o.Key] = true
		if v, ok := ma[o.Key]; !ok {
			diff = append(diff, "+"+o.Key+"="+o.Verdict)
		} else if v != o.Verdict {
			diff = append(diff, o.Key+": "+v+" -> "+o.Verdict)
		}
	}
	for _, o := range a {
		if !mb[o.Key] {
			diff = append(diff, "-"+o.Key)
		}
	}
	return len(diff) == 0, diff
}

func findKnown(k *knownFile, prop, key string) *knownFinding {
	for i := range k.Findings {
		if k.Findings[i].Property == prop && k.Findings[i].Key == key {
			return &k.Findings[i]
		}
	}
	return nil
}

func replayFilter(path string, obs []*Obligation) (viol, undec []*Obligation) {
	b, err := os.ReadFile(path)
	if err != nil {
		fmt.Fprintln(os.Stderr, "replay:", err)
		os.Exit(2)
	}
	var f struct {
		Obligations []*Obligation `json:"obligations"`
	}
	json.Unmarshal(b, &f)
	want := map[string]bool{}
	for _, o := range f.Obligations {
		want[o.Key] = true
	}
	for _, o := range obs {
		if !want[o.Key] {
			continue
		}
		fmt.Printf("replay %s: %s (%s)\n", o.Key, o.Verdict, o.Detail)
		switch o.Verdict {
		case "violated":
			viol = append(viol, o)
		case "undecided":
			undec = append(undec, o)
		}
		delete(want, o.Key)
	}
	for k := range want {
		fmt.Printf("replay %s: obligation no longer generated\n", k)
	}
	return
}

func writeEvidence(vd string, pr *Property, res runResult, tier string, seed, discharged, bad int, known []*Obligation, configs []configResult, audit []mutantResult, floors []string, wall float64) {
	distinct := map[string]bool{}
	rules := map[string]int{}
	for _, o := range res.Obs {
		distinct[o.Key] = true
		rules[o.Rule]++
	}
	// samples: first obligation of each rule, plus all non-discharged
	var samples []any
	seenRule := map[string]int{}
	for _, o := range res.Obs {
		if seenRule[o.Rule] < 2 || o.Verdict != "discharged" {
			samples = append(samples, o)
			seenRule[o.Rule]++
		}
	}
	cov := map[string]any{
		"explanation":         pr.Explain,
		"obligations":         len(res.Obs),
		"discharged":          discharged,
		"evaluations":         len(res.Obs),
		"distinct_nontrivial": len(distinct),
		"rule":                "one obligation per (rule, function, construct) instance found in the typed program of /repo on this run; distinct = distinct keys; every obligation matched a real construct (anchors that do not resolve are reported as undecided and fail the check)",
		"samples":             samples,
		"per_rule_instances":  rules,
		"instance_floors":     res.Min,
		"floor_failures":      floors,
		"analysed":            res.Stats,
		"configurations":      configs,
		"known_findings_hit":  known,
		"checker_cmd":         "bin/pscheck -prop " + pr.ID + " -tier " + tier,
		"trusted_base":        []string{"go/types", "golang.org/x/tools/go/packages", "golang.org/x/tools/go/cfg", "golang.org/x/tools/go/ssa (call graph only)", "the rule tables in /verif/checker", "the helper inliner of /verif/checker/inline.go (used only when the plain evaluation is not clean)"},
		"exhaustive":          true,
		"notes":               res.Note,
	}
	cov["view"] = "plain: the rules were evaluated on the tree as written"
	if len(res.Canon) > 0 {
		cov["view"] = "canonical: the plain evaluation was not clean; the verdict was obtained on the semantically equivalent in-memory view with these private helpers inlined (type-checked, nothing executed)"
		cov["canonical_view_inlined"] = res.Canon
	}
	if audit != nil {
		cov["mutation_self_audit"] = audit
	}
	ev := map[string]any{
		"property_id": pr.ID,
		"tier":        tier,
		"seed":        seed,
		"level":       "other",
		"coverage":    cov,
		"assumptions": pr.Assume,
		"wall_s":      wall,
		"violations":  bad,
	}
	b, _ := json.MarshalIndent(ev, "", " ")
	os.WriteFile(filepath.Join(vd, "evidence", pr.ID+".json"), b, 0o644)
}
