package main

// T4: lock-held analysis. Forward data-flow over go/cfg for one mutex identity,
// with function-entry facts taken from all call sites (bottom-up, bounded).

import (
	"fmt"
	"go/ast"
	"go/types"
	"sort"
	"strings"

	"golang.org/x/tools/go/cfg"
)

type lockMode int

const (
	lockNone lockMode = iota
	lockShared
	lockExcl
	lockTop // unreachable / not yet computed
)

func (m lockMode) String() string {
	return [...]string{"not held", "held shared", "held exclusive", "unreachable"}[m]
}

func meetLock(a, b lockMode) lockMode {
	if a == lockTop {
		return b
	}
	if b == lockTop {
		return a
	}
	if a < b {
		return a
	}
	return b
}

// MutexID names the mutex a Lock/Unlock call operates on:
// "Struct.field" for a field, "T.<embedded>" for a promoted method on a value of
// named type T, "param:name"/"var:name" for locals.
func (p *Prog) mutexOfCall(f *Func, call *ast.CallExpr) (id string, op string) {
	name := p.CalleeName(f.Info(), call)
	switch name {
	case "sync.(*Mutex).Lock", "sync.(*RWMutex).Lock", "sync.Locker.Lock":
		op = "Lock"
	case "sync.(*Mutex).Unlock", "sync.(*RWMutex).Unlock", "sync.Locker.Unlock":
		op = "Unlock"
	case "sync.(*RWMutex).RLock":
		op = "RLock"
	case "sync.(*RWMutex).RUnlock":
		op = "RUnlock"
	default:
		return "", ""
	}
	sel, ok := unparen(call.Fun).(*ast.SelectorExpr)
	if !ok {
		return "", ""
	}
	return p.mutexIDOfExpr(f, sel.X), op
}

func (p *Prog) mutexIDOfExpr(f *Func, x ast.Expr) string {
	x = unparen(x)
	if u, ok := x.(*ast.UnaryExpr); ok {
		x = unparen(u.X)
	}
	info := f.Info()
	isSyncType := func(t types.Type) bool {
		if t == nil {
			return false
		}
		if pt, ok := t.(*types.Pointer); ok {
			t = pt.Elem()
		}
		if n, ok := t.(*types.Named); ok && n.Obj().Pkg() != nil && n.Obj().Pkg().Path() == "sync" {
			return true
		}
		return false
	}
	if se, ok := x.(*ast.SelectorExpr); ok {
		if s, ok := info.Selections[se]; ok && s.Kind() == types.FieldVal && isSyncType(info.TypeOf(x)) {
			return fieldOwnerName(s)
		}
	}
	t := info.TypeOf(x)
	if t == nil {
		return ""
	}
	if pt, ok := t.(*types.Pointer); ok {
		t = pt.Elem()
	}
	if n, ok := t.(*types.Named); ok {
		if n.Obj().Pkg() != nil && n.Obj().Pkg().Path() == "sync" {
			if id, ok := x.(*ast.Ident); ok {
				return "var:" + id.Name
			}
		}
		if _, isIface := n.Underlying().(*types.Interface); isIface {
			if id, ok := x.(*ast.Ident); ok {
				return "var:" + id.Name
			}
		}
		nm := n.Obj().Name()
		if n.Obj().Pkg() != nil {
			if sp := shortPkg(n.Obj().Pkg().Path(), modPath); sp != "" {
				nm = sp + "." + nm
			}
		}
		return nm + ".<embedded>"
	}
	if id, ok := x.(*ast.Ident); ok {
		return "var:" + id.Name
	}
	return ""
}

type LockFlow struct {
	p     *Prog
	f     *Func
	mutex string
	in    map[*cfg.Block]lockMode
}

func (lf *LockFlow) transfer(n ast.Node, m lockMode) lockMode {
	if _, ok := n.(*ast.DeferStmt); ok {
		return m
	}
	if _, ok := n.(*ast.GoStmt); ok {
		return m
	}
	for _, c := range lf.p.CallsIn(lf.f, n, false) {
		id, op := lf.p.mutexOfCall(lf.f, c.Call)
		if id != lf.mutex {
			continue
		}
		switch op {
		case "Lock":
			m = lockExcl
		case "RLock":
			m = lockShared
		case "Unlock", "RUnlock":
			m = lockNone
		}
	}
	return m
}

// NewLockFlow computes the lock state of mutex at every point of f given the entry state.
func (p *Prog) NewLockFlow(f *Func, mutex string, entry lockMode) *LockFlow {
	lf := &LockFlow{p: p, f: f, mutex: mutex, in: map[*cfg.Block]lockMode{}}
	g := p.Graph(f)
	for _, b := range g.C.Blocks {
		lf.in[b] = lockTop
	}
	lf.in[g.C.Blocks[0]] = entry
	work := []*cfg.Block{g.C.Blocks[0]}
	for len(work) > 0 {
		b := work[len(work)-1]
		work = work[:len(work)-1]
		m := lf.in[b]
		for _, n := range b.Nodes {
			m = lf.transfer(n, m)
		}
		for _, s := range b.Succs {
			nm := meetLock(lf.in[s], m)
			if nm != lf.in[s] {
				lf.in[s] = nm
				work = append(work, s)
			}
		}
	}
	return lf
}

// At returns the lock state just before the CFG node containing n.
func (lf *LockFlow) At(n ast.Node) (lockMode, bool) {
	g := lf.p.Graph(lf.f)
	pt, ok := g.Locate(n)
	if !ok {
		return lockNone, false
	}
	m := lf.in[pt.B]
	for i := 0; i < pt.I; i++ {
		m = lf.transfer(pt.B.Nodes[i], m)
	}
	return m, true
}

// heldAt computes the lock state at node n inside function f, using callers for
// the entry state (depth-bounded, memoised; recursion assumes "held" optimistically
// on cycles, which is sound for the greatest fixed point of "all callers hold").
type lockQuery struct {
	p     *Prog
	mutex string
	memo  map[*Func]lockMode
	busy  map[*Func]bool
	why   map[*Func]string
}

func (p *Prog) NewLockQuery(mutex string) *lockQuery {
	return &lockQuery{p: p, mutex: mutex, memo: map[*Func]lockMode{}, busy: map[*Func]bool{}, why: map[*Func]string{}}
}

func (q *lockQuery) entry(f *Func, depth int) lockMode {
	if m, ok := q.memo[f]; ok {
		return m
	}
	if q.busy[f] {
		return lockTop
	}
	if depth > 8 {
		return lockNone
	}
	q.busy[f] = true
	defer func() { q.busy[f] = false }()
	res := lockTop
	if f.Lit != nil {
		// literal: invoked in place / deferred -> state at that point; otherwise not held
		par := q.p.parents[f.Lit]
		if ce, ok := par.(*ast.CallExpr); ok && unparen(ce.Fun) == ast.Expr(f.Lit) {
			gp := q.p.parents[ce]
			if _, isGo := gp.(*ast.GoStmt); isGo {
				res = lockNone
			} else if f.Parent != nil {
				res = q.at(f.Parent, ce, depth+1)
			}
		} else if as, ok := par.(*ast.AssignStmt); ok && f.Parent != nil {
			// closure bound to a local and only called (never escaping) in the parent:
			// entry state = meet over its call sites
			res = q.localClosureEntry(f, as, depth)
		} else {
			res = lockNone
		}
		q.memo[f] = res
		return res
	}
	// declared function: exported API or method value escape => not held
	refs := q.p.Refs(f.Name)
	if len(refs) == 0 {
		res = lockNone // no visible caller: root (interface implementation / exported API / callback)
		q.why[f] = "no static caller in the module"
	}
	for _, r := range refs {
		if !r.IsCall || r.Fn == nil {
			res = lockNone
			q.why[f] = "referenced as a value"
			break
		}
		// call inside go statement => new goroutine, lock not held by it
		call := q.p.callOfRef(r)
		if call == nil {
			res = lockNone
			break
		}
		if _, isGo := q.p.parents[call].(*ast.GoStmt); isGo {
			res = lockNone
			q.why[f] = "started with go at " + q.p.Pos(call)
			break
		}
		m := q.at(r.Fn, call, depth+1)
		if m < res || res == lockTop {
			if m == lockNone {
				q.why[f] = "caller " + r.Fn.Name + " does not hold it at " + q.p.Pos(call)
			}
		}
		res = meetLock(res, m)
		if res == lockNone {
			break
		}
	}
	// a method that implements a module interface may be invoked through it
	if res != lockNone && f.Obj != nil && q.p.calledThroughInterface(f) {
		res = lockNone
		q.why[f] = "may be invoked through an interface"
	}
	if res == lockTop {
		res = lockNone
	}
	q.memo[f] = res
	return res
}

func (q *lockQuery) localClosureEntry(f *Func, as *ast.AssignStmt, depth int) lockMode {
	// find the variable
	var obj types.Object
	for i, r := range as.Rhs {
		if unparen(r) == ast.Expr(f.Lit) && i < len(as.Lhs) {
			if id, ok := as.Lhs[i].(*ast.Ident); ok {
				obj = f.Info().Defs[id]
				if obj == nil {
					obj = f.Info().Uses[id]
				}
			}
		}
	}
	if obj == nil {
		return lockNone
	}
	res := lockTop
	root := f.Root()
	escaped := false
	ast.Inspect(root.Body, func(n ast.Node) bool {
		id, ok := n.(*ast.Ident)
		if !ok || f.Info().Uses[id] != obj {
			return true
		}
		par := q.p.parents[id]
		if ce, ok := par.(*ast.CallExpr); ok && unparen(ce.Fun) == ast.Expr(id) {
			if _, isGo := q.p.parents[ce].(*ast.GoStmt); isGo {
				escaped = true
				return true
			}
			ef := q.p.EnclosingFunc(ce)
			if ef == nil {
				escaped = true
				return true
			}
			res = meetLock(res, q.at(ef, ce, depth+1))
		} else {
			escaped = true
		}
		return true
	})
	if escaped || res == lockTop {
		return lockNone
	}
	return res
}

func (q *lockQuery) at(f *Func, n ast.Node, depth int) lockMode {
	lf := q.p.NewLockFlow(f, q.mutex, lockNone)
	m, ok := lf.At(n)
	if !ok {
		return lockNone
	}
	if m != lockNone {
		return m
	}
	// maybe held from entry: recompute with caller-provided entry state
	e := q.entry(f, depth)
	if e == lockNone || e == lockTop {
		if e == lockTop {
			return lockTop
		}
		return lockNone
	}
	lf = q.p.NewLockFlow(f, q.mutex, e)
	m, _ = lf.At(n)
	return m
}

// At is the public query.
func (q *lockQuery) At(f *Func, n ast.Node) lockMode {
	m := q.at(f, n, 0)
	if m == lockTop {
		return lockNone
	}
	return m
}

func (q *lockQuery) Why(f *Func) string { return q.why[f] }

func (p *Prog) callOfRef(r Ref) *ast.CallExpr {
	var n ast.Node = r.Id
	par := p.parents[n]
	if se, ok := par.(*ast.SelectorExpr); ok && se.Sel == r.Id {
		n = se
		par = p.parents[n]
	}
	if ce, ok := par.(*ast.CallExpr); ok {
		return ce
	}
	return nil
}

// calledThroughInterface: f's method name is a method of some interface declared
// in the module that f's receiver type implements, and that interface method is
// called somewhere in the module.
func (p *Prog) calledThroughInterface(f *Func) bool {
	if f.Obj == nil {
		return false
	}
	sig := f.Obj.Type().(*types.Signature)
	if sig.Recv() == nil {
		return false
	}
	recv := sig.Recv().Type()
	for _, pk := range p.Pkgs {
		sc := pk.Types.Scope()
		for _, nm := range sc.Names() {
			tn, ok := sc.Lookup(nm).(*types.TypeName)
			if !ok {
				continue
			}
			it, ok := tn.Type().Underlying().(*types.Interface)
			if !ok {
				continue
			}
			if !types.Implements(recv, it) && !types.Implements(types.NewPointer(recv), it) {
				continue
			}
			for i := 0; i < it.NumMethods(); i++ {
				if it.Method(i).Name() == f.Obj.Name() {
					if len(p.Refs(FuncName(it.Method(i), modPath))) > 0 {
						return true
					}
				}
			}
		}
	}
	return false
}

// FieldAccess is one syntactic access of a struct field.
type FieldAccess struct {
	Sel   *ast.SelectorExpr
	Fn    *Func
	Write bool
}

// Accesses lists every selector in module source that resolves to field "Struct.field".
func (p *Prog) Accesses(field string) []FieldAccess {
	var out []FieldAccess
	for _, f := range p.All {
		if p.IsGenerated(f.Body) {
			continue
		}
		inspectNoLit(f.Body, func(n ast.Node) bool {
			se, ok := n.(*ast.SelectorExpr)
			if !ok {
				return true
			}
			s, ok := f.Info().Selections[se]
			if !ok || s.Kind() != types.FieldVal || fieldOwnerName(s) != field {
				return true
			}
			out = append(out, FieldAccess{Sel: se, Fn: f, Write: p.isWriteAccess(se)})
			return true
		})
	}
	sort.Slice(out, func(i, j int) bool { return out[i].Sel.Pos() < out[j].Sel.Pos() })
	return out
}

// isWriteAccess: the selector (or an element of it) is assigned, inc/dec'ed,
// deleted from, or appended in place.
func (p *Prog) isWriteAccess(se *ast.SelectorExpr) bool {
	var n ast.Node = se
	for {
		par := p.parents[n]
		switch x := par.(type) {
		case *ast.ParenExpr:
			n = x
			continue
		case *ast.IndexExpr:
			if x.X == n {
				n = x
				continue
			}
			return false
		case *ast.StarExpr:
			n = x
			continue
		case *ast.AssignStmt:
			for _, l := range x.Lhs {
				if l == n {
					return true
				}
			}
			return false
		case *ast.IncDecStmt:
			return x.X == n
		case *ast.CallExpr:
			if id, ok := x.Fun.(*ast.Ident); ok && (id.Name == "delete" || id.Name == "clear") && len(x.Args) > 0 && x.Args[0] == n {
				return true
			}
			return false
		case *ast.SelectorExpr:
			// x.f.g = ... : write to a sub-field counts as write of the containing value
			if x.X == n {
				n = x
				continue
			}
			return false
		}
		return false
	}
}

// CheckGuardedField emits one obligation per access of field: the mutex must be
// held (exclusively for writes). exempt(f, access) names recognised exceptions.
func (c *RuleCtx) CheckGuardedField(rule, field, mutex string, exempt func(FieldAccess) string) int {
	q := c.P.NewLockQuery(mutex)
	n := 0
	for _, a := range c.P.Accesses(field) {
		n++
		construct := fmt.Sprintf("%s %s", map[bool]string{true: "write", false: "read"}[a.Write], field)
		if exempt != nil {
			if why := exempt(a); why != "" {
				c.OK(rule, a.Fn.Name, construct, a.Sel, "exempt: "+why)
				continue
			}
		}
		m := q.At(a.Fn, a.Sel)
		need := lockShared
		if a.Write {
			need = lockExcl
		}
		if m >= need {
			c.OK(rule, a.Fn.Name, construct, a.Sel, fmt.Sprintf("%s is %s here", mutex, m))
		} else {
			why := q.Why(a.Fn.Root())
			if why == "" {
				why = q.Why(a.Fn)
			}
			c.Bad(rule, a.Fn.Name, construct, a.Sel, fmt.Sprintf("%s is %s at this %s (needs %s); %s", mutex, m, construct, need, why))
		}
	}
	return n
}

// constructed: the access goes through a value allocated in the same function
// (not yet published).
func (p *Prog) accessOnFreshObject(a FieldAccess) bool {
	v := p.R(a.Fn).Val(a.Sel.X)
	return v != nil && (v.Kind == "comp" || v.IsCall("builtin.new"))
}

var _ = strings.Join
