package main

import (
	"go/ast"
	"go/token"
	"go/types"
	"sort"
	"strings"
)

// sendsControlPart: the call hands sendRPC an RPC built by rpcWithControl whose idx-th part (3 = GRAFT,
// 4 = PRUNE) is not nil — the effect of the sendGraft / sendPrune helpers, wherever it is written.
func sendsControlPart(p *Prog, idx int) func(fn *Func, cs CallSite) bool {
	return func(fn *Func, cs CallSite) bool {
		if cs.Name != fnSendRPC || len(cs.Call.Args) < 2 {
			return false
		}
		v := p.R(fn).Val(cs.Call.Args[1])
		return v.IsCall("rpcWithControl") && len(v.Args) == 6 && !isNilV(v.Args[idx])
	}
}

func init() {
	register(&Property{ID: "C07", Run: runC07,
		Explain: "Admission, pairing and existence rules of the mesh, decided for every router state: (R07.1) every own-initiative graft candidate comes from getPeers with a filter that returns true only for non-direct, non-backed-off peers with score >= 0 (opportunistic: > median, after the negative-score prune), the backoff map consulted by a filter is loaded after the last prune of the same iteration, getPeers keeps only connected mesh-capable peers accepted by the filter, and every key inserted into a mesh map is such a candidate; Join's fanout promotion drops members with negative score or backoff; (R07.2) handleGraft inserts only after: topic joined, not direct, not (backoff present and unexpired), score >= 0, not (mesh >= Dhi and not outbound), peerFilter; (R07.3) graftPeer/prunePeer closures pair the mesh write with the tograft/toprune append (and backoff), sendGraftPrune is on every heartbeat path, Join GRAFTs every member of the final mesh map, Leave PRUNEs every former member, and sendGraftPrune builds every PRUNE for a topic taken from the peer's toprune entry and every GRAFT for one from its tograft entry; (R07.4) mesh keys are created only in Join and deleted only in Leave, Join removes the topic's fanout/lastpub, fanout entries are created only by getFanoutPeersForPublishing which is consulted only on a failed mesh lookup; (R07.5) handleGraft admits only connected peers (known finding F8 today), OnClosedOutboundStream removes the peer from every mesh and fanout map; the heartbeat's negative-score loop prunes every negatively scored member; (R07.6) every integer division/modulo of the heartbeat by a parameter is safe for every accepted parameter set (validation rejects a zero divisor on every accepting path, including the bootstrapper early return). (audit round) R07.1: the promotion also drops direct peers; R07.2: the score judged is read after any penalty of the same control message (no stale use reachable from AddPenalty); R07.4: the lastpub stamp is deleted on every path of Join that creates the mesh. (second wave) R07.6 is the inventory of every divisor, slice bound and make length that is a gossipsub parameter, plus who-may-write for divisors; G10 (shared) memo rule. NOT decided: the quantitative post-conditions (grown to D, cut back to D keeping Dscore best / Dout outbound) — they depend on sorting run-time scores and random selection.",
		Assume:  []string{"gs.peers holds exactly the peers with an outbound stream (C13)", "shufflePeers/sort only permute"},
		Mutants: []Mutant{
			{Name: "validate-allows-negative-dscore", File: "gossipsub.go", Old: "params.Dhi < 0 || params.Dscore < 0 || params.Dout < 0", New: "params.Dhi < 0 || params.Dout < 0", Expect: "R07.6"},
			{Name: "direct-connect-ticks-zero-stored", File: "gossipsub.go", Old: "\t\tif t == 0 {\n\t\t\treturn fmt.Errorf(\"direct connect ticks must be positive\")\n\t\t}\n", New: "", Expect: "R07.6"},
			{Name: "prune-topics-from-graft-list", File: "gossipsub.go", Old: "\t\t\tfor _, topic := range pruning {", New: "\t\t\tfor _, topic := range topics {", Expect: "R07.3"},
			{Name: "join-filter-no-backoff", File: "gossipsub.go", Old: "\t\t\treturn !direct && !doBackOff && gs.score.Score(p) >= 0\n", New: "\t\t\treturn !direct && (!doBackOff || len(backoff) > 16) && gs.score.Score(p) >= 0\n", Expect: "R07.1"},
			{Name: "heartbeat-filter-score-gt-neg", File: "gossipsub.go", Old: "\t\t\t\treturn !inMesh && !doBackoff && !direct && score(p) >= 0\n\t\t\t})\n\n\t\t\tfor _, p := range plst {\n\t\t\t\tgraftPeer(p)\n\t\t\t}\n\t\t}\n\n\t\t// do we have too many peers?", New: "\t\t\t\treturn !inMesh && !doBackoff && !direct && score(p) >= gs.publishThreshold\n\t\t\t})\n\n\t\t\tfor _, p := range plst {\n\t\t\t\tgraftPeer(p)\n\t\t\t}\n\t\t}\n\n\t\t// do we have too many peers?", Expect: "R07.1"},
			{Name: "heartbeat-hoisted-backoff", File: "gossipsub.go", Old: "\t\t// drop all peers with negative score, without PX\n\t\tfor p := range peers {\n\t\t\tif score(p) < 0 {\n\t\t\t\tgs.logger.Debug(\"HEARTBEAT: Prune peer with negative score\", \"peer\", p, \"score\", score(p), \"topic\", topic)\n\t\t\t\tprunePeer(p)\n\t\t\t\tnoPX[p] = true\n\t\t\t}\n\t\t}\n\n\t\t// do we have enough peers?\n\t\tif l := len(peers); l < gs.params.Dlo {\n\t\t\tbackoff := gs.backoff[topic]\n", New: "\t\tbackoff := gs.backoff[topic]\n\t\t// drop all peers with negative score, without PX\n\t\tfor p := range peers {\n\t\t\tif score(p) < 0 {\n\t\t\t\tgs.logger.Debug(\"HEARTBEAT: Prune peer with negative score\", \"peer\", p, \"score\", score(p), \"topic\", topic)\n\t\t\t\tprunePeer(p)\n\t\t\t\tnoPX[p] = true\n\t\t\t}\n\t\t}\n\n\t\t// do we have enough peers?\n\t\tif l := len(peers); l < gs.params.Dlo {\n", Expect: "R07.1"},
			{Name: "join-promotion-threshold", File: "gossipsub.go", Old: "\t\t\tif gs.score.Score(p) < 0 || doBackOff || direct {\n\t\t\t\tdelete(gmap, p)", New: "\t\t\tif gs.score.Score(p) < gs.publishThreshold || doBackOff || direct {\n\t\t\t\tdelete(gmap, p)", Expect: "R07.1"},
			{Name: "getpeers-no-feature", File: "gossipsub.go", Old: "\t\tif gs.feature(GossipSubFeatureMesh, gs.peers[p]) && filter(p) && gs.p.peerFilter(p, topic) {", New: "\t\tif filter(p) && gs.p.peerFilter(p, topic) {", Expect: "R07.1"},
			{Name: "graft-direct-admitted", File: "gossipsub.go", Old: "\t\t\t// but don't PX\n\t\t\tdoPX = false\n\t\t\tcontinue\n", New: "\t\t\t// but don't PX\n\t\t\tdoPX = false\n", Expect: "R07.2"},
			{Name: "graft-backoff-expired-flipped", File: "gossipsub.go", Old: "\t\tif backoff && now.Before(expire) {", New: "\t\tif backoff && now.Before(expire) && score >= 0 {", Expect: "R07.2"},
			{Name: "graft-dhi-gt", File: "gossipsub.go", Old: "\t\tif len(peers) >= gs.params.Dhi && !gs.outbound[p] {", New: "\t\tif len(peers) > gs.params.Dhi && !gs.outbound[p] {", Expect: "R07.2"},
			{Name: "prunepeer-no-toprune", File: "gossipsub.go", Old: "\t\t\ttopics := toprune[p]\n\t\t\ttoprune[p] = append(topics, topic)\n", New: "\t\t\tif len(peers) > 0 {\n\t\t\t\ttopics := toprune[p]\n\t\t\t\ttoprune[p] = append(topics, topic)\n\t\t\t}\n", Expect: "R07.3"},
			{Name: "leave-no-prune-when-px-off", File: "gossipsub.go", Old: "\t\tgs.tracer.Prune(p, topic)\n\t\tgs.sendPrune(p, topic, true)\n", New: "\t\tgs.tracer.Prune(p, topic)\n\t\tif gs.doPX {\n\t\t\tgs.sendPrune(p, topic, true)\n\t\t}\n", Expect: "R07.3"},
			{Name: "join-keeps-fanout", File: "gossipsub.go", Old: "\t\tgs.mesh[topic] = gmap\n\t\tdelete(gs.fanout, topic)\n\t} else {\n", New: "\t\tgs.mesh[topic] = gmap\n\t} else {\n", Expect: "R07.4"},
			{Name: "join-keeps-lastpub", File: "gossipsub.go", Old: "\t// the publish stamp is kept even when no fanout peers were found\n\tdelete(gs.lastpub, topic)\n", New: "\t// the publish stamp is kept even when no fanout peers were found\n\tif len(gmap) > 0 {\n\t\tdelete(gs.lastpub, topic)\n\t}\n", Expect: "R07.4"},
			{Name: "join-promotes-direct", File: "gossipsub.go", Old: "\t\t\tif gs.score.Score(p) < 0 || doBackOff || direct {\n\t\t\t\tdelete(gmap, p)", New: "\t\t\tif gs.score.Score(p) < 0 || doBackOff {\n\t\t\t\t_ = direct\n\t\t\t\tdelete(gmap, p)", Expect: "R07.1"},
			{Name: "graft-stale-score", File: "gossipsub.go", Old: "\t\t\t// the penalty has lowered the score; the remaining GRAFTs are judged with the new one\n\t\t\tscore = gs.score.Score(p)\n", New: "", Expect: "R07.2"},
			{Name: "closed-stream-keeps-fanout", File: "gossipsub.go", Old: "\tfor _, peers := range gs.fanout {\n\t\tdelete(peers, p)\n\t}\n\tdelete(gs.gossip, p)", New: "\tdelete(gs.gossip, p)", Expect: "R07.5"},
			{Name: "validate-allows-zero-ticks", File: "gossipsub.go", Old: "\tif params.OpportunisticGraftTicks == 0 || params.DirectConnectTicks == 0 {", New: "\tif params.DirectConnectTicks == 0 {", Expect: "R07.6"},
			{Name: "negative-loop-break", File: "gossipsub.go", Old: "\t\t\t\tprunePeer(p)\n\t\t\t\tnoPX[p] = true\n", New: "\t\t\t\tprunePeer(p)\n\t\t\t\tnoPX[p] = true\n\t\t\t\tif len(peers) <= gs.params.Dlo {\n\t\t\t\t\tbreak\n\t\t\t\t}\n", Expect: "G10"},
		}})
	register(&Property{ID: "C08", Run: runC08,
		Explain: "Prune backoff, decided for every history: (R08.1) every place that puts a ControlGraft into an outgoing RPC is enumerated; fresh GRAFTs take candidates from the backoff-filtered getPeers calls (C07 R07.1, shared) or from the fanout members that survive Join's backoff deletion; retried GRAFTs (piggybackControl, flush) are re-sent only on the edge 'peer still in the topic mesh'; (R08.2) inner backoff maps are written only by doAddBackoff under backoff[p].Before(expire) with expire = time.Now().Add(interval), entries are deleted only by clearBackoff under expire.Add(slack).Before(now) with a non-negative constant slack; (R08.3) backoff is recorded wherever C08 says (handlePrune: the peer's value when > 0 else the default; Leave: unsubscribe backoff for every member; prunePeer; the three refusing arms of handleGraft) and the backed-off GRAFT arm penalises once, and once more under now.Before(floodCutoff); (R08.4) makePrune states the backoff for every peer with the PX feature, choosing UnsubscribeBackoff/PruneBackoff by the same flag as addBackoff. (audit round) R08.3 is anchored at the joined-topic edge (backoff owed whether or not the sender was a member); (R08.5) the duration subtracted from the expiry to recover the prune time equals every duration handed to doAddBackoff (known finding F38). (R08.6) a backoff named by the peer is bounded before it is scaled to a Duration; R08.4 also: the stated period is not rounded down. NOT decided: deadline arithmetic against (virtual) time.",
		Assume:  []string{"time.Now is monotone enough for Before/Add comparisons", "SendControl is an application escape hatch (named exemption)"},
		Mutants: []Mutant{
			{Name: "stated-backoff-rounded-down", File: "gossipsub.go", Old: "\tbackoff := uint64((gs.params.PruneBackoff + time.Second - 1) / time.Second)\n", New: "\tbackoff := uint64(gs.params.PruneBackoff / time.Second)\n", Expect: "R08.4"},
			{Name: "flush-resends-raw-control", File: "gossipsub.go", Old: "\t\tout := &RPC{}\n\t\tgs.piggybackControl(p, out, ctl)\n\t\tif out.Control == nil {\n\t\t\tcontinue\n\t\t}\n\t\tgs.sendRPC(p, out, false)", New: "\t\tout := rpcWithControl(nil, nil, nil, ctl.Graft, ctl.Prune, nil)\n\t\tgs.sendRPC(p, out, false)", Expect: "R08.1"},
			{Name: "piggyback-graft-unfiltered", File: "gossipsub.go", Old: "\t\t_, ok = peers[p]\n\t\tif ok {\n\t\t\ttograft = append(tograft, graft)\n\t\t}", New: "\t\t_, ok = peers[p]\n\t\tif ok || len(peers) < gs.params.Dlo {\n\t\t\ttograft = append(tograft, graft)\n\t\t}", Expect: "R08.1"},
			{Name: "join-promotion-keeps-backoff", File: "gossipsub.go", Old: "\t\t\tif gs.score.Score(p) < 0 || doBackOff || direct {\n\t\t\t\tdelete(gmap, p)", New: "\t\t\tif gs.score.Score(p) < 0 || direct {\n\t\t\t\t_ = doBackOff\n\t\t\t\tdelete(gmap, p)", Expect: "R07.1"},
			{Name: "clearbackoff-slack-wrong-side", File: "gossipsub.go", Old: "\t\t\tif expire.Add(2 * GossipSubHeartbeatInterval).Before(now) {", New: "\t\t\tif expire.Before(now.Add(2 * GossipSubHeartbeatInterval)) {", Expect: "R08.2"},
			{Name: "named-backoff-unbounded", File: "gossipsub.go", Old: "\t\t\tif backoff > maxPruneBackoffSeconds {\n\t\t\t\tbackoff = maxPruneBackoffSeconds\n\t\t\t}\n", New: "", Expect: "R08.6"},
			{Name: "handlegraft-direct-backoff-store", File: "gossipsub.go", Old: "\t\t\t// refresh the backoff\n\t\t\tgs.addBackoff(p, topic, false)", New: "\t\t\t// refresh the backoff\n\t\t\tgs.backoff[topic][p] = now.Add(gs.params.PruneBackoff)", Expect: "R08.2"},
			{Name: "doaddbackoff-shortens", File: "gossipsub.go", Old: "\tif backoff[p].Before(expire) {\n\t\tbackoff[p] = expire\n\t}", New: "\tif backoff[p].Before(expire) || interval < time.Minute {\n\t\tbackoff[p] = expire\n\t}", Expect: "R08.2"},
			{Name: "handleprune-ignores-named-backoff", File: "gossipsub.go", Old: "\t\tif backoff > 0 {\n\t\t\t// the period is chosen by the peer", New: "\t\tif backoff > 0 && backoff < 3600 {\n\t\t\t// the period is chosen by the peer", Expect: "R08.3"},
			{Name: "leave-default-backoff", File: "gossipsub.go", Old: "\t\tgs.addBackoff(p, topic, true)\n", New: "\t\tgs.addBackoff(p, topic, false)\n", Expect: "R08.3"},
			{Name: "graft-backoff-single-penalty", File: "gossipsub.go", Old: "\t\t\tif now.Before(floodCutoff) {\n\t\t\t\t// extra penalty\n\t\t\t\tgs.score.AddPenalty(p, 1)\n\t\t\t}", New: "\t\t\tif now.Before(floodCutoff) && doPX {\n\t\t\t\t// extra penalty\n\t\t\t\tgs.score.AddPenalty(p, 1)\n\t\t\t}", Expect: "R08.3"},
			{Name: "makeprune-unsub-backoff-swapped", File: "gossipsub.go", Old: "\tif isUnsubscribe {\n\t\tbackoff = uint64((gs.params.UnsubscribeBackoff + time.Second - 1) / time.Second)\n\t}", New: "\tif !isUnsubscribe {\n\t\tbackoff = uint64((gs.params.UnsubscribeBackoff + time.Second - 1) / time.Second)\n\t}", Expect: "R08.4"},
			{Name: "makeprune-no-backoff-without-px", File: "gossipsub.go", Old: "\treturn &pb.ControlPrune{TopicID: &topic, Peers: px, Backoff: &backoff}", New: "\tif !doPX {\n\t\treturn &pb.ControlPrune{TopicID: &topic}\n\t}\n\treturn &pb.ControlPrune{TopicID: &topic, Peers: px, Backoff: &backoff}", Expect: "R08.4"},
		}})
}

// graftFilterSites returns the getPeers calls whose result is grafted into a mesh:
// the calls in Join and the calls inside the heartbeat's loop over gs.mesh.
func graftFilterSites(c *RuleCtx, rule string) []CallSite {
	p := c.P
	var out []CallSite
	if f := c.MustFn(rule, "(*GossipSubRouter).Join"); f != nil {
		out = append(out, p.Sites(f, true, fnGetPeers)...)
	}
	if f := c.MustFn(rule, fnHeartbeat); f != nil {
		for _, cs := range p.Sites(f, true, fnGetPeers) {
			for _, l := range p.EnclosingLoops(cs.Call) {
				if r, ok := l.(*ast.RangeStmt); ok && p.R(cs.Fn).Val(r.X).IsField(gsField("mesh")) {
					out = append(out, cs)
				}
			}
		}
	}
	return out
}

func backoffLookup() Atom {
	return lookupIn("p in backoff[topic]", func(v *V) bool {
		return v != nil && (v.Kind == "index" || v.Kind == "lookupval") && v.Args[0].IsField(gsField("backoff"))
	})
}

// checkGraftFilters: R07.1 (which: "all" | "backoff" to select the atoms reported).
func checkGraftFilters(c *RuleCtx, rule string, backoffOnly bool) {
	p := c.P
	sites := graftFilterSites(c, rule)
	if len(sites) < 5 {
		c.Undecided(rule, "Join/heartbeat", "graft candidate selections", nil, "expected 5 getPeers calls feeding mesh inserts (2 in Join, 3 in heartbeat)")
	}
	hb := p.Fn(fnHeartbeat)
	for _, cs := range sites {
		lit := p.litArg(cs.Fn, cs.Call.Args[2])
		root := cs.Fn.Root()
		if lit == nil {
			c.Undecided(rule, root.Name, "graft filter", cs.Call, "filter argument is not a function literal")
			continue
		}
		sc := isScoreOf(p, lit)
		ok, why := p.ReturnsTrueOnlyIf(lit, AtomWant{backoffLookup(), false})
		c.Check(ok, rule, root.Name, "graft candidate never under backoff", cs.Call, why, why)
		// the backoff map the filter reads must not predate a prune of the same iteration
		if root == hb {
			checkBackoffSnapshotFresh(c, rule, cs, lit)
		}
		if backoffOnly {
			continue
		}
		ok, why = p.ReturnsTrueOnlyIf(lit, AtomWant{lookupIn("p in gs.direct", isDirectMap), false})
		c.Check(ok, rule, root.Name, "graft candidate never direct", cs.Call, why, why)
		ok1, why1 := p.ReturnsTrueOnlyIf(lit, AtomWant{AtomCmp("score >= 0", sc, ">=", isZero), true})
		if !ok1 {
			// opportunistic grafting: score > median, after the negative-score prune of this iteration
			med := AtomCmp("score > medianScore", sc, ">", func(v *V) bool {
				return v != nil && (v.Kind == "index" || v.Kind == "lookupval") && v.Args[0].Kind == "call" && v.Args[0].Name == "builtin.make"
			})
			ok2, why2 := p.ReturnsTrueOnlyIf(lit, AtomWant{med, true})
			negPruned := false
			if ok2 && root == hb {
				g := p.Graph(hb)
				pt, _ := g.Locate(cs.Call)
				pruners := p.closuresCalling(hb, fnTrPrune)
				negPruned = g.DominatedByNode(pt, func(n ast.Node) bool {
					for _, pr := range pruners {
						for _, pc := range p.callsOfClosure(hb, pr) {
							if contains(n, pc.Call) {
								return false // the call itself is inside an if; use the loop header instead
							}
						}
					}
					// the range over the mesh members that contains the score<0 prune
					if id, ok := n.(*ast.Ident); ok {
						_ = id
					}
					return false
				})
				// simpler and exact: the negative-score loop statement precedes and is on every path
				negPruned = negLoopDominates(p, hb, cs.Call)
			}
			if ok2 && negPruned {
				ok1, why1 = true, why2+"; the negative-score prune of this iteration dominates the selection, so the median is >= 0"
			}
		}
		c.Check(ok1, rule, root.Name, "graft candidate has non-negative score", cs.Call, why1, why1)
	}
}

// negLoopDominates: in heartbeat, the loop that prunes negative-score members lies on every path to target.
func negLoopDominates(p *Prog, hb *Func, target ast.Node) bool {
	g := p.Graph(hb)
	sc := isScoreOf(p, hb)
	neg := AtomCmp("score < 0", sc, "<", isZero)
	pt, ok := g.Locate(target)
	if !ok {
		return false
	}
	for _, e := range g.AtomEdges(neg, true) {
		loops := p.EnclosingLoops(condNodeOf(e))
		if len(loops) == 0 {
			continue
		}
		r, ok := loops[0].(*ast.RangeStmt)
		if !ok || !innerMapOf("mesh")(p.R(hb).Val(r.X)) {
			continue
		}
		if early, _ := LoopHasEarlyExit(r); early {
			continue
		}
		// the range operand evaluation is a CFG node that must dominate the target
		if g.DominatedByNode(pt, func(n ast.Node) bool { return n == ast.Node(r.X) }) && sameLoopNest(p, r, target) {
			return true
		}
	}
	return false
}

// sameLoopNest: a and b are in the same iteration scope (same innermost enclosing loop).
func sameLoopNest(p *Prog, a, b ast.Node) bool {
	la, lb := p.EnclosingLoops(a), p.EnclosingLoops(b)
	// b may be nested deeper (inside ifs only, not inside further loops)
	if len(la) != len(lb) {
		return false
	}
	for i := range la {
		if la[i] != lb[i] {
			return false
		}
	}
	return true
}

// checkBackoffSnapshotFresh: the local the filter reads the topic's backoff map from must be
// loaded after every prune (which may create the map) that precedes the selection in the same iteration.
func checkBackoffSnapshotFresh(c *RuleCtx, rule string, cs CallSite, lit *Func) {
	p := c.P
	hb := cs.Fn.Root()
	g := p.Graph(hb)
	var loadStmt ast.Node
	// find the identifier used as the map in the filter's backoff lookup
	inspectNoLit(lit.Body, func(n ast.Node) bool {
		ix, ok := n.(*ast.IndexExpr)
		if !ok {
			return true
		}
		id, ok := unparen(ix.X).(*ast.Ident)
		if !ok {
			return true
		}
		// through plain copies (a parameter binding of an inlined predicate) to the local that was loaded from gs.backoff
		obj := p.R(lit).CopyRoot(lit.Info().Uses[id])
		if d, ok := p.R(lit).SingleDef(obj); ok && d.kind == "assign" && d.rhs != nil {
			if v := p.R(lit).Val(d.rhs); v.Kind == "index" && v.Args[0].IsField(gsField("backoff")) {
				loadStmt = d.node
			}
		}
		return true
	})
	if loadStmt == nil {
		// the filter indexes gs.backoff[topic] directly: always fresh
		c.OK(rule, hb.Name, "backoff map read is fresh", cs.Call, "the filter does not use a snapshot local")
		return
	}
	if p.EnclosingFunc(loadStmt) != cs.Fn {
		c.Undecided(rule, hb.Name, "backoff map read is fresh", cs.Call, "snapshot defined in another function")
		return
	}
	lp, ok1 := g.Locate(loadStmt)
	sp, ok2 := g.Locate(cs.Call)
	if !ok1 || !ok2 {
		c.Undecided(rule, hb.Name, "backoff map read is fresh", cs.Call, "not located")
		return
	}
	pruners := p.closuresCalling(hb, fnAddBackoff)
	stale := false
	// is there a path load -> (prune call) -> selection, within the iteration?
	for _, pr := range pruners {
		for _, pc := range p.callsOfClosure(hb, pr) {
			if p.EnclosingFunc(pc.Call) != cs.Fn {
				continue
			}
			pp, ok := g.Locate(pc.Call)
			if !ok {
				continue
			}
			until := p.iterationUntil(hb, cs.Call)
			stop := func(n ast.Node) bool { return false }
			_ = until
			if g.ReachableFrom(lp.After(), pp, cutBackEdges(g, p, hb, cs.Call), stop) && g.ReachableFrom(pp.After(), sp, cutBackEdges(g, p, hb, cs.Call), stop) {
				stale = true
			}
		}
	}
	c.Check(!stale, rule, hb.Name, "backoff map read is fresh", cs.Call, "no prune can happen between loading the topic's backoff map and the candidate selection", "a peer can be pruned (and its backoff recorded, possibly creating the map) between the load of backoff[topic] and the selection that filters on it: the filter would read a stale/nil snapshot")
}

// cutBackEdges removes the edges that start a new iteration of the innermost loop around n.
func cutBackEdges(g *Graph, p *Prog, f *Func, n ast.Node) cutSet {
	cut := cutSet{}
	loops := p.EnclosingLoops(n)
	if len(loops) == 0 {
		return cut
	}
	head, _, _ := g.LoopBlocks(loops[0])
	for _, b := range g.C.Blocks {
		for si, s := range b.Succs {
			if s == head && b != head {
				// edge into the head from inside the loop body = back edge (the entry edge comes from outside; keep it cut too: we never need it)
				if within(firstNodeOrStmt(b), loops[0]) {
					cut[Edge{b, si}] = true
				}
			}
		}
	}
	return cut
}

func firstNodeOrStmt(b *cfgBlock) ast.Node {
	if len(b.Nodes) > 0 {
		return b.Nodes[0]
	}
	if b.Stmt != nil {
		return b.Stmt
	}
	return &ast.BadStmt{}
}

// checkJoinPromotion: fanout members promoted to the mesh by Join.
func checkJoinPromotion(c *RuleCtx, rule string, needScore, needBackoff, needDirect bool) {
	p := c.P
	f := c.MustFn(rule, "(*GossipSubRouter).Join")
	if f == nil {
		return
	}
	g := p.Graph(f)
	sc := isScoreOf(p, f)
	neg := AtomCmp("score < 0", sc, "<", isZero)
	bo := lookupIn("p in backoff[topic]", func(v *V) bool {
		return v != nil && (v.Kind == "index" || v.Kind == "lookupval") && v.Args[0].IsField(gsField("backoff"))
	})
	isFanoutDelete := func(n ast.Node) bool {
		for _, d := range p.mapDeletes(f) {
			if contains(n, d.Call) && innerMapOf("fanout")(p.R(f).Val(d.Map)) {
				return true
			}
		}
		return false
	}
	// the promotion loop: a range over the fanout map
	var loop *ast.RangeStmt
	for _, r := range p.RangesOver(f, innerMapOf("fanout")) {
		loop = r
	}
	if loop == nil {
		c.Bad(rule, f.Name, "fanout promotion filter", f.Decl, "Join does not iterate over the fanout members it promotes")
		return
	}
	if early, n := LoopHasEarlyExit(loop); early {
		c.Bad(rule, f.Name, "fanout promotion loop exhaustive", n, "the loop can be left early")
	}
	check := func(a Atom, what string) {
		found := true
		// and the complement: an iteration that keeps the peer must have refuted a
		keepOK := false
		head, body, _ := g.LoopBlocks(loop)
		if body != nil {
			cut := cutSet{}
			for _, e := range g.AtomEdges(a, false) {
				cut[e] = true
			}
			// false edge of the disjunction refutes both
			for _, blk := range g.C.Blocks {
				if g.condOf[blk] == nil {
					continue
				}
				for s := 0; s < 2; s++ {
					for _, fc := range g.EdgeFacts(Edge{blk, s}) {
						if ok, sense := a.Match(g, fc.E); ok && fc.Truth != sense {
							cut[Edge{blk, s}] = true
						}
					}
				}
			}
			// without refuting edges, every path through the body must delete
			ok, _ := g.MustPass(Point{body, 0}, PassOpts{Cut: cut, Until: map[*cfgBlock]bool{head: true}}, isFanoutDelete)
			keepOK = ok
		}
		c.Check(found && keepOK, rule, f.Name, "promoted fanout member dropped when "+what, loop, "a member survives the promotion loop only on a path that refutes `"+a.Desc+"`", "a fanout member for which `"+a.Desc+"` holds can be promoted into the mesh (and GRAFTed)")
	}
	if needScore {
		check(neg, "score < 0")
	}
	if needBackoff {
		check(bo, "under backoff")
	}
	if needDirect {
		check(lookupIn("p in gs.direct", isDirectMap), "a direct peer")
	}
}

func runC07(c *RuleCtx) {
	p := c.P
	// R07.1
	checkGraftFilters(c, "R07.1", false)
	checkJoinPromotion(c, "R07.1", true, true, true)
	if f := c.MustFn("R07.1", fnGetPeers); f != nil {
		n := 0
		for _, ap := range p.localAppends(f) {
			n++
			for _, aw := range []AtomWant{
				{AtomBool("feature(Mesh, gs.peers[p])", func(v *V) bool {
					return v.IsCall(fnFeature) && len(v.Args) == 3 && v.Args[1].IsConst("GossipSubFeatureMesh") && v.Args[2].Kind == "index" && v.Args[2].Args[0].IsField(gsField("peers"))
				}), true},
				{AtomBool("filter(p)", isCallTo("var:filter")), true},
				{AtomBool("peerFilter(p, topic)", isCallTo("field:PubSub.peerFilter")), true},
			} {
				ok, why := p.DomAny(f, ap.Stmt, aw)
				c.Check(ok, "R07.1", f.Name, "candidate kept only if "+aw.A.Desc, ap.Stmt, why, why)
			}
			// candidates are topic peers
			loops := p.EnclosingLoops(ap.Stmt)
			okT := false
			if len(loops) > 0 {
				if r, ok := loops[0].(*ast.RangeStmt); ok && p.R(f).Val(r.X).Has(func(v *V) bool { return v.IsField("PubSub.topics") }) {
					okT = true
				}
			}
			c.Check(okT, "R07.1", f.Name, "candidates range over the topic's peers", ap.Stmt, "range over p.topics[topic]", "candidates are not taken from the topic's peer map")
		}
		if n != 1 {
			c.Undecided("R07.1", f.Name, "candidate append", f.Decl, "expected one append in getPeers")
		}
	}
	// insert-site provenance
	checkMeshInsertProvenance(c)
	// R07.2 handleGraft admission
	checkScoreFreshness(c, "R07.2", fnHandleGraft)
	if f := c.MustFn("R07.2", fnHandleGraft); f != nil {
		g := p.Graph(f)
		sc := isScoreOf(p, f)
		var ins *MapInsert
		for _, mi := range p.mapInserts(f) {
			if innerMapOf("mesh")(p.R(f).Val(mi.Map)) {
				x := mi
				ins = &x
			}
		}
		if ins == nil {
			c.Undecided("R07.2", f.Name, "mesh insert", f.Decl, "no insert into the topic mesh")
		} else {
			pt, _ := g.Locate(ins.Stmt)
			dom := func(desc string, edges []Edge) {
				ok := len(edges) > 0 && g.Dominated(pt, edges)
				c.Check(ok, "R07.2", f.Name, "admit only if "+desc, ins.Stmt, "every path to the insert establishes it", "a GRAFT can be admitted without establishing: "+desc)
			}
			dom("topic joined", g.AtomEdges(lookupIn("topic in gs.mesh", isFieldOf(gsField("mesh"))), true))
			dom("not direct", g.AtomEdges(lookupIn("p in gs.direct", isDirectMap), false))
			boPresent := AtomBool("backoff entry present", func(v *V) bool {
				return v.Kind == "lookupok" && v.Args[0].Kind == "index" && v.Args[0].Args[0].IsField(gsField("backoff"))
			})
			unexpired := AtomBool("now.Before(expire)", func(v *V) bool {
				return v.IsCall("time.Time.Before") && len(v.Args) == 2 && v.Args[0].IsCall("time.Now") && v.Args[1].Kind == "lookupval"
			})
			dom("not (backoff present and unexpired)", g.EdgesNotBoth(boPresent, unexpired))
			dom("score >= 0", g.AtomEdges(AtomCmp("score < 0", sc, "<", isZero), false))
			full := AtomCmp("len(mesh) >= Dhi", func(v *V) bool { return v.Kind == "len" && innerMapOf("mesh")(v.Args[0]) }, ">=", isFieldOf("GossipSubParams.Dhi"))
			inbound := Atom{Desc: "not outbound", Match: func(g *Graph, e ast.Expr) (bool, bool) {
				v := g.P.R(g.F).Val(e)
				if v.Kind == "index" && v.Args[0].IsField(gsField("outbound")) {
					return true, false // expression true means outbound => atom "not outbound" false
				}
				return false, false
			}}
			dom("not (mesh at Dhi and peer inbound)", g.EdgesNotBoth(full, inbound))
			dom("peerFilter accepts", g.AtomEdges(AtomBool("peerFilter", isCallTo("field:PubSub.peerFilter")), true))
			// R07.5 connectedness (F8)
			conn := lookupIn("p in gs.peers", isFieldOf(gsField("peers")))
			ok := len(g.AtomEdges(conn, true)) > 0 && g.Dominated(pt, g.AtomEdges(conn, true))
			c.Check(ok, "R07.5", f.Name, "admit only connected peers (p in gs.peers)", ins.Stmt, "dominated by a successful lookup in gs.peers", "handleGraft inserts the sender into the mesh without checking that it is in gs.peers (has an outbound stream): such a member is never removed by OnClosedOutboundStream")
			// the inserted key is the sender
			kv := p.R(f).Val(ins.Key)
			c.Check(kv.Kind == "var", "R07.2", f.Name, "inserted key is the GRAFT sender", ins.Stmt, kv.String(), "inserted key is "+kv.String())
		}
	}
	// R07.3 pairing
	if hb := c.MustFn("R07.3", fnHeartbeat); hb != nil {
		grafters := p.closuresCalling(hb, fnTrGraft)
		pruners := p.closuresCalling(hb, fnTrPrune)
		if len(grafters) != 1 || len(pruners) != 1 {
			c.Undecided("R07.3", hb.Name, "graft/prune closures", hb.Decl, "expected exactly one closure calling tracer.Graft and one calling tracer.Prune")
		} else {
			var tograft, toprune ast.Expr
			for _, cs := range p.Sites(hb, false, "(*GossipSubRouter).sendGraftPrune") {
				tograft, toprune = cs.Call.Args[0], cs.Call.Args[1]
				ok, why := p.MustCallFromEntry(hb, "(*GossipSubRouter).sendGraftPrune")
				c.Check(ok, "R07.3", hb.Name, "sendGraftPrune on every heartbeat path", cs.Call, why, why)
			}
			if tograft == nil {
				c.Bad("R07.3", hb.Name, "sendGraftPrune", hb.Decl, "heartbeat does not call sendGraftPrune")
			} else {
				for _, tc := range []struct {
					lit  *Func
					list ast.Expr
					what string
					ins  bool
				}{{grafters[0], tograft, "graft", true}, {pruners[0], toprune, "prune", false}} {
					g := p.Graph(tc.lit)
					listV := p.R(hb).Val(tc.list)
					appendPred := func(n ast.Node) bool {
						as, ok := n.(*ast.AssignStmt)
						if !ok || len(as.Lhs) != 1 {
							return false
						}
						ix, ok := unparen(as.Lhs[0]).(*ast.IndexExpr)
						return ok && p.R(tc.lit).Val(ix.X).Equal(listV)
					}
					ok, _ := g.MustPass(g.Entry(), PassOpts{}, appendPred)
					c.Check(ok, "R07.3", hb.Name, tc.what+" closure always queues the control message", tc.lit.Lit, "every path appends the topic to the "+tc.what+" list handed to sendGraftPrune", "the "+tc.what+" closure can change the mesh without queueing the "+strings.ToUpper(tc.what))
					meshWrite := func(n ast.Node) bool {
						if tc.ins {
							for _, mi := range p.mapInserts(tc.lit) {
								if contains(n, mi.Stmt) && innerMapOf("mesh")(p.R(tc.lit).Val(mi.Map)) {
									return true
								}
							}
						} else {
							for _, d := range p.mapDeletes(tc.lit) {
								if contains(n, d.Call) && innerMapOf("mesh")(p.R(tc.lit).Val(d.Map)) {
									return true
								}
							}
						}
						return false
					}
					ok, _ = g.MustPass(g.Entry(), PassOpts{}, meshWrite)
					c.Check(ok, "R07.3", hb.Name, tc.what+" closure always updates the mesh", tc.lit.Lit, "every path", "the "+tc.what+" closure can queue a control message without the mesh change")
				}
			}
		}
	}
	if f := c.MustFn("R07.3", "(*GossipSubRouter).sendGraftPrune"); f != nil {
		// every entry of tograft and toprune is sent
		for i, nm := range []string{"tograft", "toprune"} {
			_ = i
			var loops []*ast.RangeStmt
			for _, r := range p.RangesOver(f, isParam(f, i)) {
				loops = append(loops, r)
			}
			if len(loops) == 0 {
				c.Bad("R07.3", f.Name, "loop over "+nm, f.Decl, "no loop over "+nm)
			}
			for _, r := range loops {
				ok, why := p.LoopBodyMust(f, r, nil, p.callPred(f, fnSendRPC))
				c.Check(ok, "R07.3", f.Name, "every "+nm+" entry is sent", r, why, why)
			}
		}
		// provenance: every PRUNE built here is for a topic taken from toprune, every GRAFT for one from tograft
		fromParam := func(v *V, idx int) bool {
			if v == nil || (v.Kind != "rangeval" && v.Kind != "rangekey") {
				return false
			}
			// the collection ranged over is (an entry of) the idx-th parameter: toprune[p], each(tograft), …
			root := v.Args[0]
			for root != nil && (root.Kind == "lookupval" || root.Kind == "index" || root.Kind == "rangeval") && len(root.Args) > 0 {
				root = root.Args[0]
			}
			return isParam(f, idx)(root)
		}
		nPrune := 0
		for _, cs := range p.Sites(f, false, fnMakePrune) {
			nPrune++
			tv := p.R(f).Val(cs.Call.Args[1])
			c.Check(fromParam(tv, 1), "R07.3", f.Name, "PRUNE built for a topic taken from toprune", cs.Call, tv.String(), "a PRUNE is built for "+tv.String()+", which is not a topic of the peer's toprune entry: the peer is not told about the mesh it was removed from")
		}
		if nPrune < 2 {
			c.Undecided("R07.3", f.Name, "PRUNE construction sites", f.Decl, "fewer makePrune calls than known")
		}
		nGraft := 0
		inspectNoLit(f.Body, func(x ast.Node) bool {
			cl, ok := x.(*ast.CompositeLit)
			if !ok || !strings.HasSuffix(typeString(f.Info().TypeOf(cl), modPath), "pb.ControlGraft") {
				return true
			}
			for _, el := range cl.Elts {
				if kv, ok := el.(*ast.KeyValueExpr); ok {
					if k, ok := kv.Key.(*ast.Ident); ok && f.Info().Uses[k] != nil && f.Info().Uses[k].Name() == "TopicID" {
						nGraft++
						tv := p.R(f).Val(kv.Value)
						c.Check(fromParam(tv, 0), "R07.3", f.Name, "GRAFT built for a topic taken from tograft", cl, tv.String(), "a GRAFT is built for "+tv.String()+", which is not a topic of the peer's tograft entry")
					}
				}
			}
			return true
		})
		if nGraft < 1 {
			c.Undecided("R07.3", f.Name, "GRAFT construction sites", f.Decl, "no ControlGraft literal with a TopicID found")
		}
	}
	if f := c.MustFn("R07.3", "(*GossipSubRouter).Join"); f != nil {
		g := p.Graph(f)
		// the GRAFT loop: the range loop that traces a GRAFT for its element (the send itself is checked below)
		var final *ast.RangeStmt
		for _, cs := range p.Sites(f, false, fnTrGraft) {
			for _, l := range p.EnclosingLoops(cs.Call) {
				if r, ok := l.(*ast.RangeStmt); ok {
					final = r
				}
			}
		}
		if final == nil {
			c.Bad("R07.3", f.Name, "GRAFT loop", f.Decl, "Join does not send GRAFT in a loop over the new mesh")
		} else {
			ok, why := p.LoopBodyMust(f, final, nil, p.EffectPred(f, sendsControlPart(p, 3)))
			c.Check(ok, "R07.3", f.Name, "GRAFT sent to every member", final, why, why)
			ok, why = p.LoopBodyMust(f, final, nil, p.callPred(f, fnTrGraft))
			c.Check(ok, "R07.3", f.Name, "GRAFT traced for every member", final, why, why)
			// the loop ranges over the map stored into gs.mesh[topic]
			rid, _ := unparen(final.X).(*ast.Ident)
			for _, s := range p.StoresTo2(f, gsField("mesh")) {
				if s.Kind != "elem-assign" {
					continue
				}
				sid, _ := unparen(s.RHS).(*ast.Ident)
				same := rid != nil && sid != nil && f.Info().Uses[rid] == f.Info().Uses[sid]
				c.Check(same, "R07.3", f.Name, "GRAFT loop ranges over the stored mesh map", s.Node, "same variable", "the map stored as the topic's mesh is not the one the GRAFT loop ranges over")
				// and the loop is reached after the store on every path
				sp, _ := g.Locate(s.Node)
				ok, _ := g.MustPass(sp.After(), PassOpts{}, func(n ast.Node) bool { return n == ast.Node(final.X) })
				c.Check(ok, "R07.3", f.Name, "GRAFT loop follows the store", s.Node, "always", "a path stores the mesh and returns without sending GRAFTs")
			}
		}
	}
	if f := c.MustFn("R07.3", "(*GossipSubRouter).Leave"); f != nil {
		rs := p.RangesOver(f, innerMapOf("mesh"))
		if len(rs) != 1 {
			c.Undecided("R07.3", f.Name, "loop over former members", f.Decl, "expected one loop over the former mesh")
		}
		for _, r := range rs {
			ok, why := p.LoopBodyMust(f, r, nil, p.EffectPred(f, sendsControlPart(p, 4)))
			c.Check(ok, "R07.3", f.Name, "sendPrune for every former member", r, why, why)
			ok, why = p.LoopBodyMust(f, r, nil, p.callPred(f, fnTrPrune))
			c.Check(ok, "R07.3", f.Name, shortFn(fnTrPrune)+" for every former member", r, why, why)
		}
	}
	// R07.4 existence
	{
		for _, s := range p.StoresTo(gsField("mesh")) {
			root := s.Fn.Root().Name
			switch s.Kind {
			case "elem-assign":
				c.Check(root == "(*GossipSubRouter).Join", "R07.4", root, "mesh key created", s.Node, "by Join", "a topic mesh is created outside Join")
			case "delete":
				c.Check(root == "(*GossipSubRouter).Leave", "R07.4", root, "mesh key deleted", s.Node, "by Leave", "a topic mesh is deleted outside Leave")
			case "assign":
				c.Check(strings.HasPrefix(root, "DefaultGossipSubRouter") || strings.HasPrefix(root, "New"), "R07.4", root, "mesh map replaced", s.Node, "constructor", "gs.mesh is replaced outside the constructor")
			default:
				c.Bad("R07.4", root, "unexpected write to gs.mesh: "+s.Kind, s.Node, "unrecognised write")
			}
		}
		for _, s := range p.StoresTo(gsField("fanout")) {
			root := s.Fn.Root().Name
			if s.Kind == "elem-assign" {
				c.Check(root == fnFanoutPeers, "R07.4", root, "fanout key created", s.Node, "by getFanoutPeersForPublishing", "a fanout entry is created outside getFanoutPeersForPublishing")
			}
		}
		if f := c.MustFn("R07.4", "(*GossipSubRouter).Join"); f != nil {
			g := p.Graph(f)
			hasFan := lookupIn("topic in gs.fanout", isFieldOf(gsField("fanout")))
			edges := g.AtomEdges(hasFan, true)
			if len(edges) == 0 {
				c.Bad("R07.4", f.Name, "fanout lookup", f.Decl, "Join does not look the topic up in gs.fanout")
			}
			deletes := func(fld string) func(ast.Node) bool {
				return func(n ast.Node) bool {
					for _, d := range p.mapDeletes(f) {
						if contains(n, d.Call) && p.R(f).Val(d.Map).IsField(gsField(fld)) {
							return true
						}
					}
					return false
				}
			}
			for _, e := range edges {
				ok, _ := g.MustPass(EdgeTarget(e), PassOpts{}, deletes("fanout"))
				c.Check(ok, "R07.4", f.Name, "Join removes the topic's fanout entry", condNodeOf(e), "always on the fanout-present edge", "after Join the topic can have both a mesh and a fanout entry")
			}
			// the publish stamp: it is written on every fanout publish, whether or not fanout peers were found,
			// so it can exist without a fanout entry. Either every stamp write is tied to a fanout entry (then
			// the fanout-present edge suffices), or every path of Join that creates the mesh removes it.
			stampTied := true
			nStamp := 0
			for _, s := range p.StoresTo(gsField("lastpub")) {
				if s.Kind != "elem-assign" {
					continue
				}
				nStamp++
				hasFanS := lookupIn("topic in gs.fanout", isFieldOf(gsField("fanout")))
				okL, _ := p.DomAny(s.Fn, s.Node, AtomWant{hasFanS, true})
				sg := p.Graph(s.Fn)
				pt, located := sg.Locate(s.Node)
				okS := located && sg.DominatedByNode(pt, func(n ast.Node) bool {
					for _, s2 := range p.StoresTo2(s.Fn, gsField("fanout")) {
						if s2.Kind == "elem-assign" && contains(n, s2.Node) {
							return true
						}
					}
					return false
				})
				if !okL && !okS {
					stampTied = false
				}
			}
			if nStamp == 0 {
				c.Undecided("R07.4", f.Name, "lastpub writes", f.Decl, "no write of gs.lastpub found (anchor drift)")
			}
			for i, s := range p.StoresTo2(f, gsField("mesh")) {
				if s.Kind != "elem-assign" {
					continue
				}
				pt, _ := g.Locate(s.Node)
				okAfter, _ := g.MustPass(pt, PassOpts{}, deletes("lastpub"))
				okBefore := g.DominatedByNode(pt, deletes("lastpub"))
				okEdge := false
				if stampTied && len(edges) > 0 {
					okEdge = true
					for _, e := range edges {
						if ok, _ := g.MustPass(EdgeTarget(e), PassOpts{}, deletes("lastpub")); !ok {
							okEdge = false
						}
					}
				}
				suffix := ""
				if i > 0 {
					suffix = "#" + itoa(i+1)
				}
				c.Check(okAfter || okBefore || okEdge, "R07.4", f.Name, "Join removes the topic's lastpub entry"+suffix, s.Node, "on every path that creates the mesh (or wherever a stamp can exist)", "this path of Join creates the mesh without deleting gs.lastpub[topic], which getFanoutPeersForPublishing writes on every fanout publish even when it found no fanout peers: fanout state survives for a joined topic")
			}
			// Join returns early iff already joined
			joined := lookupIn("topic in gs.mesh", isFieldOf(gsField("mesh")))
			for _, s := range p.StoresTo2(f, gsField("mesh")) {
				ok, why := p.DomAny(f, s.Node, AtomWant{joined, false})
				c.Check(ok, "R07.4", f.Name, "mesh created only if not yet joined", s.Node, why, why)
			}
		}
		// getFanoutPeersForPublishing only on a failed mesh lookup
		joined := lookupIn("topic in gs.mesh", isFieldOf(gsField("mesh")))
		for _, cs := range p.AllSites(fnFanoutPeers) {
			ok, why := p.DomDeep(cs.Fn.Root(), cs.Call, AtomWant{joined, false})
			c.Check(ok, "R07.4", cs.Fn.Root().Name, "fanout consulted only when the topic is not joined", cs.Call, why, "getFanoutPeersForPublishing (which creates fanout state) is called without a failed lookup of gs.mesh[topic]: fanout state can exist for a joined topic; "+why)
		}
	}
	// R07.5 removal on departure
	if f := c.MustFn("R07.5", "(*GossipSubRouter).OnClosedOutboundStream"); f != nil {
		g := p.Graph(f)
		for _, fld := range []string{"mesh", "fanout"} {
			rs := p.RangesOver(f, isFieldOf(gsField(fld)))
			if len(rs) == 0 {
				c.Bad("R07.5", f.Name, "departed peer removed from every "+fld+" map", f.Decl, "no loop over gs."+fld)
			}
			for _, r := range rs {
				present := lookupIn("p in map", innerMapOf(fld))
				ok, why := p.LoopBodyMust(f, r, g.AtomEdges(present, false), func(n ast.Node) bool {
					for _, d := range p.mapDeletes(f) {
						if contains(n, d.Call) && innerMapOf(fld)(p.R(f).Val(d.Map)) {
							return true
						}
					}
					return false
				})
				c.Check(ok, "R07.5", f.Name, "departed peer removed from every "+fld+" map", r, why, why)
				okr, _ := g.MustPass(g.Entry(), PassOpts{}, func(n ast.Node) bool { return n == ast.Node(r.X) })
				c.Check(okr, "R07.5", f.Name, fld+" removal loop on every path", r, "always reached", "a path skips the loop")
			}
		}
	}
	// R07.6 accepted-parameter safety of the heartbeat: integer divisions/modulos by a parameter
	{
		n := 0
		v := p.Fn("(*GossipSubParams).validate")
		for _, d := range p.IntDivisions() {
			if d.Fn.File != "gossipsub.go" {
				continue
			}
			dv := p.R(d.Fn).Val(d.Expr.Y)
			if dv.Kind != "field" || !strings.HasPrefix(dv.Name, "GossipSubParams.") {
				continue
			}
			n++
			pos := AtomCmp("divisor > 0", func(x *V) bool { return x.Equal(dv) }, ">", isZero)
			ok, why := p.DomAny(d.Fn, d.Expr, AtomWant{pos, true})
			if !ok && v != nil {
				zero := AtomCmp(shortFn(dv.Name)+" == 0", isFieldOf(dv.Name), "==", isZero)
				okAll, cnt := true, 0
				returnsIn(v, func(r *ast.ReturnStmt) {
					if len(r.Results) == 1 && isNilV(p.R(v).Val(r.Results[0])) {
						cnt++
						if okr, _ := p.DomAny(v, r, AtomWant{zero, false}); !okr {
							okAll = false
						}
					}
				})
				if okAll && cnt > 0 {
					ok, why = true, "GossipSubParams.validate rejects "+shortFn(dv.Name)+" == 0 on every accepting path (including the bootstrapper early return)"
				}
			}
			c.Check(ok, "R07.6", d.Fn.Root().Name, "division by parameter "+shortFn(dv.Name)+" cannot be by zero", d.Expr, why, "the heartbeat divides by "+dv.String()+", which an accepted parameter set can leave at zero: the event loop panics with integer divide by zero")
		}
		if n < 2 {
			c.Undecided("R07.6", "heartbeat divisors", "inventory", nil, "fewer parameter divisors than known")
		}
		// ... and who may write them: a divisor parameter stored outside the validated parameter set (an option that
		// writes gs.params.X directly) needs its own zero test
		divisors := map[string]bool{}
		for _, d := range p.IntDivisions() {
			if d.Fn.File == "gossipsub.go" {
				if dv := p.R(d.Fn).Val(d.Expr.Y); dv.Kind == "field" && strings.HasPrefix(dv.Name, "GossipSubParams.") {
					divisors[dv.Name] = true
				}
			}
		}
		for fld := range divisors {
			for _, s := range p.StoresTo(fld) {
				if s.Kind != "assign" || s.RHS == nil {
					continue
				}
				rv := p.R(s.Fn).Val(s.RHS)
				if tv, ok := s.Fn.Info().Types[s.RHS]; ok && tv.Value != nil && tv.Value.String() != "0" {
					continue // a non-zero constant (defaults)
				}
				zero := AtomCmp("value == 0", func(x *V) bool { return x.Equal(rv) }, "==", isZero)
				pos := AtomCmp("value > 0", func(x *V) bool { return x.Equal(rv) }, ">", isZero)
				ok, why := p.DomAny(s.Fn, s.Node, AtomWant{zero, false}, AtomWant{pos, true})
				c.Check(ok, "R07.6", s.Fn.Root().Name, shortFn(fld)+" stored only if not zero", s.Node, why, "the divisor parameter "+shortFn(fld)+" is written directly, past GossipSubParams.validate, without a zero test: the heartbeat then divides by zero: "+why)
			}
		}
		// slice bounds and slice lengths taken from a parameter: a negative value panics (slice bounds out of range /
		// makeslice: len out of range); validation rejects it on every accepting path
		nb := 0
		seen := map[string]bool{}
		needNonNeg := func(fn *Func, e ast.Expr, at ast.Node, what string) {
			if e == nil {
				return
			}
			bv := p.R(fn).Val(e)
			var fld string
			bv.Has(func(x *V) bool {
				if x.Kind == "field" && strings.HasPrefix(x.Name, "GossipSubParams.") && fld == "" {
					if fv, ok := x.Obj.(*types.Var); ok {
						if b, ok := fv.Type().Underlying().(*types.Basic); ok && b.Info()&types.IsInteger != 0 && b.Info()&types.IsUnsigned == 0 {
							fld = x.Name
						}
					}
				}
				return false
			})
			if fld == "" {
				return
			}
			nb++
			if seen[fld] || v == nil {
				return
			}
			seen[fld] = true
			neg := AtomCmp(shortFn(fld)+" < 0", isFieldOf(fld), "<", isZero)
			okAll, cnt := true, 0
			returnsIn(v, func(r *ast.ReturnStmt) {
				if len(r.Results) == 1 && isNilV(p.R(v).Val(r.Results[0])) {
					cnt++
					if okr, _ := p.DomAny(v, r, AtomWant{neg, false}); !okr {
						okAll = false
					}
				}
			})
			c.Check(okAll && cnt > 0, "R07.6", v.Name, shortFn(fld)+" accepted only if not negative", at, "rejected on every accepting path", "GossipSubParams.validate accepts a negative "+shortFn(fld)+", which "+fn.Root().Name+" uses as "+what+" at "+p.Pos(at)+": the event loop panics")
		}
		for _, f := range p.All {
			if f.File != "gossipsub.go" || f.Body == nil || f.Parent != nil {
				continue
			}
			ast.Inspect(f.Body, func(x ast.Node) bool {
				switch e := x.(type) {
				case *ast.SliceExpr:
					fn := p.EnclosingFunc(e)
					if fn == nil {
						fn = f
					}
					needNonNeg(fn, e.Low, e, "a slice bound")
					needNonNeg(fn, e.High, e, "a slice bound")
				case *ast.CallExpr:
					if id, ok := e.Fun.(*ast.Ident); ok && id.Name == "make" && len(e.Args) >= 2 {
						fn := p.EnclosingFunc(e)
						if fn == nil {
							fn = f
						}
						if _, isB := fn.Info().Uses[id].(*types.Builtin); isB {
							needNonNeg(fn, e.Args[1], e, "a slice length")
						}
					}
				}
				return true
			})
		}
		if nb < 3 {
			c.Undecided("R07.6", "parameter slice bounds", "inventory", nil, "fewer slice bounds/lengths taken from parameters than known: "+itoa(nb))
		}
	}
	// negative-score prune (first clause of C07) — shares G10 with C09
	sub := &RuleCtx{P: c.P, Prop: c.Prop, Min: map[string]int{}}
	runC09(sub)
	for _, o := range sub.Obs {
		if o.Rule == "G10" {
			c.Obs = append(c.Obs, o)
		}
	}
	c.Min["R07.1"] = 20
	c.Min["R07.2"] = 7
	c.Min["R07.3"] = 14
	c.Min["R07.4"] = 8
	c.Min["R07.5"] = 5
	c.Min["R07.6"] = 7
	c.Min["G10"] = 4
}

// checkMeshInsertProvenance: keys inserted into mesh maps outside handleGraft are graft candidates.
func checkMeshInsertProvenance(c *RuleCtx) {
	p := c.P
	isCandidate := func(f *Func, e ast.Expr) (bool, string) {
		v := p.R(f).Val(e)
		if v.Kind == "rangeval" {
			src := v.Args[0]
			if src.IsCall(fnGetPeers) {
				return true, "ranges over a getPeers result"
			}
			if src.Kind == "var" {
				// a local slice assigned (only) from getPeers
				allGet := true
				n := 0
				for _, d := range p.R(f).Defs(src.Obj) {
					if d.kind == "assign" && d.rhs != nil {
						n++
						if rv := p.R(f).Val(d.rhs); !rv.IsCall(fnGetPeers) && !rv.IsCall("peerMapToList") {
							allGet = false
						}
					}
				}
				if allGet && n > 0 {
					return true, "ranges over a slice assigned from getPeers"
				}
			}
		}
		return false, "key is " + v.String()
	}
	hb := p.Fn(fnHeartbeat)
	join := p.Fn("(*GossipSubRouter).Join")
	n := 0
	if hb != nil {
		for _, lit := range p.closuresCalling(hb, fnTrGraft) {
			for _, mi := range p.mapInserts(lit) {
				if !innerMapOf("mesh")(p.R(lit).Val(mi.Map)) {
					continue
				}
				// key is the closure's parameter: check every call site
				for _, cs := range p.callsOfClosure(hb, lit) {
					n++
					ok, why := isCandidate(cs.Fn, cs.Call.Args[0])
					c.Check(ok, "R07.1", hb.Name, "grafted peer is a filtered candidate", cs.Call, why, "a peer is grafted that does not come from a filtered getPeers selection: "+why)
				}
			}
		}
	}
	if join != nil {
		for _, mi := range p.mapInserts(join) {
			if t := join.Info().TypeOf(mi.Map); t == nil || !strings.Contains(t.String(), "peer.ID") {
				continue
			}
			if p.R(join).Val(mi.Map).IsField(gsField("mesh")) {
				continue
			}
			n++
			ok, why := isCandidate(join, mi.Key)
			c.Check(ok, "R07.1", join.Name, "peer added on Join is a filtered candidate", mi.Stmt, why, "Join adds a peer that does not come from a filtered getPeers selection: "+why)
		}
		// else-branch: mesh built by peerListToMap(getPeers(...))
		for _, s := range p.StoresTo2(join, gsField("mesh")) {
			if s.Kind != "elem-assign" {
				continue
			}
			_ = s
		}
	}
	// any other insert into a mesh map in the module
	for _, f := range p.All {
		if p.IsGenerated(f.Body) {
			continue
		}
		root := f.Root().Name
		if root == fnHeartbeat || root == "(*GossipSubRouter).Join" || root == fnHandleGraft {
			continue
		}
		for _, mi := range p.mapInserts(f) {
			if innerMapOf("mesh")(p.R(f).Val(mi.Map)) {
				c.Bad("R07.1", root, "mesh insert outside Join/heartbeat/handleGraft", mi.Stmt, "a peer is inserted into a topic mesh by a function outside the three admission paths")
			}
		}
	}
	if n < 4 {
		c.Undecided("R07.1", "mesh inserts", "provenance", nil, "fewer own-initiative insert sites than known (3 heartbeat + opportunistic, Join)")
	}
}

func runC08(c *RuleCtx) {
	p := c.P
	// R08.1 GRAFT emitters
	checkGraftFilters(c, "R07.1", true)
	checkJoinPromotion(c, "R07.1", false, true, false)
	{
		// enumerate functions that construct a ControlGraft or forward Graft lists
		emit := map[string]bool{}
		for _, f := range p.All {
			if p.IsGenerated(f.Body) || f.Pkg != p.Main {
				continue
			}
			inspectNoLit(f.Body, func(n ast.Node) bool {
				switch x := n.(type) {
				case *ast.CompositeLit:
					if t := f.Info().TypeOf(x); t != nil && typeString(t, modPath) == "pb.ControlGraft" {
						emit[f.Root().Name] = true
					}
				case *ast.SelectorExpr:
					if s, ok := f.Info().Selections[x]; ok && s.Kind() == types.FieldVal && fieldOwnerName(s) == "pb.ControlMessage.Graft" {
						// merely measuring the list (`len(ctl.Graft)`) neither builds nor forwards a GRAFT
						if ce, isCall := p.parents[ast.Node(x)].(*ast.CallExpr); isCall {
							if id, isId := ce.Fun.(*ast.Ident); isId && id.Name == "len" {
								if _, isBuiltin := f.Info().Uses[id].(*types.Builtin); isBuiltin {
									return true
								}
							}
						}
						emit[f.Root().Name] = true
					}
				}
				return true
			})
		}
		allowed := []string{"(*GossipSubRouter).sendGraft", "(*GossipSubRouter).sendGraftPrune", "(*GossipSubRouter).piggybackControl", "(*GossipSubRouter).pushControl", "(*GossipSubRouter).SendControl", "(*RPC).split", "rpcWithControl", "(*RPC).LogValue", "(*pubsubTracer).traceRPCMeta", "traceRPCMeta"}
		var names []string
		for k := range emit {
			names = append(names, k)
		}
		ok, extra := subset(names, allowed...)
		c.Check(ok && len(names) >= 4, "R08.1", "GRAFT emitters", "set of functions touching ControlGraft", nil, strings.Join(names, ","), "a function outside the audited set builds or forwards GRAFT control messages: "+strings.Join(extra, ","))
		// sendGraft only from Join
		callers := p.CallerNames("(*GossipSubRouter).sendGraft")
		ok, extra = subset(callers, "(*GossipSubRouter).Join")
		c.Check(ok, "R08.1", "sendGraft", "called only by Join", nil, strings.Join(callers, ","), "also from "+strings.Join(extra, ","))
	}
	// retried GRAFTs: piggybackControl keeps a graft only if the peer is still in the topic mesh
	if f := c.MustFn("R08.1", "(*GossipSubRouter).piggybackControl"); f != nil {
		n := 0
		inMesh := lookupIn("p in gs.mesh[topic]", innerMapOf("mesh"))
		joined := lookupIn("topic in gs.mesh", isFieldOf(gsField("mesh")))
		for _, ap := range p.localAppends(f) {
			if t := f.Info().TypeOf(ap.Stmt.Lhs[0]); t == nil || !strings.Contains(t.String(), "ControlGraft") {
				continue
			}
			if len(p.EnclosingLoops(ap.Stmt)) == 0 {
				continue
			}
			n++
			ok, why := p.DomAny(f, ap.Stmt, AtomWant{inMesh, true})
			c.Check(ok, "R08.1", f.Name, "retried GRAFT kept only if peer still in the topic mesh", ap.Stmt, why, why)
			ok, why = p.DomAny(f, ap.Stmt, AtomWant{joined, true})
			c.Check(ok, "R08.1", f.Name, "retried GRAFT kept only if topic still joined", ap.Stmt, why, why)
		}
		if n == 0 {
			c.Undecided("R08.1", f.Name, "graft retention", f.Decl, "no append of retained grafts")
		}
		// xctl.Graft receives only the filtered list
		for _, s := range p.StoresTo2(f, "pb.ControlMessage.Graft") {
			ok := false
			var filtered types.Object
			for _, ap := range p.localAppends(f) {
				if t := f.Info().TypeOf(ap.Stmt.Lhs[0]); t != nil && strings.Contains(t.String(), "ControlGraft") && len(p.EnclosingLoops(ap.Stmt)) > 0 {
					filtered = ap.Obj
				}
			}
			if ce, isCall := unparen(s.RHS).(*ast.CallExpr); isCall && p.CalleeName(f.Info(), ce) == "builtin.append" && len(ce.Args) == 2 {
				if id, isId := unparen(ce.Args[1]).(*ast.Ident); isId && filtered != nil && f.Info().Uses[id] == filtered {
					ok = true
				}
			}
			c.Check(ok, "R08.1", f.Name, "outgoing Graft list built from the filtered grafts", s.Node, "appends the staleness-filtered list", "the outgoing Graft list is not built from the staleness-filtered list: "+p.Src(s.RHS))
		}
	}
	// flush / sendRPC: pending control goes through piggybackControl; gs.control values are never put into an RPC directly
	for _, fn := range []string{"(*GossipSubRouter).flush", fnSendRPC} {
		f := c.MustFn("R08.1", fn)
		if f == nil {
			continue
		}
		// every use of a value loaded from gs.control must be as an argument of piggybackControl (or delete/lookup)
		bad := ""
		n := 0
		inspectNoLit(f.Body, func(x ast.Node) bool {
			id, ok := x.(*ast.Ident)
			if !ok {
				return true
			}
			obj, isVar := f.Info().Uses[id].(*types.Var)
			if !isVar || obj.IsField() {
				return true
			}
			v := p.R(f).Val(id)
			fromControl := (v.Kind == "rangeval" || v.Kind == "lookupval" || v.Kind == "index") && v.Args[0].IsField(gsField("control"))
			if !fromControl {
				return true
			}
			n++
			par := p.parents[id]
			if ce, ok := par.(*ast.CallExpr); ok && p.CalleeName(f.Info(), ce) == "(*GossipSubRouter).piggybackControl" {
				return true
			}
			bad = p.Src(par) + " at " + p.Pos(id)
			return true
		})
		c.Check(bad == "" && n > 0, "R08.1", f.Name, "pending control re-sent only through piggybackControl", f.Decl, "every use of a gs.control entry is an argument of piggybackControl", "a pending (retried) control message is used outside the staleness filter: "+bad)
	}
	// R08.2 who-may-write the backoff maps
	for _, s := range p.AllStores() {
		root := s.Fn.Root().Name
		if s.Field == gsField("backoff") {
			switch s.Kind {
			case "elem-assign":
				ok := root == fnDoAddBO
				if ok {
					if _, isIdx := unparen(s.LHS).(*ast.IndexExpr).X.(*ast.IndexExpr); isIdx {
						ok = false
					}
				}
				c.Check(ok, "R08.2", root, "write to gs.backoff", s.Node, "topic map created by doAddBackoff", "gs.backoff is written outside doAddBackoff (the keep-the-later-expiry guard is bypassed)")
			case "delete":
				c.Check(root == "(*GossipSubRouter).clearBackoff", "R08.2", root, "delete from gs.backoff", s.Node, "clearBackoff", "backoff state is deleted outside clearBackoff")
			case "assign":
				c.Check(strings.HasPrefix(root, "DefaultGossipSubRouter"), "R08.2", root, "gs.backoff replaced", s.Node, "constructor", "gs.backoff replaced outside the constructor")
			default:
				c.Bad("R08.2", root, "write to gs.backoff: "+s.Kind, s.Node, "unrecognised write")
			}
		}
	}
	// inner maps
	for _, f := range p.All {
		if p.IsGenerated(f.Body) || f.Pkg != p.Main {
			continue
		}
		root := f.Root().Name
		isInner := func(e ast.Expr) bool {
			v := p.R(f).Val(e)
			if v == nil {
				return false
			}
			if (v.Kind == "index" || v.Kind == "lookupval" || v.Kind == "rangeval") && v.Args[0].IsField(gsField("backoff")) {
				return true
			}
			// local map also stored into gs.backoff[topic] in this function (doAddBackoff)
			if id, ok := unparen(e).(*ast.Ident); ok {
				for _, s := range p.StoresTo2(f, gsField("backoff")) {
					if rid, ok := unparen(s.RHS).(*ast.Ident); ok && f.Info().Uses[rid] == f.Info().Uses[id] {
						return true
					}
				}
			}
			return false
		}
		for _, mi := range p.mapInserts(f) {
			if !isInner(mi.Map) {
				continue
			}
			if root != fnDoAddBO {
				c.Bad("R08.2", root, "backoff entry written", mi.Stmt, "a backoff deadline is stored outside doAddBackoff: the keep-the-later-expiry guard is bypassed")
				continue
			}
			later := AtomBool("backoff[p].Before(expire)", func(v *V) bool {
				return v.IsCall("time.Time.Before") && len(v.Args) == 2 && v.Args[0].Kind == "index" && v.Args[1].IsCall("time.Time.Add")
			})
			ok, why := p.DomAny(f, mi.Stmt, AtomWant{later, true})
			c.Check(ok, "R08.2", root, "deadline stored only if later than the current one", mi.Stmt, why, why)
			rv := p.R(f).Val(mi.Stmt.Rhs[0])
			okv := rv.IsCall("time.Time.Add") && rv.Args[0].IsCall("time.Now") && rv.Args[1].Kind == "var"
			c.Check(okv, "R08.2", root, "deadline is time.Now().Add(interval)", mi.Stmt, rv.String(), "stored deadline is "+rv.String())
		}
		for _, d := range p.mapDeletes(f) {
			if !isInner(d.Map) {
				continue
			}
			if root != "(*GossipSubRouter).clearBackoff" {
				c.Bad("R08.2", root, "backoff entry deleted", d.Call, "a backoff entry is deleted outside clearBackoff")
				continue
			}
			expired := AtomBool("expire.Add(slack).Before(now)", func(v *V) bool {
				if !v.IsCall("time.Time.Before") || len(v.Args) != 2 {
					return false
				}
				a := v.Args[0]
				if !a.IsCall("time.Time.Add") || a.Args[0].Kind != "rangeval" {
					return false
				}
				// slack: a non-negative constant expression
				slack := a.Args[1]
				// a non-negative slack: no negation/subtraction anywhere, built from literals, constants and (interval) variables
				if slack.Has(func(x *V) bool {
					return (x.Kind == "unop" && x.Name == "-") || (x.Kind == "op" && x.Name == "-") || ((x.Kind == "lit" || x.Kind == "const") && strings.HasPrefix(x.Name, "-")) || x.Kind == "call"
				}) {
					return false
				}
				return v.Args[1].IsCall("time.Now")
			})
			ok, why := p.DomAny(f, d.Call, AtomWant{expired, true})
			c.Check(ok, "R08.2", root, "entry deleted only after expire+slack has passed", d.Call, why, why)
		}
	}
	// R08.3 backoff recorded where required
	if f := c.MustFn("R08.3", "(*GossipSubRouter).handlePrune"); f != nil {
		g := p.Graph(f)
		named := AtomCmp("prune.GetBackoff() > 0", isCallTo("pb.(*ControlPrune).GetBackoff"), ">", isZero)
		var del *MapDelete
		for _, d := range p.mapDeletes(f) {
			if innerMapOf("mesh")(p.R(f).Val(d.Map)) {
				x := d
				del = &x
			}
		}
		if del == nil {
			c.Bad("R08.3", f.Name, "mesh removal", f.Decl, "handlePrune does not remove the peer from the mesh")
		}
		// the backoff is owed for every PRUNE of a joined topic, whether or not the sender was (still) a
		// mesh member: anchored at the edge that establishes "topic joined", not at the mesh removal
		joinedE := g.AtomEdges(lookupIn("topic in gs.mesh", isFieldOf(gsField("mesh"))), true)
		if len(joinedE) == 0 {
			c.Undecided("R08.3", f.Name, "joined-topic test", f.Decl, "handlePrune does not look the topic up in gs.mesh")
		}
		for _, je := range joinedE {
			until := p.iterationUntil(f, condNodeOf(je))
			ok, _ := g.MustPass(EdgeTarget(je), PassOpts{Until: until}, p.callPred(f, fnDoAddBO, fnAddBackoff))
			c.Check(ok, "R08.3", f.Name, "PRUNE received => backoff recorded", condNodeOf(je), "always", "a received PRUNE for a joined topic can be processed without recording a backoff")
			cut := cutSet{}
			for _, e := range g.AtomEdges(named, false) {
				cut[e] = true
			}
			ok, _ = g.MustPass(EdgeTarget(je), PassOpts{Cut: cut, Until: until}, func(n ast.Node) bool {
				for _, cs := range p.CallsIn(f, n, false) {
					if cs.Name == fnDoAddBO {
						// the peer's value, possibly carried (and clamped) through locals
						fromPeer := false
						ast.Inspect(cs.Call.Args[2], func(y ast.Node) bool {
							if id, ok := y.(*ast.Ident); ok && !fromPeer {
								for _, ch := range p.R(f).Sources(id) {
									if ch.Leaf != nil && ch.Leaf.Has(func(v *V) bool { return v.IsCall("pb.(*ControlPrune).GetBackoff") }) {
										fromPeer = true
									}
								}
							}
							return !fromPeer
						})
						if fromPeer {
							return true
						}
						// the clamp arm: the peer's value exceeded a constant upper bound and that bound is recorded
						big := AtomCmp("GetBackoff() > upper bound", isCallTo("pb.(*ControlPrune).GetBackoff"), ">", func(v *V) bool {
							return v != nil && (v.Kind == "const" || v.Kind == "lit") && !isZero(v)
						})
						if okc, _ := p.DomAny(f, cs.Call, AtomWant{big, true}); okc {
							return true
						}
						if p.R(f).Val(cs.Call.Args[2]).Has(func(v *V) bool { return v.IsCall("pb.(*ControlPrune).GetBackoff") }) {
							return true
						}
					}
				}
				return false
			})
			c.Check(ok && len(g.AtomEdges(named, true)) > 0, "R08.3", f.Name, "named backoff obeyed", condNodeOf(je), "every path that does not refute `GetBackoff() > 0` records the peer's value", "a PRUNE naming a backoff can be processed without recording that backoff")
		}
		for _, e := range g.AtomEdges(named, false) {
			ok, _ := g.MustPass(EdgeTarget(e), PassOpts{Until: p.iterationUntil(f, condNodeOf(e))}, p.callPred(f, fnAddBackoff))
			c.Check(ok, "R08.3", f.Name, "default backoff otherwise", condNodeOf(e), "addBackoff", "no default backoff when the PRUNE names none")
		}
	}
	if f := c.MustFn("R08.3", "(*GossipSubRouter).Leave"); f != nil {
		for _, r := range p.RangesOver(f, innerMapOf("mesh")) {
			ok, why := p.LoopBodyMust(f, r, nil, func(n ast.Node) bool {
				for _, cs := range p.CallsIn(f, n, false) {
					if cs.Name == fnAddBackoff && p.R(f).Val(cs.Call.Args[2]).IsConst("true") {
						return true
					}
				}
				return false
			})
			c.Check(ok, "R08.3", f.Name, "unsubscribe backoff for every former member", r, why, why)
		}
	}
	if hb := c.MustFn("R08.3", fnHeartbeat); hb != nil {
		for _, lit := range p.closuresCalling(hb, fnTrPrune) {
			g := p.Graph(lit)
			ok, _ := g.MustPass(g.Entry(), PassOpts{}, p.callPred(lit, fnAddBackoff))
			c.Check(ok, "R08.3", hb.Name, "heartbeat prune records backoff", lit.Lit, "always", "prunePeer can remove a member without recording a backoff")
		}
	}
	if f := c.MustFn("R08.3", fnHandleGraft); f != nil {
		g := p.Graph(f)
		boPresent := AtomBool("backoff entry present", func(v *V) bool {
			return v.Kind == "lookupok" && v.Args[0].Kind == "index" && v.Args[0].Args[0].IsField(gsField("backoff"))
		})
		unexpired := AtomBool("now.Before(expire)", func(v *V) bool {
			return v.IsCall("time.Time.Before") && len(v.Args) == 2 && v.Args[0].IsCall("time.Now") && v.Args[1].Kind == "lookupval"
		})
		// the arm: the edges after which both facts are known (one `&&` condition or nested ifs alike)
		arm := g.ConjEdges(AtomWant{boPresent, true}, AtomWant{unexpired, true})
		if len(arm) == 0 {
			c.Bad("R08.3", f.Name, "backed-off GRAFT arm", f.Decl, "no branch on `backoff present && now.Before(expire)`")
		}
		penalty := func(n ast.Node) bool {
			for _, cs := range p.CallsIn(f, n, false) {
				if cs.Name == "(*peerScore).AddPenalty" {
					return true
				}
			}
			return false
		}
		for _, e := range arm {
			until := p.iterationUntil(f, condNodeOf(e))
			ok, _ := g.MustPass(EdgeTarget(e), PassOpts{Until: until}, penalty)
			c.Check(ok, "R08.3", f.Name, "GRAFT during backoff is penalised", condNodeOf(e), "always", "no penalty")
			ok, _ = g.MustPass(EdgeTarget(e), PassOpts{Until: until}, p.callPred(f, fnAddBackoff, fnDoAddBO))
			c.Check(ok, "R08.3", f.Name, "GRAFT during backoff extends the backoff", condNodeOf(e), "always", "the backoff is not refreshed")
			// refused: the mesh insert is unreachable within the iteration
			reach := false
			for _, mi := range p.mapInserts(f) {
				if innerMapOf("mesh")(p.R(f).Val(mi.Map)) {
					ip, _ := g.Locate(mi.Stmt)
					if g.ReachableFrom(EdgeTarget(e), ip, cutBackEdges(g, p, f, mi.Stmt), nil) {
						reach = true
					}
				}
			}
			c.Check(!reach, "R08.3", f.Name, "GRAFT during backoff is refused", condNodeOf(e), "the insert is not reachable in this iteration", "a backed-off peer can still be admitted")
		}
		// flood cutoff: a second penalty under now.Before(floodCutoff)
		flood := AtomBool("now.Before(floodCutoff)", func(v *V) bool {
			return v.IsCall("time.Time.Before") && len(v.Args) == 2 && v.Args[0].IsCall("time.Now") && v.Args[1].IsCall("time.Time.Add") &&
				v.Args[1].Has(func(x *V) bool { return x.IsField("GossipSubParams.GraftFloodThreshold") })
		})
		fe := g.AtomEdges(flood, true)
		if len(fe) == 0 {
			c.Bad("R08.3", f.Name, "graft-flood double penalty", f.Decl, "no test of now.Before(expire + GraftFloodThreshold - PruneBackoff)")
		}
		for _, e := range fe {
			cut := cutSet{}
			for _, x := range g.AtomEdges(flood, false) {
				cut[x] = true
			}
			cp, _ := g.Locate(condNodeOf(e))
			ok, _ := g.MustPass(cp, PassOpts{Cut: cut, Until: p.iterationUntil(f, condNodeOf(e))}, penalty)
			c.Check(ok, "R08.3", f.Name, "graft-flood double penalty", condNodeOf(e), "every path that does not refute now.Before(floodCutoff) adds the extra penalty", "a GRAFT inside the graft-flood threshold can escape the extra penalty")
			// the flood test is itself reached on every path of the backed-off arm
			for _, a := range arm {
				ok2, _ := g.MustPass(EdgeTarget(a), PassOpts{Until: p.iterationUntil(f, condNodeOf(a))}, func(n ast.Node) bool { return n == condNodeOf(e) })
				c.Check(ok2, "R08.3", f.Name, "flood test on every backed-off path", condNodeOf(a), "always evaluated", "the flood-threshold test is skipped on some backed-off path")
			}
		}
		// the refusing arms (direct is exempt: no backoff by design) record backoff: every PRUNE append not under the direct edge
		direct := lookupIn("p in gs.direct", isDirectMap)
		var pruneObj types.Object
		for _, cs := range p.Sites(f, false, fnMakePrune) {
			for _, l := range p.EnclosingLoops(cs.Call) {
				if r, ok := l.(*ast.RangeStmt); ok {
					if id, ok := unparen(r.X).(*ast.Ident); ok {
						pruneObj = p.R(f).CopyRoot(f.Info().Uses[id])
					}
				}
			}
		}
		for _, ap := range p.localAppends(f) {
			if ap.Obj != pruneObj || pruneObj == nil {
				continue
			}
			if ok, _ := p.DomAny(f, ap.Stmt, AtomWant{direct, true}); ok {
				continue
			}
			pt, _ := g.Locate(ap.Stmt)
			until := p.iterationUntil(f, ap.Stmt)
			okAfter, _ := g.MustPass(pt, PassOpts{Until: until}, p.callPred(f, fnAddBackoff, fnDoAddBO))
			okBefore := g.DominatedByNode(pt, func(n ast.Node) bool {
				return p.NodeCalls(f, n, fnAddBackoff, fnDoAddBO) && sameLoop(p, n, ap.Stmt)
			})
			c.Check(okAfter || okBefore, "R08.3", f.Name, "refused GRAFT records backoff", ap.Stmt, "addBackoff in the same iteration", "a GRAFT is refused with PRUNE without recording a backoff")
		}
	}
	// R08.4 makePrune
	if f := c.MustFn("R08.4", fnMakePrune); f != nil {
		px := AtomBool("feature(PX, proto)", func(v *V) bool {
			return v.IsCall(fnFeature) && len(v.Args) == 3 && v.Args[1].IsConst("GossipSubFeaturePX")
		})
		n := 0
		returnsIn(f, func(r *ast.ReturnStmt) {
			if len(r.Results) != 1 {
				return
			}
			cl := compositeOf(r.Results[0])
			if cl == nil {
				c.Undecided("R08.4", f.Name, "return value", r, "not a composite literal")
				return
			}
			hasBackoff := false
			for _, el := range cl.Elts {
				if kv, ok := el.(*ast.KeyValueExpr); ok {
					if id, ok := kv.Key.(*ast.Ident); ok && id.Name == "Backoff" {
						hasBackoff = true
					}
				}
			}
			n++
			if !hasBackoff {
				ok, why := p.DomAny(f, r, AtomWant{px, false})
				c.Check(ok, "R08.4", f.Name, "PRUNE without backoff only for pre-v1.1 peers", r, why, why)
			}
		})
		if n < 2 {
			c.Undecided("R08.4", f.Name, "returns", f.Decl, "expected two PRUNE constructions")
		}
		// flag agreement with addBackoff
		for _, fn := range []string{fnMakePrune, fnAddBackoff} {
			ff := c.MustFn("R08.4", fn)
			if ff == nil {
				continue
			}
			// the unsubscribe flag is the last parameter of both functions
			np := 0
			for paramObj(ff, np) != nil {
				np++
			}
			unsub := AtomBool("isUnsubscribe", isParam(ff, np-1))
			for _, tc := range []struct {
				field string
				want  bool
			}{{"GossipSubParams.UnsubscribeBackoff", true}} {
				found := false
				k := 0
				// every evaluation of the field — in an assignment, as a call argument, wherever — lies on the
				// isUnsubscribe edge
				inspectNoLit(ff.Body, func(x ast.Node) bool {
					se, ok := x.(*ast.SelectorExpr)
					if !ok {
						return true
					}
					if sel, ok := ff.Info().Selections[se]; !ok || sel.Kind() != types.FieldVal || fieldOwnerName(sel) != tc.field {
						return true
					}
					found = true
					k++
					ok2, why := p.DomAny(ff, se, AtomWant{unsub, tc.want})
					suffix := ""
					if k > 1 {
						suffix = "#" + itoa(k)
					}
					c.Check(ok2, "R08.4", ff.Name, "UnsubscribeBackoff chosen exactly on isUnsubscribe"+suffix, se, why, why)
					return true
				})
				if !found {
					c.Bad("R08.4", ff.Name, "UnsubscribeBackoff chosen exactly on isUnsubscribe", ff.Decl, "UnsubscribeBackoff is not used")
				}
			}
			// the default is PruneBackoff
			usesPrune := false
			ast.Inspect(ff.Body, func(x ast.Node) bool {
				if se, ok := x.(*ast.SelectorExpr); ok {
					if s, ok := ff.Info().Selections[se]; ok && s.Kind() == types.FieldVal && fieldOwnerName(s) == "GossipSubParams.PruneBackoff" {
						usesPrune = true
					}
				}
				return true
			})
			c.Check(usesPrune, "R08.4", ff.Name, "default is PruneBackoff", ff.Decl, "uses PruneBackoff", "PruneBackoff is not used")
		}
	}
	c.Min["R07.1"] = 8
	checkStatedBackoffNotRoundedDown(c)
	checkFloodCutoffBase(c)
	checkNamedBackoffBounded(c)
	c.Min["R08.1"] = 7
	c.Min["R08.2"] = 5
	c.Min["R08.3"] = 12
	c.Min["R08.4"] = 5
}

func compositeOf(e ast.Expr) *ast.CompositeLit {
	e = unparen(e)
	if u, ok := e.(*ast.UnaryExpr); ok {
		e = unparen(u.X)
	}
	cl, _ := e.(*ast.CompositeLit)
	return cl
}

// R08.5: "doubly when it arrives within the graft-flood threshold" is measured from the moment of the prune, but
// only the expiry is stored. handleGraft recovers the prune time by subtracting a duration from the expiry; that
// is the prune time only if every entry was recorded with exactly that duration (writer/reader agreement).
func checkFloodCutoffBase(c *RuleCtx) {
	p := c.P
	f := c.MustFn("R08.5", fnHandleGraft)
	if f == nil {
		return
	}
	// the reader: expire.Add(GraftFloodThreshold - X)
	var sub *V
	var site ast.Node
	for _, cs := range p.Sites(f, false, "time.Time.Add") {
		v := p.R(f).Val(cs.Call)
		if v == nil || len(v.Args) != 2 || v.Args[0].Kind != "lookupval" {
			continue
		}
		d := v.Args[1]
		if d.Kind == "op" && d.Name == "-" && d.Args[0].IsField("GossipSubParams.GraftFloodThreshold") {
			sub, site = d.Args[1], cs.Call
		}
	}
	if sub == nil {
		// the cutoff is not derived from the expiry by subtraction (e.g. the prune time is stored): nothing to agree on
		c.OK("R08.5", f.Name, "flood cutoff measured from the recorded prune time", f.Decl, "no subtraction from the expiry")
		return
	}
	// the writers: every duration handed to doAddBackoff
	var other []string
	n := 0
	for _, cs := range p.AllSites(fnDoAddBO) {
		if len(cs.Call.Args) != 3 {
			continue
		}
		for _, ch := range p.R(cs.Fn).Sources(cs.Call.Args[2]) {
			n++
			if ch.Leaf == nil || !ch.Leaf.Equal(sub) {
				desc := "zero value"
				if ch.Leaf != nil {
					desc = ch.Leaf.String()
				}
				other = append(other, desc+" ("+cs.Fn.Root().Name+")")
			}
		}
	}
	if n == 0 {
		c.Undecided("R08.5", f.Name, "backoff writers", site, "no doAddBackoff call found")
		return
	}
	sort.Strings(other)
	c.Check(len(other) == 0, "R08.5", f.Name, "flood cutoff measured from the recorded prune time", site, "every backoff entry is recorded with the duration that is subtracted", "the flood cutoff is expire + GraftFloodThreshold - "+sub.String()+", which is the prune time plus the threshold only for entries recorded with "+sub.String()+"; entries are also recorded with "+strings.Join(other, ", ")+": after leaving a topic (unsubscribe backoff) or a PRUNE naming its own period, a GRAFT inside the flood threshold is penalised once instead of twice (or twice long after it)")
	c.Min["R08.5"] = 1
}

// R08.6: "the period named in the received PRUNE" is a uint64 number of seconds chosen by the peer; scaling
// it to a Duration overflows above 2^63/1e9 seconds and a wrapped (negative) period makes the recorded expiry lie
// in the past. Every conversion `time.Duration(x) * time.Second` of a value read from the wire with GetBackoff is
// dominated by an upper-bound comparison of that value.
func checkNamedBackoffBounded(c *RuleCtx) {
	p := c.P
	f := c.MustFn("R08.6", "(*GossipSubRouter).handlePrune")
	if f == nil {
		return
	}
	g := p.Graph(f)
	fromWire := func(e ast.Expr) bool {
		for _, ch := range p.R(f).Sources(e) {
			if ch.Leaf != nil && ch.Leaf.Has(func(v *V) bool { return v.IsCall("pb.(*ControlPrune).GetBackoff") }) {
				return true
			}
		}
		return false
	}
	n := 0
	inspectNoLit(f.Body, func(x ast.Node) bool {
		be, ok := x.(*ast.BinaryExpr)
		if !ok || be.Op != token.MUL {
			return true
		}
		// one operand is a conversion to time.Duration of a wire value
		var inner ast.Expr
		for _, side := range []ast.Expr{be.X, be.Y} {
			if ce, ok := unparen(side).(*ast.CallExpr); ok && len(ce.Args) == 1 {
				if t := f.Info().TypeOf(ce.Fun); t != nil && t.String() == "time.Duration" && fromWire(ce.Args[0]) {
					inner = ce.Args[0]
				}
			}
		}
		if inner == nil {
			return true
		}
		n++
		var root types.Object
		if id, ok := unparen(inner).(*ast.Ident); ok {
			root = p.R(f).CopyRoot(f.Info().Uses[id])
		}
		pt, located := g.Locate(be)
		bounded := located && g.DominatedByNode(pt, func(nd ast.Node) bool {
			found := false
			ast.Inspect(nd, func(y ast.Node) bool {
				cmp, ok := y.(*ast.BinaryExpr)
				if !ok || found {
					return !found
				}
				switch cmp.Op {
				case token.GTR, token.GEQ, token.LSS, token.LEQ:
				default:
					return true
				}
				for i, side := range []ast.Expr{cmp.X, cmp.Y} {
					other := []ast.Expr{cmp.Y, cmp.X}[i]
					isVal := false
					if id, ok := unparen(side).(*ast.Ident); ok && root != nil && p.R(f).CopyRoot(f.Info().Uses[id]) == root {
						isVal = true
					} else if root == nil && fromWire(side) {
						isVal = true
					}
					if !isVal {
						continue
					}
					// an upper bound: the other side is a constant expression that is not zero
					if tv, ok := f.Info().Types[other]; ok && tv.Value != nil && tv.Value.String() != "0" {
						found = true
					}
				}
				return !found
			})
			return found
		})
		c.Check(bounded, "R08.6", f.Name, "named backoff bounded before it is scaled to a Duration", be, "an upper-bound comparison with a constant dominates the conversion", "the number of seconds named by the peer is multiplied by time.Second without an upper bound: above 2^63/1e9 s the product wraps around, the recorded expiry lies in the past and the peer is GRAFTed again before even the default backoff")
		return true
	})
	if n == 0 {
		c.Undecided("R08.6", f.Name, "named backoff conversion", f.Decl, "no time.Duration(<wire value>) * ... found (anchor drift)")
	}
	c.Min["R08.6"] = 1
}

// R08.4 (cont.): the PRUNE states the period in whole seconds while the node enforces the configured duration: the
// conversion must not round down (a 2.5 s backoff stated as 2 s, a 500 ms backoff stated as 0 = "none"), or the peer
// GRAFTs in good faith inside the enforced period and is penalised. Every division by time.Second in makePrune has
// a numerator that carries a rounding addend (duration + time.Second - 1) or goes through math.Ceil.
func checkStatedBackoffNotRoundedDown(c *RuleCtx) {
	p := c.P
	f := c.MustFn("R08.4", fnMakePrune)
	if f == nil {
		return
	}
	n := 0
	inspectNoLit(f.Body, func(x ast.Node) bool {
		be, ok := x.(*ast.BinaryExpr)
		if !ok || be.Op != token.QUO {
			return true
		}
		dv := p.R(f).Val(be.Y)
		if dv == nil || !(dv.IsConst("time.Second") || dv.IsConst("Second")) {
			return true
		}
		nv := p.R(f).Val(be.X)
		if nv == nil || !nv.Has(func(v *V) bool {
			return v.IsField("GossipSubParams.PruneBackoff") || v.IsField("GossipSubParams.UnsubscribeBackoff")
		}) {
			return true
		}
		n++
		rounded := nv.Kind == "op" && (nv.Name == "+" || nv.Name == "-") && nv.Has(func(v *V) bool { return v.IsConst("time.Second") || v.IsConst("Second") })
		suffix := ""
		if n > 1 {
			suffix = "#" + itoa(n)
		}
		c.Check(rounded, "R08.4", f.Name, "stated backoff not rounded down"+suffix, be, "numerator carries the rounding addend", "the stated period is "+nv.String()+" / time.Second, which rounds down: a backoff that is not a whole number of seconds is stated shorter than it is enforced (a sub-second one as 0, which a v1.1 peer reads as \"none\"), so a peer that waits exactly as long as it was told is refused and penalised")
		return true
	})
	// a Ceil-based conversion has no integer division at all; then there is nothing to check here
	if n == 0 {
		c.OK("R08.4", f.Name, "stated backoff not rounded down", f.Decl, "no integer division by time.Second")
	}
}
