package main

// Control-flow primitives over go/cfg: location of syntax inside the CFG,
// edge-cut dominance (T1) and must-pass-through (T2).

import (
	"go/ast"
	"go/token"
	"go/types"
	"reflect"

	"golang.org/x/tools/go/cfg"
)

type Graph struct {
	P          *Prog
	F          *Func
	C          *cfg.CFG
	caseSwitch map[*ast.CaseClause]*ast.SwitchStmt
	condOf     map[*cfg.Block]ast.Expr // synthesised condition for 2-way blocks
	formOf     map[*cfg.Block]*bform
	flagInf    *flagInfo
	flagsDone  bool
	sideAcc    *[]*bform
	flagActive map[ast.Node]bool
}

// Point is the position just before node I of block B (I == len(B.Nodes): end of block).
type Point struct {
	B *cfg.Block
	I int
}

type Edge struct {
	From *cfg.Block
	Succ int
}

func newGraph(p *Prog, f *Func) *Graph {
	g := &Graph{P: p, F: f, caseSwitch: map[*ast.CaseClause]*ast.SwitchStmt{}, condOf: map[*cfg.Block]ast.Expr{}}
	g.C = cfg.New(f.Body, mayReturn(f.Info()))
	ast.Inspect(f.Body, func(n ast.Node) bool {
		if sw, ok := n.(*ast.SwitchStmt); ok {
			for _, c := range sw.Body.List {
				g.caseSwitch[c.(*ast.CaseClause)] = sw
			}
		}
		return true
	})
	for _, b := range g.C.Blocks {
		if !b.Live || len(b.Succs) != 2 || len(b.Nodes) == 0 {
			continue
		}
		last, ok := b.Nodes[len(b.Nodes)-1].(ast.Expr)
		if !ok {
			continue
		}
		switch b.Succs[0].Kind {
		case cfg.KindIfThen:
			if is, ok := b.Succs[0].Stmt.(*ast.IfStmt); ok && is.Cond == last {
				g.condOf[b] = last
			}
		case cfg.KindForBody:
			if fs, ok := b.Succs[0].Stmt.(*ast.ForStmt); ok && fs.Cond == last {
				g.condOf[b] = last
			}
		case cfg.KindSwitchCaseBody:
			cc, _ := b.Succs[0].Stmt.(*ast.CaseClause)
			sw := g.caseSwitch[cc]
			if cc == nil || sw == nil {
				continue
			}
			found := false
			for _, e := range cc.List {
				if e == last {
					found = true
				}
			}
			if !found {
				continue
			}
			if sw.Tag == nil {
				g.condOf[b] = last
			} else {
				g.condOf[b] = &ast.BinaryExpr{X: sw.Tag, Op: token.EQL, Y: last, OpPos: last.Pos()}
			}
		}
	}
	return g
}

func (g *Graph) Entry() Point { return Point{g.C.Blocks[0], 0} }

// contains reports whether cfg node n syntactically contains target, not
// crossing a function literal boundary (unless target is the literal itself).
func contains(n, target ast.Node) bool {
	if target.Pos() < n.Pos() || target.End() > n.End() {
		return false
	}
	found := false
	ast.Inspect(n, func(x ast.Node) bool {
		if found || x == nil {
			return false
		}
		if x == target {
			found = true
			return false
		}
		if _, ok := x.(*ast.FuncLit); ok {
			return false
		}
		return true
	})
	return found
}

// Locate finds the CFG point of the node that contains target.
func (g *Graph) Locate(target ast.Node) (Point, bool) {
	if target == nil || isNilNode(target) {
		return Point{g.C.Blocks[0], 0}, false
	}
	// compound statements are not CFG nodes themselves: locate their first evaluated part
	switch t := target.(type) {
	case *ast.RangeStmt:
		return g.Locate(t.X)
	case *ast.ForStmt:
		if t.Init != nil {
			return g.Locate(t.Init)
		}
		if t.Cond != nil {
			return g.Locate(t.Cond)
		}
		if len(t.Body.List) > 0 {
			return g.Locate(t.Body.List[0])
		}
	case *ast.IfStmt:
		if t.Init != nil {
			return g.Locate(t.Init)
		}
		return g.Locate(t.Cond)
	case *ast.BlockStmt:
		if len(t.List) > 0 {
			return g.Locate(t.List[0])
		}
	case *ast.SwitchStmt:
		if t.Init != nil {
			return g.Locate(t.Init)
		}
		if t.Tag != nil {
			return g.Locate(t.Tag)
		}
	case *ast.LabeledStmt:
		return g.Locate(t.Stmt)
	}
	var best Point
	var bestLen token.Pos = -1
	for _, b := range g.C.Blocks {
		for i, n := range b.Nodes {
			if contains(n, target) {
				l := n.End() - n.Pos()
				if bestLen < 0 || l < bestLen {
					best, bestLen = Point{b, i}, l
				}
			}
		}
	}
	return best, bestLen >= 0
}

// Fact is a boolean sub-expression known true/false on an edge.
type Fact struct {
	E     ast.Expr
	Truth bool
}

func unparen(e ast.Expr) ast.Expr {
	for {
		p, ok := e.(*ast.ParenExpr)
		if !ok {
			return e
		}
		e = p.X
	}
}

func factsOf(e ast.Expr, truth bool, out *[]Fact) {
	e = unparen(e)
	*out = append(*out, Fact{e, truth})
	switch x := e.(type) {
	case *ast.UnaryExpr:
		if x.Op == token.NOT {
			factsOf(x.X, !truth, out)
		}
	case *ast.BinaryExpr:
		if x.Op == token.LAND && truth {
			factsOf(x.X, true, out)
			factsOf(x.Y, true, out)
		}
		if x.Op == token.LOR && !truth {
			factsOf(x.X, false, out)
			factsOf(x.Y, false, out)
		}
	}
}

// EdgeFacts lists the facts established by taking edge e.
func (g *Graph) EdgeFacts(e Edge) []Fact {
	c := g.condOf[e.From]
	if c == nil {
		return nil
	}
	var out []Fact
	factsOf(c, e.Succ == 0, &out)
	return out
}

// Atom recognises a boolean expression; sense tells whether expression==true means atom==true.
type Atom struct {
	Desc  string
	Match func(g *Graph, e ast.Expr) (ok bool, sense bool)
}

// AtomEdges returns all edges of g on which atom has value want.
func (g *Graph) AtomEdges(a Atom, want bool) []Edge {
	var out []Edge
	lit := []AtomWant{{a, want}}
	for _, b := range g.C.Blocks {
		if !b.Live || g.condOf[b] == nil {
			continue
		}
		for s := 0; s < 2; s++ {
			e := Edge{b, s}
			hit := false
			for _, f := range g.EdgeFacts(e) {
				if ok, sense := a.Match(g, f.E); ok && (f.Truth == sense) == want {
					hit = true
					break
				}
			}
			// or the edge's condition entails the literal (boolean locals unfolded, any nesting)
			if hit || g.edgeEntails(e, lit) {
				out = append(out, e)
			}
		}
	}
	return out
}

type cutSet map[Edge]bool

// reach computes reachability from 'from' to 'to' with edges in cut removed and
// nodes for which stop returns true acting as barriers.
func (g *Graph) reach(from, to Point, cut cutSet, stop func(ast.Node) bool) bool {
	fi := g.flags()
	type key struct {
		b   *cfg.Block
		env string
	}
	seen := map[key]bool{}
	var walk func(b *cfg.Block, start int, env flagEnv) bool
	walk = func(b *cfg.Block, start int, env flagEnv) bool {
		for i := start; i < len(b.Nodes); i++ {
			if b == to.B && i == to.I {
				return true
			}
			if stop != nil && stop(b.Nodes[i]) {
				return false
			}
			if fi != nil {
				env = fi.apply(env, b.Nodes[i])
			}
		}
		if b == to.B && to.I >= len(b.Nodes) && start <= to.I {
			return true
		}
		for si, s := range b.Succs {
			if cut[Edge{b, si}] {
				continue
			}
			if fi != nil && !g.feasible(fi, b, si, env) {
				continue
			}
			k := key{s, ""}
			if fi != nil {
				k.env = env.key()
			}
			if seen[k] {
				continue
			}
			seen[k] = true
			if walk(s, 0, env) {
				return true
			}
		}
		return false
	}
	var env flagEnv
	if fi != nil {
		env = make(flagEnv, len(fi.idx))
	}
	return walk(from.B, from.I, env)
}

// Dominated: every path entry->target takes at least one edge of edges.
func (g *Graph) Dominated(target Point, edges []Edge) bool {
	if len(edges) == 0 {
		return false
	}
	cut := cutSet{}
	for _, e := range edges {
		cut[e] = true
	}
	return !g.reach(g.Entry(), target, cut, nil)
}

// DominatedByNode: every path entry->target passes a node satisfying pred (strictly before target).
func (g *Graph) DominatedByNode(target Point, pred func(ast.Node) bool) bool {
	return !g.reach(g.Entry(), target, nil, pred)
}

// Reachable from entry at all.
func (g *Graph) Reachable(target Point) bool {
	return g.reach(g.Entry(), target, nil, nil)
}

// isSelectDeadEnd: go/cfg ends the case chain of a select without default in an empty block with no
// successors ("no case ready"); a blocking select never gets there, so it is not a function exit.
func isSelectDeadEnd(b *cfg.Block) bool {
	return b.Kind == cfg.KindSelectAfterCase && len(b.Succs) == 0 && len(b.Nodes) == 0
}

// isPanicExit reports whether block b ends in a call to panic.
func (g *Graph) isPanicExit(b *cfg.Block) bool {
	if len(b.Nodes) == 0 {
		return false
	}
	es, ok := b.Nodes[len(b.Nodes)-1].(*ast.ExprStmt)
	if !ok {
		return false
	}
	call, ok := es.X.(*ast.CallExpr)
	if !ok {
		return false
	}
	id, ok := call.Fun.(*ast.Ident)
	if !ok {
		return false
	}
	bi, ok := g.F.Info().Uses[id].(*types.Builtin)
	return ok && bi.Name() == "panic"
}

// PassOpts tunes MustPass.
type PassOpts struct {
	Cut    cutSet              // edges not to be followed (paths the obligation does not cover)
	Until  map[*cfg.Block]bool // reaching one of these blocks before pred is a violation (scope end)
	ExitOK func(b *cfg.Block) bool
}

// MustPass: every path from 'from' to a normal function exit (or to an Until
// block) passes a node satisfying pred. Returns false plus the block where a
// violating path ends.
func (g *Graph) MustPass(from Point, o PassOpts, pred func(ast.Node) bool) (bool, *cfg.Block) {
	fi := g.flags()
	type key struct {
		b   *cfg.Block
		env string
	}
	seen := map[key]bool{}
	var bad *cfg.Block
	var walk func(b *cfg.Block, start int, env flagEnv) bool
	walk = func(b *cfg.Block, start int, env flagEnv) bool {
		for i := start; i < len(b.Nodes); i++ {
			if pred(b.Nodes[i]) {
				return true
			}
			if fi != nil {
				env = fi.apply(env, b.Nodes[i])
			}
		}
		if len(b.Succs) == 0 {
			if g.isPanicExit(b) || isSelectDeadEnd(b) {
				return true
			}
			if o.ExitOK != nil && o.ExitOK(b) {
				return true
			}
			bad = b
			return false
		}
		for si, s := range b.Succs {
			if o.Cut[Edge{b, si}] {
				continue
			}
			if fi != nil && !g.feasible(fi, b, si, env) {
				continue
			}
			if o.Until[s] {
				bad = s
				return false
			}
			k := key{s, ""}
			if fi != nil {
				k.env = env.key()
			}
			if seen[k] {
				continue
			}
			seen[k] = true
			if !walk(s, 0, env) {
				return false
			}
		}
		return true
	}
	var env flagEnv
	if fi != nil {
		env = make(flagEnv, len(fi.idx))
	}
	ok := walk(from.B, from.I, env)
	return ok, bad
}

// LoopBlocks returns the head (next-iteration target), body and done blocks of a loop statement.
func (g *Graph) LoopBlocks(s ast.Stmt) (head, body, done *cfg.Block) {
	for _, b := range g.C.Blocks {
		if b.Stmt != s {
			continue
		}
		switch b.Kind {
		case cfg.KindRangeLoop, cfg.KindForLoop:
			head = b
		case cfg.KindRangeBody, cfg.KindForBody:
			body = b
		case cfg.KindRangeDone, cfg.KindForDone:
			done = b
		}
	}
	if head == nil {
		head = body
	}
	return
}

// ClauseBody returns the CFG block that starts the body of a select/switch clause.
func (g *Graph) ClauseBody(clause ast.Stmt) *cfg.Block {
	for _, b := range g.C.Blocks {
		if b.Stmt == clause && (b.Kind == cfg.KindSelectCaseBody || b.Kind == cfg.KindSwitchCaseBody) {
			return b
		}
	}
	return nil
}

// After returns the point just after p's node.
func (p Point) After() Point { return Point{p.B, p.I + 1} }

// EdgeTarget is the entry point of the successor along e.
func EdgeTarget(e Edge) Point { return Point{e.From.Succs[e.Succ], 0} }

// ReachableFrom reports whether 'to' can be reached from 'from' avoiding cut edges / stop nodes.
func (g *Graph) ReachableFrom(from, to Point, cut cutSet, stop func(ast.Node) bool) bool {
	return g.reach(from, to, cut, stop)
}

// LoopHasEarlyExit reports whether the body of loop statement s contains a
// break/goto/return that leaves the loop (not crossing function literals).
func LoopHasEarlyExit(s ast.Stmt) (bool, ast.Node) {
	all := LoopEarlyExits(s)
	if len(all) == 0 {
		return false, nil
	}
	return true, all[0]
}

// LoopEarlyExits lists every statement in the body of loop s that leaves the loop (break/goto/return,
// labelled continue of an outer loop), not crossing function literals.
func LoopEarlyExits(s ast.Stmt) []ast.Node {
	var body *ast.BlockStmt
	switch l := s.(type) {
	case *ast.RangeStmt:
		body = l.Body
	case *ast.ForStmt:
		body = l.Body
	default:
		return nil
	}
	// labels of statements inside the body: a labelled break/continue/goto to one of them stays inside the loop
	inner := map[string]bool{}
	ast.Inspect(body, func(n ast.Node) bool {
		if _, ok := n.(*ast.FuncLit); ok {
			return false
		}
		if ls, ok := n.(*ast.LabeledStmt); ok {
			inner[ls.Label.Name] = true
		}
		return true
	})
	var all []ast.Node
	var found ast.Node
	var walk func(n ast.Node, depth int, inSwitchOrSelect int)
	walk = func(n ast.Node, depth int, brk int) {
		if found != nil {
			all = append(all, found)
			found = nil
		}
		if n == nil {
			return
		}
		switch x := n.(type) {
		case *ast.FuncLit:
			return
		case *ast.ReturnStmt:
			found = x
			return
		case *ast.BranchStmt:
			switch x.Tok {
			case token.GOTO:
				if x.Label == nil || !inner[x.Label.Name] {
					found = x
				}
			case token.BREAK:
				if x.Label != nil {
					if !inner[x.Label.Name] {
						found = x // leaves a statement that is not inside this loop's body: the loop itself or an outer one
					}
				} else if depth == 0 && brk == 0 {
					found = x
				}
			case token.CONTINUE:
				if x.Label != nil && !inner[x.Label.Name] {
					// labelled continue of this or an outer loop: only an outer loop's label leaves this loop,
					// but the label of this loop itself is not in inner either; treat conservatively
					found = x
				}
			}
			return
		case *ast.ForStmt:
			walk(x.Body, depth+1, 0)
			return
		case *ast.RangeStmt:
			walk(x.Body, depth+1, 0)
			return
		case *ast.SwitchStmt:
			walkList(x.Body.List, func(c ast.Node) { walk(c, depth, brk+1) })
			return
		case *ast.TypeSwitchStmt:
			walkList(x.Body.List, func(c ast.Node) { walk(c, depth, brk+1) })
			return
		case *ast.SelectStmt:
			walkList(x.Body.List, func(c ast.Node) { walk(c, depth, brk+1) })
			return
		}
		// generic children
		children(n, func(c ast.Node) { walk(c, depth, brk) })
	}
	walk(body, 0, 0)
	if found != nil {
		all = append(all, found)
	}
	return all
}

func walkList(l []ast.Stmt, f func(ast.Node)) {
	for _, s := range l {
		f(s)
	}
}

// children calls f for each direct child node of n.
func children(n ast.Node, f func(ast.Node)) {
	first := true
	ast.Inspect(n, func(c ast.Node) bool {
		if c == nil {
			return false
		}
		if first {
			first = false
			return true
		}
		f(c)
		return false
	})
}

type cfgBlock = cfg.Block

func isNilNode(n ast.Node) bool {
	v := reflect.ValueOf(n)
	return v.Kind() == reflect.Ptr && v.IsNil()
}

// ReachableNode: some path from 'from' reaches a node satisfying pred without first passing a node satisfying stop.
func (g *Graph) ReachableNode(from Point, pred, stop func(ast.Node) bool) bool {
	seen := map[*cfg.Block]bool{}
	var walk func(b *cfg.Block, start int) bool
	walk = func(b *cfg.Block, start int) bool {
		for i := start; i < len(b.Nodes); i++ {
			if pred(b.Nodes[i]) {
				return true
			}
			if stop != nil && stop(b.Nodes[i]) {
				return false
			}
		}
		for _, s := range b.Succs {
			if seen[s] {
				continue
			}
			seen[s] = true
			if walk(s, 0) {
				return true
			}
		}
		return false
	}
	return walk(from.B, from.I)
}
