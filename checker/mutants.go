package main

// Mutation self-audit (thorough tier): single-edit source variants are applied
// in memory (go/packages Overlay — nothing is written to /repo, nothing is
// executed), the variant must still type-check, and the property's rules must
// report an obligation containing Expect as violated/undecided.

import (
	"fmt"
	"os"
	"path/filepath"
	"strings"
	"sync"
)

type Mutant struct {
	Name   string
	File   string // relative to repo root
	Old    string
	New    string
	Expect string // substring of the obligation key that must fire
}

type mutantResult struct {
	Name   string `json:"name"`
	File   string `json:"file"`
	Status string `json:"status"` // caught | missed | inapplicable | nocompile
	Fired  string `json:"fired,omitempty"`
	Note   string `json:"note,omitempty"`
}

func runMutants(pr *Property, repo, only string) []mutantResult {
	out := make([]mutantResult, len(pr.Mutants))
	sem := make(chan struct{}, 4)
	var wg sync.WaitGroup
	for i, m := range pr.Mutants {
		if only != "" && m.Name != only {
			out[i] = mutantResult{Name: m.Name, File: m.File, Status: "skipped"}
			continue
		}
		wg.Add(1)
		go func(i int, m Mutant) {
			defer wg.Done()
			sem <- struct{}{}
			defer func() { <-sem }()
			out[i] = runMutant(pr, repo, m)
		}(i, m)
	}
	wg.Wait()
	var res []mutantResult
	for _, r := range out {
		if r.Status != "skipped" {
			res = append(res, r)
		}
	}
	return res
}

func runMutant(pr *Property, repo string, m Mutant) mutantResult {
	r := mutantResult{Name: m.Name, File: m.File}
	path := filepath.Join(repo, m.File)
	src, err := os.ReadFile(path)
	if err != nil {
		r.Status, r.Note = "inapplicable", err.Error()
		return r
	}
	if n := strings.Count(string(src), m.Old); n != 1 {
		r.Status, r.Note = "inapplicable", fmt.Sprintf("edit anchor occurs %d times in the current source (tree differs from the one the catalogue was written for)", n)
		return r
	}
	mod := strings.Replace(string(src), m.Old, m.New, 1)
	res := runProperty(pr, LoadOptions{Repo: repo, Overlay: map[string][]byte{path: []byte(mod)}})
	if res.Err != nil {
		r.Status, r.Note = "nocompile", firstLine(res.Err.Error())
		return r
	}
	for _, o := range res.Obs {
		if o.Verdict != "discharged" && strings.Contains(o.Key, m.Expect) {
			r.Status, r.Fired = "caught", o.Key
			return r
		}
	}
	r.Status = "missed"
	var others []string
	for _, o := range res.Obs {
		if o.Verdict != "discharged" {
			others = append(others, o.Key)
		}
	}
	r.Note = "expected a non-discharged obligation matching " + m.Expect + "; non-discharged: " + strings.Join(others, ", ")
	return r
}

func firstLine(s string) string {
	if i := strings.IndexByte(s, '\n'); i >= 0 {
		return s[:i]
	}
	return s
}
