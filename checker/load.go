package main

// Loading of /repo: go/packages (all syntax, typed), go/ssa + VTA call graph, and
// an index of every source function (declared or literal) of the module.

import (
	"fmt"
	"go/ast"
	"go/token"
	"go/types"
	"os"
	"path/filepath"
	"sort"
	"strings"
	"sync"

	"golang.org/x/tools/go/callgraph"
	"golang.org/x/tools/go/callgraph/cha"
	"golang.org/x/tools/go/callgraph/vta"
	"golang.org/x/tools/go/cfg"
	"golang.org/x/tools/go/packages"
	"golang.org/x/tools/go/ssa"
	"golang.org/x/tools/go/ssa/ssautil"
)

const modPath = "github.com/libp2p/go-libp2p-pubsub"

// Func is one source function of the module: a declaration or a literal.
type Func struct {
	Name     string // "(*PubSub).processLoop", "timecache.(*FirstSeenCache).Add", "NewPubSub", "(*PubSub).processLoop$1"
	Pkg      *packages.Package
	Decl     *ast.FuncDecl
	Lit      *ast.FuncLit
	Body     *ast.BlockStmt
	Type     *ast.FuncType
	Obj      *types.Func // nil for literals
	Parent   *Func
	Children []*Func
	File     string // base name of the file
	g        *Graph
	res      *Resolver
}

func (f *Func) Info() *types.Info { return f.Pkg.TypesInfo }

// Root returns the outermost declared function.
func (f *Func) Root() *Func {
	for f.Parent != nil {
		f = f.Parent
	}
	return f
}

type Prog struct {
	inFuncTargets bool // re-entrancy guard of funcLocalTargets
	Fset    *token.FileSet
	Pkgs    []*packages.Package // module packages, sorted by path
	Main    *packages.Package   // the pubsub package
	Funcs   map[string]*Func
	FuncOf  map[ast.Node]*Func // *ast.FuncDecl / *ast.FuncLit -> Func
	ByObj   map[*types.Func]*Func
	All     []*Func // sorted by name
	SSA     *ssa.Program
	CG      *callgraph.Graph
	SSAFunc map[*Func]*ssa.Function
	RepoDir string
	StdRoot string // directory the standard library sources were loaded from (shows which toolchain's build was analysed)
	Env     []string
	Tags    string
	Stats   map[string]int
	parents map[ast.Node]ast.Node
	loadCfg *packages.Config
	initial []*packages.Package
	ssaOf   map[*ssa.Function]*Func
	stores  []Store
	refs    map[string][]Ref
}

// funcNameAlias: an unexported package-level function m(x *T, …) answers to the canonical method name "(*T).m"
// when the rules name that method and T has no method m — an anchored method that was turned into a plain
// function taking its former receiver as first parameter (call operands keep their positions in the canonical
// value of a call: receiver first). Keyed by the function object of the load it belongs to.
var funcNameAlias sync.Map

func (p *Prog) aliasConvertedMethods(mod string) {
	anchorWords()
	for _, pk := range p.Pkgs {
		scope := pk.Types.Scope()
		for _, nm := range scope.Names() {
			fn, ok := scope.Lookup(nm).(*types.Func)
			if !ok || fn.Exported() {
				continue
			}
			sig := fn.Type().(*types.Signature)
			if sig.Recv() != nil || sig.Params().Len() == 0 || sig.TypeParams() != nil {
				continue
			}
			pt, ok := sig.Params().At(0).Type().(*types.Pointer)
			if !ok {
				continue
			}
			named, ok := pt.Elem().(*types.Named)
			if !ok || named.Obj().Pkg() != pk.Types {
				continue
			}
			if ms := types.NewMethodSet(pt); ms.Lookup(pk.Types, nm) != nil {
				continue
			}
			prefix := shortPkg(pk.PkgPath, mod)
			cand := "(*" + named.Obj().Name() + ")." + nm
			if prefix != "" {
				cand = prefix + "." + cand
			}
			if strings.Contains(anchorAllText, cand) {
				funcNameAlias.Store(fn, cand)
			}
		}
	}
}

// LoadOptions selects the tree and build configuration.
type LoadOptions struct {
	Repo    string
	Env     []string // extra env, e.g. GOARCH=386
	Tags    string
	Overlay map[string][]byte
	NoSSA   bool
	Dir     string   // override dir (fixtures)
	Pattern []string // override patterns
	ModPath string   // override module path (fixtures)
}

func shortPkg(path, mod string) string {
	if path == mod {
		return ""
	}
	if strings.HasPrefix(path, mod+"/") {
		return strings.TrimPrefix(path, mod+"/")
	}
	return path
}

// typeName renders a (possibly pointer) named type relative to the module.
func typeString(t types.Type, mod string) string {
	return types.TypeString(t, func(p *types.Package) string {
		s := shortPkg(p.Path(), mod)
		if i := strings.LastIndex(s, "/"); i >= 0 && !strings.HasPrefix(p.Path(), mod) {
			// external package: use full path for precision
			return p.Path()
		}
		return s
	})
}

// FuncName gives the canonical name of a function object:
//
//	module function:  "NewPubSub", "(*PubSub).notifySubs", "PubSubRouter.Publish",
//	                  "timecache.(*FirstSeenCache).Add"
//	external:         "sync.(*Mutex).Lock", "context.Context.Done", "time.Time.Before"
func FuncName(fn *types.Func, mod string) string {
	if fn == nil {
		return ""
	}
	fn = fn.Origin()
	if a, ok := funcNameAlias.Load(fn); ok {
		return a.(string)
	}
	sig := fn.Type().(*types.Signature)
	pkgPrefix := ""
	if fn.Pkg() != nil {
		pkgPrefix = shortPkg(fn.Pkg().Path(), mod)
	}
	if recv := sig.Recv(); recv != nil {
		t := recv.Type()
		ptr := false
		if p, ok := t.(*types.Pointer); ok {
			ptr = true
			t = p.Elem()
		}
		name := ""
		switch tt := t.(type) {
		case *types.Named:
			name = tt.Obj().Name()
			if tt.Obj().Pkg() != nil {
				pkgPrefix = shortPkg(tt.Obj().Pkg().Path(), mod)
			}
		case *types.Alias:
			name = tt.Obj().Name()
		default:
			name = types.TypeString(t, nil)
		}
		q := name
		if pkgPrefix != "" {
			q = pkgPrefix + "." + name
		}
		if ptr {
			if pkgPrefix != "" {
				return pkgPrefix + ".(*" + name + ")." + fn.Name()
			}
			return "(*" + name + ")." + fn.Name()
		}
		return q + "." + fn.Name()
	}
	if pkgPrefix != "" {
		return pkgPrefix + "." + fn.Name()
	}
	return fn.Name()
}

func Load(opt LoadOptions) (*Prog, error) {
	mod := modPath
	if opt.ModPath != "" {
		mod = opt.ModPath
	}
	env := append(os.Environ(), opt.Env...)
	conf := &packages.Config{
		Mode:    packages.LoadAllSyntax,
		Dir:     opt.Repo,
		Env:     env,
		Tests:   false,
		Overlay: opt.Overlay,
	}
	if opt.Dir != "" {
		conf.Dir = opt.Dir
	}
	if opt.Tags != "" {
		conf.BuildFlags = []string{"-tags=" + opt.Tags}
	}
	pats := []string{"./..."}
	if opt.Pattern != nil {
		pats = opt.Pattern
	}
	// x/tools resolves the "go" command through the PATH of this process, not through Config.Env:
	// a PATH override (route A of DESIGN.md §1) has to be installed around the load.
	for _, kv := range opt.Env {
		if strings.HasPrefix(kv, "PATH=") {
			old := os.Getenv("PATH")
			os.Setenv("PATH", strings.TrimPrefix(kv, "PATH="))
			defer os.Setenv("PATH", old)
		}
	}
	initial, err := packages.Load(conf, pats...)
	if err != nil {
		return nil, fmt.Errorf("packages.Load: %v", err)
	}
	if len(initial) == 0 {
		return nil, fmt.Errorf("no packages loaded from %s", conf.Dir)
	}
	var errs []string
	packages.Visit(initial, nil, func(p *packages.Package) {
		for _, e := range p.Errors {
			errs = append(errs, e.Error())
		}
	})
	if len(errs) > 0 {
		if len(errs) > 8 {
			errs = errs[:8]
		}
		return nil, fmt.Errorf("type/load errors: %s", strings.Join(errs, "; "))
	}
	p := &Prog{
		Fset:    initial[0].Fset,
		Funcs:   map[string]*Func{},
		FuncOf:  map[ast.Node]*Func{},
		ByObj:   map[*types.Func]*Func{},
		SSAFunc: map[*Func]*ssa.Function{},
		RepoDir: conf.Dir,
		Env:     opt.Env,
		Tags:    opt.Tags,
		Stats:   map[string]int{},
		parents: map[ast.Node]ast.Node{},
		loadCfg: conf,
	}
	packages.Visit(initial, nil, func(pk *packages.Package) {
		if pk.PkgPath == "sync" && len(pk.GoFiles) > 0 {
			p.StdRoot = filepath.Dir(filepath.Dir(filepath.Dir(pk.GoFiles[0])))
		}
	})
	sort.Slice(initial, func(i, j int) bool { return initial[i].PkgPath < initial[j].PkgPath })
	for _, pk := range initial {
		if pk.PkgPath == mod || strings.HasPrefix(pk.PkgPath, mod+"/") {
			p.Pkgs = append(p.Pkgs, pk)
			if pk.PkgPath == mod {
				p.Main = pk
			}
		}
	}
	if p.Main == nil {
		return nil, fmt.Errorf("package %s not among loaded packages", mod)
	}
	p.Stats["packages"] = len(p.Pkgs)
	p.aliasConvertedMethods(mod)
	for _, pk := range p.Pkgs {
		for _, f := range pk.Syntax {
			p.indexFile(pk, f, mod)
			p.Stats["files"]++
		}
	}
	for _, f := range p.Funcs {
		p.All = append(p.All, f)
	}
	sort.Slice(p.All, func(i, j int) bool { return p.All[i].Name < p.All[j].Name })
	p.Stats["functions"] = len(p.All)

	p.initial = initial
	return p, nil
}

// EnsureSSA builds go/ssa and the VTA call graph on first use.
func (p *Prog) EnsureSSA() {
	if p.SSA != nil {
		return
	}
	prog, _ := ssautil.AllPackages(p.initial, ssa.InstantiateGenerics)
	prog.Build()
	p.SSA = prog
	all := ssautil.AllFunctions(prog)
	p.CG = vta.CallGraph(all, cha.CallGraph(prog))
	p.Stats["ssa_functions"] = len(all)
	p.Stats["callgraph_nodes"] = len(p.CG.Nodes)
	p.ssaOf = map[*ssa.Function]*Func{}
	// map source functions to ssa functions through syntax
	for fn := range all {
		if fn.Syntax() == nil {
			continue
		}
		if f, ok := p.FuncOf[fn.Syntax()]; ok {
			p.ssaOf[fn] = f
			if old, dup := p.SSAFunc[f]; !dup || (old.Origin() != nil && fn.Origin() == nil) {
				p.SSAFunc[f] = fn
			}
		}
	}
}

func (p *Prog) indexFile(pk *packages.Package, file *ast.File, mod string) {
	fname := filepath.Base(p.Fset.Position(file.Pos()).Filename)
	var stack []ast.Node
	var fstack []*Func
	ast.Inspect(file, func(n ast.Node) bool {
		if n == nil {
			top := stack[len(stack)-1]
			stack = stack[:len(stack)-1]
			switch top.(type) {
			case *ast.FuncDecl, *ast.FuncLit:
				if len(fstack) > 0 && (fstack[len(fstack)-1].Decl == top || fstack[len(fstack)-1].Lit == top) {
					fstack = fstack[:len(fstack)-1]
				}
			}
			return true
		}
		if len(stack) > 0 {
			p.parents[n] = stack[len(stack)-1]
		}
		stack = append(stack, n)
		switch d := n.(type) {
		case *ast.FuncDecl:
			if d.Body == nil {
				return true
			}
			obj, _ := pk.TypesInfo.Defs[d.Name].(*types.Func)
			f := &Func{Name: FuncName(obj, mod), Pkg: pk, Decl: d, Body: d.Body, Type: d.Type, Obj: obj, File: fname}
			if d.Name.Name == "init" || d.Name.Name == "_" {
				f.Name = fmt.Sprintf("%s#%s", f.Name, fname)
			}
			p.Funcs[f.Name] = f
			p.FuncOf[d] = f
			if obj != nil {
				p.ByObj[obj] = f
			}
			fstack = append(fstack, f)
		case *ast.FuncLit:
			var parent *Func
			if len(fstack) > 0 {
				parent = fstack[len(fstack)-1]
			}
			f := &Func{Pkg: pk, Lit: d, Body: d.Body, Type: d.Type, Parent: parent, File: fname}
			if parent != nil {
				parent.Children = append(parent.Children, f)
				f.Name = fmt.Sprintf("%s$%d", parent.Root().Name, countLits(parent.Root()))
			} else {
				f.Name = fmt.Sprintf("%s.lit@%s", shortPkg(pk.PkgPath, mod), fname)
			}
			p.Funcs[f.Name] = f
			p.FuncOf[d] = f
			fstack = append(fstack, f)
		}
		return true
	})
}

func countLits(root *Func) int {
	n := 0
	var walk func(f *Func)
	walk = func(f *Func) {
		for _, c := range f.Children {
			n++
			walk(c)
		}
	}
	walk(root)
	return n
}

// Parent returns the syntactic parent of n.
func (p *Prog) ParentNode(n ast.Node) ast.Node { return p.parents[n] }

// EnclosingFunc returns the innermost Func whose body contains n.
func (p *Prog) EnclosingFunc(n ast.Node) *Func {
	for x := p.parents[n]; x != nil; x = p.parents[x] {
		if f, ok := p.FuncOf[x]; ok {
			return f
		}
	}
	return nil
}

// Fn resolves a function by canonical name; nil if missing.
func (p *Prog) Fn(name string) *Func { return p.Funcs[name] }

func (p *Prog) Pos(n ast.Node) string {
	if n == nil {
		return "?"
	}
	pos := p.Fset.Position(n.Pos())
	rel, err := filepath.Rel(p.RepoDir, pos.Filename)
	if err != nil {
		rel = pos.Filename
	}
	return fmt.Sprintf("%s:%d", rel, pos.Line)
}

func (p *Prog) IsGenerated(n ast.Node) bool {
	return strings.HasSuffix(p.Fset.Position(n.Pos()).Filename, ".pb.go")
}

// CFG of a function (lazily built).
func (p *Prog) Graph(f *Func) *Graph {
	if f.g == nil {
		f.g = newGraph(p, f)
	}
	return f.g
}

func mayReturn(info *types.Info) func(*ast.CallExpr) bool {
	return func(c *ast.CallExpr) bool {
		if id, ok := c.Fun.(*ast.Ident); ok {
			if b, ok := info.Uses[id].(*types.Builtin); ok && b.Name() == "panic" {
				return false
			}
		}
		return true
	}
}

var _ = cfg.New

// ReachFrom returns the set of source functions (by *Func) reachable in the VTA call graph
// from the named root functions (including their nested literals).
func (p *Prog) ReachFrom(roots ...string) map[*Func]bool {
	p.EnsureSSA()
	want := map[string]bool{}
	for _, r := range roots {
		want[r] = true
	}
	seen := map[*ssa.Function]bool{}
	var work []*ssa.Function
	for fn, f := range p.ssaOf {
		if want[f.Root().Name] {
			if !seen[fn] {
				seen[fn] = true
				work = append(work, fn)
			}
		}
	}
	for len(work) > 0 {
		fn := work[len(work)-1]
		work = work[:len(work)-1]
		// nested literals are reachable with their parent (they may be stored and invoked elsewhere)
		for _, an := range fn.AnonFuncs {
			if !seen[an] {
				seen[an] = true
				work = append(work, an)
			}
		}
		node := p.CG.Nodes[fn]
		if node == nil {
			continue
		}
		for _, e := range node.Out {
			callee := e.Callee.Func
			if callee == nil || seen[callee] {
				continue
			}
			// stay inside the module (dependencies cannot call back into arbitrary module code except through values VTA already resolved)
			seen[callee] = true
			work = append(work, callee)
		}
	}
	out := map[*Func]bool{}
	for fn := range seen {
		if f, ok := p.ssaOf[fn]; ok {
			out[f] = true
		}
	}
	// supplement for generic code that is never instantiated in library code (no SSA bodies to traverse):
	// static references, and interface invocations resolved by method name to methods of generic receiver types.
	genericMethods := map[string][]*Func{}
	for _, f := range p.All {
		if f.Obj == nil {
			continue
		}
		sig := f.Obj.Type().(*types.Signature)
		if sig.Recv() == nil {
			continue
		}
		rt := sig.Recv().Type()
		if pt, ok := rt.(*types.Pointer); ok {
			rt = pt.Elem()
		}
		if n, ok := rt.(*types.Named); ok && n.TypeParams().Len() > 0 {
			genericMethods[f.Obj.Name()] = append(genericMethods[f.Obj.Name()], f)
		}
	}
	var awork []*Func
	for f := range out {
		awork = append(awork, f)
	}
	add := func(f *Func) {
		if f != nil && !out[f] {
			out[f] = true
			awork = append(awork, f)
		}
	}
	for len(awork) > 0 {
		f := awork[len(awork)-1]
		awork = awork[:len(awork)-1]
		for _, ch := range f.Children {
			add(ch)
		}
		ast.Inspect(f.Body, func(n ast.Node) bool {
			id, ok := n.(*ast.Ident)
			if !ok {
				return true
			}
			fo, ok := f.Info().Uses[id].(*types.Func)
			if !ok {
				return true
			}
			fo = fo.Origin()
			if g := p.ByObj[fo]; g != nil {
				add(g)
				return true
			}
			if sig, ok := fo.Type().(*types.Signature); ok && sig.Recv() != nil {
				if _, isIface := sig.Recv().Type().Underlying().(*types.Interface); isIface {
					for _, g := range genericMethods[fo.Name()] {
						add(g)
					}
				}
			}
			return true
		})
	}
	return out
}

// DeclNode is the declaring node of the function: the FuncDecl, or the literal.
func (f *Func) DeclNode() ast.Node {
	if f.Lit != nil {
		return f.Lit
	}
	if f.Decl != nil {
		return f.Decl
	}
	return f.Body
}
