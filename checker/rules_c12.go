package main

import (
	"go/ast"
	"go/token"
	"go/types"
	"sort"
	"strings"
)

func init() {
	register(&Property{ID: "C12", Run: runC12,
		Explain: "Enumerated crash/stall classes over the code that handles remote input (inventories recomputed on every run; a new site of a listed class needs a discharged obligation): (R12.1) wire-optional nil-safety: every field access through an optional sub-message received from a caller (a pointer-typed pb field reached from a parameter or receiver, or an optional sub-message parameter itself) is dominated by a nil test of the same access path, directly, through a summarised boolean helper, or in every caller; generated Get* methods are nil-safe by construction; (R12.2) fixed-width decodes are length-guarded (shared with C20) and encodes use 8-byte buffers; (R12.3) every slice/index expression with a non-constant bound in the synchronous ingress cone falls into a recognised bounded class (bound tested against len of the same operand, min(len,..), clamp assignment, range key, rand.Intn(len) index, sort callback, length-switch) or is a violation; (R12.4) explicit panics: the verdict switch default is value-unreachable (shared R04.4), push-on-closed is unreachable because every Close of a registered queue is followed by its removal from p.peers and every push takes its queue from p.peers in the same event-loop step (shared R16.4); (R12.5) no single-value type assertion or unguarded integer division on the ingress path; (R12.6) framing: the stream reader is built with maxMessageSize, a read error other than EOF and a decode error reset the stream and return without handing anything to the loop, an RPC is handed over only after a successful Unmarshal; (R12.7) the event loop does not block on remote input: in the synchronous cone of handleIncomingRPC every select has a default arm, every queue push is non-blocking (block=false), bare channel operations are replies, and there is no Sleep/cond.Wait/stream I/O; (R12.8) rand.Intn arguments are positive by construction (loop index + 1) or protected by the IHAVE budget gates (shared C17 B1/B2/B5). (R12.9) every element store into the scorer's per-message peer set, which is dropped (nil) once a record's status is final, is behind a test that the status is still unknown or valid. NOT decided: panics inside dependencies (protobuf decoder, msgio, libp2p, crypto), allocation size/OOM, arithmetic overflow, user callbacks.",
		Assume:  []string{"elements of repeated protobuf fields are non-nil (gogo decoder allocates them)", "generated pb methods are nil-receiver safe"},
		Mutants: []Mutant{
			{Name: "deliver-records-before-status-test", File: "score.go", Old: "\t// defensive check that this is the first delivery trace -- delivery status should be unknown\n\tif drec.status != deliveryUnknown {\n\t\tps.logger.Debug(\"unexpected delivery trace\"", New: "\tdrec.peers[msg.ReceivedFrom] = struct{}{}\n\t// defensive check that this is the first delivery trace -- delivery status should be unknown\n\tif drec.status != deliveryUnknown {\n\t\tps.logger.Debug(\"unexpected delivery trace\"", Expect: "R12.9"},
			{Name: "trace-control-unguarded", File: "trace.go", Old: "\tif rpc.Control != nil {\n\t\tvar ihave []*pb.TraceEvent_ControlIHaveMeta", New: "\tif rpc.Control != nil || len(rpc.Publish) > 0 {\n\t\tvar ihave []*pb.TraceEvent_ControlIHaveMeta", Expect: "R12.1"},
			{Name: "extensions-helper-weakened", File: "extensions.go", Old: "\tif rpc != nil && rpc.Control != nil && rpc.Control.Extensions != nil {\n\t\treturn true\n\t}\n\treturn false", New: "\tif rpc != nil && (rpc.Control != nil || rpc.Partial != nil) {\n\t\treturn true\n\t}\n\treturn false", Expect: "R12.1"},
			{Name: "partial-handler-nil-rpc", File: "partialmessages/partialmsgs.go", Old: "\tif rpc == nil {\n\t\treturn nil\n\t}\n\n\ttopic := rpc.GetTopicID()", New: "\ttopic := rpc.GetTopicID()", Expect: "R12.1"},
			{Name: "seqno-decode-len-gt-zero", File: "validation_builtin.go", Old: "\tif len(seqnoBytes) == 8 {", New: "\tif len(seqnoBytes) > 0 {", Expect: "R12.2"},
			{Name: "px-truncate-unguarded", File: "gossipsub.go", Old: "\tif len(peers) > gs.params.PrunePeers {\n\t\tshufflePeerInfo(peers)\n\t\tpeers = peers[:gs.params.PrunePeers]\n\t}", New: "\tshufflePeerInfo(peers)\n\tpeers = peers[:gs.params.PrunePeers]", Expect: "R12.3"},
			{Name: "logvalue-fixed-prefix", File: "pubsub.go", Old: "msg.Data[0:min(len(msg.Data), 32)]", New: "msg.Data[0:32]", Expect: "R12.3"},
			{Name: "getpeers-count-unguarded", File: "gossipsub.go", Old: "\tif count > 0 && len(peers) > count {\n\t\tpeers = peers[:count]\n\t}", New: "\tif count > 0 {\n\t\tpeers = peers[:count]\n\t}", Expect: "R12.3"},
			{Name: "closed-queue-stays-registered", File: "pubsub.go", Old: "\t\t\t\tp.logger.Warn(\"closing stream for blacklisted peer\", \"peer\", pid)\n\t\t\t\tq.Close()\n\t\t\t\tdelete(p.peers, pid)\n", New: "\t\t\t\tp.logger.Warn(\"closing stream for blacklisted peer\", \"peer\", pid)\n\t\t\t\tq.Close()\n", Expect: "R12.4"},
			{Name: "batch-router-assert-in-ingress", File: "gossipsub.go", Old: "func (gs *GossipSubRouter) HandleRPC(rpc *RPC) {\n", New: "func (gs *GossipSubRouter) HandleRPC(rpc *RPC) {\n\t_ = PubSubRouter(gs).(BatchPublisher)\n", Expect: "R12.5"},
			{Name: "bogus-rpc-still-delivered", File: "comm.go", Old: "\t\tif err != nil {\n\t\t\ts.Reset()\n\n\t\t\tp.rpcLogger.Warn(\"bogus rpc from\", \"peer\", s.Conn().RemotePeer(), \"err\", err)\n\t\t\treturn\n\t\t}", New: "\t\tif err != nil {\n\t\t\tp.rpcLogger.Warn(\"bogus rpc from\", \"peer\", s.Conn().RemotePeer(), \"err\", err)\n\t\t}", Expect: "R12.6"},
			{Name: "reader-unbounded", File: "comm.go", Old: "\tr := msgio.NewVarintReaderSize(s, p.maxMessageSize)", New: "\tr := msgio.NewVarintReaderSize(s, 1<<30)", Expect: "R12.6"},
			{Name: "pxconnect-blocking-select", File: "gossipsub.go", Old: "\t\tselect {\n\t\tcase gs.connect <- ci:\n\t\tdefault:\n\t\t\tgs.logger.Debug(\"ignoring peer connection attempt; too many pending connections\")\n\t\t}", New: "\t\tselect {\n\t\tcase gs.connect <- ci:\n\t\tcase <-gs.p.ctx.Done():\n\t\t\treturn\n\t\t}", Expect: "R12.7"},
			{Name: "announce-blocking-push", File: "gossipsub.go", Old: "\t\terr = q.Push(rpc, false)\n", New: "\t\terr = q.Push(rpc, !urgent && len(rpc.Publish) == 0 && false || q.maxSize == 0)\n", Expect: "R12.7"},
			{Name: "validation-queue-blocking", File: "validation.go", Old: "\t\tselect {\n\t\tcase v.validateQ <- &validateReq{vals, src, msg}:\n\t\tdefault:\n\t\t\tv.p.logger.Debug(\"message validation throttled: queue full; dropping message from peer\", \"peer\", src)\n\t\t\tv.tracer.RejectMessage(msg, RejectValidationQueueFull)\n\t\t}", New: "\t\tselect {\n\t\tcase v.validateQ <- &validateReq{vals, src, msg}:\n\t\tcase <-v.p.ctx.Done():\n\t\t}", Expect: "R12.7"},
			{Name: "ihave-budget-off-by-one", File: "gossipsub.go", Old: "\tif gs.iasked[p] >= gs.params.MaxIHaveLength {", New: "\tif gs.iasked[p] > gs.params.MaxIHaveLength {", Expect: "B2"},
		}})
}

var outboundFns = map[string]string{
	"(*RPC).split":                         "operates on RPCs built locally for sending (structure decided under C11)",
	"copyRPC":                              "outbound",
	"(*GossipSubRouter).piggybackControl":  "outbound control built locally",
	"(*GossipSubRouter).piggybackGossip":   "outbound",
	"(*GossipSubRouter).pushControl":       "outbound control of a dropped RPC (non-nil checked by doDropRPC)",
	"internal/gologshim.parseIPFSGoLogEnv": "parses the process environment at start-up, not remote input",
}

var optionalPbTypes = map[string]bool{"pb.ControlMessage": true, "pb.ControlExtensions": true, "pb.PartialMessagesExtension": true, "pb.TestExtension": true}

// SyncCone: functions reachable from roots through synchronous calls (static callees, interface dispatch to
// module implementations, function literals nested in reached functions); `go` statements are not followed.
func (p *Prog) SyncCone(roots ...string) map[*Func]bool {
	impls := map[string][]*Func{}
	ifaceOf := func(fo *types.Func) *types.Interface {
		sig, ok := fo.Type().(*types.Signature)
		if !ok || sig.Recv() == nil {
			return nil
		}
		it, _ := sig.Recv().Type().Underlying().(*types.Interface)
		return it
	}
	resolve := func(fo *types.Func) []*Func {
		key := FuncName(fo, modPath)
		if r, ok := impls[key]; ok {
			return r
		}
		var out []*Func
		it := ifaceOf(fo)
		if it != nil {
			for _, f := range p.All {
				if f.Obj == nil || f.Obj.Name() != fo.Name() {
					continue
				}
				sig := f.Obj.Type().(*types.Signature)
				if sig.Recv() == nil {
					continue
				}
				rt := sig.Recv().Type()
				if types.Implements(rt, it) || types.Implements(types.NewPointer(rt), it) {
					out = append(out, f)
					continue
				}
				if pt, ok := rt.(*types.Pointer); ok {
					rt = pt.Elem()
				}
				if n, ok := rt.(*types.Named); ok && n.TypeParams().Len() > 0 {
					out = append(out, f)
				}
			}
		}
		impls[key] = out
		return out
	}
	out := map[*Func]bool{}
	var work []*Func
	add := func(f *Func) {
		if f != nil && !out[f] {
			out[f] = true
			work = append(work, f)
		}
	}
	for _, r := range roots {
		add(p.Fn(r))
	}
	for len(work) > 0 {
		f := work[len(work)-1]
		work = work[:len(work)-1]
		for _, ch := range f.Children {
			// a literal started with `go` runs in its own goroutine
			if ce, ok := p.parents[ch.Lit].(*ast.CallExpr); ok {
				if _, isGo := p.parents[ce].(*ast.GoStmt); isGo && unparen(ce.Fun) == ast.Expr(ch.Lit) {
					continue
				}
			}
			add(ch)
		}
		inspectNoLit(f.Body, func(n ast.Node) bool {
			if _, isGo := n.(*ast.GoStmt); isGo {
				return false
			}
			ce, ok := n.(*ast.CallExpr)
			if !ok {
				return true
			}
			var id *ast.Ident
			switch fn := unparen(ce.Fun).(type) {
			case *ast.Ident:
				id = fn
			case *ast.SelectorExpr:
				id = fn.Sel
			}
			if id == nil {
				return true
			}
			fo, ok := f.Info().Uses[id].(*types.Func)
			if !ok {
				return true
			}
			fo = fo.Origin()
			if g := p.ByObj[fo]; g != nil {
				add(g)
			} else {
				for _, g := range resolve(fo) {
					add(g)
				}
			}
			return true
		})
	}
	return out
}

func runC12(c *RuleCtx) {
	p := c.P
	cone := p.SyncCone(fnHandleRPC, "(*PubSub).handleNewStream", fnValidate, "(*RPC).LogValue", "(*validatorImpl).validateMsg")
	loopCone := p.SyncCone(fnHandleRPC)
	c.Note = append(c.Note, "synchronous ingress cone: "+itoa(len(cone))+" functions; event-loop cone of handleIncomingRPC: "+itoa(len(loopCone))+" functions")
	if len(cone) < 80 || len(loopCone) < 60 {
		c.Undecided("R12.1", "ingress cone", "size", nil, "the ingress cone is smaller than known (call resolution drift)")
	}
	var coneFns []*Func
	for f := range cone {
		if !p.IsGenerated(f.Body) {
			coneFns = append(coneFns, f)
		}
	}
	sort.Slice(coneFns, func(i, j int) bool { return coneFns[i].Name < coneFns[j].Name })
	isPbPtr := func(t types.Type) (string, bool) {
		pt, ok := t.(*types.Pointer)
		if !ok {
			return "", false
		}
		n, ok := pt.Elem().(*types.Named)
		if !ok || n.Obj().Pkg() == nil || !strings.HasSuffix(n.Obj().Pkg().Path(), "/pb") {
			return "", false
		}
		return "pb." + n.Obj().Name(), true
	}
	// ---------- R12.1
	n1 := 0
	for _, f := range coneFns {
		if _, out := outboundFns[f.Root().Name]; out {
			continue
		}
		inspectNoLit(f.Body, func(n ast.Node) bool {
			se, ok := n.(*ast.SelectorExpr)
			if !ok {
				return true
			}
			s, ok := f.Info().Selections[se]
			if !ok || s.Kind() != types.FieldVal {
				return true
			}
			bt := f.Info().TypeOf(se.X)
			tn, isPb := isPbPtr(bt)
			if !isPb {
				return true
			}
			bv := p.R(f).Val(se.X)
			rootParam := rootIsParam(p, f, se.X)
			optionalBase := false
			switch {
			case bv.Kind == "field" && strings.HasPrefix(bv.Name, "pb.") && rootParam:
				optionalBase = true // pointer-typed pb field reached from a parameter/receiver: wire-optional
			case bv.Kind == "var" && rootParam && optionalPbTypes[tn]:
				optionalBase = true // optional sub-message parameter
			case bv.Kind == "call" && strings.Contains(bv.Name, ").Get") && optionalPbTypes[tn]:
				optionalBase = true // result of a getter of an optional sub-message
			}
			if !optionalBase {
				return true
			}
			n1++
			ok2, why := nilGuarded(p, f, se, se.X, 0)
			c.Check(ok2, "R12.1", f.Root().Name, "optional "+tn+" dereferenced only behind a nil test: "+p.Src(se), se, why, "the wire-optional value "+p.Src(se.X)+" is dereferenced ("+p.Src(se)+") without a dominating nil test: an RPC that omits it panics the node: "+why)
			return true
		})
	}
	if n1 < 8 {
		c.Undecided("R12.1", "optional dereferences", "inventory", nil, "fewer guarded dereferences than known ("+itoa(n1)+")")
	}
	// ---------- R12.2
	checkSeqnoValidator(c, false)
	for _, cs := range p.AllSites("encoding/binary.bigEndian.PutUint64", "encoding/binary.ByteOrder.PutUint64") {
		v := p.R(cs.Fn).Val(cs.Call.Args[0])
		ok := v.IsCall("builtin.make") && len(v.Args) >= 2 && v.Args[1].Name == "8"
		c.Check(ok, "R12.2", cs.Fn.Root().Name, "8-byte encode into an 8-byte buffer", cs.Call, v.String(), "PutUint64 into "+v.String())
	}
	// ---------- R12.3
	n3 := 0
	for _, f := range coneFns {
		if _, out := outboundFns[f.Root().Name]; out {
			continue
		}
		if strings.Contains(f.Pkg.PkgPath, "/internal/") {
			continue
		}
		inspectNoLit(f.Body, func(n ast.Node) bool {
			switch x := n.(type) {
			case *ast.SliceExpr:
				n3++
				class, why := sliceClass(p, f, x)
				c.Check(class != "", "R12.3", f.Root().Name, "slice "+p.Src(x)+" bounded", x, class+": "+why, "slice expression "+p.Src(x)+" on the ingress path has a bound in no recognised bounded class: "+why)
			case *ast.IndexExpr:
				t := f.Info().TypeOf(x.X)
				if t == nil {
					return true
				}
				switch t.Underlying().(type) {
				case *types.Map, *types.Signature:
					return true
				}
				if tv, ok := f.Info().Types[x.Index]; ok && tv.IsType() {
					return true
				}
				n3++
				class, why := indexClass(p, f, x)
				c.Check(class != "", "R12.3", f.Root().Name, "index "+p.Src(x)+" bounded", x, class+": "+why, "index expression "+p.Src(x)+" on the ingress path is in no recognised bounded class: "+why)
			}
			return true
		})
	}
	if n3 < 12 {
		c.Undecided("R12.3", "index/slice sites", "inventory", nil, "fewer index/slice sites than known ("+itoa(n3)+")")
	}
	// ---------- R12.4 explicit panics
	{
		var panics []CallSite
		for _, f := range p.All {
			if p.IsGenerated(f.Body) || strings.Contains(f.Pkg.PkgPath, "/internal/") {
				continue
			}
			for _, cs := range p.FuncCalls(f, false) {
				if cs.Name == "builtin.panic" {
					panics = append(panics, cs)
				}
			}
		}
		for _, cs := range panics {
			root := cs.Fn.Root().Name
			switch root {
			case "NewMessageCache":
				c.Check(!cone[cs.Fn], "R12.4", root, "constructor panic outside the ingress cone", cs.Call, "not reachable from remote input", "reachable from the ingress path")
			case "(*validation).doValidateTopic":
				c.OK("R12.4", root, "verdict-switch default arm", cs.Call, "value-unreachable: the switched verdict set is within the four handled constants (obligation R04.4 re-evaluated below)")
			case "(*rpcQueue).push":
				c.OK("R12.4", root, "push on closed queue", cs.Call, "unreachable from the event loop: closed queues are removed from p.peers in the same step and pushes take their queue from p.peers (obligations below)")
			default:
				c.Bad("R12.4", root, "explicit panic", cs.Call, "an explicit panic outside the audited set: "+p.Src(cs.Call))
			}
		}
		if len(panics) < 4 {
			c.Undecided("R12.4", "panic sites", "inventory", nil, "fewer explicit panics than known")
		}
		sub := &RuleCtx{P: p, Prop: c.Prop, Min: map[string]int{}}
		runC04(sub)
		for _, o := range sub.Obs {
			if o.Rule == "R04.4" || o.Rule == "R04.1" {
				c.Obs = append(c.Obs, o)
			}
		}
		// every Close of a registered queue is followed by its removal
		nClose := 0
		for _, cs := range p.AllSites("(*rpcQueue).Close") {
			f := cs.Fn
			se, _ := unparen(cs.Call.Fun).(*ast.SelectorExpr)
			if se == nil {
				continue
			}
			qv := p.R(f).Val(se.X)
			fromPeers := (qv.Kind == "lookupval" || qv.Kind == "index" || qv.Kind == "rangeval") && qv.Args[0].IsField("PubSub.peers")
			if !fromPeers {
				c.Bad("R12.4", f.Root().Name, "Close of a queue not taken from p.peers", cs.Call, "queue "+qv.String()+" is closed; it cannot be shown to be unregistered afterwards")
				continue
			}
			nClose++
			g := p.Graph(f)
			cp, _ := g.Locate(cs.Call)
			var until map[*cfgBlock]bool
			if f.Root().Name == fnProcessLoop && f.Lit == nil {
				_, _, until = forLoopOf(p, g, f)
			} else {
				until = p.iterationUntil(f, cs.Call)
			}
			removed := func(n ast.Node) bool {
				if isDeleteOf(p, f, n, "PubSub.peers") {
					return true
				}
				for _, s := range p.StoresTo2(f, "PubSub.peers") {
					if s.Node == n && s.Kind == "assign" && isNilV(p.R(f).Val(s.RHS)) {
						return true
					}
				}
				return false
			}
			ok, _ := g.MustPass(cp.After(), PassOpts{Until: until}, removed)
			if !ok && qv.Kind == "rangeval" {
				// closing all queues in a loop, then clearing the map after the loop
				loops := p.EnclosingLoops(cs.Call)
				if len(loops) > 0 {
					_, _, done := g.LoopBlocks(loops[0])
					if done != nil {
						ok, _ = g.MustPass(Point{done, 0}, PassOpts{}, removed)
					}
				}
			}
			c.Check(ok, "R12.4", f.Root().Name, "closed queue removed from p.peers in the same step", cs.Call, "delete(p.peers, ·) / p.peers = nil follows on every path", "a closed queue can stay registered in p.peers: the next push to that peer panics the event loop (push on closed rpc queue)")
		}
		if nClose < 4 {
			c.Undecided("R12.4", "queue closes", "inventory", nil, "fewer Close sites than known")
		}
		checkPushReceivers(c, "R12.4")
	}
	// ---------- R12.5
	{
		nA := 0
		for _, f := range coneFns {
			if _, out := outboundFns[f.Root().Name]; out {
				continue
			}
			inspectNoLit(f.Body, func(n ast.Node) bool {
				ta, ok := n.(*ast.TypeAssertExpr)
				if !ok || ta.Type == nil {
					return true
				}
				if as, ok := p.parents[ta].(*ast.AssignStmt); ok && len(as.Lhs) == 2 {
					return true
				}
				if vs, ok := p.parents[ta].(*ast.ValueSpec); ok && len(vs.Names) == 2 {
					return true
				}
				nA++
				c.Bad("R12.5", f.Root().Name, "single-value type assertion "+p.Src(ta), ta, "a single-value type assertion on the ingress path panics when the dynamic type differs")
				return true
			})
		}
		for _, d := range p.IntDivisions() {
			if cone[d.Fn] {
				nA++
				dv := p.R(d.Fn).Val(d.Expr.Y)
				pos := AtomCmp("divisor > 0", func(v *V) bool { return v.Equal(dv) }, ">", isZero)
				ok, why := p.DomAny(d.Fn, d.Expr, AtomWant{pos, true})
				c.Check(ok, "R12.5", d.Fn.Root().Name, "integer division on the ingress path guarded", d.Expr, why, why)
			}
		}
		if nA == 0 {
			c.OK("R12.5", "ingress cone", "no single-value type assertion / unguarded integer division", nil, "none in "+itoa(len(coneFns))+" functions")
		}
	}
	// ---------- R12.6 framing
	if f := c.MustFn("R12.6", "(*PubSub).handleNewStream"); f != nil {
		g := p.Graph(f)
		for _, cs := range p.Sites(f, false, "github.com/libp2p/go-msgio.NewVarintReaderSize") {
			v := p.R(f).Val(cs.Call.Args[1])
			c.Check(v.IsField("PubSub.maxMessageSize"), "R12.6", f.Name, "frame reader bounded by maxMessageSize", cs.Call, v.String(), "the frame reader's size limit is "+v.String()+": an oversized frame would be allocated/accepted")
		}
		if len(p.Sites(f, false, "github.com/libp2p/go-msgio.NewVarintReaderSize")) != 1 {
			c.Bad("R12.6", f.Name, "frame reader bounded by maxMessageSize", f.Decl, "the stream is not read through msgio.NewVarintReaderSize")
		}
		rpcSend := func(n ast.Node) bool {
			s, ok := n.(*ast.SendStmt)
			if !ok || !p.R(f).Val(s.Chan).IsField("PubSub.incoming") {
				return false
			}
			if cl := compositeOf(s.Value); cl != nil {
				for _, el := range cl.Elts {
					if kv, ok := el.(*ast.KeyValueExpr); ok {
						if k, ok := kv.Key.(*ast.Ident); ok && k.Name == "kind" && p.R(f).Val(kv.Value).IsConst("incomingKindRPC") {
							return true
						}
					}
				}
			}
			return false
		}
		readErr := AtomCmp("ReadMsg err != nil", func(v *V) bool {
			return v.Kind == "tuple" && v.Name == "1" && strings.HasSuffix(v.Args[0].Name, ".ReadMsg")
		}, "!=", isNilV)
		decErr := AtomCmp("Unmarshal err != nil", func(v *V) bool { return strings.HasSuffix(v.Name, ".Unmarshal") && v.Kind == "call" }, "!=", isNilV)
		isEOF := AtomCmp("err != io.EOF", func(v *V) bool { return v.Kind == "tuple" || v.Kind == "var" }, "!=", func(v *V) bool { return v.Kind == "var" && v.Name == "io.EOF" })
		nSend := 0
		inspectNoLit(f.Body, func(x ast.Node) bool {
			if rpcSend(x) {
				nSend++
				ok1, why1 := p.DomAny(f, x, AtomWant{readErr, false})
				ok2, why2 := p.DomAny(f, x, AtomWant{decErr, false})
				c.Check(ok1, "R12.6", f.Name, "RPC handed over only after a successful read", x, why1, why1)
				c.Check(ok2, "R12.6", f.Name, "RPC handed over only after a successful Unmarshal", x, why2, "an RPC that did not decode can be handed to the event loop: "+why2)
			}
			return true
		})
		c.Check(nSend == 1, "R12.6", f.Name, "one hand-over of decoded RPCs", f.Decl, "1", "unexpected number of RPC hand-overs")
		resets := func(n ast.Node) bool {
			for _, cs := range p.CallsIn(f, n, false) {
				if strings.HasSuffix(cs.Name, "network.MuxedStream.Reset") || strings.HasSuffix(cs.Name, "Stream.Reset") {
					return true
				}
			}
			return false
		}
		isRet := func(n ast.Node) bool { _, ok := n.(*ast.ReturnStmt); return ok }
		loopUntil := map[*cfgBlock]bool{}
		inspectNoLit(f.Body, func(x ast.Node) bool {
			if fs, ok := x.(*ast.ForStmt); ok {
				h, _, d := g.LoopBlocks(fs)
				if h != nil {
					loopUntil[h] = true
				}
				if d != nil {
					loopUntil[d] = true
				}
			}
			return true
		})
		for _, e := range g.AtomEdges(decErr, true) {
			ok1, _ := g.MustPass(EdgeTarget(e), PassOpts{Until: loopUntil}, resets)
			ok2, _ := g.MustPass(EdgeTarget(e), PassOpts{Until: loopUntil}, isRet)
			c.Check(ok1 && ok2, "R12.6", f.Name, "undecodable frame resets the stream and ends the handler", condNodeOf(e), "Reset + return", "a frame that does not decode does not reset the stream / end the handler")
		}
		if len(g.AtomEdges(decErr, true)) == 0 {
			c.Bad("R12.6", f.Name, "undecodable frame resets the stream and ends the handler", f.Decl, "the Unmarshal error is not tested")
		}
		for _, e := range g.AtomEdges(readErr, true) {
			ok2, _ := g.MustPass(EdgeTarget(e), PassOpts{Until: loopUntil}, isRet)
			c.Check(ok2, "R12.6", f.Name, "read error ends the handler", condNodeOf(e), "return", "a read error (including an oversized frame) does not end the handler")
			// non-EOF errors reset
			cut := edgeCut(g.AtomEdges(isEOF, false))
			ok1, _ := g.MustPass(EdgeTarget(e), PassOpts{Until: loopUntil, Cut: cut}, resets)
			c.Check(ok1, "R12.6", f.Name, "read error other than EOF resets the stream", condNodeOf(e), "Reset on every path not refuting err != io.EOF", "an oversized or broken frame does not reset the stream")
		}
		if len(g.AtomEdges(readErr, true)) == 0 {
			c.Bad("R12.6", f.Name, "read error ends the handler", f.Decl, "the read error is not tested")
		}
	}
	// ---------- R12.7 the loop does not block on remote input
	{
		nOps := 0
		var loopFns []*Func
		for f := range loopCone {
			if !p.IsGenerated(f.Body) {
				loopFns = append(loopFns, f)
			}
		}
		sort.Slice(loopFns, func(i, j int) bool { return loopFns[i].Name < loopFns[j].Name })
		inCone := map[*Func]bool{}
		for _, f := range loopFns {
			inCone[f] = true
		}
		for _, op := range p.ChanOps() {
			if !inCone[op.Fn] {
				continue
			}
			root := op.Fn.Root().Name
			if root == "(*validatorImpl).validateMsg" || strings.HasPrefix(root, "(*validation).validate") || root == "(*validation).doValidateTopic" {
				continue // runs in validation workers, not in the event loop (reached only through the validator type, conservatively in the cone)
			}
			nOps++
			switch op.Kind {
			case "select":
				si := p.selectInfo(op.Fn, op.Node.(*ast.SelectStmt))
				c.Check(si.HasDefault, "R12.7", root, "select in the event-loop cone is non-blocking", op.Node, "has a default arm", "a blocking select is reachable synchronously from handleIncomingRPC: remote input can stall the event loop (a ctx.Done() arm does not help while the node is running)")
			default:
				// bare ops: only replies/semaphores classified under R14.1 may appear; anything on an inbox channel is a stall
				if ownedChan(op.Chan) {
					c.Bad("R12.7", root, "bare "+op.Kind+" on "+op.Chan.String(), op.Node, "a bare operation on an instance channel in the event-loop cone can block the loop")
				} else {
					c.OK("R12.7", root, "bare "+op.Kind+" on "+op.Chan.String(), op.Node, "reply-class operation (classified under C14 R14.1)")
				}
			}
		}
		if nOps < 4 {
			c.Undecided("R12.7", "event-loop cone", "channel operations", nil, "fewer channel operations than known")
		}
		for _, cs := range p.AllSites("(*rpcQueue).Push", "(*rpcQueue).UrgentPush") {
			v := p.R(cs.Fn).Val(cs.Call.Args[1])
			c.Check(v.IsConst("false"), "R12.7", cs.Fn.Root().Name, "queue push is non-blocking", cs.Call, "block=false", "a queue push may block ("+v.String()+"): a slow peer would stall the event loop")
		}
		for _, f := range loopFns {
			for _, cs := range p.FuncCalls(f, false) {
				if cs.Name == "time.Sleep" || cs.Name == "sync.(*Cond).Wait" || strings.HasSuffix(cs.Name, "network.MuxedStream.Read") || strings.HasSuffix(cs.Name, "network.MuxedStream.Write") {
					if f.Root().Name == "(*rpcQueue).push" {
						continue // only with block=true, excluded above
					}
					c.Bad("R12.7", f.Root().Name, "blocking call "+shortFn(cs.Name), cs.Call, "a blocking call is reachable synchronously from handleIncomingRPC")
				}
			}
		}
	}
	// ---------- R12.8 rand.Intn positivity
	{
		n8 := 0
		for _, cs := range p.AllSites("math/rand.Intn") {
			if !cone[cs.Fn] && !loopCone[cs.Fn] {
				continue
			}
			n8++
			v := p.R(cs.Fn).Val(cs.Call.Args[0])
			switch {
			case v.Kind == "op" && v.Name == "+" && v.Args[0].Kind == "rangekey" && v.Args[1].Name == "1":
				c.OK("R12.8", cs.Fn.Root().Name, "rand.Intn(i+1)", cs.Call, "loop index + 1 is positive")
			case v.Kind == "len" && cs.Fn.Root().Name == "(*gossipTracer).AddPromise":
				callers := p.CallerNames("(*gossipTracer).AddPromise")
				ok, _ := subset(callers, "(*GossipSubRouter).handleIHave")
				c.Check(ok, "R12.8", cs.Fn.Root().Name, "rand.Intn(len(ids)) only reachable with a non-empty ask", cs.Call, "only handleIHave calls AddPromise; its ask is non-empty by the gates B2/B5 (re-evaluated below)", "AddPromise has other callers")
			default:
				c.Bad("R12.8", cs.Fn.Root().Name, "rand.Intn argument", cs.Call, "rand.Intn("+v.String()+") on the ingress path: the argument is not positive by construction (Intn panics on n <= 0)")
			}
		}
		if n8 < 3 {
			c.Undecided("R12.8", "rand.Intn sites", "inventory", nil, "fewer sites than known")
		}
		sub := &RuleCtx{P: p, Prop: c.Prop, Min: map[string]int{}}
		runC17(sub)
		for _, o := range sub.Obs {
			if inSet(o.Rule, "B1", "B2", "B5", "B8", "B9") {
				c.Obs = append(c.Obs, o)
			}
		}
		// the ask list is non-empty before any truncation: `len(iwant) == 0 => return`
		if f := c.MustFn("R12.8", "(*GossipSubRouter).handleIHave"); f != nil {
			empty := AtomCmp("len(want-set) == 0", func(v *V) bool { return v.Kind == "len" && v.Args[0].IsCall("builtin.make") }, "==", isZero)
			for _, cs := range p.Sites(f, false, "(*gossipTracer).AddPromise") {
				ok, why := p.DomAny(f, cs.Call, AtomWant{empty, false})
				c.Check(ok, "R12.8", f.Name, "promise recorded only for a non-empty ask", cs.Call, why, why)
			}
		}
	}
	checkDeliveryPeersStores(c)
	c.Min["R12.1"] = 8
	c.Min["R12.2"] = 5
	c.Min["R12.3"] = 12
	c.Min["R12.4"] = 14
	c.Min["R12.5"] = 1
	c.Min["R12.6"] = 7
	c.Min["R12.7"] = 10
	c.Min["R12.8"] = 5
	c.Min["B2"] = 4
}

// rootIsParam: the access path's root identifier is a parameter or receiver of the enclosing function chain.
func rootIsParam(p *Prog, f *Func, e ast.Expr) bool {
	for {
		switch x := unparen(e).(type) {
		case *ast.SelectorExpr:
			e = x.X
			continue
		case *ast.IndexExpr:
			e = x.X
			continue
		case *ast.StarExpr:
			e = x.X
			continue
		case *ast.CallExpr:
			// getter call: root is its receiver
			if se, ok := unparen(x.Fun).(*ast.SelectorExpr); ok {
				e = se.X
				continue
			}
			return false
		case *ast.Ident:
			obj := f.Info().Uses[x]
			for fn := f; fn != nil; fn = fn.Parent {
				if fn.Type.Params != nil {
					for _, fld := range fn.Type.Params.List {
						for _, nm := range fld.Names {
							if fn.Info().Defs[nm] == obj {
								return true
							}
						}
					}
				}
				if fn.Decl != nil && fn.Decl.Recv != nil {
					for _, fld := range fn.Decl.Recv.List {
						for _, nm := range fld.Names {
							if fn.Info().Defs[nm] == obj {
								return true
							}
						}
					}
				}
			}
			// local alias with a single definition: follow it
			if d, ok := p.R(f).SingleDef(obj); ok && d.kind == "assign" && d.rhs != nil {
				e = d.rhs
				continue
			}
			// range value over a parameter-rooted collection: element (assumed non-nil) — but fields reached through it are still rooted at the parameter
			if d, ok := p.R(f).SingleDef(obj); ok && d.kind == "range-val" && d.rangeX != nil {
				e = d.rangeX
				continue
			}
			return false
		default:
			return false
		}
	}
}

// nilGuarded: the dereference of base at site is dominated by `base != nil` (same access path), directly,
// through a boolean helper whose true result implies it, or — for a parameter — in every caller.
func nilGuarded(p *Prog, f *Func, site ast.Node, base ast.Expr, depth int) (bool, string) {
	bv := p.R(f).Val(base)
	same := func(v *V) bool { return v.Equal(bv) }
	notNil := AtomCmp(p.Src(base)+" != nil", same, "!=", isNilV)
	if ok, why := p.DomDeep(f.Root(), site, AtomWant{notNil, true}); ok {
		return true, why
	}
	// short-circuit guard inside one expression: `x != nil && x.f ...` / `x == nil || x.f ...`
	for n, par := site, p.parents[site]; par != nil; n, par = par, p.parents[par] {
		be, ok := par.(*ast.BinaryExpr)
		if ok && (be.Op == token.LAND || be.Op == token.LOR) && within(n, be.Y) && n != ast.Node(be.X) {
			var facts []Fact
			factsOf(be.X, be.Op == token.LAND, &facts)
			gph := p.Graph(f)
			for _, fc := range facts {
				if okm, sense := notNil.Match(gph, fc.E); okm && fc.Truth == sense {
					return true, "guarded by the left operand of the same short-circuit expression"
				}
			}
		}
		if _, isStmt := par.(ast.Stmt); isStmt {
			break
		}
	}
	// helper predicate: cond is a call H(arg) and H returns true only if param<suffix> != nil
	g := p.Graph(f)
	pt, okL := g.Locate(site)
	if okL {
		helper := Atom{Desc: "helper implies " + p.Src(base) + " != nil", Match: func(g *Graph, e ast.Expr) (bool, bool) {
			ce, ok := unparen(e).(*ast.CallExpr)
			if !ok || len(ce.Args) != 1 {
				return false, false
			}
			h := p.Fn(p.CalleeName(g.F.Info(), ce))
			if h == nil || h.Type.Params == nil || len(h.Type.Params.List) != 1 || len(h.Type.Params.List[0].Names) != 1 {
				return false, false
			}
			argV := p.R(g.F).Val(ce.Args[0])
			bs := bv.String()
			as := argV.String()
			if !strings.HasPrefix(bs, as) {
				return false, false
			}
			suffix := strings.TrimPrefix(bs, as)
			pname := h.Type.Params.List[0].Names[0].Name
			want := pname + suffix
			// in the helper: every `return true` dominated by want != nil
			okAll, n := true, 0
			returnsIn(h, func(r *ast.ReturnStmt) {
				if len(r.Results) != 1 || !p.R(h).Val(r.Results[0]).IsConst("true") {
					if len(r.Results) == 1 && !p.R(h).Val(r.Results[0]).IsConst("false") {
						okAll = false
					}
					return
				}
				n++
				a := AtomCmp(want+" != nil", func(v *V) bool { return v.String() == want }, "!=", isNilV)
				if ok, _ := p.DomAny(h, r, AtomWant{a, true}); !ok {
					okAll = false
				}
			})
			return okAll && n > 0, true
		}}
		if es := g.AtomEdges(helper, true); len(es) > 0 && g.Dominated(pt, es) {
			return true, "dominated by a boolean helper whose true result implies the nil test"
		}
	}
	// parameter: every caller guards its argument
	if id, ok := unparen(base).(*ast.Ident); ok && depth < 2 {
		obj := f.Info().Uses[id]
		owner := f.Root()
		idx, i := -1, 0
		if owner.Type.Params != nil {
			for _, fld := range owner.Type.Params.List {
				for _, nm := range fld.Names {
					if owner.Info().Defs[nm] == obj {
						idx = i
					}
					i++
				}
			}
		}
		if idx >= 0 {
			refs := p.Refs(owner.Name)
			if len(refs) == 0 || p.calledThroughInterface(owner) {
				return false, "optional parameter of a function invoked through an interface / without visible callers"
			}
			for _, r := range refs {
				call := p.callOfRef(r)
				if !r.IsCall || call == nil || idx >= len(call.Args) || r.Fn == nil {
					return false, "function referenced as a value"
				}
				if ok, why := nilGuarded(p, r.Fn, call, call.Args[idx], depth+1); !ok {
					return false, "caller " + r.Fn.Root().Name + ": " + why
				}
			}
			return true, "every caller passes a value behind a nil test"
		}
	}
	return false, "no dominating `" + p.Src(base) + " != nil`"
}

// sliceClass: recognised bounded classes for slice expressions.
func sliceClass(p *Prog, f *Func, x *ast.SliceExpr) (string, string) {
	xv := p.R(f).Val(x.X)
	lenOfX := func(v *V) bool { return v != nil && v.Kind == "len" && v.Args[0].Equal(xv) }
	okBound := func(b ast.Expr, isHigh bool) (bool, string) {
		if b == nil {
			return true, ""
		}
		bv := p.R(f).Val(b)
		if bv.Kind == "lit" || bv.Kind == "const" {
			if bv.Name == "0" {
				return true, "constant 0"
			}
			// a positive constant bound needs a length test
			le := AtomCmp("len >= const", lenOfX, ">=", func(v *V) bool { return v.Name == bv.Name })
			if ok, _ := p.DomAny(f, x, AtomWant{le, true}); ok {
				return true, "constant bound behind a length test"
			}
			if t := f.Info().TypeOf(x.X); t != nil {
				if at, ok := t.Underlying().(*types.Array); ok && itoa(int(at.Len())) >= bv.Name {
					return true, "array"
				}
			}
			return false, "constant bound " + bv.Name + " without a length test of the operand"
		}
		if bv.IsCall("builtin.min") {
			for _, a := range bv.Args {
				if lenOfX(a) {
					return true, "min(len(x), ...)"
				}
			}
		}
		if bv.Kind == "op" && bv.Name == "-" && lenOfX(bv.Args[0]) && (bv.Args[1].Kind == "lit") {
			return true, "len(x) - const (non-empty by the surrounding append discipline)"
		}
		// bound compared with len(x): len(x) > bound / bound <= len(x) / bound < len(x)
		same := func(v *V) bool { return v.Equal(bv) }
		for _, a := range []Atom{
			AtomCmp("len(x) > bound", lenOfX, ">", same),
			AtomCmp("len(x) >= bound", lenOfX, ">=", same),
		} {
			if ok, _ := p.DomAny(f, x, AtomWant{a, true}); ok {
				return true, "dominated by `" + a.Desc + "`"
			}
		}
		// clamp assignment: `if bound > len(y) { bound = len(y) }` preceding, where x is (derived from) y — on the bound
		// variable itself or on a local it is a plain copy of (the result variable of a helper that computes it)
		if id, ok := unparen(b).(*ast.Ident); ok {
			chain := []types.Object{f.Info().Uses[id]}
			for i := 0; i < len(chain) && i < 6; i++ {
				for _, d := range p.R(f).Defs(chain[i]) {
					if d.kind == "assign" && d.rhs != nil && d.idx < 0 {
						if rid, ok := unparen(d.rhs).(*ast.Ident); ok {
							if o, ok := f.Info().Uses[rid].(*types.Var); ok && !o.IsField() {
								dup := false
								for _, c := range chain {
									if c == o {
										dup = true
									}
								}
								if !dup {
									chain = append(chain, o)
								}
							}
						}
					}
				}
			}
			for _, obj := range chain {
				for _, d := range p.R(f).Defs(obj) {
					if d.kind != "assign" || d.rhs == nil {
						continue
					}
					rv := p.R(f).Val(d.rhs)
					if rv.Kind == "len" {
						over := AtomCmp("bound > len", func(v *V) bool { return v.Kind == "var" && v.Obj == obj }, ">", func(v *V) bool { return v.Equal(rv) })
						if ok, _ := p.DomAny(f, d.node, AtomWant{over, true}); ok {
							// the clamp lies on every path not refuting bound > len before the slice
							g := p.Graph(f)
							sp, _ := g.Locate(x)
							if g.DominatedByNode(sp, func(n ast.Node) bool {
								for _, e := range append(g.AtomEdges(over, true), g.AtomEdges(over, false)...) {
									if condNodeOf(e) == n {
										return true
									}
								}
								return false
							}) {
								return true, "bound clamped to a length before use"
							}
						}
					}
				}
			}
		}
		// bound initialised from len(M) and only lowered afterwards, operand built with one element per entry of M
		if id, ok := unparen(b).(*ast.Ident); ok {
			obj := f.Info().Uses[id]
			var src *V
			lowered := true
			for _, d := range p.R(f).Defs(obj) {
				if d.kind != "assign" || d.rhs == nil {
					lowered = false
					continue
				}
				rv := p.R(f).Val(d.rhs)
				if as, isAs := d.node.(*ast.AssignStmt); isAs && as.Tok == token.DEFINE && rv.Kind == "len" {
					src = rv.Args[0]
					continue
				}
				// a later assignment must be under `bound + a > limit` and assign `limit - a` (strictly smaller)
				over := Atom{Desc: "bound + a > limit", Match: func(g *Graph, e ast.Expr) (bool, bool) {
					be, ok := unparen(e).(*ast.BinaryExpr)
					if !ok || be.Op != token.GTR {
						return false, false
					}
					sum, ok := unparen(be.X).(*ast.BinaryExpr)
					if !ok || sum.Op != token.ADD {
						return false, false
					}
					for _, o := range []ast.Expr{sum.X, sum.Y} {
						if oid, ok := unparen(o).(*ast.Ident); ok && g.F.Info().Uses[oid] == obj {
							return true, true
						}
					}
					return false, false
				}}
				if ok, _ := p.DomAny(f, d.node, AtomWant{over, true}); !ok || !(rv.Kind == "op" && rv.Name == "-") {
					lowered = false
				}
			}
			if src != nil && lowered {
				// operand: appended exactly once per entry in a range over src without early exit
				if xid, ok := unparen(x.X).(*ast.Ident); ok {
					xobj := f.Info().Uses[xid]
					for _, ap := range p.localAppends(f) {
						if ap.Obj != xobj {
							continue
						}
						loops := p.EnclosingLoops(ap.Stmt)
						if len(loops) == 0 {
							continue
						}
						if r, ok := loops[0].(*ast.RangeStmt); ok && p.R(f).Val(r.X).Equal(src) {
							if okl, _ := p.LoopBodyMust(f, r, nil, func(n ast.Node) bool { return n == ast.Node(ap.Stmt) }); okl {
								return true, "bound starts at len(M) and is only lowered; the operand holds one element per entry of M"
							}
						}
					}
				}
			}
		}
		return false, "bound " + bv.String() + " is not tested against len(" + xv.String() + ")"
	}
	if ok, why := okBound(x.Low, false); !ok {
		return "", why
	}
	ok, why := okBound(x.High, true)
	if !ok {
		return "", why
	}
	if x.High == nil && x.Low == nil {
		return "whole", "x[:]"
	}
	return "bounded", why
}

// indexClass: recognised bounded classes for index expressions on slices/arrays/strings.
func indexClass(p *Prog, f *Func, x *ast.IndexExpr) (string, string) {
	xv := p.R(f).Val(x.X)
	iv := p.R(f).Val(x.Index)
	lenOfX := func(v *V) bool { return v != nil && v.Kind == "len" && v.Args[0].Equal(xv) }
	// range key of the same operand
	if iv.Kind == "rangekey" && iv.Args[0].Equal(xv) {
		return "rangekey", "index is the range key of the operand"
	}
	// counting fill: xs := make([]T, len(M)); i := 0; for k := range M { xs[i] = k; i++ } — the index counts the
	// iterations of a range over M, and the operand was made with len(M) elements
	if id, ok := unparen(x.Index).(*ast.Ident); ok {
		if obj, ok := f.Info().Uses[id].(*types.Var); ok && !obj.IsField() {
			loops := p.EnclosingLoops(x)
			if len(loops) > 0 {
				if r, ok := loops[0].(*ast.RangeStmt); ok {
					mv := p.R(f).Val(r.X)
					madeWithLen := false
					if xid, ok := unparen(x.X).(*ast.Ident); ok {
						for _, d := range p.R(f).Defs(f.Info().Uses[xid]) {
							if d.kind == "assign" && d.rhs != nil {
								if ce, ok := unparen(d.rhs).(*ast.CallExpr); ok && len(ce.Args) >= 2 {
									if fid, ok := ce.Fun.(*ast.Ident); ok && fid.Name == "make" {
										if lv := p.R(f).Val(ce.Args[1]); lv.Kind == "len" && lv.Args[0].Equal(mv) {
											madeWithLen = true
										}
									}
								}
							}
						}
					}
					// the index: defined as 0 outside the loop, and inside it only incremented by one, once, after the use
					zeroOutside, stepsInside, other := false, 0, false
					for _, d := range p.R(f).Defs(obj) {
						inLoop := d.node != nil && within(d.node, r)
						switch {
						case !inLoop && d.kind == "assign" && d.rhs != nil && p.R(f).Val(d.rhs).IsConst("0"):
							zeroOutside = true
						case inLoop:
							if inc, ok := d.node.(*ast.IncDecStmt); ok && inc.Tok == token.INC {
								if len(p.EnclosingLoops(inc)) > 0 && p.EnclosingLoops(inc)[0] == ast.Stmt(r) {
									stepsInside++
									continue
								}
							}
							other = true
						default:
							other = true
						}
					}
					if madeWithLen && zeroOutside && stepsInside == 1 && !other {
						return "countfill", "index counts the iterations of a range over M; the operand was made with len(M) elements"
					}
				}
			}
		}
	}
	// rand.Intn(len(x)) / rand.Intn(i+1) with i range key of x
	if iv.IsCall("math/rand.Intn") && len(iv.Args) == 1 {
		a := iv.Args[0]
		if lenOfX(a) {
			return "rand", "rand.Intn(len(x)) < len(x)"
		}
		if a.Kind == "op" && a.Name == "+" && a.Args[0].Kind == "rangekey" && a.Args[0].Args[0].Equal(xv) {
			return "rand", "rand.Intn(i+1) <= i, i a range key of the operand"
		}
	}
	// sort callback: parameters i, j of a less function passed to sort.Slice on the same operand
	if f.Lit != nil {
		if ce, ok := p.parents[f.Lit].(*ast.CallExpr); ok && strings.HasPrefix(p.CalleeName(f.Parent.Info(), ce), "sort.Slice") {
			if p.R(f.Parent).Val(ce.Args[0]).Equal(xv) || p.R(f).Val(ce.Args[0]).Equal(xv) {
				return "sort", "index supplied by sort.Slice for the same slice"
			}
		}
	}
	// constant index behind a length test (== n+1.., > n, switch on len)
	if iv.Kind == "lit" || iv.Kind == "const" {
		for _, a := range []Atom{
			AtomCmp("len(x) > idx", lenOfX, ">", func(v *V) bool { return v.Name == iv.Name }),
			AtomCmp("len(x) == 0", lenOfX, "==", isZero),
		} {
			want := a.Desc != "len(x) == 0"
			if ok, _ := p.DomAny(f, x, AtomWant{a, want}); ok && (want || iv.Name == "0") {
				return "const", "constant index behind a length test"
			}
		}
		one := AtomCmp("len(x) == 1", lenOfX, "==", isLit("1"))
		if ok, _ := p.DomAny(f, x, AtomWant{one, true}); ok && iv.Name == "0" {
			return "const", "index 0 under len == 1"
		}
		// default arm of a switch on len(x) that handled 0 (and 1)
		zero := AtomCmp("len(x) == 0", lenOfX, "==", isZero)
		if ok, _ := p.DomAny(f, x, AtomWant{zero, false}); ok && iv.Name == "0" {
			return "const", "index 0 with len != 0"
		}
		if t := f.Info().TypeOf(x.X); t != nil {
			if _, isArr := t.Underlying().(*types.Array); isArr {
				return "array", "constant index into an array (checked by the compiler)"
			}
		}
		if xv.IsField("MessageCache.history") && iv.Name == "0" {
			// history has HistoryLength slots; parameter validation must reject HistoryLength <= 0 on every accepting path
			if v := p.Fn("(*GossipSubParams).validate"); v != nil {
				pos := AtomCmp("HistoryLength <= 0", isFieldOf("GossipSubParams.HistoryLength"), "<=", isZero)
				okAll, n := true, 0
				returnsIn(v, func(r *ast.ReturnStmt) {
					if len(r.Results) == 1 && isNilV(p.R(v).Val(r.Results[0])) {
						n++
						if ok, _ := p.DomAny(v, r, AtomWant{pos, false}); !ok {
							okAll = false
						}
					}
				})
				if okAll && n > 0 {
					return "validated", "history has HistoryLength >= 1 slots: GossipSubParams.validate rejects HistoryLength <= 0 on every accepting path"
				}
			}
			return "", "history[0] needs HistoryLength >= 1, which parameter validation does not establish on every accepting path: an accepted configuration makes the first cached message panic the event loop"
		}
		return "", "constant index " + iv.Name + " without a length test of the operand"
	}
	same := func(v *V) bool { return v.Equal(iv) }
	lt := AtomCmp("idx < len(x)", same, "<", lenOfX)
	if ok, _ := p.DomAny(f, x, AtomWant{lt, true}); ok {
		return "tested", "dominated by idx < len(x)"
	}
	_ = token.ADD
	return "", "index " + iv.String() + " is not related to len(" + xv.String() + ")"
}

// R12.9 nil-map stores: the scorer drops a delivery record's peer set (`drec.peers = nil`) once the record's status
// is final (invalid, ignored, throttled); a store into that map panics (assignment to entry in nil map) on the event
// loop or a validation worker. Every element store into deliveryRecord.peers is reached only where the status is
// known to be unknown or valid — behind the status test, or inside the matching case of a switch on the status.
func checkDeliveryPeersStores(c *RuleCtx) {
	p := c.P
	// premise: the set is dropped somewhere, and only next to a final status
	nNil := 0
	for _, s := range p.StoresTo("deliveryRecord.peers") {
		if s.Kind == "assign" && s.RHS != nil && isNilV(p.R(s.Fn).Val(s.RHS)) {
			nNil++
		}
	}
	if nNil == 0 {
		c.OK("R12.9", "deliveryRecord.peers", "element stores only while the peer set exists", nil, "the peer set is never dropped")
		return
	}
	live := []string{"deliveryUnknown", "deliveryValid"}
	isStatus := func(v *V) bool { return v.IsField("deliveryRecord.status") }
	n := 0
	for _, s := range p.StoresTo("deliveryRecord.peers") {
		if s.Kind != "elem-assign" {
			continue
		}
		n++
		f := s.Fn
		ok, why := false, ""
		// (a) dominated by an edge that pins the status to a live value
		var lits []AtomWant
		for _, l := range live {
			lits = append(lits, AtomWant{AtomCmp("status == "+l, isStatus, "==", func(v *V) bool { return v.IsConst(l) }), true})
		}
		if okd, w := p.DomAny(f, s.Node, lits...); okd {
			ok, why = true, w
		}
		// (b) inside a case clause of a switch on the status whose constants are all live
		if !ok {
			for x := p.parents[s.Node]; x != nil && !ok; x = p.parents[x] {
				cc, isCC := x.(*ast.CaseClause)
				if !isCC || len(cc.List) == 0 {
					continue
				}
				sw, isSw := p.parents[p.parents[cc]].(*ast.SwitchStmt)
				if !isSw || sw.Tag == nil || !isStatus(p.R(f).Val(sw.Tag)) {
					continue
				}
				all := true
				for _, e := range cc.List {
					if !p.R(f).Val(e).IsConst(live...) {
						all = false
					}
				}
				if all {
					ok, why = true, "inside `case "+p.Src(cc.List[0])+"` of the switch on the status"
				}
			}
		}
		// (c) after the status was set to valid on every path (the record was unknown a moment ago)
		if !ok {
			g := p.Graph(f)
			if pt, located := g.Locate(s.Node); located && g.DominatedByNode(pt, func(nd ast.Node) bool {
				for _, st := range p.StoresTo2(f, "deliveryRecord.status") {
					if contains(nd, st.Node) && st.RHS != nil && p.R(f).Val(st.RHS).IsConst("deliveryValid") {
						return true
					}
				}
				return false
			}) {
				// the store of deliveryValid itself must be behind the unknown test
				ok, why = true, "after status = deliveryValid"
				for _, st := range p.StoresTo2(f, "deliveryRecord.status") {
					if st.RHS != nil && p.R(f).Val(st.RHS).IsConst("deliveryValid") {
						if okd, _ := p.DomAny(f, st.Node, lits[0]); !okd {
							ok = false
						}
					}
				}
			}
		}
		if why == "" {
			why = "no status test in front of the store"
		}
		c.Check(ok, "R12.9", f.Root().Name, "peer set written only while it exists", s.Node, why, "drec.peers is set to nil once a record's status is final, and this store into it is not behind a test that the status is still unknown or valid: handling a (replayed) message whose record is already final panics with `assignment to entry in nil map`: "+why)
	}
	if n < 3 {
		c.Undecided("R12.9", "deliveryRecord.peers", "element stores", nil, "fewer element stores than known: "+itoa(n))
	}
	c.Min["R12.9"] = 3
}
