package main

// Clause entailment on CFG edges.
//
// Every guard the rules ask for is a clause: a disjunction of (atom, polarity) literals
// ("signature absent OR signature verified", "not (full AND non-blocking)", a single literal).
// An edge establishes the clause when the boolean formula known on that edge — the branch
// condition or its negation, with boolean locals unfolded to their unique reaching definition —
// entails the clause. Entailment is decided by a truth table over the leaves of the condition
// (at most maxFreeLeaves free leaves; more => "does not entail", the conservative answer).
// This makes the rules indifferent to De Morgan rewrites, merged/split nested ifs, guard clauses
// and named sub-conditions.

import (
	"fmt"
	"go/ast"
	"go/token"
	"go/types"
	"golang.org/x/tools/go/cfg"
	"os"
)

const maxFreeLeaves = 10

type bform struct {
	expr ast.Expr // expression of this node (compound nodes too), nil when unknown
	// side constraints (root only): a multiply-assigned boolean local x is a free leaf with
	// x => (one of its definitions' right-hand sides is true) and !x => (one of them is false)
	side []*bform
	op   string // and | or | not | leaf
	kids []*bform
	leaf ast.Expr // AST expression of the leaf (in g.F or an enclosing function)
	key  string   // canonical key of the leaf (normalised comparison), sense folded into neg
	neg  bool     // leaf appears negated relative to key
}

// formulaOf builds the boolean structure of condition e from its canonical value tree, so that
// a boolean local defined once (needsValidation := a || b) is unfolded.
func (g *Graph) formulaOf(e ast.Expr) *bform {
	v := g.P.R(g.F).Val(e)
	var sides []*bform
	g.sideAcc = &sides
	f := g.formOfV(v, e, 0)
	g.sideAcc = nil
	if len(sides) == 0 {
		return f
	}
	// the side constraints mention leaves of f: keep them on a separate root node (no cycle)
	return &bform{op: "root", expr: f.expr, kids: []*bform{f}, side: sides}
}

// flagDefs: the boolean local v (not resolvable to one definition) with all of its definitions being plain
// assignments of boolean expressions (or the zero value): returns the formulas of the right-hand sides.
func (g *Graph) flagDefs(v *V, depth int) ([]*bform, bool) {
	if v == nil || v.Kind != "var" || v.Obj == nil || depth > 3 {
		return nil, false
	}
	tv, ok := v.Obj.(*types.Var)
	if !ok || tv.IsField() {
		return nil, false
	}
	if b, ok := tv.Type().Underlying().(*types.Basic); !ok || b.Kind() != types.Bool {
		return nil, false
	}
	res := g.P.R(g.F)
	ds := res.Defs(v.Obj)
	if len(ds) < 2 || len(ds) > 4 {
		return nil, false
	}
	var out []*bform
	for _, d := range ds {
		switch {
		case d.kind == "zero":
			out = append(out, &bform{op: "const", key: "false"})
		case d.kind == "assign" && d.rhs != nil && d.idx < 0:
			if g.flagActive[d.node] {
				return nil, false
			}
			if g.flagActive == nil {
				g.flagActive = map[ast.Node]bool{}
			}
			g.flagActive[d.node] = true
			if tvv, ok := g.F.Info().Types[d.rhs]; ok && tvv.Value != nil {
				out = append(out, &bform{op: "const", key: tvv.Value.ExactString()})
			} else {
				out = append(out, g.formOfV(res.Val(d.rhs), d.rhs, depth+1))
			}
			delete(g.flagActive, d.node)
		default:
			return nil, false
		}
	}
	return out, true
}

func (g *Graph) formOfV(v *V, fallback ast.Expr, depth int) *bform {
	if v == nil || depth > 12 {
		return g.leafForm(fallback, v)
	}
	switch {
	case v.Kind == "unop" && v.Name == "!" && len(v.Args) == 1:
		return &bform{op: "not", expr: exprOf(v), kids: []*bform{g.formOfV(v.Args[0], exprOf(v.Args[0]), depth+1)}}
	case v.Kind == "op" && (v.Name == "&&" || v.Name == "||") && len(v.Args) == 2:
		op := "and"
		if v.Name == "||" {
			op = "or"
		}
		return &bform{op: op, expr: exprOf(v), kids: []*bform{g.formOfV(v.Args[0], exprOf(v.Args[0]), depth+1), g.formOfV(v.Args[1], exprOf(v.Args[1]), depth+1)}}
	}
	le := exprOf(v)
	if le == nil {
		le = fallback
	}
	leaf := g.leafForm(le, v)
	if g.sideAcc != nil && depth < 8 {
		if defs, ok := g.flagDefs(v, depth); ok {
			// x => OR(defs), !x => OR(!defs)
			pos := &bform{op: "or?", kids: defs}
			var negs []*bform
			for _, d := range defs {
				negs = append(negs, &bform{op: "not", kids: []*bform{d}})
			}
			neg := &bform{op: "or?", kids: negs}
			*g.sideAcc = append(*g.sideAcc,
				&bform{op: "or?", kids: []*bform{{op: "not", kids: []*bform{leaf}}, pos}},
				&bform{op: "or?", kids: []*bform{leaf, neg}})
		}
	}
	return leaf
}

func exprOf(v *V) ast.Expr {
	if v == nil || v.Node == nil {
		return nil
	}
	e, _ := v.Node.(ast.Expr)
	return e
}

// leafForm canonicalises a leaf: comparisons are keyed operator-normalised so that a<b, b>a,
// !(a>=b) are the same leaf (with polarity).
func (g *Graph) leafForm(e ast.Expr, v *V) *bform {
	f := &bform{op: "leaf", leaf: e}
	if v == nil {
		if e != nil {
			v = g.P.R(g.F).Val(e)
		}
	}
	if v == nil {
		f.key = "?"
		return f
	}
	if v.Kind == "op" && len(v.Args) == 2 && negOp(v.Name) != "" {
		l, r := stripConv(v.Args[0]).String(), stripConv(v.Args[1]).String()
		op := v.Name
		// normalise to one of: "<", "<=" (ordered operands as written after flipping > and >=), "=="
		switch op {
		case ">":
			l, r, op = r, l, "<"
		case ">=":
			l, r, op = r, l, "<="
		}
		switch op {
		case "!=":
			op, f.neg = "==", true
		}
		if op == "==" && r < l {
			l, r = r, l
		}
		// a <= b  ==  !(b < a)
		if op == "<=" {
			l, r, op = r, l, "<"
			f.neg = !f.neg
		}
		f.key = "(" + l + " " + op + " " + r + ")"
		return f
	}
	f.key = v.String()
	return f
}

func (f *bform) leaves(out *[]*bform) {
	if f.op == "leaf" {
		*out = append(*out, f)
	}
	for _, k := range f.kids {
		k.leaves(out)
	}
	for _, s := range f.side {
		s.leaves(out)
	}
}

func (f *bform) eval(val func(l *bform) bool) bool {
	switch f.op {
	case "root":
		return f.kids[0].eval(val)
	case "leaf":
		return val(f)
	case "not":
		return !f.kids[0].eval(val)
	case "and":
		return f.kids[0].eval(val) && f.kids[1].eval(val)
	case "or":
		return f.kids[0].eval(val) || f.kids[1].eval(val)
	case "or?": // n-ary disjunction (side constraints)
		for _, k := range f.kids {
			if k.eval(val) {
				return true
			}
		}
		return false
	case "const":
		return f.key == "true"
	}
	return false
}

// sidesHold evaluates the side constraints attached to the root.
func (f *bform) sidesHold(val func(l *bform) bool) bool {
	for _, s := range f.side {
		if !s.eval(val) {
			return false
		}
	}
	return true
}

// condForm returns (cached) the formula of the branch condition of block b, or nil.
func (g *Graph) condForm(b *cfg.Block) *bform {
	c := g.condOf[b]
	if c == nil {
		return nil
	}
	if g.formOf == nil {
		g.formOf = map[*cfg.Block]*bform{}
	}
	if f, ok := g.formOf[b]; ok {
		return f
	}
	f := g.formulaOf(c)
	g.formOf[b] = f
	return f
}

// matchLeaf matches a leaf against an atom; sense: leaf-expression true means atom true.
func (g *Graph) matchLeaf(a Atom, l *bform) (bool, bool) {
	if l.leaf == nil {
		return false, false
	}
	return matchN(g, a, l.leaf)
}

// edgeEntails reports whether taking edge e establishes the clause lits[0] v lits[1] v ...
func (g *Graph) edgeEntails(e Edge, lits []AtomWant) bool {
	f := g.condForm(e.From)
	if f == nil {
		return false
	}
	return g.formEntails(f, e.Succ == 0, lits, e)
}

// ExprEntails: the boolean expression e having value truth establishes the clause (boolean locals unfolded,
// multiply-assigned flags constrained by their definitions) — used for `return <expr>` of predicates.
func (g *Graph) ExprEntails(e ast.Expr, truth bool, lits ...AtomWant) bool {
	return g.formEntails(g.formulaOf(e), truth, lits, Edge{})
}

func (g *Graph) formEntails(f *bform, onTrue bool, lits []AtomWant, e Edge) bool {
	var ls []*bform
	f.leaves(&ls)
	if os.Getenv("PSCHECK_DEBUG_ENTAIL") != "" {
		fmt.Fprintf(os.Stderr, "entail %s: %d leaves, %d sides\n", g.F.Name, len(ls), len(f.side))
		for _, l := range ls {
			fmt.Fprintf(os.Stderr, "   leaf key=%s neg=%v\n", l.key, l.neg)
		}
	}
	// fixed leaves: those matching a clause atom get the value that falsifies the literal
	fixed := map[*bform]bool{}
	isFixed := map[*bform]bool{}
	anyMatch := false
	for _, l := range ls {
		decided, conflict := false, false
		var val bool
		for _, lit := range lits {
			ok, sense := g.matchLeaf(lit.A, l)
			if !ok {
				continue
			}
			// atom must be !Want to falsify the literal; leaf expression value = (atomValue == sense)
			v := (!lit.Want) == sense
			if decided && v != val {
				conflict = true
			}
			decided, val = true, v
		}
		if decided && !conflict {
			fixed[l], isFixed[l] = val, true
			anyMatch = true
		}
	}
	if !anyMatch {
		return false
	}
	// free leaves grouped by canonical key
	keyIdx := map[string]int{}
	for _, l := range ls {
		if isFixed[l] {
			continue
		}
		if _, ok := keyIdx[l.key]; !ok {
			keyIdx[l.key] = len(keyIdx)
		}
	}
	n := len(keyIdx)
	if n > maxFreeLeaves {
		return false
	}
	// a fixed leaf also fixes free leaves with the same canonical key
	fixedKey := map[string]bool{}
	hasFixedKey := map[string]bool{}
	for _, l := range ls {
		if isFixed[l] {
			// value of the key = leaf value xor neg
			fixedKey[l.key] = fixed[l] != l.neg
			hasFixedKey[l.key] = true
		}
	}
	for m := 0; m < 1<<uint(n); m++ {
		val := func(l *bform) bool {
			if isFixed[l] {
				return fixed[l]
			}
			if hasFixedKey[l.key] {
				return fixedKey[l.key] != l.neg
			}
			kv := m&(1<<uint(keyIdx[l.key])) != 0
			return kv != l.neg
		}
		if f.eval(val) == onTrue && f.sidesHold(val) {
			return false // the edge can be taken with every literal of the clause false
		}
	}
	return true
}

// EdgesEntailing returns the edges that establish the clause.
func (g *Graph) EdgesEntailing(lits ...AtomWant) []Edge {
	var out []Edge
	for _, b := range g.C.Blocks {
		if !b.Live || g.condOf[b] == nil {
			continue
		}
		for s := 0; s < 2; s++ {
			e := Edge{b, s}
			if g.edgeEntails(e, lits) {
				out = append(out, e)
			}
		}
	}
	return out
}

// CutAny returns, as a cut set, every edge that establishes the clause lits[0] v lits[1] v ... —
// an edge establishing one literal, or an edge whose condition entails the disjunction as a whole
// (the true edge of `t == nil || t.tracer == nil`).
func (g *Graph) CutAny(lits ...AtomWant) cutSet {
	cs := cutSet{}
	for _, l := range lits {
		for _, e := range g.AtomEdges(l.A, l.Want) {
			cs[e] = true
		}
	}
	if len(lits) > 1 {
		for _, e := range g.EdgesEntailing(lits...) {
			cs[e] = true
		}
	}
	return cs
}

// ConjEdges returns the frontier edges of the region in which all literals hold: edges that establish
// at least one of the literals while every other literal is established by the same edge or already
// holds at the edge's source (every path to the source takes an edge establishing it). The true edge
// of `a && b`, and the inner true edge of `if a { if b {` alike.
func (g *Graph) ConjEdges(lits ...AtomWant) []Edge {
	var out []Edge
	est := make([][]Edge, len(lits))
	for i, l := range lits {
		est[i] = g.AtomEdges(l.A, l.Want)
	}
	has := func(es []Edge, e Edge) bool {
		for _, x := range es {
			if x == e {
				return true
			}
		}
		return false
	}
	for _, b := range g.C.Blocks {
		if !b.Live || g.condOf[b] == nil {
			continue
		}
		for s := 0; s < 2; s++ {
			e := Edge{b, s}
			self, all := false, true
			for i := range lits {
				if has(est[i], e) {
					self = true
					continue
				}
				if len(est[i]) == 0 || !g.Dominated(Point{b, len(b.Nodes)}, est[i]) {
					all = false
					break
				}
			}
			if self && all {
				out = append(out, e)
			}
		}
	}
	return out
}

var _ = token.NOT
