package main

import (
	"go/ast"
	"go/types"
	"strings"
	"unicode"
)

func init() {
	register(&Property{ID: "C19", Run: runC19,
		Explain: "Trace faithfulness decided as tables, sibling agreement and pairing: (R19.1) every pubsubTracer method that builds a TraceEvent sets Type to the enum constant matching its own name and sets exactly the payload field of the same name (table derived from the source on every run), stamps the local peer ID, reaches tracer.Trace on every path with a tracer attached, fills Join/Leave/Graft/Prune/stream payloads from its own parameters, and forwards to the same-named method of every raw tracer (loops without early exit); (R19.2) every implementation of PubSubRouter in the module traces Join as Join and Leave as Leave (never the opposite), and outbound-stream events under their own names; gossipsub traces JOIN only on the not-yet-joined edge and LEAVE only on the joined edge, and (shared R05.1/R05.2) the routers' Join/Leave are called exactly when the first local interest appears / the last one goes away (alternation); (R19.3) every mesh insert is paired with tracer.Graft and every mesh delete with tracer.Prune for the same peer and topic, the one exception being OnClosedOutboundStream, which is paired with the closed-stream event; (R19.4) at every rpcQueue push the error edge reaches DropRPC (and never SendRPC) and the success edge reaches SendRPC (and never DropRPC), with the pushed RPC as operand; (R19.5) DELIVER_MESSAGE is emitted only by publishMessage(+Batch), once per message on every path, and PUBLISH_MESSAGE only and always by ValidateLocal; (R19.6) the file/remote tracer buffer and closed flag are accessed under their mutex. (R19.3 converse) a PRUNE event is emitted only for a peer that was a mesh member. The R07.4 row 'Join drops the fanout entry it turns into the mesh' is re-evaluated here (an aliased map is edited without trace events); R19.1 recognises a constructor helper that takes the event type as a parameter. NOT decided: lossy remote tracer, file encodings, ordering between events of different goroutines.",
		Assume:  []string{"generated enum names follow protoc-gen-gogo conventions (UPPER_SNAKE of the message name)"},
		Mutants: []Mutant{
			{Name: "randomsub-leave-traces-join", File: "randomsub.go", Old: "func (rs *RandomSubRouter) Leave(topic string) {\n\trs.tracer.Leave(topic)", New: "func (rs *RandomSubRouter) Leave(topic string) {\n\trs.tracer.Join(topic)", Expect: "R19.2"},
			{Name: "prune-event-typed-graft", File: "trace.go", Old: "\t\tType:      pb.TraceEvent_PRUNE.Enum(),", New: "\t\tType:      pb.TraceEvent_GRAFT.Enum(),", Expect: "R19.1"},
			{Name: "graft-event-wrong-peer", File: "trace.go", Old: "\t\tGraft: &pb.TraceEvent_Graft{\n\t\t\tPeerID: []byte(p),", New: "\t\tGraft: &pb.TraceEvent_Graft{\n\t\t\tPeerID: []byte(t.pid),", Expect: "R19.1"},
			{Name: "deliver-raw-break", File: "trace.go", Old: "\t\tfor _, tr := range t.raw {\n\t\t\ttr.DeliverMessage(msg)\n\t\t}", New: "\t\tfor _, tr := range t.raw {\n\t\t\ttr.DeliverMessage(msg)\n\t\t\tbreak\n\t\t}", Expect: "R19.1"},
			{Name: "send-event-not-traced-when-raw", File: "trace.go", Old: "\tfor _, tr := range t.raw {\n\t\ttr.SendRPC(rpc, p)\n\t}\n\n\tif t.tracer == nil {\n\t\treturn\n\t}", New: "\tfor _, tr := range t.raw {\n\t\ttr.SendRPC(rpc, p)\n\t}\n\n\tif t.tracer == nil || len(t.raw) > 3 {\n\t\treturn\n\t}", Expect: "R19.1"},
			{Name: "gossipsub-join-traced-before-check", File: "gossipsub.go", Old: "\tgmap, ok := gs.mesh[topic]\n\tif ok {\n\t\treturn\n\t}\n\n\tgs.logger.Debug(\"JOIN topic\", \"topic\", topic)\n\tgs.tracer.Join(topic)\n", New: "\tgs.tracer.Join(topic)\n\tgmap, ok := gs.mesh[topic]\n\tif ok {\n\t\treturn\n\t}\n\n\tgs.logger.Debug(\"JOIN topic\", \"topic\", topic)\n", Expect: "R19.2"},
			{Name: "handleprune-no-trace-when-absent", File: "gossipsub.go", Old: "\t\t\tgs.tracer.Prune(p, topic)\n\t\t\tdelete(peers, p)\n\t\t}\n\t\t// is there a backoff specified by the peer? if so obey it.", New: "\t\t\tif len(peers) > 1 {\n\t\t\t\tgs.tracer.Prune(p, topic)\n\t\t\t}\n\t\t\tdelete(peers, p)\n\t\t}\n\t\t// is there a backoff specified by the peer? if so obey it.", Expect: "R19.3"},
			{Name: "handleprune-reports-nonmember", File: "gossipsub.go", Old: "\t\tif _, inMesh := peers[p]; inMesh {\n\t\t\tgs.logger.Debug(\"PRUNE: Remove mesh link to peer in topic\", \"peer\", p, \"topic\", topic)", New: "\t\tif _, inMesh := peers[p]; inMesh || len(peers) > 0 {\n\t\t\tgs.logger.Debug(\"PRUNE: Remove mesh link to peer in topic\", \"peer\", p, \"topic\", topic)", Expect: "R19.3"},
			{Name: "handlegraft-trace-other-topic", File: "gossipsub.go", Old: "\t\tgs.tracer.Graft(p, topic)\n\t\tpeers[p] = struct{}{}\n\t}\n\n\tif len(prune) == 0 {", New: "\t\tgs.tracer.Graft(p, graft.GetTopicID()+\"\")\n\t\tpeers[p] = struct{}{}\n\t}\n\n\tif len(prune) == 0 {", Expect: "R19.3"},
			{Name: "floodsub-drop-traced-as-send", File: "floodsub.go", Old: "\t\t\tfs.tracer.DropRPC(out, pid)\n", New: "\t\t\tfs.tracer.SendRPC(out, pid)\n", Expect: "R19.4"},
			{Name: "announce-send-not-traced", File: "pubsub.go", Old: "\t\t\tgo p.announceRetry(pid, topic, sub)\n\t\t\tcontinue\n\t\t}\n\t\tp.tracer.SendRPC(out, pid)\n", New: "\t\t\tgo p.announceRetry(pid, topic, sub)\n\t\t\tcontinue\n\t\t}\n", Expect: "R19.4"},
			{Name: "gossipsub-send-traces-other-rpc", File: "gossipsub.go", Old: "\tgs.tracer.SendRPC(rpc, p)\n}", New: "\tgs.tracer.SendRPC(copyRPC(rpc), p)\n}", Expect: "R19.4"},
			{Name: "batch-deliver-traced-once", File: "pubsub.go", Old: "\tfor _, msg := range batchAndOpts.messages {\n\t\tp.tracer.DeliverMessage(msg)\n\t\tp.notifySubs(msg)\n\t}", New: "\tfor i, msg := range batchAndOpts.messages {\n\t\tif i == 0 {\n\t\t\tp.tracer.DeliverMessage(msg)\n\t\t}\n\t\tp.notifySubs(msg)\n\t}", Expect: "R19.5"},
			{Name: "tracer-buf-unlocked-swap", File: "tracer.go", Old: "\t\tt.mx.Lock()\n\t\ttmp := t.buf\n\t\tt.buf = buf[:0]\n\t\tbuf = tmp\n\t\tt.mx.Unlock()\n\n\t\tfor i, evt := range buf {\n\t\t\terr := enc.Encode(evt)", New: "\t\ttmp := t.buf\n\t\tt.buf = buf[:0]\n\t\tbuf = tmp\n\n\t\tfor i, evt := range buf {\n\t\t\terr := enc.Encode(evt)", Expect: "R19.6"},
		}})
}

func upperSnake(s string) string {
	rs := []rune(s)
	var b strings.Builder
	for i, r := range rs {
		if i > 0 && unicode.IsUpper(r) {
			prevLower := unicode.IsLower(rs[i-1])
			nextLower := i+1 < len(rs) && unicode.IsLower(rs[i+1])
			if prevLower || (unicode.IsUpper(rs[i-1]) && nextLower) {
				b.WriteByte('_')
			}
		}
		b.WriteRune(unicode.ToUpper(r))
	}
	return b.String()
}

func runC19(c *RuleCtx) {
	p := c.P
	// ---------- R19.1 table
	nEvt := 0
	// generic constructors: a helper that builds the common part of an event and takes the event type as a parameter
	// (`t.newEvent(pb.TraceEvent_GRAFT)`) is not an event method itself; its callers are, with the constant they pass
	type ctorInfo struct {
		typIdx int
		pidOK  bool
	}
	ctors := map[string]ctorInfo{}
	for _, f := range p.All {
		if f.Parent != nil || f.Obj == nil || !strings.HasPrefix(f.Name, "(*pubsubTracer).") || f.Body == nil {
			continue
		}
		inspectNoLit(f.Body, func(n ast.Node) bool {
			cl, ok := n.(*ast.CompositeLit)
			if !ok {
				return true
			}
			if t := f.Info().TypeOf(cl); t == nil || typeString(t, modPath) != "pb.TraceEvent" {
				return true
			}
			info := ctorInfo{typIdx: -1}
			for _, el := range cl.Elts {
				kv, ok := el.(*ast.KeyValueExpr)
				if !ok {
					continue
				}
				switch kv.Key.(*ast.Ident).Name {
				case "Type":
					v := p.R(f).Val(kv.Value)
					for i := 0; paramObj(f, i) != nil; i++ {
						if v.Has(isParam(f, i)) {
							info.typIdx = i
						}
					}
				case "PeerID":
					info.pidOK = stripConv(p.R(f).Val(kv.Value)).IsField("pubsubTracer.pid")
				}
			}
			if info.typIdx >= 0 {
				ctors[f.Name] = info
			}
			return true
		})
	}
	for _, f := range p.All {
		if f.Parent != nil || f.Obj == nil || !strings.HasPrefix(f.Name, "(*pubsubTracer).") {
			continue
		}
		if _, isCtor := ctors[f.Name]; isCtor {
			continue
		}
		meth := f.Obj.Name()
		// the TraceEvent literal
		var lit *ast.CompositeLit
		inspectNoLit(f.Body, func(n ast.Node) bool {
			if cl, ok := n.(*ast.CompositeLit); ok && lit == nil {
				if t := f.Info().TypeOf(cl); t != nil && typeString(t, modPath) == "pb.TraceEvent" {
					lit = cl
				}
			}
			return true
		})
		// forwarding to raw tracers
		for _, r := range p.RangesOver(f, isFieldOf("pubsubTracer.raw")) {
			ok, why := p.LoopBodyMust(f, r, nil, p.callPred(f, "RawTracer."+meth))
			c.Check(ok, "R19.1", f.Name, "forwards to the same-named method of every raw tracer", r, why, "raw tracers do not all receive "+meth+": "+why)
			// no other RawTracer method is called
			for _, cs := range p.FuncCalls(f, false) {
				if strings.HasPrefix(cs.Name, "RawTracer.") && cs.Name != "RawTracer."+meth {
					c.Bad("R19.1", f.Name, "forwards under its own name", cs.Call, meth+" forwards to "+cs.Name)
				}
			}
		}
		var ctorCall *ast.CallExpr
		var ctor ctorInfo
		if lit == nil {
			for _, cs := range p.FuncCalls(f, false) {
				if ci, ok := ctors[cs.Name]; ok {
					ctorCall, ctor = cs.Call, ci
				}
			}
			if ctorCall == nil {
				continue
			}
		}
		nEvt++
		typ, payload := "", []string{}
		var payloadLit *ast.CompositeLit
		pidOK := false
		var site ast.Node
		if lit != nil {
			site = lit
		} else {
			site = ctorCall
			// call args: receiver is not in Args; typIdx counts declared parameters
			if ctor.typIdx < len(ctorCall.Args) {
				typ = strings.TrimPrefix(p.R(f).Val(ctorCall.Args[ctor.typIdx]).Name, "pb.TraceEvent_")
			}
			pidOK = ctor.pidOK
			lit = &ast.CompositeLit{}
		}
		// payload fields assigned after construction (evt.Graft = &pb.TraceEvent_Graft{...})
		for _, st := range p.AllStores() {
			if st.Fn.Root() == f && strings.HasPrefix(st.Field, "pb.TraceEvent.") && st.Kind == "assign" {
				k := strings.TrimPrefix(st.Field, "pb.TraceEvent.")
				if k != "Type" && k != "PeerID" && k != "Timestamp" {
					payload = append(payload, k)
					if st.RHS != nil {
						payloadLit = compositeOf(st.RHS)
					}
				}
			}
		}
		for _, el := range lit.Elts {
			kv, ok := el.(*ast.KeyValueExpr)
			if !ok {
				continue
			}
			k := kv.Key.(*ast.Ident).Name
			switch k {
			case "Type":
				v := p.R(f).Val(kv.Value)
				if v.Kind == "call" && strings.HasSuffix(v.Name, "TraceEvent_Type.Enum") && len(v.Args) == 1 {
					typ = strings.TrimPrefix(v.Args[0].Name, "pb.TraceEvent_")
				}
			case "PeerID":
				pidOK = stripConv(p.R(f).Val(kv.Value)).IsField("pubsubTracer.pid")
			case "Timestamp":
			default:
				payload = append(payload, k)
				payloadLit = compositeOf(kv.Value)
			}
		}
		c.Check(typ == upperSnake(meth), "R19.1", f.Name, "event type matches the method", site, "Type="+typ, "method "+meth+" emits an event of type "+typ+" (expected "+upperSnake(meth)+")")
		c.Check(len(payload) == 1 && payload[0] == meth, "R19.1", f.Name, "payload field matches the method", site, strings.Join(payload, ","), "method "+meth+" fills payload field(s) "+strings.Join(payload, ",")+" (expected "+meth+")")
		c.Check(pidOK, "R19.1", f.Name, "event stamped with the local peer ID", site, "PeerID=t.pid", "the event's PeerID is not the local peer")
		// Trace reached whenever a tracer is attached
		g := p.Graph(f)
		var recvObj types.Object
		if f.Decl != nil && f.Decl.Recv != nil && len(f.Decl.Recv.List) == 1 && len(f.Decl.Recv.List[0].Names) == 1 {
			recvObj = f.Info().Defs[f.Decl.Recv.List[0].Names[0]]
		}
		tNil := AtomNil("t == nil", func(v *V) bool { return v.Kind == "var" && recvObj != nil && v.Obj == recvObj })
		trNil := AtomNil("t.tracer == nil", isFieldOf("pubsubTracer.tracer"))
		ok, _ := g.MustPass(g.Entry(), PassOpts{Cut: g.CutAny(AtomWant{tNil, true}, AtomWant{trNil, true})}, p.callPred(f, "EventTracer.Trace"))
		c.Check(ok, "R19.1", f.Name, "event handed to the tracer on every path", site, "every path with a tracer attached calls Trace", "a path with a tracer attached returns without tracing the event")
		for _, cs := range p.Sites(f, false, "EventTracer.Trace") {
			v := p.R(f).Val(cs.Call.Args[0])
			_, fromCtor := ctors[v.Name]
			c.Check((v.Kind == "comp" && v.Name == "pb.TraceEvent") || (v.Kind == "call" && fromCtor), "R19.1", f.Name, "traces the event it built", cs.Call, "evt", "traces "+v.String())
		}
		// payload operands for the state-rebuilding events
		if payloadLit != nil && inSet(meth, "Join", "Leave", "Graft", "Prune", "OnNewOutboundStream", "OnClosedOutboundStream", "SendRPC", "DropRPC") {
			for _, el := range payloadLit.Elts {
				kv, ok := el.(*ast.KeyValueExpr)
				if !ok {
					continue
				}
				k := kv.Key.(*ast.Ident).Name
				v := stripConv(p.R(f).Val(kv.Value))
				want := map[string]string{"Topic": "topic", "PeerID": "p", "SendTo": "p"}[k]
				if want == "" {
					continue
				}
				isParam := v.Kind == "var" && v.Name == want
				c.Check(isParam, "R19.1", f.Name, "payload "+k+" is the method's own operand", kv, v.String(), "payload field "+k+" of "+meth+" is "+v.String()+", not the parameter "+want)
			}
		}
	}
	if nEvt < 13 {
		c.Undecided("R19.1", "pubsubTracer", "event constructors", nil, "fewer event-building methods than known (13)")
	}
	// R19.3 (converse) a PRUNE event stands for a mesh removal
	checkPruneOnlyMembers(c, "R19.3")
	// ---------- R19.2 sibling agreement over router implementations
	var rtIface *types.Interface
	if o := p.Main.Types.Scope().Lookup("PubSubRouter"); o != nil {
		rtIface, _ = o.Type().Underlying().(*types.Interface)
	}
	nImpl := 0
	if rtIface == nil {
		c.Undecided("R19.2", "PubSubRouter", "interface", nil, "PubSubRouter not found")
	} else {
		sc := p.Main.Types.Scope()
		for _, nm := range sc.Names() {
			tn, ok := sc.Lookup(nm).(*types.TypeName)
			if !ok {
				continue
			}
			if _, isIface := tn.Type().Underlying().(*types.Interface); isIface {
				continue
			}
			if !types.Implements(types.NewPointer(tn.Type()), rtIface) {
				continue
			}
			nImpl++
			for _, pair := range [][2]string{{"Join", "Leave"}, {"Leave", "Join"}, {"OnNewOutboundStream", "OnClosedOutboundStream"}, {"OnClosedOutboundStream", "OnNewOutboundStream"}} {
				f := c.MustFn("R19.2", "(*"+nm+")."+pair[0])
				if f == nil {
					continue
				}
				own := len(p.Sites(f, true, "(*pubsubTracer)."+pair[0]))
				other := len(p.Sites(f, true, "(*pubsubTracer)."+pair[1]))
				c.Check(own >= 1 && other == 0, "R19.2", f.Name, "traces "+pair[0]+" (and never "+pair[1]+")", f.Decl, "calls tracer."+pair[0], "router method "+pair[0]+" traces own="+itoa(own)+" opposite="+itoa(other)+": the trace would not match the actual "+pair[0])
			}
		}
		if nImpl < 3 {
			c.Undecided("R19.2", "PubSubRouter", "implementations", nil, "fewer router implementations than known")
		}
	}
	joined := lookupIn("topic in gs.mesh", isFieldOf(gsField("mesh")))
	if f := c.MustFn("R19.2", "(*GossipSubRouter).Join"); f != nil {
		for _, cs := range p.Sites(f, false, "(*pubsubTracer).Join") {
			ok, why := p.DomAny(f, cs.Call, AtomWant{joined, false})
			c.Check(ok, "R19.2", f.Name, "JOIN traced only when not yet joined", cs.Call, why, "a JOIN can be traced for an already joined topic (JOIN/LEAVE would not alternate): "+why)
			okA := p.R(f).Val(cs.Call.Args[0]).Kind == "var"
			c.Check(okA, "R19.2", f.Name, "JOIN traced for the joined topic", cs.Call, "param", "operand differs")
		}
		ok, _ := p.Graph(f).MustPass(p.Graph(f).Entry(), PassOpts{Cut: edgeCut(p.Graph(f).AtomEdges(joined, true))}, p.callPred(f, "(*pubsubTracer).Join"))
		c.Check(ok, "R19.2", f.Name, "every actual join is traced", f.Decl, "always on the not-joined path", "a join can happen without a JOIN event")
	}
	if f := c.MustFn("R19.2", "(*GossipSubRouter).Leave"); f != nil {
		for _, cs := range p.Sites(f, false, "(*pubsubTracer).Leave") {
			ok, why := p.DomAny(f, cs.Call, AtomWant{joined, true})
			c.Check(ok, "R19.2", f.Name, "LEAVE traced only when joined", cs.Call, why, why)
		}
		ok, _ := p.Graph(f).MustPass(p.Graph(f).Entry(), PassOpts{Cut: edgeCut(p.Graph(f).AtomEdges(joined, false))}, p.callPred(f, "(*pubsubTracer).Leave"))
		c.Check(ok, "R19.2", f.Name, "every actual leave is traced", f.Decl, "always on the joined path", "a leave can happen without a LEAVE event")
	}
	// ---------- R19.3 mesh change <-> GRAFT/PRUNE
	nPair := 0
	for _, f := range p.All {
		if p.IsGenerated(f.Body) || f.Pkg != p.Main {
			continue
		}
		root := f.Root().Name
		g := p.Graph(f)
		for _, mi := range p.mapInserts(f) {
			if !innerMapOf("mesh")(p.R(f).Val(mi.Map)) {
				continue
			}
			nPair++
			kv := p.R(f).Val(mi.Key)
			topicV := meshTopicOf(p, f, mi.Map)
			pt, _ := g.Locate(mi.Stmt)
			pred := func(n ast.Node) bool {
				for _, cs := range p.CallsIn(f, n, false) {
					if cs.Name == fnTrGraft && p.R(f).Val(cs.Call.Args[0]).Equal(kv) && (topicV == nil || p.R(f).Val(cs.Call.Args[1]).Equal(topicV)) {
						return true
					}
				}
				return false
			}
			okB := g.DominatedByNode(pt, func(n ast.Node) bool { return pred(n) && sameScope(p, n, mi.Stmt) })
			okA, _ := g.MustPass(pt.After(), PassOpts{Until: p.iterationUntil(f, mi.Stmt)}, pred)
			c.Check(okB || okA, "R19.3", root, "mesh insert paired with GRAFT event (same peer, same topic)", mi.Stmt, "tracer.Graft with the inserted peer and the mesh's topic on every path", "a peer can enter a mesh without a matching GRAFT trace event")
		}
		for _, d := range p.mapDeletes(f) {
			if !innerMapOf("mesh")(p.R(f).Val(d.Map)) {
				continue
			}
			nPair++
			kv := p.R(f).Val(d.Key)
			topicV := meshTopicOf(p, f, d.Map)
			pt, _ := g.Locate(d.Call)
			if root == "(*GossipSubRouter).OnClosedOutboundStream" {
				ok := p.DomCall(f, d.Call, "(*pubsubTracer).OnClosedOutboundStream")
				c.Check(ok, "R19.3", root, "departure removal paired with the closed-stream event", d.Call, "tracer.OnClosedOutboundStream dominates", "a departed peer is removed from the meshes without the closed-stream event the replay relies on")
				continue
			}
			pred := func(n ast.Node) bool {
				for _, cs := range p.CallsIn(f, n, false) {
					if cs.Name == fnTrPrune && p.R(f).Val(cs.Call.Args[0]).Equal(kv) && (topicV == nil || p.R(f).Val(cs.Call.Args[1]).Equal(topicV)) {
						return true
					}
				}
				return false
			}
			okB := g.DominatedByNode(pt, func(n ast.Node) bool { return pred(n) && sameScope(p, n, d.Call) })
			okA, _ := g.MustPass(pt.After(), PassOpts{Until: p.iterationUntil(f, d.Call)}, pred)
			c.Check(okB || okA, "R19.3", root, "mesh delete paired with PRUNE event (same peer, same topic)", d.Call, "tracer.Prune with the removed peer and the mesh's topic on every path", "a peer can leave a mesh without a matching PRUNE trace event")
		}
	}
	// Leave: whole mesh dropped, PRUNE traced per member (R07.3 covers sendPrune); Join promotion: GRAFT per member
	if f := c.MustFn("R19.3", "(*GossipSubRouter).Leave"); f != nil {
		for _, r := range p.RangesOver(f, innerMapOf("mesh")) {
			nPair++
			ok, why := p.LoopBodyMust(f, r, nil, p.callPred(f, fnTrPrune))
			c.Check(ok, "R19.3", f.Name, "PRUNE traced for every former member", r, why, why)
		}
	}
	if f := c.MustFn("R19.3", "(*GossipSubRouter).Join"); f != nil {
		for _, cs := range p.Sites(f, false, fnTrGraft) {
			for _, l := range p.EnclosingLoops(cs.Call) {
				nPair++
				ok, why := p.LoopBodyMust(f, l, nil, p.callPred(f, fnTrGraft))
				c.Check(ok, "R19.3", f.Name, "GRAFT traced for every member of the new mesh", l, why, why)
			}
		}
	}
	if nPair < 7 {
		c.Undecided("R19.3", "mesh writes", "pairing sites", nil, "fewer mesh insert/delete sites than known")
	}
	// ---------- R19.4 push sites
	pushSites := p.AllSites("(*rpcQueue).Push", "(*rpcQueue).UrgentPush")
	if len(pushSites) < 6 {
		c.Undecided("R19.4", "rpcQueue pushes", "sites", nil, "fewer push sites than known (6)")
	}
	type fnErr struct {
		f   *Func
		obj types.Object
	}
	done := map[fnErr]bool{}
	for _, cs := range pushSites {
		f := cs.Fn
		g := p.Graph(f)
		// the error variable
		var errObj types.Object
		if as, ok := p.parents[cs.Call].(*ast.AssignStmt); ok && len(as.Lhs) == 1 {
			if id, ok := as.Lhs[0].(*ast.Ident); ok {
				errObj = f.Info().Uses[id]
				if errObj == nil {
					errObj = f.Info().Defs[id]
				}
			}
		}
		if errObj == nil {
			c.Bad("R19.4", f.Root().Name, "push result checked", cs.Call, "the result of the push is not assigned to an error variable")
			continue
		}
		if done[fnErr{f, errObj}] {
			continue
		}
		done[fnErr{f, errObj}] = true
		rpcV := p.R(f).Val(cs.Call.Args[0])
		pushCall := ast.Node(cs.Call)
		failed := AtomCmp("push err != nil", func(v *V) bool {
			return v.Obj == errObj || v.IsCall("(*rpcQueue).Push", "(*rpcQueue).UrgentPush") || (v.Kind == "call" && v.Node == pushCall)
		}, "!=", isNilV)
		isTrace := func(kind string) func(ast.Node) bool {
			return func(n ast.Node) bool {
				for _, x := range p.CallsIn(f, n, false) {
					switch kind {
					case "drop":
						if (x.Name == "(*pubsubTracer).DropRPC" && p.R(f).Val(x.Call.Args[0]).Equal(rpcV)) || (x.Name == "(*GossipSubRouter).doDropRPC" && p.R(f).Val(x.Call.Args[0]).Equal(rpcV)) {
							return true
						}
					case "send":
						if x.Name == "(*pubsubTracer).SendRPC" && p.R(f).Val(x.Call.Args[0]).Equal(rpcV) {
							return true
						}
					case "anysend":
						if x.Name == "(*pubsubTracer).SendRPC" {
							return true
						}
					case "anydrop":
						if x.Name == "(*pubsubTracer).DropRPC" || x.Name == "(*GossipSubRouter).doDropRPC" {
							return true
						}
					}
				}
				return false
			}
		}
		te, fe := g.AtomEdges(failed, true), g.AtomEdges(failed, false)
		if len(te) == 0 || len(fe) == 0 {
			c.Bad("R19.4", f.Root().Name, "push result checked", cs.Call, "the push error is not tested")
			continue
		}
		until := p.iterationUntil(f, cs.Call)
		for _, e := range te {
			ok, _ := g.MustPass(EdgeTarget(e), PassOpts{Until: until}, isTrace("drop"))
			wrong := reachesBefore(g, EdgeTarget(e), until, isTrace("anysend"))
			c.Check(ok && !wrong, "R19.4", f.Root().Name, "refused push traced as DROP_RPC (same RPC), never SEND_RPC", cs.Call, "error edge reaches DropRPC only", "a refused push is not (only) traced as DROP_RPC of the pushed RPC")
		}
		for _, e := range fe {
			ok, _ := g.MustPass(EdgeTarget(e), PassOpts{Until: until}, isTrace("send"))
			wrong := reachesBefore(g, EdgeTarget(e), until, isTrace("anydrop"))
			c.Check(ok && !wrong, "R19.4", f.Root().Name, "accepted push traced as SEND_RPC (same RPC), never DROP_RPC", cs.Call, "success edge reaches SendRPC only", "an accepted push is not (only) traced as SEND_RPC of the pushed RPC")
		}
	}
	if f := c.MustFn("R19.4", "(*GossipSubRouter).doDropRPC"); f != nil {
		ok, why := p.MustCallFromEntry(f, "(*pubsubTracer).DropRPC")
		c.Check(ok, "R19.4", f.Name, "doDropRPC traces DROP_RPC", f.Decl, why, why)
	}
	// ---------- R19.5 deliver / publish events
	{
		callers := p.CallerNames("(*pubsubTracer).DeliverMessage")
		ok, extra := subset(callers, fnPublishMsg, fnPublishBatch)
		c.Check(ok && len(callers) > 0, "R19.5", "tracer.DeliverMessage", "emitted only by publishMessage(+Batch)", nil, strings.Join(callers, ","), "also from "+strings.Join(extra, ","))
		if f := c.MustFn("R19.5", fnPublishMsg); f != nil {
			ok, why := p.MustCallFromEntry(f, "(*pubsubTracer).DeliverMessage")
			c.Check(ok && len(p.Sites(f, true, "(*pubsubTracer).DeliverMessage")) == 1, "R19.5", f.Name, "exactly one DELIVER_MESSAGE per delivered message", f.Decl, why, "publishMessage does not trace exactly one DELIVER_MESSAGE on every path")
		}
		if f := c.MustFn("R19.5", fnPublishBatch); f != nil {
			found := false
			for _, r := range p.LoopsOver(f, func(v *V) bool { return v.IsField("messageBatchAndPublishOptions.messages") }) {
				if ok, _ := p.LoopBodyMust(f, r, nil, p.callPred(f, fnNotifySubs)); !ok {
					continue
				}
				found = true
				ok, why := p.LoopBodyMust(f, r, nil, p.callPred(f, "(*pubsubTracer).DeliverMessage"))
				c.Check(ok, "R19.5", f.Name, "DELIVER_MESSAGE for every delivered batch message", r, why, why)
			}
			c.Check(found, "R19.5", f.Name, "delivery loop", f.Decl, "found", "no delivery loop")
		}
		callers = p.CallerNames("(*pubsubTracer).PublishMessage")
		ok, extra = subset(callers, fnValidateLocal)
		c.Check(ok && len(callers) > 0, "R19.5", "tracer.PublishMessage", "emitted only by ValidateLocal", nil, strings.Join(callers, ","), "also from "+strings.Join(extra, ","))
		if f := c.MustFn("R19.5", fnValidateLocal); f != nil {
			ok, why := p.MustCallFromEntry(f, "(*pubsubTracer).PublishMessage")
			c.Check(ok && len(p.Sites(f, true, "(*pubsubTracer).PublishMessage")) == 1, "R19.5", f.Name, "exactly one PUBLISH_MESSAGE per local attempt", f.Decl, why, "ValidateLocal does not trace exactly one PUBLISH_MESSAGE on every path")
		}
	}
	// ---------- R19.6 tracer buffer under its mutex
	for _, fld := range []string{"basicTracer.buf", "basicTracer.closed"} {
		n := c.CheckGuardedField("R19.6", fld, "basicTracer.mx", func(a FieldAccess) string {
			if p.accessOnFreshObject(a) {
				return "constructor"
			}
			return ""
		})
		if n < 2 {
			c.Undecided("R19.6", fld, "accesses", nil, "fewer accesses than known")
		}
	}
	// JOIN/LEAVE alternate only if the routers' Join and Leave are themselves called alternately (floodsub and
	// randomsub trace unconditionally): the interest bookkeeping that guarantees it is decided under C05 and
	// re-evaluated here (shared obligations, same keys).
	{
		sub := &RuleCtx{P: c.P, Prop: c.Prop, Min: map[string]int{}}
		runC05(sub)
		for _, o := range sub.Obs {
			if o.Rule == "R05.1" || o.Rule == "R05.2" {
				c.Obs = append(c.Obs, o)
			}
		}
		c.Min["R05.1"] = 11
		c.Min["R05.2"] = 19
	}
	// the replay of GRAFT/PRUNE events rebuilds the mesh only if nothing else writes the mesh map: Join hands the
	// fanout map over as the mesh and must drop the fanout entry, or the heartbeat's fanout maintenance edits the mesh
	// through the alias without any trace event (C07 R07.4 row, re-evaluated here)
	{
		sub := &RuleCtx{P: c.P, Prop: c.Prop, Min: map[string]int{}}
		runC07(sub)
		n := 0
		for _, o := range sub.Obs {
			if o.Rule == "R07.4" && strings.Contains(o.Key, "Join removes the topic's fanout entry") {
				c.Obs = append(c.Obs, o)
				n++
			}
		}
		if n == 0 {
			c.Undecided("R07.4", "(*GossipSubRouter).Join", "fanout entry dropped when it becomes the mesh", nil, "no R07.4 obligation on the fanout entry found")
		}
	}
	c.Min["R19.1"] = 60
	c.Min["R19.2"] = 16
	c.Min["R19.3"] = 7
	c.Min["R19.4"] = 11
	c.Min["R19.5"] = 6
	c.Min["R19.6"] = 8
}

// meshTopicOf: the topic the mesh map expression belongs to (the key used to obtain it), if determinable.
func meshTopicOf(p *Prog, f *Func, m ast.Expr) *V {
	v := p.R(f).Val(m)
	switch v.Kind {
	case "index", "lookupval":
		return v.Args[1]
	case "rangeval":
		// the range key of the same range statement
		if id, ok := unparen(m).(*ast.Ident); ok {
			for _, d := range p.R(f).Defs(f.Info().Uses[id]) {
				if rs, ok := d.node.(*ast.RangeStmt); ok && rs.Key != nil {
					return p.R(f).Val(rs.Key)
				}
			}
		}
	}
	return nil
}

// sameScope: n and ref are in the same innermost loop (or both outside loops).
func sameScope(p *Prog, n, ref ast.Node) bool {
	la, lb := p.EnclosingLoops(n), p.EnclosingLoops(ref)
	if len(la) == 0 && len(lb) == 0 {
		return true
	}
	return len(la) > 0 && len(lb) > 0 && la[0] == lb[0]
}

// reachesBefore: from 'from', a node satisfying pred is reachable before an Until block / exit.
func reachesBefore(g *Graph, from Point, until map[*cfgBlock]bool, pred func(ast.Node) bool) bool {
	seen := map[*cfgBlock]bool{}
	var walk func(b *cfgBlock, start int) bool
	walk = func(b *cfgBlock, start int) bool {
		for i := start; i < len(b.Nodes); i++ {
			if pred(b.Nodes[i]) {
				return true
			}
		}
		for _, s := range b.Succs {
			if until[s] || seen[s] {
				continue
			}
			seen[s] = true
			if walk(s, 0) {
				return true
			}
		}
		return false
	}
	return walk(from.B, from.I)
}
