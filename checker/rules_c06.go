package main

import (
	"go/ast"
	"go/types"
	"strings"
)

func init() {
	register(&Property{ID: "C06", Run: runC06,
		Explain: "Recipient rules decided on the three routers for every router state and message: (R06.1) the protobuf placed in outgoing RPCs is the accepted msg.Message pointer itself, and (with R03.6, re-evaluated here) no code writes fields of an accepted pb.Message; (R06.2) every send/yield is — through the recipient sets it ranges over — behind the false edges of `peer == msg.ReceivedFrom` and `peer == author`; (R06.3) every recipient is a key of p.topics[topic], a mesh/fanout member, or dominated by a successful lookup in the topic map; (R06.4) the router is handed only non-local messages (single and batch path); (R06.5) mesh/fanout recipients are skipped exactly when they declared the message unwanted; (R06.6) inclusion as implication checks: a direct topic peer, a floodsub-only topic peer at/above the publish threshold, a flood-publish topic peer that is direct or at/above the threshold, and a mesh/fanout member that did not declare the message unwanted can only miss the recipient set on a path that refutes that condition, and a collected recipient is only skipped by the source/author/partial-message exclusions; (R06.7) fanout is used only when the topic is not joined, its lastpub stamp is refreshed on every use, it is re-drawn only when empty, expires only after FanoutTTL without publishing and loses members only when they left the topic or fell below the publish threshold. (R06.3 after the audit round) mesh/fanout members get no exemption: a member that never subscribed or unsubscribed without PRUNE is not a topic peer. (second wave) R06.7: the expiry arithmetic is in age form (the sum form overflows). R06.6 also: the flood-publish arm is decided by msg.ReceivedFrom == own ID (who published), not by the author field. NOT decided: that an outbound stream exists, random selection of randomsub beyond RandomSubD, the exact size of the fanout set.",
		Assume:  []string{"p.topics[topic] holds exactly the peers known to be in the topic (C05)", "gs.mesh/gs.fanout members are topic peers (C07)"},
		Mutants: []Mutant{
			{Name: "flood-publish-by-author", File: "gossipsub.go", Old: "\t\tif gs.floodPublish && from == gs.p.host.ID() {", New: "\t\tif gs.floodPublish && msg.GetFrom() == gs.p.host.ID() {", Expect: "R06.6"},
			{Name: "fanout-expiry-sum-form", File: "gossipsub.go", Old: "\t\tif now-lastpub > int64(gs.params.FanoutTTL) {", New: "\t\tif lastpub+int64(gs.params.FanoutTTL) < now {", Expect: "R06.7"},
			{Name: "flood-forwards-copy", File: "floodsub.go", Old: "\tout := rpcWithMessages(msg.Message)\n\tfor pid := range fs.p.topics[topic] {", New: "\tcp := *msg.Message\n\tout := rpcWithMessages(&cp)\n\tfor pid := range fs.p.topics[topic] {", Expect: "R06.1"},
			{Name: "flood-echo-to-author", File: "floodsub.go", Old: "\t\tif pid == from || pid == peer.ID(msg.GetFrom()) {", New: "\t\tif pid == from {", Expect: "R06.2"},
			{Name: "randomsub-floodsub-before-exclusion", File: "randomsub.go", Old: "\t\tif p == from || p == src {\n\t\t\tcontinue\n\t\t}\n\n\t\tif rs.peers[p] == FloodSubID {\n\t\t\ttosend[p] = struct{}{}\n\t\t} else {", New: "\t\tif rs.peers[p] == FloodSubID {\n\t\t\ttosend[p] = struct{}{}\n\t\t\tcontinue\n\t\t}\n\t\tif p == from || p == src {\n\t\t\tcontinue\n\t\t}\n\t\t{", Expect: "R06.2"},
			{Name: "gossipsub-direct-not-in-topic", File: "gossipsub.go", Old: "\t\t\t\t_, inTopic := tmap[p]\n\t\t\t\tif inTopic {\n\t\t\t\t\ttosend[p] = struct{}{}\n\t\t\t\t}", New: "\t\t\t\ttosend[p] = struct{}{}", Expect: "R06.3"},
			{Name: "batch-local-forwarded", File: "pubsub.go", Old: "\t\tif !msg.Local {\n\t\t\ttoSend = append(toSend, msg)\n\t\t}", New: "\t\ttoSend = append(toSend, msg)", Expect: "R06.4"},
			{Name: "unwanted-ignored-for-fanout", File: "gossipsub.go", Old: "\t\t\t\tif _, ok := gs.unwanted[p][csum]; ok {\n\t\t\t\t\tcontinue\n\t\t\t\t}\n\t\t\t\ttosend[p] = struct{}{}", New: "\t\t\t\tif _, ok := gs.unwanted[p][csum]; ok && len(gmap) > gs.params.Dlo {\n\t\t\t\t\tcontinue\n\t\t\t\t}\n\t\t\t\ttosend[p] = struct{}{}", Expect: "R06.5"},
			{Name: "flood-publish-drops-direct", File: "gossipsub.go", Old: "\t\t\t\tif direct || gs.score.Score(p) >= gs.publishThreshold {", New: "\t\t\t\t_ = direct\n\t\t\t\tif gs.score.Score(p) >= gs.publishThreshold {", Expect: "R06.6"},
			{Name: "floodsub-peers-need-mesh-absent", File: "gossipsub.go", Old: "\t\t\t\tif !gs.feature(GossipSubFeatureMesh, gs.peers[p]) && gs.score.Score(p) >= gs.publishThreshold {", New: "\t\t\t\tif !gs.feature(GossipSubFeatureMesh, gs.peers[p]) && gs.score.Score(p) >= gs.publishThreshold && len(gs.mesh[topic]) == 0 {", Expect: "R06.6"},
			{Name: "recipient-skipped-when-many", File: "gossipsub.go", Old: "\t\t\tif pid == from || pid == peer.ID(msg.GetFrom()) {\n\t\t\t\tcontinue\n\t\t\t}\n\t\t\tif gs.iSupportSendingPartial", New: "\t\t\tif pid == from || pid == peer.ID(msg.GetFrom()) || (len(tosend) > 64 && !gs.outbound[pid]) {\n\t\t\t\tcontinue\n\t\t\t}\n\t\t\tif gs.iSupportSendingPartial", Expect: "R06.6"},
			{Name: "fanout-used-when-mesh-empty", File: "gossipsub.go", Old: "\t\t\tgmap, ok := gs.mesh[topic]\n\t\t\tif !ok {\n\t\t\t\t// we are not in the mesh for topic, use fanout peers", New: "\t\t\tgmap, ok := gs.mesh[topic]\n\t\t\tif !ok || len(gmap) == 0 {\n\t\t\t\t// we are not in the mesh for topic, use fanout peers", Expect: "R07.4"},
			{Name: "lastpub-only-on-create", File: "gossipsub.go", Old: "\t\t\tgs.fanout[topic] = peers\n\t\t}\n\t}\n\tgs.lastpub[topic] = time.Now().UnixNano()\n", New: "\t\t\tgs.fanout[topic] = peers\n\t\t\tgs.lastpub[topic] = time.Now().UnixNano()\n\t\t}\n\t}\n", Expect: "R06.7"},
			{Name: "fanout-redrawn-when-small", File: "gossipsub.go", Old: "\tpeers := gs.fanout[topic]\n\tif len(peers) == 0 {", New: "\tpeers := gs.fanout[topic]\n\tif len(peers) < gs.params.Dlo {", Expect: "R06.7"},
			{Name: "fanout-expiry-half-ttl", File: "gossipsub.go", Old: "\t\tif now-lastpub > int64(gs.params.FanoutTTL) {", New: "\t\tif now-lastpub > int64(gs.params.FanoutTTL)/2 {", Expect: "R06.7"},
		}})
}

// recipientCheck walks recipient provenance: a key is accepted if base(f, key, site) holds,
// or if it ranges over a local collection every insertion into which is accepted.
type recipientCheck struct {
	p     *Prog
	base  func(f *Func, key ast.Expr, site ast.Node) (bool, string)
	depth int
}

func (rc *recipientCheck) ok(f *Func, key ast.Expr, site ast.Node) (bool, string) {
	if ok, why := rc.base(f, key, site); ok {
		return true, why
	}
	if rc.depth > 4 {
		return false, "provenance too deep"
	}
	p := rc.p
	v := p.R(f).Val(key)
	if v.Kind != "rangekey" && v.Kind != "rangeval" {
		return false, "recipient " + v.String() + " is not covered"
	}
	// the ranged collection: a local variable (possibly sliced / converted with peerMapToList)
	var collObj types.Object
	id, isId := key.(*ast.Ident)
	if ix, isIx := unparen(key).(*ast.IndexExpr); !isId && isIx && v.Kind == "rangeval" {
		// xs[i] under `for i := range xs` (canonically the range value of xs)
		collObj = baseLocal(f, ix.X)
	} else if !isId {
		return false, "recipient is not a range variable"
	} else {
		for _, d := range p.R(f).Defs(f.Info().Uses[id]) {
			if d.rangeX != nil {
				collObj = baseLocal(f, d.rangeX)
			}
		}
	}
	if collObj == nil {
		return false, "recipient ranges over " + v.Args[0].String() + ", which is not a local recipient set"
	}
	return rc.collOK(f, collObj)
}

func baseLocal(f *Func, e ast.Expr) types.Object {
	e = unparen(e)
	for {
		switch x := e.(type) {
		case *ast.SliceExpr:
			e = unparen(x.X)
			continue
		case *ast.Ident:
			if o, ok := f.Info().Uses[x].(*types.Var); ok && !o.IsField() {
				return o
			}
			return nil
		}
		return nil
	}
}

func (rc *recipientCheck) collOK(f *Func, coll types.Object) (bool, string) {
	p := rc.p
	rc.depth++
	defer func() { rc.depth-- }()
	n := 0
	// map insertions
	for _, mi := range p.mapInserts(f) {
		if baseLocal(f, mi.Map) != coll {
			continue
		}
		n++
		if ok, why := rc.ok(f, mi.Key, mi.Stmt); !ok {
			return false, "insertion at " + p.Pos(mi.Stmt) + ": " + why
		}
	}
	// slice definitions: x = peerMapToList(m) / x = x[:n] / append(x, k)
	for _, d := range p.R(f).Defs(coll) {
		if d.kind != "assign" || d.rhs == nil {
			continue
		}
		rhs := unparen(d.rhs)
		if ce, ok := rhs.(*ast.CallExpr); ok {
			switch p.CalleeName(f.Info(), ce) {
			case "peerMapToList":
				if o := baseLocal(f, ce.Args[0]); o != nil {
					n++
					if ok, why := rc.collOK(f, o); !ok {
						return false, why
					}
					continue
				}
				return false, "list built from a non-local map at " + p.Pos(ce)
			case "builtin.make":
				continue
			case "builtin.append":
				if baseLocal(f, ce.Args[0]) == coll {
					for _, a := range ce.Args[1:] {
						n++
						if ok, why := rc.ok(f, a, d.node); !ok {
							return false, "append at " + p.Pos(ce) + ": " + why
						}
					}
					continue
				}
			}
			return false, "recipient set assigned from " + p.Src(rhs)
		}
		if baseLocal(f, rhs) == coll {
			continue // re-slicing
		}
		if _, isLit := rhs.(*ast.CompositeLit); isLit {
			continue
		}
		// a plain copy of another local recipient set (the result of an inlined selection helper): that set is checked
		if id, isId := rhs.(*ast.Ident); isId && rc.depth < 6 {
			if o := baseLocal(f, id); o != nil && o != coll {
				n++
				if ok, why := rc.collOK(f, o); !ok {
					return false, why
				}
				continue
			}
		}
		return false, "recipient set assigned from " + p.Src(rhs)
	}
	if n == 0 {
		return false, "no insertion into the recipient set found"
	}
	return true, "every insertion into the recipient set is covered"
}

// sendSites: the places where a router hands a copy to a peer: rpcQueue pushes and yields of (peer, rpc).
type sendSite struct {
	Fn   *Func
	Node ast.Node
	Key  ast.Expr // the recipient expression
	Msg  ast.Expr // the RPC expression
}

func routerSendSites(p *Prog, fnName string) []sendSite {
	var out []sendSite
	f := p.Fn(fnName)
	if f == nil {
		return nil
	}
	var walk func(x *Func)
	walk = func(x *Func) {
		for _, cs := range p.FuncCalls(x, false) {
			switch cs.Name {
			case "(*rpcQueue).Push", "(*rpcQueue).UrgentPush":
				// recipient: the key the queue was looked up with
				se := unparen(cs.Call.Fun).(*ast.SelectorExpr)
				qv := p.R(x).Val(se.X)
				if qv.Kind == "lookupval" || qv.Kind == "index" {
					if id, ok := qv.Args[1].Node.(*ast.Ident); ok {
						out = append(out, sendSite{x, cs.Call, id, cs.Call.Args[0]})
					}
				}
			}
		}
		// an iterator literal hands (peer, rpc) pairs to its consumer, whatever the consumer parameter is called
		if x.Lit != nil {
			for _, cs := range p.YieldSites(x) {
				if len(cs.Call.Args) == 2 {
					out = append(out, sendSite{x, cs.Call, cs.Call.Args[0], cs.Call.Args[1]})
				}
			}
		}
		for _, ch := range x.Children {
			walk(ch)
		}
	}
	walk(f)
	return out
}

func runC06(c *RuleCtx) {
	p := c.P
	routers := []string{"(*FloodSubRouter).Publish", "(*RandomSubRouter).Publish", "(*GossipSubRouter).rpcs"}
	isFromV := func(v *V) bool { return v.IsField("Message.ReceivedFrom") }
	isAuthorV := func(v *V) bool { return stripConv(v).IsCall(fnMsgGetFrom) }
	for _, rn := range routers {
		sites := routerSendSites(p, rn)
		if len(sites) == 0 {
			c.Undecided("R06.2", rn, "send sites", nil, "no push/yield of a message copy found (anchor drift)")
			continue
		}
		for _, s := range sites {
			// R06.1 the RPC wraps the accepted protobuf
			mv := p.R(s.Fn).Val(s.Msg)
			ok := mv.IsCall("rpcWithMessages") && len(mv.Args) == 1 && mv.Args[0].IsField("Message.Message") && mv.Args[0].Args[0].Kind == "var"
			// the operand must be the pointer itself, not the address of a copy
			if ce, isCall := mv.Node.(*ast.CallExpr); ok && isCall && len(ce.Args) == 1 {
				ok = pureAlias(p, s.Fn, ce.Args[0], 0)
			}
			c.Check(ok, "R06.1", rn, "copy is the accepted protobuf itself", s.Node, mv.String(), "the forwarded RPC is "+mv.String()+", not rpcWithMessages(msg.Message): the signature may no longer match")
			// R06.2 exclusions
			exc := &recipientCheck{p: p, base: func(f *Func, key ast.Expr, site ast.Node) (bool, string) {
				kv := p.R(f).Val(key)
				same := func(x *V) bool { return x.Equal(kv) }
				a1 := AtomCmp("peer == msg.ReceivedFrom", same, "==", isFromV)
				a2 := AtomCmp("peer == author", same, "==", isAuthorV)
				ok1, _ := p.DomAny(f, site, AtomWant{a1, false})
				ok2, _ := p.DomAny(f, site, AtomWant{a2, false})
				if ok1 && ok2 {
					return true, "behind the false edges of peer==source and peer==author"
				}
				return false, "not behind both exclusion tests"
			}}
			ok, why := exc.ok(s.Fn, s.Key, s.Node)
			c.Check(ok, "R06.2", rn, "never sent to the source or the author", s.Node, why, "a copy can be sent to the peer it came from or to its author: "+why)
			// R06.3 membership
			mem := &recipientCheck{p: p, base: func(f *Func, key ast.Expr, site ast.Node) (bool, string) {
				kv := p.R(f).Val(key)
				if kv.Kind == "rangekey" {
					src := kv.Args[0]
					if src.Has(func(x *V) bool { return x.IsField("PubSub.topics") }) && (src.Kind == "index" || src.Kind == "lookupval") {
						return true, "ranges over p.topics[topic]"
					}
				}
				// mesh and fanout members get no exemption: a member that never subscribed (GRAFT without
				// SUBSCRIBE) or has unsubscribed without PRUNE stays in the set until it is pruned
				inTopic := AtomBool("peer in p.topics[topic]", func(v *V) bool {
					return v.Kind == "lookupok" && v.Args[0].Has(func(x *V) bool { return x.IsField("PubSub.topics") }) && v.Args[1].Equal(kv)
				})
				if ok, _ := p.DomAny(f, site, AtomWant{inTopic, true}); ok {
					return true, "dominated by a successful lookup in the topic map"
				}
				return false, "not known to be in the topic"
			}}
			ok, why = mem.ok(s.Fn, s.Key, s.Node)
			c.Check(ok, "R06.3", rn, "recipients are peers known to be in the topic", s.Node, why, "a copy can be sent to a peer not known to be in the topic: "+why)
		}
	}
	// R06.1 (cont.) immutability of accepted protobufs — shared with C03 R03.6
	{
		sub := &RuleCtx{P: p, Prop: c.Prop, Min: map[string]int{}}
		runC03(sub)
		for _, o := range sub.Obs {
			if o.Rule == "R03.6" {
				c.Obs = append(c.Obs, o)
			}
		}
	}
	// R06.4 local-only
	if f := c.MustFn("R06.4", fnPublishMsg); f != nil {
		for _, cs := range p.Sites(f, true, rtPublish) {
			ok, why := p.DomAny(f, cs.Call, AtomWant{AtomBool("msg.Local", isMsgLocal), false})
			c.Check(ok, "R06.4", f.Name, "router sees only non-local messages", cs.Call, why, why)
		}
	}
	if f := c.MustFn("R06.4", fnPublishBatch); f != nil {
		sites := p.Sites(f, true, "BatchPublisher.PublishBatch")
		if len(sites) == 0 {
			c.Undecided("R06.4", f.Name, "batch hand-off", f.Decl, "no PublishBatch call")
		}
		for _, cs := range sites {
			loc := &recipientCheck{p: p, base: func(ff *Func, key ast.Expr, site ast.Node) (bool, string) {
				kv := p.R(ff).Val(key)
				a := AtomBool("msg.Local", func(v *V) bool { return v.IsField("Message.Local") && len(v.Args) == 1 && v.Args[0].Equal(kv) })
				if ok, _ := p.DomAny(ff, site, AtomWant{a, false}); ok {
					return true, "appended only when !msg.Local"
				}
				return false, "not behind !msg.Local"
			}}
			obj := baseLocal(f, cs.Call.Args[0])
			if obj == nil {
				c.Bad("R06.4", f.Name, "batch handed to the router excludes local-only messages", cs.Call, "the whole batch ("+p.Src(cs.Call.Args[0])+") is handed to the router without filtering local-only messages")
				continue
			}
			ok, why := loc.collOK(f, obj)
			c.Check(ok, "R06.4", f.Name, "batch handed to the router excludes local-only messages", cs.Call, why, "a local-only message of a batch reaches the router: "+why)
		}
	}
	for _, callee := range []string{rtPublish, "BatchPublisher.PublishBatch"} {
		callers := p.CallerNames(callee)
		ok, extra := subset(callers, fnPublishMsg, fnPublishBatch)
		c.Check(ok && len(callers) > 0, "R06.4", callee, "router publish entry called only from publishMessage(+Batch)", nil, strings.Join(callers, ","), "also called from "+strings.Join(extra, ","))
	}
	// gossipsub-specific inclusion / suppression rules
	if f := c.MustFn("R06.5", "(*GossipSubRouter).rpcs"); f != nil && len(f.Children) > 0 {
		lit := f.Children[0]
		g := p.Graph(lit)
		sc := isScoreOf(p, lit)
		ge := AtomCmp("score >= publishThreshold", sc, ">=", thr("publishThreshold"))
		direct := lookupIn("p in gs.direct", isDirectMap)
		unwanted := AtomBool("message in unwanted[p]", func(v *V) bool {
			return v.Kind == "lookupok" && v.Args[0].Kind == "index" && v.Args[0].Args[0].IsField(gsField("unwanted")) && v.Args[1].IsCall("computeChecksum")
		})
		noMesh := AtomBool("feature(Mesh, proto)", func(v *V) bool {
			return v.IsCall(fnFeature) && len(v.Args) == 3 && v.Args[1].IsConst("GossipSubFeatureMesh")
		})
		inTopic := AtomBool("direct peer in topic", func(v *V) bool {
			return v.Kind == "lookupok" && v.Args[0].Has(func(x *V) bool { return x.IsField("PubSub.topics") })
		})
		insertPred := func(loop ast.Stmt) func(ast.Node) bool {
			return func(n ast.Node) bool {
				for _, mi := range p.mapInserts(lit) {
					if contains(n, mi.Stmt) && within(mi.Stmt, loop) && p.R(lit).Val(mi.Key).Kind == "rangekey" {
						return true
					}
				}
				return false
			}
		}
		nIncl := 0
		inspectNoLit(lit.Body, func(x ast.Node) bool {
			r, ok := x.(*ast.RangeStmt)
			if !ok {
				return true
			}
			rv := p.R(lit).Val(r.X)
			// classify the loop by what it ranges over and where it sits
			underFlood := false
			floodA := AtomBool("gs.floodPublish", isFieldOf(gsField("floodPublish")))
			if ok, _ := p.DomAny(lit, r.X, AtomWant{floodA, true}); ok {
				underFlood = true
			}
			switch {
			case rv.Has(func(v *V) bool { return v.IsField("PubSub.topics") }) && underFlood:
				nIncl++
				cut := edgeSet(g.AtomEdges(direct, false), g.AtomEdges(ge, false))
				// refuting "direct || score>=thr" needs both refuted: the false edge of the disjunction
				cut = intersectRefuted(g, direct, ge)
				ok, why := p.LoopBodyMust(lit, r, cut, insertPred(r))
				c.Check(ok, "R06.6", f.Name, "flood publish reaches every topic peer that is direct or >= publishThreshold", r, why, "a topic peer that is direct or at/above the publish threshold can be left out of a flood publish: "+why)
				// "the node's own messages": own means published here — msg.ReceivedFrom is the host — not "names the
				// host as author" (anonymous messages, WithMessageAuthor and per-publish keys give other authors). The
				// flood arm is taken exactly under floodPublish && ReceivedFrom == host.ID(): it is dominated by that
				// test, and no path that establishes both reaches the selective arms instead
				own := AtomCmp("msg.ReceivedFrom == host.ID()", func(v *V) bool { return v.IsField("Message.ReceivedFrom") }, "==", func(v *V) bool {
					return v != nil && v.Kind == "call" && strings.HasSuffix(v.Name, ".ID") && v.Has(func(x *V) bool { return x.IsField("PubSub.host") })
				})
				okOwn, whyOwn := p.DomAny(lit, r.X, AtomWant{own, true})
				c.Check(okOwn, "R06.6", f.Name, "flood publish is decided by who published (ReceivedFrom == own ID)", r, whyOwn, "the flood-publish arm is not conditioned on msg.ReceivedFrom == host.ID(): own messages whose author field is not the host ID (anonymous, custom author, per-publish key) are not flood-published, or foreign ones are: "+whyOwn)
			case rv.IsField(gsField("direct")):
				nIncl++
				ok, why := p.LoopBodyMust(lit, r, g.AtomEdges(inTopic, false), insertPred(r))
				c.Check(ok, "R06.6", f.Name, "every direct peer in the topic is a recipient", r, why, "a direct peer in the topic can be left out: "+why)
			case rv.Has(func(v *V) bool { return v.IsField("PubSub.topics") }):
				nIncl++
				// floodsub-only peers at/above the threshold: refuted by feature(Mesh) true or score>=thr false
				notMesh := Atom{Desc: "peer is floodsub-only", Match: func(g *Graph, e ast.Expr) (bool, bool) {
					ok, s := noMesh.Match(g, e)
					return ok, !s
				}}
				cut := g.EdgesNotBoth(notMesh, ge)
				ok, why := p.LoopBodyMust(lit, r, cut, insertPred(r))
				c.Check(ok, "R06.6", f.Name, "every floodsub-only topic peer >= publishThreshold is a recipient", r, why, "a floodsub-only topic peer at/above the publish threshold can be left out: "+why)
			case rv.Kind == "var" || innerMapOf("mesh")(rv) || rv.IsCall(fnFanoutPeers):
				// the gmap loop (mesh or fanout members) — identified by the unwanted test inside
				hasUnw := false
				for _, e := range g.AtomEdges(unwanted, true) {
					if within(condNodeOf(e), r) {
						hasUnw = true
					}
				}
				if !hasUnw {
					return true
				}
				nIncl++
				// a member that is not (or no longer) in the topic map is the other legitimate omission (R06.3)
				ok, why := p.LoopBodyMust(lit, r, edgeSet(g.AtomEdges(unwanted, true), g.AtomEdges(inTopic, false)), insertPred(r))
				c.Check(ok, "R06.6", f.Name, "every mesh/fanout member that did not declare the message unwanted is a recipient", r, why, "a mesh/fanout member can be left out although it did not send IDONTWANT: "+why)
				// R06.5 suppression: inserted only on the failed lookup
				for _, mi := range p.mapInserts(lit) {
					if within(mi.Stmt, r) {
						ok, why := p.DomAny(lit, mi.Stmt, AtomWant{unwanted, false})
						c.Check(ok, "R06.5", f.Name, "member that declared the message unwanted is skipped", mi.Stmt, why, why)
					}
				}
				// the ranged map is the mesh, or the fanout on a failed mesh lookup
				id, _ := unparen(r.X).(*ast.Ident)
				if id != nil {
					okSrc := true
					for _, d := range p.R(lit).Defs(lit.Info().Uses[id]) {
						if d.kind != "assign" || d.rhs == nil {
							continue
						}
						dv := p.R(lit).Val(d.rhs)
						if !(innerMapOf("mesh")(dv) || dv.IsCall(fnFanoutPeers) || (dv.Kind == "lookupval" && dv.Args[0].IsField(gsField("mesh")))) {
							okSrc = false
						}
					}
					c.Check(okSrc, "R06.7", f.Name, "gossipsub recipients are the mesh, else the fanout", r, "assigned from gs.mesh[topic] or getFanoutPeersForPublishing", "the gossipsub recipient map has another source")
				}
			}
			return true
		})
		if nIncl < 4 {
			c.Undecided("R06.6", f.Name, "recipient collection loops", f.Decl, "expected the flood-publish, direct, floodsub-only and mesh/fanout loops")
		}
		// final loop: a collected recipient is skipped only by the source/author/partial exclusions
		for _, s := range routerSendSites(p, "(*GossipSubRouter).rpcs") {
			loops := p.EnclosingLoops(s.Node)
			if len(loops) == 0 {
				continue
			}
			kv := p.R(s.Fn).Val(s.Key)
			same := func(x *V) bool { return x.Equal(kv) }
			a1 := AtomCmp("peer == msg.ReceivedFrom", same, "==", isFromV)
			a2 := AtomCmp("peer == author", same, "==", isAuthorV)
			part := AtomBool("peer requests partial messages", isCallTo("(*GossipSubRouter).peerRequestsPartial"))
			gg := p.Graph(s.Fn)
			cut := append(append(append([]Edge{}, gg.EdgesEither(a1, a2)...), gg.AtomEdges(part, true)...), gg.AtomEdges(a1, true)...)
			cut = append(cut, gg.AtomEdges(a2, true)...)
			ok, why := p.LoopBodyMust2(s.Fn, loops[0], cut, func(n ast.Node) bool { return contains(n, s.Node) })
			c.Check(ok, "R06.6", f.Name, "collected recipient skipped only for source/author/partial", s.Node, why, "a collected recipient can be skipped for another reason: "+why)
		}
	}
	// R06.7 fanout lifecycle
	{
		sub := &RuleCtx{P: p, Prop: c.Prop, Min: map[string]int{}}
		runC07(sub)
		for _, o := range sub.Obs {
			if o.Rule == "R07.4" && strings.Contains(o.Key, "fanout consulted only when") {
				c.Obs = append(c.Obs, o)
			}
		}
	}
	if f := c.MustFn("R06.7", fnFanoutPeers); f != nil {
		g := p.Graph(f)
		ok, _ := g.MustPass(g.Entry(), PassOpts{}, func(n ast.Node) bool {
			for _, s := range p.StoresTo2(f, gsField("lastpub")) {
				if s.Node == n && s.Kind == "elem-assign" {
					return true
				}
			}
			return false
		})
		c.Check(ok, "R06.7", f.Name, "lastpub refreshed on every publish through the fanout", f.Decl, "stored on every path", "a publish can use the fanout without refreshing lastpub: the fanout would expire FanoutTTL after its creation even while the topic keeps being published to")
		for _, s := range p.StoresTo2(f, gsField("lastpub")) {
			v := p.R(f).Val(s.RHS)
			c.Check(v.IsCall("time.Time.UnixNano") && v.Args[0].IsCall("time.Now"), "R06.7", f.Name, "lastpub is the current time", s.Node, v.String(), "lastpub is "+v.String())
		}
		empty := AtomCmp("len(fanout[topic]) == 0", func(v *V) bool { return v.Kind == "len" && innerMapOf("fanout")(v.Args[0]) }, "==", isZero)
		for _, s := range p.StoresTo2(f, gsField("fanout")) {
			ok, why := p.DomAny(f, s.Node, AtomWant{empty, true})
			c.Check(ok, "R06.7", f.Name, "fanout re-drawn only when empty", s.Node, why, "existing fanout members can be replaced while still eligible: "+why)
		}
		for _, cs := range p.Sites(f, true, fnGetPeers) {
			ok, why := p.DomAny(f, cs.Call, AtomWant{empty, true})
			c.Check(ok, "R06.7", f.Name, "new fanout members selected only when empty", cs.Call, why, why)
			c.Check(prm("D")(p.R(f).Val(cs.Call.Args[1])), "R06.7", f.Name, "fanout drawn with D peers", cs.Call, "count is D", "count is "+p.R(f).Val(cs.Call.Args[1]).String())
		}
		// the returned set is the stored one
		returnsIn(f, func(r *ast.ReturnStmt) {
			if id, ok := unparen(r.Results[0]).(*ast.Ident); ok {
				okd := true
				for _, d := range p.R(f).Defs(f.Info().Uses[id]) {
					if d.kind != "assign" || d.rhs == nil {
						continue
					}
					dv := p.R(f).Val(d.rhs)
					if !(dv.Kind == "index" && dv.Args[0].IsField(gsField("fanout"))) && !dv.IsCall("peerListToMap") {
						okd = false
					}
				}
				c.Check(okd, "R06.7", f.Name, "returns the stored fanout set", r, "gs.fanout[topic] or the freshly stored map", "returns another set")
			}
		})
	}
	if f := c.MustFn("R06.7", fnHeartbeat); f != nil {
		// "FanoutTTL has passed since the last publish", in either arithmetic form: lastpub + TTL < now, or
		// now - lastpub > TTL. The sum form overflows int64 for a very large TTL (FanoutTTL is not validated and
		// "never expire" is naturally written as the largest Duration): the sum goes negative and the fanout expires
		// at every heartbeat, so the sum form is reported separately
		var sumForm ast.Node
		isStamp := func(v *V) bool { return v.Kind == "rangeval" && v.Args[0].IsField(gsField("lastpub")) }
		isTTL := func(v *V) bool { return stripConv(v).IsField("GossipSubParams.FanoutTTL") }
		isNow := func(v *V) bool { return v.IsCall("time.Time.UnixNano") && v.Args[0].IsCall("time.Now") }
		expired := Atom{Desc: "FanoutTTL passed since lastpub", Match: func(g *Graph, e ast.Expr) (bool, bool) {
			be, ok := unparen(e).(*ast.BinaryExpr)
			if !ok {
				return false, false
			}
			l, r := g.P.R(g.F).Val(be.X), g.P.R(g.F).Val(be.Y)
			isSum := func(v *V) bool { return v.Kind == "op" && v.Name == "+" && ((isStamp(v.Args[0]) && isTTL(v.Args[1])) || (isStamp(v.Args[1]) && isTTL(v.Args[0]))) }
			isAge := func(v *V) bool { return v.Kind == "op" && v.Name == "-" && isNow(v.Args[0]) && isStamp(v.Args[1]) }
			op := be.Op.String()
			switch {
			case isSum(l) && isNow(r):
				sumForm = be
			case isSum(r) && isNow(l):
				sumForm = be
				op = flipOp(op)
			case isAge(l) && isTTL(r):
				// now - lastpub > TTL  <=>  lastpub + TTL < now
				op = flipOp(op)
			case isAge(r) && isTTL(l):
			default:
				return false, false
			}
			switch op {
			case "<":
				return true, true
			case ">=":
				return true, false
			}
			return false, false
		}}
		n := 0
		for _, s := range p.StoresTo2(f, gsField("fanout")) {
			if s.Kind != "delete" {
				continue
			}
			n++
			ok, why := p.DomDeep(f, s.Node, AtomWant{expired, true})
			c.Check(ok, "R06.7", f.Name, "fanout expires only after FanoutTTL without publishing", s.Node, why, why)
			if ok {
				c.Check(sumForm == nil, "R06.7", f.Name, "fanout expiry arithmetic cannot overflow", s.Node, "compares the age (now - lastpub) with FanoutTTL", "the expiry test adds FanoutTTL to the timestamp; FanoutTTL is not bounded by validation, and for a very large value (the natural way to say \"never expire\") the sum overflows int64, goes negative, and every fanout expires at the next heartbeat although the topic keeps being published to")
			}
		}
		if n == 0 {
			c.Bad("R06.7", f.Name, "fanout expiry", f.Decl, "heartbeat never expires fanout state")
		}
		// members are dropped only when they left the topic or fell below the publish threshold
		g := p.Graph(f)
		sc := isScoreOf(p, f)
		lt := AtomCmp("score < publishThreshold", sc, "<", thr("publishThreshold"))
		gone := Atom{Desc: "not in topic", Match: func(g *Graph, e ast.Expr) (bool, bool) {
			v := g.P.R(g.F).Val(e)
			if v.Kind == "lookupok" && v.Args[0].Has(func(x *V) bool { return x.IsField("PubSub.topics") }) {
				return true, false
			}
			return false, false
		}}
		for _, d := range p.mapDeletes(f) {
			if !innerMapOf("fanout")(p.R(f).Val(d.Map)) {
				continue
			}
			pt, _ := g.Locate(d.Call)
			ok := g.Dominated(pt, g.EdgesEither(gone, lt))
			c.Check(ok, "R06.7", f.Name, "fanout member dropped only if it left the topic or fell below publishThreshold", d.Call, "dominated by `left topic || score < publishThreshold`", "a fanout member can be dropped while still eligible")
		}
	}
	c.Min["R06.1"] = 3
	c.Min["R06.2"] = 3
	c.Min["R06.3"] = 3
	c.Min["R06.4"] = 4
	c.Min["R06.5"] = 1
	c.Min["R06.6"] = 5
	c.Min["R06.7"] = 9
	c.Min["R03.6"] = 4
}

func edgeSet(sets ...[]Edge) []Edge {
	var out []Edge
	for _, s := range sets {
		out = append(out, s...)
	}
	return out
}

// intersectRefuted: edges on which both atoms are refuted (a false AND b false): the false edge of `a || b`,
// or an edge refuting one inside a region dominated by the refutation of the other.
func intersectRefuted(g *Graph, a, b Atom) []Edge {
	var out []Edge
	ea, eb := g.AtomEdges(a, false), g.AtomEdges(b, false)
	inB := map[Edge]bool{}
	for _, e := range eb {
		inB[e] = true
	}
	for _, e := range ea {
		if inB[e] {
			out = append(out, e)
			continue
		}
		// nested: e refutes a, and e.From is dominated by edges refuting b
		if len(e.From.Nodes) > 0 && len(eb) > 0 && g.Dominated(Point{e.From, 0}, eb) {
			out = append(out, e)
		}
	}
	for _, e := range eb {
		if !inB[e] {
			continue
		}
	}
	for _, e := range eb {
		if len(e.From.Nodes) > 0 && len(ea) > 0 && g.Dominated(Point{e.From, 0}, ea) {
			out = append(out, e)
		}
	}
	return out
}

// LoopBodyMust2 is LoopBodyMust without the early-exit requirement (range-over-func bodies
// legitimately return when the consumer stops).
func (p *Prog) LoopBodyMust2(f *Func, loop ast.Stmt, cut []Edge, pred func(ast.Node) bool) (bool, string) {
	g := p.Graph(f)
	head, body, done := g.LoopBlocks(loop)
	if body == nil {
		return false, "loop body not found in CFG"
	}
	cs := cutSet{}
	for _, e := range cut {
		cs[e] = true
	}
	until := map[*cfgBlock]bool{}
	if head != nil {
		until[head] = true
	}
	if done != nil {
		until[done] = true
	}
	ok, bad := g.MustPass(Point{body, 0}, PassOpts{Cut: cs, Until: until, ExitOK: func(b *cfgBlock) bool { return true }}, pred)
	if ok {
		return true, "every iteration that is not excluded passes the operation"
	}
	where := "?"
	if bad != nil && len(bad.Nodes) > 0 {
		where = p.Pos(bad.Nodes[0])
	}
	return false, "an iteration can skip the operation (path ends at " + where + ")"
}

// pureAlias: the expression denotes the same pointer as a field selection, reached only through
// single-definition locals — no dereference-copy or address-of in between.
func pureAlias(p *Prog, f *Func, e ast.Expr, depth int) bool {
	e = unparen(e)
	switch x := e.(type) {
	case *ast.SelectorExpr:
		return true
	case *ast.Ident:
		if depth > 4 {
			return false
		}
		obj := f.Info().Uses[x]
		if d, ok := p.R(f).SingleDef(obj); ok && d.kind == "assign" && d.rhs != nil && d.idx < 0 {
			return pureAlias(p, f, d.rhs, depth+1)
		}
		return false
	}
	return false
}
