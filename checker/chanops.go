package main

// T8: enumeration and classification of channel operations (AST level).

import (
	"go/ast"
	"go/token"
	"go/types"
	"strings"
)

type ChanOp struct {
	Fn     *Func
	Node   ast.Node // SelectStmt, SendStmt, UnaryExpr(<-), RangeStmt
	Kind   string   // select | send | recv | range
	Chan   *V       // for bare ops
	Class  string   // S1..S6 or ""
	Detail string
}

func isContextType(t types.Type) bool {
	if t == nil {
		return false
	}
	n, ok := t.(*types.Named)
	return ok && n.Obj().Name() == "Context" && n.Obj().Pkg() != nil && n.Obj().Pkg().Path() == "context"
}

// doneArmContext returns the context expression X if the comm clause is `case <-X.Done():`.
func (p *Prog) doneArmContext(f *Func, cc *ast.CommClause) ast.Expr {
	if cc.Comm == nil {
		return nil
	}
	var rx ast.Expr
	switch s := cc.Comm.(type) {
	case *ast.ExprStmt:
		rx = s.X
	case *ast.AssignStmt:
		if len(s.Rhs) == 1 {
			rx = s.Rhs[0]
		}
	}
	u, ok := unparen(rx).(*ast.UnaryExpr)
	if !ok || u.Op != token.ARROW {
		return nil
	}
	call, ok := unparen(u.X).(*ast.CallExpr)
	if !ok || p.CalleeName(f.Info(), call) != "context.Context.Done" {
		return nil
	}
	if se, ok := unparen(call.Fun).(*ast.SelectorExpr); ok {
		return se.X
	}
	return nil
}

// ChanOps enumerates channel operations of the module's non-generated source.
func (p *Prog) ChanOps() []ChanOp {
	var out []ChanOp
	for _, f := range p.All {
		if p.IsGenerated(f.Body) || strings.Contains(f.Pkg.PkgPath, "/internal/") {
			continue
		}
		inSelectComm := map[ast.Node]bool{}
		inspectNoLit(f.Body, func(n ast.Node) bool {
			if cc, ok := n.(*ast.CommClause); ok && cc.Comm != nil {
				ast.Inspect(cc.Comm, func(x ast.Node) bool {
					if x != nil {
						inSelectComm[x] = true
					}
					_, isLit := x.(*ast.FuncLit)
					return !isLit
				})
			}
			return true
		})
		inspectNoLit(f.Body, func(n ast.Node) bool {
			switch x := n.(type) {
			case *ast.SelectStmt:
				out = append(out, ChanOp{Fn: f, Node: x, Kind: "select"})
			case *ast.SendStmt:
				if !inSelectComm[x] {
					out = append(out, ChanOp{Fn: f, Node: x, Kind: "send", Chan: p.R(f).Val(x.Chan)})
				}
			case *ast.UnaryExpr:
				if x.Op == token.ARROW && !inSelectComm[x] {
					out = append(out, ChanOp{Fn: f, Node: x, Kind: "recv", Chan: p.R(f).Val(x.X)})
				}
			case *ast.RangeStmt:
				if t := f.Info().TypeOf(x.X); t != nil {
					if _, isChan := t.Underlying().(*types.Chan); isChan {
						out = append(out, ChanOp{Fn: f, Node: x, Kind: "range", Chan: p.R(f).Val(x.X)})
					}
				}
			}
			return true
		})
	}
	return out
}

// selectInfo describes a select statement.
type selectInfo struct {
	HasDefault bool
	DoneCtx    []ast.Expr // contexts whose Done() is an arm
	Sends      []*ast.SendStmt
	Recvs      []ast.Expr // channel expressions received from (other than Done)
	Clauses    []*ast.CommClause
}

func (p *Prog) selectInfo(f *Func, s *ast.SelectStmt) selectInfo {
	var si selectInfo
	for _, c := range s.Body.List {
		cc := c.(*ast.CommClause)
		si.Clauses = append(si.Clauses, cc)
		if cc.Comm == nil {
			si.HasDefault = true
			continue
		}
		if cx := p.doneArmContext(f, cc); cx != nil {
			si.DoneCtx = append(si.DoneCtx, cx)
			continue
		}
		switch st := cc.Comm.(type) {
		case *ast.SendStmt:
			si.Sends = append(si.Sends, st)
		case *ast.ExprStmt:
			if u, ok := unparen(st.X).(*ast.UnaryExpr); ok && u.Op == token.ARROW {
				si.Recvs = append(si.Recvs, u.X)
			}
		case *ast.AssignStmt:
			if len(st.Rhs) == 1 {
				if u, ok := unparen(st.Rhs[0]).(*ast.UnaryExpr); ok && u.Op == token.ARROW {
					si.Recvs = append(si.Recvs, u.X)
				}
			}
		}
	}
	return si
}

// instanceCtx: the context expression is (derived from) the PubSub instance context.
// Accepted: the field PubSub.ctx / Subscription.ctx; a local defined by context.With*(instanceCtx, ...);
// a context parameter of an unexported function or literal every call site of which passes an instance context.
func (p *Prog) instanceCtx(f *Func, e ast.Expr, depth int) (bool, string) {
	if depth > 5 {
		return false, "context provenance too deep"
	}
	v := p.R(f).Val(e)
	if v == nil {
		return false, "unresolved"
	}
	if v.IsField("PubSub.ctx", "Subscription.ctx") {
		return true, "instance context"
	}
	if v.Kind == "tuple" && v.Name == "0" && (v.Args[0].IsCall("context.WithCancel") || v.Args[0].IsCall("context.WithTimeout") || v.Args[0].IsCall("context.WithDeadline")) {
		if ce, ok := v.Args[0].Node.(*ast.CallExpr); ok {
			return p.instanceCtx(f, ce.Args[0], depth+1)
		}
	}
	// parameter?
	id, ok := unparen(e).(*ast.Ident)
	if !ok {
		return false, "context " + v.String() + " is not the instance context"
	}
	obj := f.Info().Uses[id]
	owner := f
	idx := -1
	for owner != nil {
		if owner.Type.Params != nil {
			i := 0
			for _, fld := range owner.Type.Params.List {
				for _, nm := range fld.Names {
					if owner.Info().Defs[nm] == obj {
						idx = i
					}
					i++
				}
			}
		}
		if idx >= 0 {
			break
		}
		owner = owner.Parent
	}
	if idx < 0 {
		return false, "context " + v.String() + " is not the instance context"
	}
	if owner.Lit != nil {
		// literal invoked in place / with go: argument at the call
		if ce, ok := p.parents[owner.Lit].(*ast.CallExpr); ok && unparen(ce.Fun) == ast.Expr(owner.Lit) && idx < len(ce.Args) && owner.Parent != nil {
			return p.instanceCtx(owner.Parent, ce.Args[idx], depth+1)
		}
		return false, "context parameter of a stored function literal"
	}
	if owner.Obj != nil && owner.Obj.Exported() {
		if sig := owner.Obj.Type().(*types.Signature); sig.Recv() == nil || isExportedRecv(sig.Recv().Type()) {
			return false, "caller-supplied context of exported " + owner.Name
		}
	}
	refs := p.Refs(owner.Name)
	if len(refs) == 0 {
		return false, "context parameter of " + owner.Name + " (no visible callers)"
	}
	for _, r := range refs {
		call := p.callOfRef(r)
		if !r.IsCall || call == nil || idx >= len(call.Args) || r.Fn == nil {
			return false, owner.Name + " is referenced as a value"
		}
		if ok, why := p.instanceCtx(r.Fn, call.Args[idx], depth+1); !ok {
			return false, "caller " + r.Fn.Root().Name + ": " + why
		}
	}
	return true, "context parameter; every caller passes an instance context"
}

func isExportedRecv(t types.Type) bool {
	if pt, ok := t.(*types.Pointer); ok {
		t = pt.Elem()
	}
	if n, ok := t.(*types.Named); ok {
		return n.Obj().Exported()
	}
	return false
}

// makeChanCap returns the capacity expression of the make(chan ...) that defines the channel value, if
// the value resolves to exactly one make call: (isMake, capExprOrNil).
func makeCap(v *V) (bool, *V) {
	v = stripConv(v) // a conversion to a directional channel type is still the same channel
	if v == nil || !v.IsCall("builtin.make") || len(v.Args) == 0 {
		return false, nil
	}
	if len(v.Args) >= 2 {
		return true, v.Args[1]
	}
	return true, nil
}
