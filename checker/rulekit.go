package main

// Helpers shared by the rule files: atoms, call lookup, dominance wrappers.

import (
	"fmt"
	"go/ast"
	"go/token"
	"go/types"
	"golang.org/x/tools/go/cfg"
	"sort"
	"strings"
)

type VPred func(*V) bool

func (p *Prog) R(f *Func) *Resolver {
	if f.res == nil {
		f.res = p.Resolver(f)
	}
	return f.res
}

func anyV(*V) bool { return true }

// paramObj returns the object of the idx-th parameter (flat, in declaration order) of f's outermost
// declared function; rules identify parameters by position, never by name (renaming is not a change).
func paramObj(f *Func, idx int) types.Object {
	r := f.Root()
	if r.Type == nil || r.Type.Params == nil {
		return nil
	}
	i := 0
	for _, fl := range r.Type.Params.List {
		for _, nm := range fl.Names {
			if i == idx {
				return r.Info().Defs[nm]
			}
			i++
		}
		if len(fl.Names) == 0 {
			i++
		}
	}
	return nil
}

// isParam matches a use of the idx-th parameter of f's outermost function.
func isParam(f *Func, idx int) VPred {
	obj := paramObj(f, idx)
	return func(v *V) bool { return v != nil && v.Kind == "var" && obj != nil && v.Obj == obj }
}

// isErrorVar matches a variable of type error.
func isErrorVar(v *V) bool {
	if v == nil || v.Kind != "var" || v.Obj == nil {
		return false
	}
	return types.Identical(v.Obj.Type(), types.Universe.Lookup("error").Type())
}

func isCallTo(names ...string) VPred { return func(v *V) bool { return v.IsCall(names...) } }
func isFieldOf(names ...string) VPred {
	return func(v *V) bool { return v.IsField(names...) }
}
func isConstV(names ...string) VPred { return func(v *V) bool { return v.IsConst(names...) } }
func isNilV(v *V) bool               { return v != nil && v.Kind == "const" && v.Name == "nil" }
func isVarNamed(obj types.Object) VPred {
	return func(v *V) bool { return v != nil && v.Kind == "var" && v.Obj == obj }
}
func orV(ps ...VPred) VPred {
	return func(v *V) bool {
		for _, p := range ps {
			if p(v) {
				return true
			}
		}
		return false
	}
}

// stripConv removes conversions.
func stripConv(v *V) *V {
	for v != nil && v.Kind == "conv" && len(v.Args) == 1 {
		v = v.Args[0]
	}
	return v
}

func flipOp(op string) string {
	switch op {
	case "<":
		return ">"
	case ">":
		return "<"
	case "<=":
		return ">="
	case ">=":
		return "<="
	}
	return op
}
func negOp(op string) string {
	switch op {
	case "<":
		return ">="
	case ">=":
		return "<"
	case ">":
		return "<="
	case "<=":
		return ">"
	case "==":
		return "!="
	case "!=":
		return "=="
	}
	return ""
}

// AtomCmp: the normalised comparison "L op R".
func AtomCmp(desc string, l VPred, op string, r VPred) Atom {
	return Atom{Desc: desc, Match: func(g *Graph, e ast.Expr) (bool, bool) {
		be, ok := unparen(e).(*ast.BinaryExpr)
		if !ok {
			return false, false
		}
		o := be.Op.String()
		if negOp(o) == "" {
			return false, false
		}
		res := g.P.R(g.F)
		x, y := stripConv(res.Val(be.X)), stripConv(res.Val(be.Y))
		if l(x) && r(y) {
			// expression is L o R
		} else if l(y) && r(x) {
			o = flipOp(o)
		} else {
			return false, false
		}
		if o == op {
			return true, true
		}
		if o == negOp(op) {
			return true, false
		}
		return false, false
	}}
}

// AtomBool: a boolean-valued expression recognised by pred (e.g. a call, an ok variable).
func AtomBool(desc string, pred VPred) Atom {
	return Atom{Desc: desc, Match: func(g *Graph, e ast.Expr) (bool, bool) {
		v := g.P.R(g.F).Val(e)
		if pred(v) {
			return true, true
		}
		return false, false
	}}
}

// AtomLookupOK: "key present in map" where the map value satisfies mpred.
func AtomLookupOK(desc string, mpred VPred, kpred VPred) Atom {
	return AtomBool(desc, func(v *V) bool {
		return v != nil && v.Kind == "lookupok" && mpred(v.Args[0]) && (kpred == nil || kpred(v.Args[1]))
	})
}

// AtomNil: "X == nil".
func AtomNil(desc string, x VPred) Atom {
	return AtomCmp(desc, x, "==", isNilV)
}

// Sites returns call sites in f (deep = including nested literals) whose callee is one of names.
func (p *Prog) Sites(f *Func, deep bool, names ...string) []CallSite {
	var out []CallSite
	for _, c := range p.FuncCalls(f, deep) {
		for _, n := range names {
			if c.Name == n {
				out = append(out, c)
			}
		}
	}
	return out
}

// AllSites returns every call site in the module (generated files excluded) calling one of names.
func (p *Prog) AllSites(names ...string) []CallSite {
	var out []CallSite
	for _, f := range p.All {
		if f.Parent != nil {
			continue
		}
		if p.IsGenerated(f.Body) {
			continue
		}
		out = append(out, p.Sites(f, true, names...)...)
	}
	return out
}

// Refs returns every identifier in the module that refers to function object name
// (calls and method values alike), with the enclosing function.
type Ref struct {
	Id     *ast.Ident
	Fn     *Func
	IsCall bool
}

func (p *Prog) Refs(name string) []Ref {
	if p.refs == nil {
		p.refs = map[string][]Ref{}
		for _, pk := range p.Pkgs {
			for id, obj := range pk.TypesInfo.Uses {
				fn, ok := obj.(*types.Func)
				if !ok {
					continue
				}
				if p.IsGenerated(id) {
					continue
				}
				nm := FuncName(fn, modPath)
				ef := p.EnclosingFunc(id)
				isCall := false
				// parent chain: Ident -> (SelectorExpr) -> CallExpr.Fun
				var n ast.Node = id
				par := p.parents[n]
				if se, ok := par.(*ast.SelectorExpr); ok && se.Sel == id {
					n = se
					par = p.parents[n]
				}
				if ix, ok := par.(*ast.IndexExpr); ok && ix.X == n { // generic instantiation f[T](...)
					n = ix
					par = p.parents[n]
				}
				if ce, ok := par.(*ast.CallExpr); ok && unparen(ce.Fun) == n {
					isCall = true
				}
				p.refs[nm] = append(p.refs[nm], Ref{id, ef, isCall})
			}
		}
		for k := range p.refs {
			out := p.refs[k]
			sort.Slice(out, func(i, j int) bool { return out[i].Id.Pos() < out[j].Id.Pos() })
		}
	}
	return p.refs[name]
}

// CallerNames lists root-function names that reference name.
func (p *Prog) CallerNames(name string) []string {
	set := map[string]bool{}
	for _, r := range p.Refs(name) {
		if r.Fn != nil {
			set[r.Fn.Root().Name] = true
		} else {
			set["<package level>"] = true
		}
	}
	var out []string
	for k := range set {
		out = append(out, k)
	}
	sort.Strings(out)
	return out
}

// DomAtom: target (a node inside f) is dominated by atom==want.
func (p *Prog) DomAtom(f *Func, target ast.Node, a Atom, want bool) (bool, string) {
	g := p.Graph(f)
	pt, ok := g.Locate(target)
	if !ok {
		return false, "target not located in CFG"
	}
	edges := g.AtomEdges(a, want)
	if len(edges) == 0 {
		return false, fmt.Sprintf("no branch in %s tests %q", f.Name, a.Desc)
	}
	if g.Dominated(pt, edges) {
		return true, fmt.Sprintf("every path to the target takes an edge on which %q is %v (%d such edge(s))", a.Desc, want, len(edges))
	}
	return false, fmt.Sprintf("a path reaches the target without establishing %q == %v", a.Desc, want)
}

// DomAnyAtom: every path to target takes an edge establishing one of the (atom,want) pairs.
type AtomWant struct {
	A    Atom
	Want bool
}

func (p *Prog) DomAny(f *Func, target ast.Node, aws ...AtomWant) (bool, string) {
	g := p.Graph(f)
	pt, ok := g.Locate(target)
	if !ok {
		return false, "target not located in CFG"
	}
	var edges []Edge
	var descs []string
	for _, aw := range aws {
		edges = append(edges, g.AtomEdges(aw.A, aw.Want)...)
		descs = append(descs, fmt.Sprintf("%s=%v", aw.A.Desc, aw.Want))
	}
	if len(aws) > 1 {
		edges = append(edges, g.EdgesEntailing(aws...)...) // edges establishing the disjunction as a whole
	}
	d := strings.Join(descs, " | ")
	if len(edges) == 0 {
		return false, "no branch tests " + d
	}
	if g.Dominated(pt, edges) {
		return true, "every path takes an edge establishing " + d
	}
	return false, "a path reaches the target without establishing " + d
}

// DomCall: target is dominated by a call to one of names (in the same function).
func (p *Prog) DomCall(f *Func, target ast.Node, names ...string) bool {
	g := p.Graph(f)
	pt, ok := g.Locate(target)
	if !ok {
		return false
	}
	return g.DominatedByNode(pt, func(n ast.Node) bool { return p.NodeCalls(f, n, names...) })
}

// MustCallAfter: every path from just after 'from' to a normal exit calls one of names.
func (p *Prog) MustCallAfter(f *Func, from ast.Node, names ...string) (bool, string) {
	g := p.Graph(f)
	pt, ok := g.Locate(from)
	if !ok {
		return false, "start not located"
	}
	ok2, bad := g.MustPass(pt.After(), PassOpts{}, func(n ast.Node) bool { return p.NodeCalls(f, n, names...) })
	if ok2 {
		return true, "every path from the site to an exit calls " + strings.Join(names, "/")
	}
	where := "function end"
	if bad != nil && len(bad.Nodes) > 0 {
		where = p.Pos(bad.Nodes[len(bad.Nodes)-1])
	}
	return false, "a path reaches the exit at " + where + " without calling " + strings.Join(names, "/")
}

// MustCallFromEntry: every path entry->exit calls one of names.
func (p *Prog) MustCallFromEntry(f *Func, names ...string) (bool, string) {
	g := p.Graph(f)
	ok2, bad := g.MustPass(g.Entry(), PassOpts{}, func(n ast.Node) bool { return p.NodeCalls(f, n, names...) })
	if ok2 {
		return true, "every path from entry to an exit calls " + strings.Join(names, "/")
	}
	where := "function end"
	if bad != nil && len(bad.Nodes) > 0 {
		where = p.Pos(bad.Nodes[len(bad.Nodes)-1])
	}
	return false, "a path reaches the exit at " + where + " without calling " + strings.Join(names, "/")
}

// EnclosingLoops returns the loop statements (innermost first) enclosing n within its function.
func (p *Prog) EnclosingLoops(n ast.Node) []ast.Stmt {
	var out []ast.Stmt
	for x := p.parents[n]; x != nil; x = p.parents[x] {
		switch s := x.(type) {
		case *ast.RangeStmt:
			out = append(out, s)
		case *ast.ForStmt:
			out = append(out, s)
		case *ast.FuncLit, *ast.FuncDecl:
			return out
		}
	}
	return out
}

// Enclosing returns the nearest ancestor of n satisfying pred (stopping at function boundaries when stopAtFunc).
func (p *Prog) Enclosing(n ast.Node, pred func(ast.Node) bool, stopAtFunc bool) ast.Node {
	for x := p.parents[n]; x != nil; x = p.parents[x] {
		if pred(x) {
			return x
		}
		if stopAtFunc {
			switch x.(type) {
			case *ast.FuncLit, *ast.FuncDecl:
				return nil
			}
		}
	}
	return nil
}

// Stmts walks statements in n (not crossing function literals).
func inspectNoLit(n ast.Node, f func(ast.Node) bool) {
	ast.Inspect(n, func(x ast.Node) bool {
		if x == nil {
			return false
		}
		if _, ok := x.(*ast.FuncLit); ok && x != n {
			return false
		}
		return f(x)
	})
}

// FieldStores lists assignments/inc-dec/delete whose target is field "Struct.field"
// (directly, or an element of it: x.f[k] = v, delete(x.f, k), x.f[k]++).
type Store struct {
	Node  ast.Node // the statement / call
	Fn    *Func
	Kind  string // assign | elem-assign | delete | incdec | opassign | elem-opassign | elem-incdec
	Field string
	LHS   ast.Expr
	RHS   ast.Expr
	Key   ast.Expr
	Tok   token.Token
}

func (p *Prog) storesIn(f *Func, out *[]Store) {
	res := p.R(f)
	rec := func(kind string, lhs, rhs ast.Expr, node ast.Node, tok token.Token) {
		l := unparen(lhs)
		var key ast.Expr
		elem := false
		if ix, ok := l.(*ast.IndexExpr); ok {
			l = unparen(ix.X)
			key = ix.Index
			elem = true
		}
		if st, ok := l.(*ast.StarExpr); ok {
			l = unparen(st.X)
		}
		if _, isSel := l.(*ast.SelectorExpr); !isSel {
			return // stores to locals are not field stores (a local may merely hold a field's value)
		}
		v := res.Val(l)
		if v.Kind != "field" {
			return
		}
		k := kind
		if elem {
			k = "elem-" + kind
		}
		*out = append(*out, Store{Node: node, Fn: f, Kind: k, Field: v.Name, LHS: lhs, RHS: rhs, Key: key, Tok: tok})
	}
	inspectNoLit(f.Body, func(n ast.Node) bool {
		switch s := n.(type) {
		case *ast.AssignStmt:
			for i, l := range s.Lhs {
				var r ast.Expr
				if len(s.Rhs) == len(s.Lhs) {
					r = s.Rhs[i]
				} else if len(s.Rhs) == 1 {
					r = s.Rhs[0]
				}
				kind := "assign"
				if s.Tok != token.ASSIGN && s.Tok != token.DEFINE {
					kind = "opassign"
				}
				rec(kind, l, r, s, s.Tok)
			}
		case *ast.IncDecStmt:
			rec("incdec", s.X, nil, s, s.Tok)
		case *ast.CallExpr:
			if id, ok := s.Fun.(*ast.Ident); ok && len(s.Args) == 2 {
				if b, ok := f.Info().Uses[id].(*types.Builtin); ok && b.Name() == "delete" {
					v := res.Val(s.Args[0])
					if v.Kind == "field" {
						*out = append(*out, Store{Node: s, Fn: f, Kind: "delete", Field: v.Name, LHS: s.Args[0], Key: s.Args[1]})
					}
				}
			}
		}
		return true
	})
}

// AllStores returns every store in module source (generated files excluded).
func (p *Prog) AllStores() []Store {
	if p.stores != nil {
		return p.stores
	}
	var out []Store
	for _, f := range p.All {
		if p.IsGenerated(f.Body) {
			continue
		}
		p.storesIn(f, &out)
	}
	p.stores = out
	return out
}

func (p *Prog) StoresTo(field string) []Store {
	var out []Store
	for _, s := range p.AllStores() {
		if s.Field == field {
			out = append(out, s)
		}
	}
	return out
}

func rootNames(ss []Store) []string {
	set := map[string]bool{}
	for _, s := range ss {
		set[s.Fn.Root().Name] = true
	}
	var out []string
	for k := range set {
		out = append(out, k)
	}
	sort.Strings(out)
	return out
}

func inSet(s string, set ...string) bool {
	for _, x := range set {
		if s == x {
			return true
		}
	}
	return false
}

func subset(xs []string, allowed ...string) (bool, []string) {
	var extra []string
	for _, x := range xs {
		if !inSet(x, allowed...) {
			extra = append(extra, x)
		}
	}
	return len(extra) == 0, extra
}

// DomDeep: like DomAny, but when the target lies in a function literal nested
// in f the guard may sit at any level: in the literal, or — with the literal's
// creation site as the target — in an enclosing function up to f.
func (p *Prog) DomDeep(f *Func, target ast.Node, aws ...AtomWant) (bool, string) {
	cur := p.EnclosingFunc(target)
	t := target
	last := ""
	for cur != nil {
		ok, why := p.DomAny(cur, t, aws...)
		if ok {
			return true, why + " (in " + cur.Name + ")"
		}
		last = why
		if cur == f || cur.Lit == nil {
			break
		}
		t = cur.Lit
		cur = cur.Parent
	}
	return false, last
}

// SendSites lists channel sends whose channel operand is field "Struct.field".
type SendSite struct {
	Stmt *ast.SendStmt
	Fn   *Func
}

func (p *Prog) SendsOn(field string) []SendSite {
	var out []SendSite
	for _, f := range p.All {
		if p.IsGenerated(f.Body) {
			continue
		}
		inspectNoLit(f.Body, func(n ast.Node) bool {
			if s, ok := n.(*ast.SendStmt); ok {
				if v := p.R(f).Val(s.Chan); v.IsField(field) {
					out = append(out, SendSite{s, f})
				}
			}
			return true
		})
	}
	return out
}

// RangeOver returns range statements in f whose operand satisfies pred.
func (p *Prog) RangesOver(f *Func, pred VPred) []*ast.RangeStmt {
	var out []*ast.RangeStmt
	inspectNoLit(f.Body, func(n ast.Node) bool {
		if r, ok := n.(*ast.RangeStmt); ok && pred(p.R(f).Val(r.X)) {
			out = append(out, r)
		}
		return true
	})
	return out
}

func within(n, outer ast.Node) bool {
	return outer != nil && n.Pos() >= outer.Pos() && n.End() <= outer.End()
}

// LoopBodyMust: the loop has no early exit and every path through one iteration
// of its body (not following cut edges) passes a node satisfying pred.
func (p *Prog) LoopBodyMust(f *Func, loop ast.Stmt, cut []Edge, pred func(ast.Node) bool) (bool, string) {
	if early, n := LoopHasEarlyExit(loop); early {
		return false, "the loop can be left early at " + p.Pos(n)
	}
	g := p.Graph(f)
	head, body, done := g.LoopBlocks(loop)
	if body == nil {
		return false, "loop body not found in CFG"
	}
	cs := cutSet{}
	for _, e := range cut {
		cs[e] = true
	}
	until := map[*cfg.Block]bool{}
	if head != nil {
		until[head] = true
	}
	if done != nil {
		until[done] = true
	}
	// a `for {}` loop's head is its body: crossing it again means a new iteration
	ok, bad := g.MustPass(Point{body, 0}, PassOpts{Cut: cs, Until: until}, pred)
	if ok {
		return true, "every iteration passes the required operation and the loop has no early exit"
	}
	where := "?"
	if bad != nil {
		if len(bad.Nodes) > 0 {
			where = p.Pos(bad.Nodes[0])
		} else if bad.Stmt != nil {
			where = p.Pos(bad.Stmt)
		}
	}
	return false, "an iteration can complete without the required operation (path ends at " + where + ")"
}

func (p *Prog) callPred(f *Func, names ...string) func(ast.Node) bool {
	return func(n ast.Node) bool { return p.NodeCalls(f, n, names...) }
}

// AliasingAppends lists append calls whose first operand is (an alias of) a struct
// field while the result is not stored back into that same field: with spare
// capacity such an append writes into the shared backing array.
type AliasAppend struct {
	Call  *ast.CallExpr
	Fn    *Func
	Field string
}

func (p *Prog) AliasingAppends() []AliasAppend {
	var out []AliasAppend
	for _, f := range p.All {
		if p.IsGenerated(f.Body) {
			continue
		}
		inspectNoLit(f.Body, func(n ast.Node) bool {
			ce, ok := n.(*ast.CallExpr)
			if !ok || len(ce.Args) < 1 || p.CalleeName(f.Info(), ce) != "builtin.append" {
				return true
			}
			v := p.R(f).Val(ce.Args[0])
			if v.Kind != "field" {
				return true
			}
			// stored back into the same field?
			if as, ok := p.parents[ce].(*ast.AssignStmt); ok && len(as.Lhs) == 1 {
				if lv := p.R(f).Val(as.Lhs[0]); lv.Kind == "field" && lv.String() == v.String() {
					if _, direct := unparen(as.Lhs[0]).(*ast.SelectorExpr); direct {
						return true
					}
				}
			}
			out = append(out, AliasAppend{ce, f, v.Name})
			return true
		})
	}
	return out
}

// EffectPred builds a node predicate for "this CFG node performs the effect": the node contains a call
// for which direct holds, or a call to a private module function every path of which performs the effect
// (summarised recursively, depth <= 3). Rules stated with it do not care whether an effect sits in the
// function itself or in a thin helper (sendPrune present or inlined into Leave).
func (p *Prog) EffectPred(f *Func, direct func(fn *Func, cs CallSite) bool) func(ast.Node) bool {
	memo := map[*Func]int{} // 0 unknown, 1 in progress, 2 yes, 3 no
	var always func(h *Func, depth int) bool
	var pred func(fn *Func, depth int) func(ast.Node) bool
	pred = func(fn *Func, depth int) func(ast.Node) bool {
		return func(n ast.Node) bool {
			if _, isDefer := n.(*ast.DeferStmt); isDefer {
				return false
			}
			if _, isGo := n.(*ast.GoStmt); isGo {
				return false
			}
			for _, cs := range p.CallsIn(fn, n, false) {
				if direct(fn, cs) {
					return true
				}
				if depth > 0 {
					if h := p.Funcs[cs.Name]; h != nil && h.Decl != nil && h != fn && always(h, depth-1) {
						return true
					}
				}
			}
			return false
		}
	}
	always = func(h *Func, depth int) bool {
		switch memo[h] {
		case 1:
			return false
		case 2:
			return true
		case 3:
			return false
		}
		memo[h] = 1
		g := p.Graph(h)
		ok, _ := g.MustPass(g.Entry(), PassOpts{}, pred(h, depth))
		if ok {
			memo[h] = 2
		} else {
			memo[h] = 3
		}
		return ok
	}
	return pred(f, 3)
}

// LoopsOver returns the loops of f that visit every element of a collection whose canonical value satisfies
// pred: `for … := range X` and the classic index loop `for i := 0; i < len(X); i++` alike.
func (p *Prog) LoopsOver(f *Func, pred VPred) []ast.Stmt {
	var out []ast.Stmt
	res := p.R(f)
	inspectNoLit(f.Body, func(n ast.Node) bool {
		switch l := n.(type) {
		case *ast.RangeStmt:
			if pred(res.Val(l.X)) {
				out = append(out, l)
			}
		case *ast.ForStmt:
			be, ok := l.Cond.(*ast.BinaryExpr)
			if !ok || l.Init == nil || l.Post == nil {
				return true
			}
			inc, ok := l.Post.(*ast.IncDecStmt)
			if !ok || inc.Tok != token.INC {
				return true
			}
			init, ok := l.Init.(*ast.AssignStmt)
			if !ok || len(init.Lhs) != 1 || len(init.Rhs) != 1 || !res.Val(init.Rhs[0]).IsConst("0") {
				return true
			}
			iv, _ := unparen(init.Lhs[0]).(*ast.Ident)
			cv, _ := unparen(inc.X).(*ast.Ident)
			if iv == nil || cv == nil || f.Info().ObjectOf(iv) != f.Info().ObjectOf(cv) {
				return true
			}
			var idx, bound ast.Expr
			switch be.Op {
			case token.LSS:
				idx, bound = be.X, be.Y
			case token.GTR:
				idx, bound = be.Y, be.X
			default:
				return true
			}
			if id, ok := unparen(idx).(*ast.Ident); !ok || f.Info().ObjectOf(id) != f.Info().ObjectOf(iv) {
				return true
			}
			if call, ok := unparen(bound).(*ast.CallExpr); ok && p.CalleeName(f.Info(), call) == "builtin.len" && len(call.Args) == 1 && pred(res.Val(call.Args[0])) {
				out = append(out, l)
			}
		}
		return true
	})
	return out
}

// YieldSites returns the calls in iterator literal lit that hand an element to the consumer: calls of the
// literal's (single) function-typed parameter, whatever it is called, and calls of a local function value
// whose body calls that parameter (a filtering wrapper such as `yield := func(r RPC) bool { return r.Size() == 0 || yieldRPC(r) }`).
func (p *Prog) YieldSites(lit *Func) []CallSite {
	var consumer types.Object
	if lit.Type != nil && lit.Type.Params != nil {
		for _, fl := range lit.Type.Params.List {
			for _, nm := range fl.Names {
				if o := lit.Info().Defs[nm]; o != nil {
					if _, isFn := o.Type().Underlying().(*types.Signature); isFn {
						consumer = o
					}
				}
			}
		}
	}
	if consumer == nil {
		return nil
	}
	calleeObj := func(f *Func, ce *ast.CallExpr) types.Object {
		if id, ok := unparen(ce.Fun).(*ast.Ident); ok {
			return f.Info().Uses[id]
		}
		return nil
	}
	// wrappers: locals of lit defined once as a function literal that calls the consumer
	wrappers := map[types.Object]bool{}
	for _, ch := range lit.Children {
		as, ok := p.parents[ch.Lit].(*ast.AssignStmt)
		if !ok || len(as.Lhs) != 1 || len(as.Rhs) != 1 || unparen(as.Rhs[0]) != ast.Expr(ch.Lit) {
			continue
		}
		id, ok := as.Lhs[0].(*ast.Ident)
		if !ok {
			continue
		}
		obj := lit.Info().Defs[id]
		if obj == nil {
			continue
		}
		if d, single := p.R(lit).SingleDef(obj); !single || d.rhs == nil {
			continue
		}
		for _, cs := range p.FuncCalls(ch, false) {
			if calleeObj(ch, cs.Call) == consumer {
				wrappers[obj] = true
			}
		}
	}
	var out []CallSite
	for _, cs := range p.FuncCalls(lit, false) {
		o := calleeObj(lit, cs.Call)
		if o != nil && (o == consumer && len(wrappers) == 0 || wrappers[o]) {
			out = append(out, cs)
		}
	}
	return out
}

// ConsumerCalls returns the direct calls of the iterator's consumer parameter, in lit and in its wrappers.
func (p *Prog) ConsumerCalls(lit *Func) []CallSite {
	var consumer types.Object
	if lit.Type != nil && lit.Type.Params != nil {
		for _, fl := range lit.Type.Params.List {
			for _, nm := range fl.Names {
				if o := lit.Info().Defs[nm]; o != nil {
					if _, isFn := o.Type().Underlying().(*types.Signature); isFn {
						consumer = o
					}
				}
			}
		}
	}
	var out []CallSite
	var walk func(f *Func)
	walk = func(f *Func) {
		for _, cs := range p.FuncCalls(f, false) {
			if id, ok := unparen(cs.Call.Fun).(*ast.Ident); ok && consumer != nil && f.Info().Uses[id] == consumer {
				out = append(out, cs)
			}
		}
		for _, ch := range f.Children {
			walk(ch)
		}
	}
	walk(lit)
	return out
}

// isYieldCall matches the canonical value of a call that is one of the given yield sites.
func isYieldCall(sites []CallSite) VPred {
	return func(v *V) bool {
		if v == nil || v.Kind != "call" {
			return false
		}
		for _, s := range sites {
			if v.Node == ast.Node(s.Call) {
				return true
			}
		}
		return false
	}
}

// StructFloatFields lists "Owner.Field" for every float64 field of the named struct type of the main package.
func (p *Prog) StructFloatFields(owner string) []string {
	var out []string
	o := p.Main.Types.Scope().Lookup(owner)
	if o == nil {
		return nil
	}
	st, ok := o.Type().Underlying().(*types.Struct)
	if !ok {
		return nil
	}
	for i := 0; i < st.NumFields(); i++ {
		f := st.Field(i)
		if b, ok := f.Type().Underlying().(*types.Basic); ok && b.Kind() == types.Float64 {
			out = append(out, owner+"."+f.Name())
		}
	}
	return out
}
