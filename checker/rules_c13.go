package main

import (
	"go/ast"
	"go/token"
	"go/types"
	"sort"
	"strings"
)

// isBoolLocal: id names a local boolean variable of f (not a parameter).
func isBoolLocal(f *Func, id *ast.Ident) bool {
	obj, _ := f.Info().Uses[id].(*types.Var)
	if obj == nil || obj.IsField() {
		return false
	}
	b, ok := obj.Type().Underlying().(*types.Basic)
	if !ok || b.Kind() != types.Bool {
		return false
	}
	for i := 0; paramObj(f, i) != nil; i++ {
		if paramObj(f, i) == obj {
			return false
		}
	}
	return true
}

func init() {
	register(&Property{ID: "C13", Run: runC13,
		Explain: "Per-peer state reclamation decided as an inventory with obligations: (R13.1) every struct field of the module that is a map keyed by peer.ID (directly or as the inner map of a map keyed by topic/message/IP) is enumerated from the type information on every run; each needs a reclaim site (delete of the key / of the inner entry, or replacement of the map) that is reachable in the VTA call graph from a departure root (handleDeadPeers, onClosedIncomingStream, the stream handler's deferred cleanup, the blacklist arm's callees), a periodic root (heartbeat, scorer/gater/backoff/time-cache background loops), a completion root (DeliverMessage/RejectMessage fan-out, for message-scoped maps) or its consumer (pending/queue-like maps); a new per-peer field without one fails; named exemptions: direct peers (operator configuration), blacklist state (policy); (R13.2) guard symmetry: the feature(...) guards required on every call path to a reclaimer are a subset of those on the paths to every creator of the same field (otherwise entries created for some protocol versions are never reclaimed); (R13.3) entries are created only for peers that can be reclaimed: the pending-control buffer is written only behind a successful lookup of the peer's queue, and mesh admission requires gs.peers membership (shared R07.5, known finding F8); (R13.4) protection pairing: every removal of a peer from a mesh map reaches tracer.Prune or tagTracer.untagMeshPeer for that topic (connection-manager protection released), the tag tracer's Graft/Prune map to Protect/Unprotect with the same tag; (R13.5) stream bookkeeping: the stream handler's deferred cleanup removes its inboundStreams entry when it is the current one and reports the closed stream iff it reported the new one; the extension state's closed-stream handlers delete their entries; router/scorer/gater departure handlers (shared R07.5, R10.4, R05.6) remove the peer; (R13.6) the gater deletes a peer's entry whenever its outbound stream closed, independently of the connection count it shares with other peers behind the same IP. (R13.7) every RejectMessage after ValidateMessage uses a reason on which tagTracer.RejectMessage releases the near-first entry. (R13.8) releasing partial-message peer state is not behind conditions on the handshake maps or the feature table. (R13.9) a stream attempt always answers the event loop with the stream or the failure, except on shutdown. NOT decided: that retention periods elapse and sweeps run (timing); entries re-created by late validation callbacks after departure.",
		Assume:  []string{"VTA call graph over-approximates calls through stored function values", "roots are invoked by the event loop / their goroutines as analysed under C05/C14"},
		Mutants: []Mutant{
			{Name: "reopen-gives-up-silently", File: "comm.go", Old: "\tcase <-time.After(backoff):\n\t\tp.handleNewPeer(ctx, pid, outgoing)\n", New: "\tcase <-time.After(backoff):\n\t\tif p.host.Network().Connectedness(pid) != network.Connected {\n\t\t\treturn\n\t\t}\n\t\tp.handleNewPeer(ctx, pid, outgoing)\n", Expect: "R13.9"},
			{Name: "partial-release-behind-handshake", File: "extensions.go", Old: "\tif es.myExtensions.PartialMessages {\n\t\tes.partialMessagesExtension.OnClosedOutboundStream(id)", New: "\tif es.myExtensions.PartialMessages && es.peerExtensions[id].PartialMessages {\n\t\tes.partialMessagesExtension.OnClosedOutboundStream(id)", Expect: "R13.8"},
			{Name: "partial-release-behind-feature", File: "gossipsub.go", Old: "\tgs.extensions.OnClosedOutboundStream(p)\n\tdelete(gs.peers, p)", New: "\tif gs.feature(GossipSubFeatureExtensions, gs.peers[p]) {\n\t\tgs.extensions.OnClosedOutboundStream(p)\n\t}\n\tdelete(gs.peers, p)", Expect: "R13.8"},
			{Name: "post-validation-drop-keeps-nearfirst", File: "pubsub.go", Old: "\t\t\t\tp.logger.Debug(\"dropping validated message from blacklisted peer\", \"peer\", msg.ReceivedFrom)\n\t\t\t\tp.tracer.RejectMessage(msg, RejectValidationIgnored)\n", New: "\t\t\t\tp.logger.Debug(\"dropping validated message from blacklisted peer\", \"peer\", msg.ReceivedFrom)\n\t\t\t\tp.tracer.RejectMessage(msg, RejectBlacklstedPeer)\n", Expect: "R13.7"},
			{Name: "tagtracer-ignores-ignored", File: "tag_tracer.go", Old: "\tcase RejectValidationIgnored:\n\t\tfallthrough\n", New: "", Expect: "R13.7"},
			{Name: "closed-stream-keeps-control-buffer", File: "gossipsub.go", Old: "\tdelete(gs.gossip, p)\n\tdelete(gs.control, p)\n\tdelete(gs.outbound, p)", New: "\tdelete(gs.gossip, p)\n\tdelete(gs.outbound, p)", Expect: "R13.5"},
			{Name: "gater-stats-never-removed", File: "peer_gater.go", Old: "\tif outbound || st.connected == 0 {\n\t\tdelete(pg.peerStats, p)\n\t}", New: "\t_ = outbound", Expect: "R13.1"},
			{Name: "extension-reclaim-feature-guarded", File: "gossipsub.go", Old: "\tgs.extensions.OnClosedIncomingStream(pid, proto)\n}", New: "\tif gs.feature(GossipSubFeatureExtensions, proto) {\n\t\tgs.extensions.OnClosedIncomingStream(pid, proto)\n\t}\n}", Expect: "R13.2"},
			{Name: "drop-stashes-control-for-unknown-peer", File: "gossipsub.go", Old: "\tq, ok := gs.p.peers[p]\n\tif !ok {\n\t\treturn\n\t}\n\n\t// If we're below the max message size, go ahead and send", New: "\tq, ok := gs.p.peers[p]\n\tif !ok {\n\t\tgs.doDropRPC(out, p, \"no outbound queue\")\n\t\treturn\n\t}\n\n\t// If we're below the max message size, go ahead and send", Expect: "R13.3"},
			{Name: "gater-delete-only-at-zero", File: "peer_gater.go", Old: "\tif outbound || st.connected == 0 {\n\t\tdelete(pg.peerStats, p)", New: "\tif st.connected == 0 {\n\t\tdelete(pg.peerStats, p)", Expect: "R13.6"},
			{Name: "closed-stream-no-untag", File: "gossipsub.go", Old: "\t\t\tdelete(peers, p)\n\t\t\tgs.tagTracer.untagMeshPeer(p, topic)\n", New: "\t\t\tdelete(peers, p)\n\t\t\t_ = topic\n", Expect: "R13.4"},
			{Name: "tagtracer-prune-protects", File: "tag_tracer.go", Old: "func (t *tagTracer) untagMeshPeer(p peer.ID, topic string) {\n\ttag := topicTag(topic)\n\tt.cmgr.Unprotect(p, tag)", New: "func (t *tagTracer) untagMeshPeer(p peer.ID, topic string) {\n\ttag := topic\n\tt.cmgr.Unprotect(p, tag)", Expect: "R13.4"},
			{Name: "stream-cleanup-always-deletes", File: "comm.go", Old: "\t\tif p.inboundStreams[peer].s == s {\n\t\t\tdelete(p.inboundStreams, peer)\n\t\t}", New: "\t\tif p.inboundStreams[peer].s == s && sentNewStream {\n\t\t\tdelete(p.inboundStreams, peer)\n\t\t}", Expect: "R13.5"},
			{Name: "closed-event-not-sent", File: "comm.go", Old: "\t\tif sentNewStream {\n\t\t\tselect {\n\t\t\tcase p.incoming <- incomingUnion{kind: incomingKindClosedStream, s: s}:", New: "\t\tif sentNewStream && len(p.inboundStreams) > 0 {\n\t\t\tselect {\n\t\t\tcase p.incoming <- incomingUnion{kind: incomingKindClosedStream, s: s}:", Expect: "R13.5"},
			{Name: "extension-sent-state-kept", File: "extensions.go", Old: "\tdelete(es.sentExtensions, id)\n\tif len(es.sentExtensions) == 0 {", New: "\tif len(es.sentExtensions) == 0 {", Expect: "R13.5"},
		}})
}

var perPeerExempt = map[string]string{
	"GossipSubRouter.direct": "operator configuration (AddDirectPeer/RemoveDirectPeer), not connection state",
}

func runC13(c *RuleCtx) {
	p := c.P
	fields := p.PerPeerFields()
	if len(fields) < 30 {
		c.Undecided("R13.1", "per-peer fields", "inventory", nil, "fewer per-peer map fields than known ("+itoa(len(fields))+")")
	}
	departure := []string{"(*PubSub).handleDeadPeers", "(*PubSub).onClosedIncomingStream", "(*PubSub).handleNewStream", "(*PubSub).clearPeerFromTopicsState"}
	periodic := []string{fnHeartbeat, "(*peerScore).background", "(*peerGater).background", "(*backoff).cleanupLoop", "timecache.background"}
	completion := []string{"(*pubsubTracer).DeliverMessage", "(*pubsubTracer).RejectMessage"}
	consumers := []string{"(*PubSub).handlePendingPeers", "(*PubSub).handleDeadPeers", "(*TopicEventHandler).NextPeerEvent"}
	// routers' departure hooks are called from handleDeadPeers through the interface; VTA resolves them
	reachDep := p.ReachFrom(departure...)
	reachPer := p.ReachFrom(periodic...)
	reachCom := p.ReachFrom(completion...)
	reachCon := p.ReachFrom(consumers...)
	c.Note = append(c.Note, "call-graph cones: departure="+itoa(len(reachDep))+" periodic="+itoa(len(reachPer))+" completion="+itoa(len(reachCom))+" consumer="+itoa(len(reachCon))+" functions")
	type site struct {
		fn   *Func
		node ast.Node
		kind string
	}
	reclaimers := map[string][]site{}
	creators := map[string][]site{}
	for _, f := range p.All {
		if p.IsGenerated(f.Body) {
			continue
		}
		fieldOf := func(e ast.Expr) (string, bool) {
			v := p.R(f).Val(e)
			if v == nil {
				return "", false
			}
			if v.Kind == "field" {
				return v.Name, false
			}
			if (v.Kind == "index" || v.Kind == "lookupval" || v.Kind == "rangeval") && v.Args[0].Kind == "field" {
				return v.Args[0].Name, true
			}
			if v.Kind == "var" && v.Obj != nil {
				for _, d := range p.R(f).Defs(v.Obj) {
					if d.kind == "assign" && d.rhs != nil {
						if dv := p.R(f).Val(d.rhs); (dv.Kind == "index" || dv.Kind == "lookupval") && dv.Args[0].Kind == "field" {
							return dv.Args[0].Name, true
						}
					}
				}
			}
			return "", false
		}
		for _, d := range p.mapDeletes(f) {
			if fn, _ := fieldOf(d.Map); fn != "" {
				reclaimers[fn] = append(reclaimers[fn], site{f, d.Call, "delete"})
			}
		}
		for _, mi := range p.mapInserts(f) {
			if fn, _ := fieldOf(mi.Map); fn != "" {
				creators[fn] = append(creators[fn], site{f, mi.Stmt, "insert"})
			}
		}
	}
	for _, s := range p.AllStores() {
		if s.Kind == "assign" {
			root := s.Fn.Root().Name
			if strings.HasPrefix(root, "New") || strings.HasPrefix(root, "new") || strings.HasPrefix(root, "Default") {
				continue
			}
			if se, ok := unparen(s.LHS).(*ast.SelectorExpr); ok && p.accessOnFreshObject(FieldAccess{Sel: se, Fn: s.Fn}) {
				continue
			}
			reclaimers[s.Field] = append(reclaimers[s.Field], site{s.Fn, s.Node, "replace"})
		}
	}
	for _, fld := range fields {
		if why, ok := perPeerExempt[fld.Name]; ok {
			c.OK("R13.1", fld.Name, "reclaimed", nil, "exempt: "+why)
			continue
		}
		var found []string
		for _, r := range reclaimers[fld.Name] {
			switch {
			case reachDep[r.fn]:
				found = append(found, "departure:"+r.fn.Root().Name)
			case reachPer[r.fn]:
				found = append(found, "periodic:"+r.fn.Root().Name)
			case reachCom[r.fn]:
				found = append(found, "completion:"+r.fn.Root().Name)
			case reachCon[r.fn]:
				found = append(found, "consumer:"+r.fn.Root().Name)
			}
		}
		sort.Strings(found)
		found = uniq(found)
		c.Check(len(found) > 0, "R13.1", fld.Name, "reclaimed", nil, strings.Join(found, ", "), "the per-peer map "+fld.Name+" has no delete/replace site reachable from a departure, periodic, completion or consumer root: entries for departed peers are never reclaimed")
	}
	// ---------- R13.2 guard symmetry on feature(...) tests
	{
		gq := &guardQuery{p: p, memo: map[*Func]map[string]bool{}, busy: map[*Func]bool{}}
		for _, fld := range fields {
			cs, rs := creators[fld.Name], reclaimers[fld.Name]
			if len(cs) == 0 || len(rs) == 0 {
				continue
			}
			if _, ex := perPeerExempt[fld.Name]; ex {
				continue
			}
			// the weakest creator guard set
			var cg map[string]bool
			for _, cr := range cs {
				g := gq.at(cr.fn, cr.node, 0)
				if cg == nil {
					cg = g
				} else {
					cg = intersect(cg, g)
				}
			}
			ok := false
			best := ""
			for _, r := range rs {
				if !(reachDep[r.fn] || reachPer[r.fn] || reachCom[r.fn] || reachCon[r.fn]) {
					continue
				}
				rg := gq.at(r.fn, r.node, 0)
				if subsetSet(rg, cg) {
					ok = true
				} else if best == "" {
					best = r.fn.Root().Name + " requires " + setStr(rg)
				}
			}
			c.Check(ok, "R13.2", fld.Name, "a reclaimer runs for every protocol version a creator runs for", nil, "creator guards "+setStr(cg), "entries of "+fld.Name+" are created under guards "+setStr(cg)+" but every reachable reclaimer needs more ("+best+"): peers of other protocol versions leak an entry")
		}
	}
	// ---------- R13.3 creation only for reclaimable peers
	{
		// gs.control: written only by pushControl; every call chain sendRPC/doSendRPC -> doDropRPC -> pushControl lies behind a successful queue lookup
		for _, s := range p.StoresTo(gsField("control")) {
			if s.Kind == "elem-assign" {
				c.Check(s.Fn.Root().Name == "(*GossipSubRouter).pushControl", "R13.3", s.Fn.Root().Name, "pending-control buffer written only by pushControl", s.Node, "pushControl", "gs.control written elsewhere")
			}
		}
		haveQ := lookupIn("peer has an outbound queue", isFieldOf("PubSub.peers"))
		callers := p.CallerNames("(*GossipSubRouter).pushControl")
		ok, extra := subset(callers, "(*GossipSubRouter).doDropRPC")
		c.Check(ok, "R13.3", "pushControl", "called only by doDropRPC", nil, strings.Join(callers, ","), "also from "+strings.Join(extra, ","))
		n := 0
		for _, cs := range p.AllSites("(*GossipSubRouter).doDropRPC") {
			n++
			root := cs.Fn.Root()
			switch root.Name {
			case fnSendRPC:
				okd, why := p.DomAny(cs.Fn, cs.Call, AtomWant{haveQ, true})
				c.Check(okd, "R13.3", root.Name, "control stashed only for a peer with an outbound queue", cs.Call, why, "a dropped RPC's GRAFT/PRUNE are stashed in gs.control for a peer without an outbound queue: OnClosedOutboundStream already ran (or never will), so the entry is re-stashed by every flush forever: "+why)
			case "(*GossipSubRouter).doSendRPC":
				c.OK("R13.3", root.Name, "control stashed only for a peer with an outbound queue", cs.Call, "doSendRPC receives the queue (callers checked under R11.2/R12.4)")
			default:
				c.Bad("R13.3", root.Name, "doDropRPC caller", cs.Call, "doDropRPC is called from an unexpected function")
			}
		}
		if n < 2 {
			c.Undecided("R13.3", "doDropRPC", "call sites", nil, "fewer call sites than known")
		}
		sub := &RuleCtx{P: p, Prop: c.Prop, Min: map[string]int{}}
		runC07(sub)
		for _, o := range sub.Obs {
			if o.Rule == "R07.5" {
				c.Obs = append(c.Obs, o)
			}
		}
	}
	// ---------- R13.4 protection pairing
	{
		n := 0
		for _, f := range p.All {
			if p.IsGenerated(f.Body) || f.Pkg != p.Main {
				continue
			}
			g := p.Graph(f)
			for _, d := range p.mapDeletes(f) {
				if !innerMapOf("mesh")(p.R(f).Val(d.Map)) {
					continue
				}
				n++
				kv := p.R(f).Val(d.Key)
				pt, _ := g.Locate(d.Call)
				pred := func(x ast.Node) bool {
					for _, cs := range p.CallsIn(f, x, false) {
						if (cs.Name == fnTrPrune || cs.Name == "(*tagTracer).untagMeshPeer") && p.R(f).Val(cs.Call.Args[0]).Equal(kv) {
							return true
						}
					}
					return false
				}
				okB := g.DominatedByNode(pt, func(x ast.Node) bool { return pred(x) && sameScope(p, x, d.Call) })
				okA, _ := g.MustPass(pt.After(), PassOpts{Until: p.iterationUntil(f, d.Call)}, pred)
				c.Check(okA || okB, "R13.4", f.Root().Name, "mesh removal releases the connection-manager protection", d.Call, "tracer.Prune / untagMeshPeer for the removed peer on every path", "a peer is removed from a mesh without tracer.Prune or untagMeshPeer: the pubsub:<topic> protection stays on its connection forever")
			}
		}
		// whole-mesh removal in Leave: PRUNE traced per member (R07.3/R19.3) — counted here through the loop
		if f := c.MustFn("R13.4", "(*GossipSubRouter).Leave"); f != nil {
			for _, r := range p.RangesOver(f, innerMapOf("mesh")) {
				n++
				ok, why := p.LoopBodyMust(f, r, nil, p.callPred(f, fnTrPrune))
				c.Check(ok, "R13.4", f.Name, "Leave releases the protection of every member", r, why, why)
			}
		}
		if n < 4 {
			c.Undecided("R13.4", "mesh removals", "sites", nil, "fewer mesh removal sites than known")
		}
		// tag tracer mapping
		for _, tc := range []struct{ fn, helper, cm string }{
			{"(*tagTracer).Graft", "(*tagTracer).tagMeshPeer", "ConnManager.Protect"},
			{"(*tagTracer).Prune", "(*tagTracer).untagMeshPeer", "ConnManager.Unprotect"},
		} {
			// effect-based (the thin helper tagMeshPeer/untagMeshPeer may exist or be written out in place):
			// every path through Graft/Prune calls cmgr.Protect/Unprotect(p, topicTag(topic))
			cm := tc.cm
			withTag := func(fn *Func, cs CallSite) bool {
				if !strings.HasSuffix(cs.Name, cm) || len(cs.Call.Args) != 2 {
					return false
				}
				tag := p.R(fn).Val(cs.Call.Args[1])
				peerV := p.R(fn).Val(cs.Call.Args[0])
				return tag.IsCall("topicTag") && tag.Args[0].Kind == "var" && peerV.Kind == "var"
			}
			if f := c.MustFn("R13.4", tc.fn); f != nil {
				g := p.Graph(f)
				ok, _ := g.MustPass(g.Entry(), PassOpts{}, p.EffectPred(f, withTag))
				c.Check(ok, "R13.4", f.Name, "maps to "+shortFn(tc.helper), f.Decl, "every path calls cmgr."+shortFn(tc.cm)+"(p, topicTag(topic))", "a path through "+shortFn(tc.fn)+" does not call "+tc.cm+"(p, topicTag(topic)): the connection-manager protection and the mesh membership diverge")
				// any call of the connection manager's Protect/Unprotect in this function or its helper uses the topic's tag
				okc := true
				hs := []*Func{f}
				if h := p.Funcs[tc.helper]; h != nil {
					hs = append(hs, h)
				}
				nCalls := 0
				for _, h := range hs {
					for _, cs := range p.FuncCalls(h, false) {
						if strings.HasSuffix(cs.Name, cm) && len(cs.Call.Args) == 2 {
							nCalls++
							if !withTag(h, cs) {
								okc = false
							}
						}
					}
				}
				c.Check(okc && nCalls > 0, "R13.4", "(*tagTracer)."+shortFn(tc.helper), shortFn(tc.cm)+" with the topic's tag", f.Decl, "cmgr."+shortFn(tc.cm)+"(p, topicTag(topic))", "the tag tracer does not call "+tc.cm+"(p, topicTag(topic)): protect/unprotect tags would not match")
			}
		}
	}
	// ---------- R13.6 the gater's per-peer entry goes with the peer's outbound stream, whatever other peers do
	// (its statistics are shared by all peers behind one IP; a reclaim that waits for the IP's connection count to
	// reach zero never happens for a peer that leaves while another peer behind the same IP stays)
	if f := c.MustFn("R13.6", "(*peerGater).removePeerStats"); f != nil {
		g := p.Graph(f)
		outbound := AtomBool("outbound stream closed", isParam(f, 1))
		present := AtomBool("peer has gater statistics", func(v *V) bool {
			return v != nil && v.Kind == "lookupok" && v.Args[0].IsField("peerGater.peerStats")
		})
		cut := g.CutAny(AtomWant{outbound, false}, AtomWant{present, false})
		ok, bad := g.MustPass(g.Entry(), PassOpts{Cut: cut}, func(n ast.Node) bool { return isDeleteOf(p, f, n, "peerGater.peerStats") })
		where := ""
		if bad != nil && len(bad.Nodes) > 0 {
			where = " (path ending at " + p.Pos(bad.Nodes[len(bad.Nodes)-1]) + ")"
		}
		c.Check(ok, "R13.6", f.Name, "peer entry deleted whenever its outbound stream closed", f.Decl, "every path that does not refute `outbound` (or finds no entry) deletes pg.peerStats[p]", "when the peer's outbound stream closes its gater entry can survive"+where+": the deletion depends on the connection count shared with other peers behind the same IP, so the entry of a peer that leaves first is never reclaimed")
		callers := p.CallerNames(f.Name)
		okc, extra := subset(callers, "(*peerGater).OnClosedOutboundStream", "(*peerGater).OnClosedIncomingStream")
		c.Check(okc && len(callers) == 2, "R13.6", f.Name, "called for both stream directions", nil, strings.Join(callers, ","), "callers: "+strings.Join(callers, ",")+" "+strings.Join(extra, ","))
		for _, cs := range p.Sites(p.Funcs["(*peerGater).OnClosedOutboundStream"], false, f.Name) {
			c.Check(p.R(cs.Fn).Val(cs.Call.Args[1]).IsConst("true"), "R13.6", "(*peerGater).OnClosedOutboundStream", "reports an outbound close", cs.Call, "removePeerStats(p, true)", "the outbound-close handler does not pass outbound=true")
		}
	}
	c.Min["R13.6"] = 3
	// ---------- R13.5 stream bookkeeping
	if f := c.MustFn("R13.5", "(*PubSub).handleNewStream"); f != nil {
		var deferred *Func
		for _, ch := range f.Children {
			if _, isDefer := p.parents[p.parents[ch.Lit]].(*ast.DeferStmt); isDefer {
				deferred = ch
			}
		}
		if deferred == nil {
			c.Bad("R13.5", f.Name, "deferred cleanup", f.Decl, "no deferred cleanup closure")
		} else {
			g := p.Graph(deferred)
			current := AtomCmp("registered stream is this one", func(v *V) bool {
				return v.Kind == "field" && strings.HasSuffix(v.Name, "inboundHandler.s") && v.Args[0].Kind == "index" && v.Args[0].Args[0].IsField("PubSub.inboundStreams")
			}, "==", func(v *V) bool { return v.Kind == "var" })
			isDel := func(n ast.Node) bool { return isDeleteOf(p, deferred, n, "PubSub.inboundStreams") }
			okDel, _ := g.MustPass(g.Entry(), PassOpts{Cut: edgeCut(g.AtomEdges(current, false))}, isDel)
			c.Check(okDel && len(g.AtomEdges(current, true)) > 0, "R13.5", f.Name, "stream entry removed when it is the current one", deferred.Lit, "every path not refuting 'current' deletes the entry", "the handler's inboundStreams entry can survive the handler although it is still the registered one")
			for _, d := range p.mapDeletes(deferred) {
				if p.R(deferred).Val(d.Map).IsField("PubSub.inboundStreams") {
					ok, why := p.DomAny(deferred, d.Call, AtomWant{current, true})
					c.Check(ok, "R13.5", f.Name, "entry of a replacing handler is not removed", d.Call, why, why)
				}
			}
			sent := AtomBool("new-stream event was sent", func(v *V) bool {
				// the handler's local flag that is set (to the constant true) once the new-stream event went out
				if v.Kind != "var" || v.Obj == nil {
					return false
				}
				if b, ok := v.Obj.Type().Underlying().(*types.Basic); !ok || b.Kind() != types.Bool {
					return false
				}
				for _, d := range p.R(f).Defs(v.Obj) {
					if d.rhs != nil && p.R(f).Val(d.rhs).IsConst("true") {
						return true
					}
				}
				return false
			})
			isSend := func(n ast.Node) bool {
				s, ok := n.(*ast.SendStmt)
				if !ok || !p.R(deferred).Val(s.Chan).IsField("PubSub.incoming") {
					return false
				}
				return true
			}
			okSend, _ := g.MustPass(g.Entry(), PassOpts{Cut: edgeCut(g.AtomEdges(sent, false))}, isSend)
			c.Check(okSend && len(g.AtomEdges(sent, true)) > 0, "R13.5", f.Name, "closed-stream event sent whenever the new-stream event was", deferred.Lit, "every path not refuting sentNewStream attempts the send", "a stream whose opening was reported can end without the closed-stream event: the router and gater never reclaim its state")
			inspectNoLit(deferred.Body, func(x ast.Node) bool {
				if s, ok := x.(*ast.SendStmt); ok && isSend(s) {
					ok2, why := p.DomAny(deferred, s, AtomWant{sent, true})
					c.Check(ok2, "R13.5", f.Name, "closed-stream event only if the new-stream event was sent", s, why, why)
					kind := ""
					if cl := compositeOf(s.Value); cl != nil {
						for _, el := range cl.Elts {
							if kv, ok := el.(*ast.KeyValueExpr); ok {
								if k, ok := kv.Key.(*ast.Ident); ok && k.Name == "kind" {
									kind = p.R(deferred).Val(kv.Value).Name
								}
							}
						}
					}
					c.Check(kind == "incomingKindClosedStream", "R13.5", f.Name, "event kind is closed-stream", s, kind, "event kind is "+kind)
				}
				return true
			})
		}
		// sentNewStream is set exactly on the successful hand-off of the new-stream event
		n := 0
		inspectNoLit(f.Body, func(x ast.Node) bool {
			as, ok := x.(*ast.AssignStmt)
			if !ok || len(as.Lhs) != 1 {
				return true
			}
			if id, ok := as.Lhs[0].(*ast.Ident); ok && as.Tok.String() == "=" && len(as.Rhs) == 1 && isBoolLocal(f, id) && p.R(f).Val(as.Rhs[0]).IsConst("true") {
				n++
				cc, _ := p.Enclosing(as, func(n ast.Node) bool { _, ok := n.(*ast.CommClause); return ok }, true).(*ast.CommClause)
				okc := false
				if cc != nil {
					if s, ok := cc.Comm.(*ast.SendStmt); ok && p.R(f).Val(s.Chan).IsField("PubSub.incoming") {
						okc = true
					}
				}
				c.Check(okc && p.R(f).Val(as.Rhs[0]).IsConst("true"), "R13.5", f.Name, "flag set exactly when the new-stream event was handed over", as, "inside the send arm", "sentNewStream is set outside the arm that hands the new-stream event to the loop")
			}
			return true
		})
		c.Check(n == 1, "R13.5", f.Name, "one assignment of the flag", f.Decl, "1", "unexpected assignments to sentNewStream")
	}
	for _, tc := range []struct{ fn, field string }{
		{"(*extensionsState).OnClosedIncomingStream", "extensionsState.peerExtensions"},
		{"(*extensionsState).OnClosedOutboundStream", "extensionsState.sentExtensions"},
	} {
		if f := c.MustFn("R13.5", tc.fn); f != nil {
			g := p.Graph(f)
			ok, _ := g.MustPass(g.Entry(), PassOpts{}, func(n ast.Node) bool { return isDeleteOf(p, f, n, tc.field) })
			c.Check(ok, "R13.5", f.Name, "handshake entry deleted on every path", f.Decl, "delete("+shortFn(tc.field)+", id)", "the extension handshake entry survives the stream")
		}
	}
	if f := c.MustFn("R13.5", "(*GossipSubRouter).OnClosedIncomingStream"); f != nil {
		ok, why := p.MustCallFromEntry(f, "(*extensionsState).OnClosedIncomingStream")
		c.Check(ok, "R13.5", f.Name, "extension state told of every closed inbound stream", f.Decl, why, "the extension state is not told of every closed inbound stream: "+why)
		g := p.Graph(f)
		gateNil := AtomNil("gate == nil", isFieldOf(gsField("gate")))
		ok2, _ := g.MustPass(g.Entry(), PassOpts{Cut: edgeCut(g.AtomEdges(gateNil, true))}, p.callPred(f, "(*peerGater).OnClosedIncomingStream"))
		c.Check(ok2, "R13.5", f.Name, "gater told of every closed inbound stream", f.Decl, "always when a gater exists", "the gater is not told of a closed inbound stream")
	}
	if f := c.MustFn("R13.5", "(*GossipSubRouter).OnClosedOutboundStream"); f != nil {
		g := p.Graph(f)
		for _, fld := range []string{"peers", "gossip", "control", "outbound", "unwanted"} {
			ok, _ := g.MustPass(g.Entry(), PassOpts{}, func(n ast.Node) bool { return isDeleteOf(p, f, n, gsField(fld)) })
			c.Check(ok, "R13.5", f.Name, "gs."+fld+" entry deleted on every path", f.Decl, "delete(gs."+fld+", p)", "the departed peer's gs."+fld+" entry can survive")
		}
	}
	// shared: scorer retention/purge (R10.4) and topic-state clearing (R05.6)
	{
		sub := &RuleCtx{P: p, Prop: c.Prop, Min: map[string]int{}}
		runC10(sub)
		for _, o := range sub.Obs {
			if o.Rule == "R10.4" {
				c.Obs = append(c.Obs, o)
			}
		}
		sub = &RuleCtx{P: p, Prop: c.Prop, Min: map[string]int{}}
		runC05(sub)
		for _, o := range sub.Obs {
			if o.Rule == "R05.6" {
				c.Obs = append(c.Obs, o)
			}
		}
	}
	checkValidationStateReleased(c)
	checkPartialStateReleaseUnguarded(c)
	checkReopenAnswers(c)
	c.Min["R13.1"] = 30
	c.Min["R13.2"] = 15
	c.Min["R13.3"] = 4
	c.Min["R13.4"] = 8
	c.Min["R13.5"] = 14
	c.Min["R10.4"] = 11
	c.Min["R05.6"] = 11
}

func uniq(xs []string) []string {
	var out []string
	for i, x := range xs {
		if i == 0 || x != xs[i-1] {
			out = append(out, x)
		}
	}
	return out
}

func intersect(a, b map[string]bool) map[string]bool {
	o := map[string]bool{}
	for k := range a {
		if b[k] {
			o[k] = true
		}
	}
	return o
}

func subsetSet(a, b map[string]bool) bool {
	for k := range a {
		if !b[k] {
			return false
		}
	}
	return true
}

func setStr(a map[string]bool) string {
	var ks []string
	for k := range a {
		ks = append(ks, k)
	}
	sort.Strings(ks)
	return "{" + strings.Join(ks, ",") + "}"
}

// guardQuery computes the set of feature(F, ·) guards that hold on every call path to a site
// (direct calls only; a function referenced as a value or called through an interface gets the empty set).
type guardQuery struct {
	p    *Prog
	memo map[*Func]map[string]bool
	busy map[*Func]bool
}

func (q *guardQuery) local(f *Func, n ast.Node) map[string]bool {
	out := map[string]bool{}
	g := q.p.Graph(f)
	pt, ok := g.Locate(n)
	if !ok {
		return out
	}
	for _, feat := range []string{"GossipSubFeatureMesh", "GossipSubFeaturePX", "GossipSubFeatureIdontwant", "GossipSubFeatureExtensions"} {
		a := AtomBool("feature("+feat+")", func(v *V) bool { return v.IsCall(fnFeature) && len(v.Args) == 3 && v.Args[1].IsConst(feat) })
		if es := g.AtomEdges(a, true); len(es) > 0 && g.Dominated(pt, es) {
			out[feat] = true
		}
	}
	return out
}

func (q *guardQuery) entry(f *Func, depth int) map[string]bool {
	if m, ok := q.memo[f]; ok {
		return m
	}
	if q.busy[f] || depth > 6 {
		return map[string]bool{}
	}
	q.busy[f] = true
	defer func() { q.busy[f] = false }()
	var res map[string]bool
	if f.Lit != nil {
		if f.Parent != nil {
			res = q.at(f.Parent, f.Lit, depth+1)
		} else {
			res = map[string]bool{}
		}
		q.memo[f] = res
		return res
	}
	refs := q.p.Refs(f.Name)
	if len(refs) == 0 || q.p.calledThroughInterface(f) {
		res = map[string]bool{}
	}
	for _, r := range refs {
		if res != nil && len(res) == 0 {
			break
		}
		call := q.p.callOfRef(r)
		if !r.IsCall || call == nil || r.Fn == nil {
			res = map[string]bool{}
			break
		}
		g := q.at(r.Fn, call, depth+1)
		if res == nil {
			res = g
		} else {
			res = intersect(res, g)
		}
	}
	if res == nil {
		res = map[string]bool{}
	}
	q.memo[f] = res
	return res
}

func (q *guardQuery) at(f *Func, n ast.Node, depth int) map[string]bool {
	out := map[string]bool{}
	for k := range q.local(f, n) {
		out[k] = true
	}
	for k := range q.entry(f, depth) {
		out[k] = true
	}
	return out
}

// R13.7: what the tracers keep for a message under validation (tagTracer.nearFirst, created by
// ValidateMessage) is released by DeliverMessage or by RejectMessage — but the latter only for the
// reasons its switch names. Every way a message can leave the pipeline after ValidateMessage must
// therefore report one of those reasons (or deliver).
func checkValidationStateReleased(c *RuleCtx) {
	p := c.P
	tf := c.MustFn("R13.7", "(*tagTracer).RejectMessage")
	if tf == nil {
		return
	}
	releasing := map[string]bool{}
	deletes := false
	// the reasons named: case constants of a switch, or constants the reason is compared with (`reason == C || ...`),
	// in the hook itself or in a private predicate it hands the reason to
	var collect func(fn *Func, reasonIdx int, depth int)
	collect = func(fn *Func, reasonIdx int, depth int) {
		isReason := isParam(fn, reasonIdx)
		ast.Inspect(fn.Body, func(x ast.Node) bool {
			switch e := x.(type) {
			case *ast.CaseClause:
				for _, ce := range e.List {
					if v := p.R(fn).Val(ce); v != nil && v.Kind == "const" {
						releasing[v.Name] = true
					}
				}
			case *ast.BinaryExpr:
				if e.Op == token.EQL {
					l, r := p.R(fn).Val(e.X), p.R(fn).Val(e.Y)
					if isReason(l) && r != nil && r.Kind == "const" {
						releasing[r.Name] = true
					}
					if isReason(r) && l != nil && l.Kind == "const" {
						releasing[l.Name] = true
					}
				}
			case *ast.CallExpr:
				if depth > 0 {
					return true
				}
				if h := p.Fn(p.CalleeName(fn.Info(), e)); h != nil && h.Body != nil && h.Pkg == fn.Pkg && h.Decl != nil && !ast.IsExported(h.Decl.Name.Name) {
					for i, a := range e.Args {
						if isReason(p.R(fn).Val(a)) {
							idx := i
							collect(h, idx, depth+1)
						}
					}
				}
			}
			return true
		})
	}
	collect(tf, 1, 0)
	for _, d := range p.mapDeletes(tf) {
		if p.R(tf).Val(d.Map).IsField("tagTracer.nearFirst") {
			deletes = true
		}
	}
	if !deletes || len(releasing) == 0 {
		c.Undecided("R13.7", tf.Name, "releasing reasons", tf.Decl, "tagTracer.RejectMessage no longer deletes nearFirst under a switch on the reason (rule premise changed)")
		return
	}
	// which functions run only after ValidateMessage: fixpoint over callers
	const fnValidateMsg = "(*pubsubTracer).ValidateMessage"
	post := map[string]bool{}
	sitePost := func(cs CallSite) bool {
		if post[cs.Fn.Root().Name] {
			return true
		}
		// the site itself, or the function literal it sits in (a goroutine started after the call), is
		// reachable from a ValidateMessage call of an enclosing function
		var node ast.Node = cs.Call
		for f := cs.Fn; f != nil; f = f.Parent {
			g := p.Graph(f)
			if sp, ok := g.Locate(node); ok {
				for _, vs := range p.Sites(f, false, fnValidateMsg) {
					if vp, ok := g.Locate(vs.Call); ok && g.ReachableFrom(vp.After(), sp, nil, nil) {
						return true
					}
				}
			}
			if f.Lit == nil {
				break
			}
			node = f.Lit
		}
		return false
	}
	for changed := true; changed; {
		changed = false
		for _, f := range p.All {
			if f.Parent != nil || f.File != "validation.go" || post[f.Name] {
				continue
			}
			sites := p.AllSites(f.Name)
			if len(sites) == 0 {
				continue
			}
			all := true
			for _, cs := range sites {
				if !sitePost(cs) {
					all = false
				}
			}
			if all {
				post[f.Name] = true
				changed = true
			}
		}
	}
	n := 0
	for _, cs := range p.AllSites(fnRejectMsg) {
		if len(cs.Call.Args) != 2 {
			continue
		}
		isPost := sitePost(cs)
		if !isPost && cs.Fn.Root().Name == fnProcessLoop {
			// the arm that takes validated messages back from the pipeline
			if cl := selectClauseOn(p, cs.Fn, "PubSub.sendMsg"); cl != nil && within(cs.Call, cl) {
				isPost = true
			}
		}
		if !isPost {
			continue
		}
		n++
		rv := p.R(cs.Fn).Val(cs.Call.Args[1])
		ok := rv != nil && rv.Kind == "const" && releasing[rv.Name]
		c.Check(ok, "R13.7", cs.Fn.Root().Name, "message leaving the pipeline releases its validation-time state ("+rv.String()+")", cs.Call, "reason handled by tagTracer.RejectMessage", "a message that has been through ValidateMessage is rejected with reason "+rv.String()+", which tagTracer.RejectMessage ignores: the nearFirst entry created for it is never deleted")
	}
	if n < 6 {
		c.Undecided("R13.7", "post-validation rejections", "inventory", nil, "fewer rejection sites after ValidateMessage than known: "+itoa(n))
	}
	c.Min["R13.7"] = 6
}

// R13.8: the partial-messages extension creates per-peer state (peerState of every live group, the peer-initiated
// group counters) from subscription flags and RPCs, so releasing it on departure must not depend on what the peer
// negotiated or on handshake entries that the peer's other stream may already have released: along the call chain
// from the router's departure hook to the extension's OnClosedOutboundStream no call is behind a condition that
// reads the handshake maps or the protocol feature table.
func checkPartialStateReleaseUnguarded(c *RuleCtx) {
	p := c.P
	chain := []struct{ fn, callee string }{
		{"(*GossipSubRouter).OnClosedOutboundStream", "(*extensionsState).OnClosedOutboundStream"},
		{"(*extensionsState).OnClosedOutboundStream", "(*extensionsState).extensionsOnClosedOutboundStream"},
		{"(*extensionsState).extensionsOnClosedOutboundStream", "OnClosedOutboundStream"},
	}
	forbidden := func(v *V) (bool, string) {
		why := ""
		v.Has(func(x *V) bool {
			switch {
			case x.IsField("extensionsState.peerExtensions"):
				why = "the received-handshake map (released when the peer's own stream closes)"
			case x.IsField("extensionsState.sentExtensions"):
				why = "the sent-handshake map"
			case x.IsCall(fnFeature):
				why = "the protocol feature table"
			}
			return why != ""
		})
		return why != "", why
	}
	n := 0
	for _, link := range chain {
		f := p.Fn(link.fn)
		if f == nil {
			// the chain may have been shortened (helper inlined): the remaining links still apply
			continue
		}
		g := p.Graph(f)
		for _, cs := range p.FuncCalls(f, false) {
			if cs.Name != link.callee && !(link.callee == "OnClosedOutboundStream" && strings.HasSuffix(cs.Name, ".OnClosedOutboundStream") && strings.Contains(cs.Name, "artial")) {
				continue
			}
			n++
			pt, ok := g.Locate(cs.Call)
			if !ok {
				c.Undecided("R13.8", f.Name, "release call", cs.Call, "not located")
				continue
			}
			bad := ""
			for _, blk := range g.C.Blocks {
				cond := g.condOf[blk]
				if cond == nil || !blk.Live {
					continue
				}
				for s := 0; s < 2; s++ {
					if !g.Dominated(pt, []Edge{{blk, s}}) {
						continue
					}
					if isBad, why := forbidden(p.R(f).Val(cond)); isBad {
						bad = "the call is behind `" + p.Src(cond) + "`, which reads " + why
					}
				}
			}
			c.Check(bad == "", "R13.8", f.Name, "partial-message state released whatever was negotiated ("+shortFn(cs.Name)+")", cs.Call, "no handshake or feature condition in front of the release", "per-peer partial-message state is created from subscription flags and RPCs, but its release is conditional: "+bad+"; a peer whose own stream closed first, or that never completed the handshake, keeps its entries in every live group")
		}
	}
	if n < 2 {
		c.Undecided("R13.8", "partial-message release chain", "inventory", nil, "the chain from the router's departure hook to the extension's OnClosedOutboundStream was not found: "+itoa(n)+" links")
	}
	c.Min["R13.8"] = 2
}

// R13.9: handleDeadPeers installs a fresh queue in p.peers before it starts the goroutine that reopens the stream.
// That goroutine owes the event loop an answer: the stream (newPeerStream) or the failure (newPeerError, which
// removes the queue). Every way out of handleNewPeerWithBackoff / handleNewPeer therefore hands over one of the two,
// except where the instance is shutting down (the context's Done arm).
func checkReopenAnswers(c *RuleCtx) {
	p := c.P
	n := 0
	answers := func(f *Func) func(ast.Node) bool {
		return func(nd ast.Node) bool {
			if p.NodeCalls(f, nd, "(*PubSub).handleNewPeer") {
				return true
			}
			found := false
			ast.Inspect(nd, func(x ast.Node) bool {
				if s, ok := x.(*ast.SendStmt); ok {
					if v := p.R(f).Val(s.Chan); v.IsField("PubSub.newPeerError") || v.IsField("PubSub.newPeerStream") {
						found = true
					}
				}
				return !found
			})
			return found
		}
	}
	for _, name := range []string{"(*PubSub).handleNewPeerWithBackoff", "(*PubSub).handleNewPeer"} {
		f := c.MustFn("R13.9", name)
		if f == nil {
			continue
		}
		g := p.Graph(f)
		// shutdown: edges into a clause that receives from a context's Done channel
		cut := cutSet{}
		inspectNoLit(f.Body, func(x ast.Node) bool {
			cc, ok := x.(*ast.CommClause)
			if !ok || cc.Comm == nil {
				return true
			}
			isDone := false
			ast.Inspect(cc.Comm, func(y ast.Node) bool {
				if u, ok := y.(*ast.UnaryExpr); ok && u.Op == token.ARROW {
					if v := p.R(f).Val(u.X); v != nil && v.Kind == "call" && strings.HasSuffix(v.Name, ".Done") {
						isDone = true
					}
				}
				return !isDone
			})
			if !isDone {
				return true
			}
			if body := g.ClauseBody(cc); body != nil {
				for _, blk := range g.C.Blocks {
					for si, succ := range blk.Succs {
						if succ == body {
							cut[Edge{blk, si}] = true
						}
					}
				}
			}
			return true
		})
		n++
		ok, at := g.MustPass(g.Entry(), PassOpts{Cut: cut}, answers(f))
		why := "every path hands the event loop the stream or the failure"
		bad := ""
		if !ok {
			bad = "a path through " + f.Name + " returns without sending on newPeerStream or newPeerError (and not because the instance is shutting down)"
			if at != nil && len(at.Nodes) > 0 {
				bad += ", ending near " + p.Pos(at.Nodes[len(at.Nodes)-1])
			}
			bad += ": the queue that handleDeadPeers / handlePendingPeers put into p.peers for this attempt is never removed, and the peer cannot be added again when it reconnects"
		}
		c.Check(ok, "R13.9", f.Name, "a stream attempt always answers the event loop", f.Decl, why, bad)
	}
	if n < 2 {
		c.Undecided("R13.9", "stream attempts", "inventory", nil, "handleNewPeer / handleNewPeerWithBackoff not found")
	}
	c.Min["R13.9"] = 2
}
