package main

import (
	"go/ast"
	"go/constant"
	"go/token"
	"go/types"
	"strconv"
	"strings"
)

func init() {
	register(&Property{ID: "C17", Run: runC17,
		Explain: "Gossip bounds as a gate table (operator-exact comparisons against named parameters, edge-cut dominance), the heartbeat schedule as must-pass-through, and promise accounting: B1/B2 IHAVE message and id budgets (return before any effect), B3 per-IHAVE id cap, B4 only unseen ids requested, B5 the ask is truncated to the remaining budget, the budget is charged and the promise is taken from the truncated list, B6 unwanted ids never served, B7 GossipRetransmission cap, B8/B9 IDONTWANT message cap and a running id cap across the whole RPC, B10 stored TTL, B11 per-peer IHAVE truncation to MaxIHaveLength, B12 IDONTWANT only for messages >= threshold, to mesh peers with the feature, never to the sender, B13 gossip ids only from the first HistoryGossip slots, B14 Shift always expires the last slot, shifts, and clears slot 0, B15 HistoryGossip <= HistoryLength validated, B16 the unwanted map is keyed by computeChecksum everywhere; heartbeat calls clearBackoff/clearIHaveCounters/clearIDontWantCounters/applyIwantPenalties/sendGraftPrune/flush/Shift on every path (flush before Shift) and emitGossip for every mesh and fanout topic with the pushed-to peers excluded; messages are cached before recipients are chosen; promises are fulfilled on deliver/validate/reject (except the two signature reasons), voided on throttle, counted broken only when expired, and penalised only by applyIwantPenalties; HandleRPC runs all five control handlers and replies when any part is non-empty. (B17) a dropped IWANT voids the promise recorded for it and every drop reaches the tracers. (B18) a message put into the cache twice keeps one history entry. (B19) the per-peer transmission counters behind B7 live exactly as long as the cached message: an entry of mc.peertx is deleted only where the same id is deleted from mc.msgs, a fresh counter map is stored only when the lookup found none, the map is replaced only by the constructor and never cleared. NOT decided: window arithmetic over heartbeats as counts over histories.",
		Assume:  []string{"heartbeat runs once per HeartbeatInterval (timer)", "MessageCache is only used from the event loop"},
		Mutants: []Mutant{
			{Name: "drop-reported-after-control-stripped", File: "gossipsub.go", Old: "\tgs.tracer.DropRPC(rpc, p)\n\t// push control messages that need to be retried\n\tctl := rpc.GetControl()\n\tif ctl != nil {\n\t\tgs.pushControl(p, ctl)\n\t}\n}", New: "\t// push control messages that need to be retried\n\tctl := rpc.GetControl()\n\tif ctl != nil {\n\t\tgs.pushControl(p, ctl)\n\t}\n\tgs.tracer.DropRPC(rpc, p)\n}", Expect: "B17"},
			{Name: "cache-reput-keeps-first-age", File: "mcache.go", Old: "\tif _, ok := mc.msgs[mid]; ok {\n", New: "\tif _, ok := mc.msgs[mid]; ok {\n\t\tif len(mc.history) > 1 {\n\t\t\tmc.msgs[mid] = msg\n\t\t\treturn\n\t\t}\n", Expect: "B18"},
			{Name: "ihave-msg-budget-ge", File: "gossipsub.go", Old: "\tif gs.peerhave[p] > gs.params.MaxIHaveMessages {", New: "\tif gs.peerhave[p] > gs.params.MaxIHaveMessages+1 {", Expect: "B1"},
			{Name: "ihave-id-budget-gt", File: "gossipsub.go", Old: "\tif gs.iasked[p] >= gs.params.MaxIHaveLength {", New: "\tif gs.iasked[p] > gs.params.MaxIHaveLength {", Expect: "B2"},
			{Name: "ihave-seen-not-skipped", File: "gossipsub.go", Old: "\t\t\tif gs.p.seenMessage(mid) {\n\t\t\t\tcontinue\n\t\t\t}\n\t\t\tiwant[mid] = struct{}{}", New: "\t\t\tif gs.p.seenMessage(mid) && len(iwant) > 0 {\n\t\t\t\tcontinue\n\t\t\t}\n\t\t\tiwant[mid] = struct{}{}", Expect: "B4"},
			{Name: "ihave-promise-before-truncate", File: "gossipsub.go", Old: "\tiwantlst = iwantlst[:iask]\n\tgs.iasked[p] += iask\n\n\tgs.gossipTracer.AddPromise(p, iwantlst)\n", New: "\tgs.gossipTracer.AddPromise(p, iwantlst)\n\tiwantlst = iwantlst[:iask]\n\tgs.iasked[p] += iask\n", Expect: "B5"},
			{Name: "ihave-budget-not-charged", File: "gossipsub.go", Old: "\tiwantlst = iwantlst[:iask]\n\tgs.iasked[p] += iask\n", New: "\tiwantlst = iwantlst[:iask]\n\tgs.iasked[p] = iask\n", Expect: "B5"},
			{Name: "reput-resets-transmission-counters", File: "mcache.go", Old: "\tmc.msgs[mid] = msg\n\tmc.history[0] = append(", New: "\tmc.msgs[mid] = msg\n\tdelete(mc.peertx, mid)\n\tmc.history[0] = append(", Expect: "B19"},
			{Name: "getforpeer-fresh-counters-every-time", File: "mcache.go", Old: "\ttx, ok := mc.peertx[mid]\n\tif !ok {\n", New: "\ttx, ok := mc.peertx[mid]\n\tif !ok || len(tx) > 8 {\n", Expect: "B19"},
			{Name: "cache-put-twice-two-entries", File: "mcache.go", Old: "\tif _, ok := mc.msgs[mid]; ok {\n", New: "\tif _, ok := mc.msgs[mid]; ok && len(mc.history) == 0 {\n", Expect: "B18"},
			{Name: "dropped-iwant-keeps-promise", File: "gossip_tracer.go", Old: "\t\t\tif promises, ok := gt.promises[mid]; ok {\n\t\t\t\tdelete(promises, p)\n", New: "\t\t\tif promises, ok := gt.promises[mid]; ok && len(promises) > 1 {\n\t\t\t\tdelete(gt.peerPromises[p], mid)\n", Expect: "B17"},
			{Name: "drop-not-traced", File: "gossipsub.go", Old: "func (gs *GossipSubRouter) doDropRPC(rpc *RPC, p peer.ID, reason string) {\n", New: "func (gs *GossipSubRouter) doDropRPC(rpc *RPC, p peer.ID, reason string) {\n\tif len(rpc.GetPublish()) == 0 && rpc.GetControl().GetIwant() != nil {\n\t\treturn\n\t}\n", Expect: "B17"},
			{Name: "iwant-unwanted-served", File: "gossipsub.go", Old: "\t\t\tif _, ok := gs.unwanted[p][computeChecksum(mid)]; ok {\n\t\t\t\tcontinue\n\t\t\t}\n\n\t\t\tmsg, count, ok := gs.mcache.GetForPeer(mid, p)", New: "\t\t\tmsg, count, ok := gs.mcache.GetForPeer(mid, p)", Expect: "B6"},
			{Name: "iwant-retransmission-ge", File: "gossipsub.go", Old: "\t\t\tif count > gs.params.GossipRetransmission {", New: "\t\t\tif count > gs.params.GossipRetransmission+1 {", Expect: "B7"},
			{Name: "idontwant-msg-cap-gt", File: "gossipsub.go", Old: "\tif gs.peerdontwant[p] >= gs.params.MaxIDontWantMessages {", New: "\tif gs.peerdontwant[p] > gs.params.MaxIDontWantMessages {", Expect: "B8"},
			{Name: "idontwant-counter-reset-per-entry", File: "gossipsub.go", Old: "\tfor _, idontwant := range idontwants {\n\t\tfor _, mid := range idontwant.GetMessageIDs() {", New: "\tfor _, idontwant := range idontwants {\n\t\ttotalUnwantedIds = 0\n\t\tfor _, mid := range idontwant.GetMessageIDs() {", Expect: "B9"},
			{Name: "idontwant-ttl-const", File: "gossipsub.go", Old: "\t\t\tunwanted[computeChecksum(mid)] = gs.params.IDontWantMessageTTL", New: "\t\t\tunwanted[computeChecksum(mid)] = gs.params.IDontWantMessageTTL + gs.params.HistoryLength", Expect: "B10"},
			{Name: "emitgossip-no-truncate", File: "gossipsub.go", Old: "\t\t\tif len(mids) > gs.params.MaxIHaveLength {\n\t\t\t\t// we do this per peer", New: "\t\t\tif len(mids) > gs.params.MaxIHaveLength && len(peers) > 1 {\n\t\t\t\t// we do this per peer", Expect: "B11"},
			{Name: "preprocess-threshold-le", File: "gossipsub.go", Old: "\t\tif len(msg.GetData()) < gs.params.IDontWantMessageThreshold {", New: "\t\tif len(msg.GetData()) <= gs.params.IDontWantMessageThreshold {", Expect: "B12"},
			{Name: "preprocess-sends-to-sender", File: "gossipsub.go", Old: "\t\t\tif p == from {\n\t\t\t\t// We don't send IDONTWANT to the peer that sent us the messages\n\t\t\t\tcontinue\n\t\t\t}\n", New: "", Expect: "B12"},
			{Name: "gossipids-whole-history", File: "mcache.go", Old: "range mc.history[:mc.gossip] {", New: "range mc.history[:len(mc.history)-1] {", Expect: "B13"},
			{Name: "shift-early-return-when-idle", File: "mcache.go", Old: "func (mc *MessageCache) Shift() {\n", New: "func (mc *MessageCache) Shift() {\n\tif len(mc.history[0]) == 0 {\n\t\treturn\n\t}\n", Expect: "B14"},
			{Name: "shift-keeps-peertx", File: "mcache.go", Old: "\t\tdelete(mc.msgs, entry.mid)\n\t\tdelete(mc.peertx, entry.mid)\n", New: "\t\tdelete(mc.msgs, entry.mid)\n", Expect: "B14"},
			{Name: "validate-history-lt", File: "gossipsub.go", Old: "\tif !(params.HistoryGossip <= params.HistoryLength) {", New: "\tif !(params.HistoryGossip <= params.HistoryLength+1) {", Expect: "B15"},
			{Name: "validate-allows-empty-history", File: "gossipsub.go", Old: "\tif params.HistoryLength <= 0 || params.HistoryGossip < 0 {", New: "\tif params.HistoryLength < 0 || params.HistoryGossip < 0 {", Expect: "B15"},
			{Name: "iwant-key-not-checksum", File: "gossipsub.go", Old: "\t\t\tif _, ok := gs.unwanted[p][computeChecksum(mid)]; ok {", New: "\t\t\tif _, ok := gs.unwanted[p][checksum{}]; ok {", Expect: "B16"},
			{Name: "heartbeat-shift-before-flush", File: "gossipsub.go", Old: "\tgs.flush()\n\n\t// advance the message history window\n\tgs.mcache.Shift()\n", New: "\t// advance the message history window\n\tgs.mcache.Shift()\n\n\tgs.flush()\n", Expect: "SCHED"},
			{Name: "heartbeat-skip-ihave-reset", File: "gossipsub.go", Old: "\t// clean up iasked counters\n\tgs.clearIHaveCounters()\n", New: "\t// clean up iasked counters\n\tif gs.heartbeatTicks%2 == 0 {\n\t\tgs.clearIHaveCounters()\n\t}\n", Expect: "SCHED"},
			{Name: "idontwant-ttl-never-expires", File: "gossipsub.go", Old: "\t\t\tmids[mid]--\n\t\t\tif mids[mid] <= 0 {", New: "\t\t\tmids[mid]--\n\t\t\tif mids[mid] < 0 {", Expect: "SCHED"},
			{Name: "promise-not-fulfilled-on-validate", File: "gossip_tracer.go", Old: "\t// without triggering the Validate trace\n\tgt.fulfillPromise(msg)\n", New: "\t// without triggering the Validate trace\n", Expect: "PROM"},
			{Name: "broken-promise-unexpired", File: "gossip_tracer.go", Old: "\t\t\tif expire.Before(now) {\n\t\t\t\tif res == nil {", New: "\t\t\tif expire.Before(now) || len(promises) > 64 {\n\t\t\t\tif res == nil {", Expect: "PROM"},
			{Name: "handlerpc-skips-idontwant", File: "gossipsub.go", Old: "\tgs.handlePrune(rpc.from, ctl)\n\tgs.handleIDontWant(rpc.from, ctl)\n", New: "\tgs.handlePrune(rpc.from, ctl)\n\tif len(prune) == 0 {\n\t\tgs.handleIDontWant(rpc.from, ctl)\n\t}\n", Expect: "WIRE"},
			{Name: "rpcs-cache-after-recipients", File: "gossipsub.go", Old: "\t\tgs.mcache.Put(msg)\n\n\t\tfrom := msg.ReceivedFrom", New: "\t\tfrom := msg.ReceivedFrom", Expect: "SCHED"},
		}})
}

func prm(n string) VPred { return isFieldOf("GossipSubParams." + n) }

// gateReturn: on every path that does not refute the atom, the function returns (before any effect);
// every listed effect is dominated by atom==false.
func gateReturn(c *RuleCtx, rule string, f *Func, a Atom, effects []ast.Node, effDesc []string) {
	p := c.P
	g := p.Graph(f)
	edges := g.AtomEdges(a, true)
	if len(edges) == 0 {
		c.Bad(rule, f.Name, "gate "+a.Desc, f.Decl, "no branch tests `"+a.Desc+"` with exactly this operator and these operands")
		return
	}
	for i, n := range effects {
		ok, why := p.DomDeep(f, n, AtomWant{a, false})
		c.Check(ok, rule, f.Name, effDesc[i]+" only if not "+a.Desc, n, why, why)
	}
	for _, e := range edges {
		ok, _ := g.MustPass(EdgeTarget(e), PassOpts{}, func(n ast.Node) bool { _, isRet := n.(*ast.ReturnStmt); return isRet })
		// additionally no effect reachable from the true edge before the return
		reach := false
		for _, n := range effects {
			if p.EnclosingFunc(n) != f {
				continue
			}
			tp, _ := g.Locate(n)
			if g.ReachableFrom(EdgeTarget(e), tp, nil, func(x ast.Node) bool { _, isRet := x.(*ast.ReturnStmt); return isRet }) {
				reach = true
			}
		}
		c.Check(ok && !reach, rule, f.Name, a.Desc+" => return before any effect", condNodeOf(e), "returns", "the over-budget edge does not return at once")
	}
}

func storesInFn(p *Prog, f *Func, field string) []ast.Node {
	var out []ast.Node
	for _, s := range p.AllStores() {
		if s.Fn.Root() == f && s.Field == field {
			out = append(out, s.Node)
		}
	}
	return out
}

func callNodes(p *Prog, f *Func, names ...string) []ast.Node {
	var out []ast.Node
	for _, cs := range p.Sites(f, true, names...) {
		out = append(out, cs.Call)
	}
	return out
}

func runC17(c *RuleCtx) {
	p := c.P
	// ---------------- handleIHave: B1..B5
	if f := c.MustFn("B1", "(*GossipSubRouter).handleIHave"); f != nil {
		g := p.Graph(f)
		idx := func(field string) VPred {
			return func(v *V) bool { return v != nil && v.Kind == "index" && v.Args[0].IsField(gsField(field)) }
		}
		var effects []ast.Node
		var desc []string
		for _, n := range storesInFn(p, f, gsField("iasked")) {
			effects = append(effects, n)
			desc = append(desc, "iasked charged")
		}
		for _, n := range callNodes(p, f, "(*gossipTracer).AddPromise") {
			effects = append(effects, n)
			desc = append(desc, "promise recorded")
		}
		for _, n := range callNodes(p, f, "(*PubSub).seenMessage") {
			effects = append(effects, n)
			desc = append(desc, "ids examined")
		}
		// the tested quantity is the incremented counter: peerhave[p] read after the increment, or the
		// value `old + 1` that is also what the increment stores
		isOne := func(v *V) bool { return v != nil && v.IsConst("1") }
		incremented := func(v *V) bool {
			if idx("peerhave")(v) {
				return true
			}
			return v != nil && v.Kind == "op" && v.Name == "+" && ((idx("peerhave")(v.Args[0]) && isOne(v.Args[1])) || (idx("peerhave")(v.Args[1]) && isOne(v.Args[0])))
		}
		b1 := AtomCmp("peerhave[p] > MaxIHaveMessages", incremented, ">", prm("MaxIHaveMessages"))
		gateReturn(c, "B1", f, b1, effects, desc)
		// the counter is incremented (by one, in any of the equivalent forms) before the test on every path
		for _, e := range g.AtomEdges(b1, true) {
			cp, _ := g.Locate(condNodeOf(e))
			ok := g.DominatedByNode(cp, func(n ast.Node) bool {
				for _, s := range p.AllStores() {
					if s.Fn == f && s.Field == gsField("peerhave") && s.Node == n {
						if add, ok := counterAddend(p, f, s); ok && isOne(add) {
							return true
						}
					}
				}
				return false
			})
			// in the `old + 1` form the counter must have been read before the increment (otherwise the test is off by one)
			if be, isCmp := unparen(g.condOf[e.From]).(*ast.BinaryExpr); isCmp && ok {
				for _, side := range []ast.Expr{be.X, be.Y} {
					v := stripConv(p.R(f).Val(side))
					if v != nil && v.Kind == "op" && v.Name == "+" {
						for _, a := range v.Args {
							if idx("peerhave")(a) && a.Node != nil {
								rp, located := g.Locate(a.Node)
								if located && g.DominatedByNode(rp, func(n ast.Node) bool {
									for _, s := range p.AllStores() {
										if s.Fn == f && s.Field == gsField("peerhave") && s.Node == n {
											return true
										}
									}
									return false
								}) {
									ok = false
								}
							}
						}
					}
				}
			}
			c.Check(ok, "B1", f.Name, "IHAVE counter incremented before the test", condNodeOf(e), "the increment dominates the test of the incremented value", "the per-heartbeat IHAVE counter is not incremented before it is tested (or the test adds one to the already incremented counter)")
		}
		b2 := AtomCmp("iasked[p] >= MaxIHaveLength", idx("iasked"), ">=", prm("MaxIHaveLength"))
		gateReturn(c, "B2", f, b2, effects, desc)
		// B3/B4: the insertion into the want-set
		var wantIns []MapInsert
		for _, mi := range p.mapInserts(f) {
			if v := p.R(f).Val(mi.Map); v.IsCall("builtin.make") {
				wantIns = append(wantIns, mi)
			}
		}
		if len(wantIns) != 1 {
			c.Undecided("B3", f.Name, "want-set insertion", f.Decl, "expected one insertion into the set of ids to request")
		}
		for _, mi := range wantIns {
			b3 := AtomCmp("msgIdx >= MaxIHaveLength", func(v *V) bool { return v != nil && v.Kind == "rangekey" }, ">=", prm("MaxIHaveLength"))
			ok, why := p.DomAny(f, mi.Stmt, AtomWant{b3, false})
			c.Check(ok, "B3", f.Name, "id considered only below the per-IHAVE cap", mi.Stmt, why, why)
			b4 := AtomBool("seenMessage(mid)", func(v *V) bool {
				return v.IsCall("(*PubSub).seenMessage") && len(v.Args) == 2 && v.Args[1].Equal(p.R(f).Val(mi.Key))
			})
			ok, why = p.DomAny(f, mi.Stmt, AtomWant{b4, false})
			c.Check(ok, "B4", f.Name, "only unseen ids are requested", mi.Stmt, why, why)
			joined := lookupIn("topic in gs.mesh", isFieldOf(gsField("mesh")))
			ok, why = p.DomAny(f, mi.Stmt, AtomWant{joined, true})
			c.Check(ok, "B4", f.Name, "only ids of joined topics are requested", mi.Stmt, why, why)
		}
		// B5 truncation
		checkIHaveTruncation(c, f)
	}
	// ---------------- handleIWant: B6, B7
	if f := c.MustFn("B6", "(*GossipSubRouter).handleIWant"); f != nil {
		unw := AtomBool("mid in unwanted[p]", func(v *V) bool {
			return v.Kind == "lookupok" && v.Args[0].Kind == "index" && v.Args[0].Args[0].IsField(gsField("unwanted")) && v.Args[1].IsCall("computeChecksum")
		})
		retx := AtomCmp("count > GossipRetransmission", func(v *V) bool {
			return v.Kind == "tuple" && v.Name == "1" && v.Args[0].IsCall("(*MessageCache).GetForPeer")
		}, ">", prm("GossipRetransmission"))
		found := AtomBool("message in cache", func(v *V) bool {
			return v.Kind == "tuple" && v.Name == "2" && v.Args[0].IsCall("(*MessageCache).GetForPeer")
		})
		for _, cs := range p.Sites(f, false, "(*MessageCache).GetForPeer") {
			ok, why := p.DomAny(f, cs.Call, AtomWant{unw, false})
			c.Check(ok, "B6", f.Name, "unwanted id never looked up / counted", cs.Call, why, why)
		}
		n := 0
		for _, mi := range p.mapInserts(f) {
			if v := p.R(f).Val(mi.Map); !v.IsCall("builtin.make") {
				continue
			}
			n++
			ok, why := p.DomAny(f, mi.Stmt, AtomWant{unw, false})
			c.Check(ok, "B6", f.Name, "unwanted id never served", mi.Stmt, why, why)
			ok, why = p.DomAny(f, mi.Stmt, AtomWant{retx, false})
			c.Check(ok, "B7", f.Name, "served at most GossipRetransmission times", mi.Stmt, why, why)
			ok, why = p.DomAny(f, mi.Stmt, AtomWant{found, true})
			c.Check(ok, "B7", f.Name, "served only if cached", mi.Stmt, why, why)
			// served value is the cached message's protobuf
			rv := p.R(f).Val(mi.Stmt.Rhs[0])
			okv := rv.IsField("Message.Message") && rv.Args[0].Kind == "tuple" && rv.Args[0].Args[0].IsCall("(*MessageCache).GetForPeer")
			c.Check(okv, "B7", f.Name, "served message is the cached one", mi.Stmt, rv.String(), "served value is "+rv.String())
		}
		if n == 0 {
			c.Undecided("B6", f.Name, "reply set", f.Decl, "no insertion into the reply set")
		}
	}
	if f := c.MustFn("B7", "(*MessageCache).GetForPeer"); f != nil {
		// the per-peer counter is incremented on every successful lookup
		g := p.Graph(f)
		present := lookupIn("mid in msgs", isFieldOf("MessageCache.msgs"))
		for _, e := range g.AtomEdges(present, true) {
			isTx := func(v *V) bool {
				// the per-peer transmission map of the message: mc.peertx[mid] (or the local that holds / replaces it)
				return v != nil && (v.Has(func(x *V) bool { return x.IsField("MessageCache.peertx") }) || v.IsCall("builtin.make") || v.Kind == "var")
			}
			ok, _ := g.MustPass(EdgeTarget(e), PassOpts{}, func(n ast.Node) bool {
				switch s := n.(type) {
				case *ast.IncDecStmt:
					ix, isIx := unparen(s.X).(*ast.IndexExpr)
					return s.Tok == token.INC && isIx && isTx(p.R(f).Val(ix.X))
				case *ast.AssignStmt:
					if len(s.Lhs) != 1 || len(s.Rhs) != 1 {
						return false
					}
					ix, isIx := unparen(s.Lhs[0]).(*ast.IndexExpr)
					if !isIx || !isTx(p.R(f).Val(ix.X)) {
						return false
					}
					one := func(v *V) bool { return v != nil && v.IsConst("1") }
					if s.Tok == token.ADD_ASSIGN {
						return one(p.R(f).Val(s.Rhs[0]))
					}
					if s.Tok == token.ASSIGN {
						rv, old := p.R(f).Val(s.Rhs[0]), p.R(f).Val(s.Lhs[0])
						return rv.Kind == "op" && rv.Name == "+" && ((rv.Args[0].Equal(old) && one(rv.Args[1])) || (rv.Args[1].Equal(old) && one(rv.Args[0])))
					}
				}
				return false
			})
			c.Check(ok, "B7", f.Name, "transmission counter incremented on every hit", condNodeOf(e), "tx[p]++ on every path", "a cache hit does not count the transmission")
		}
		if len(g.AtomEdges(present, true)) == 0 {
			c.Bad("B7", f.Name, "transmission counter incremented on every hit", f.Decl, "no lookup in msgs")
		}
	}
	// ---------------- handleIDontWant: B8..B10
	if f := c.MustFn("B8", "(*GossipSubRouter).handleIDontWant"); f != nil {
		g := p.Graph(f)
		idx := func(v *V) bool { return v != nil && v.Kind == "index" && v.Args[0].IsField(gsField("peerdontwant")) }
		var ins []MapInsert
		for _, mi := range p.mapInserts(f) {
			if p.R(f).Val(mi.Key).IsCall("computeChecksum") {
				ins = append(ins, mi)
			}
		}
		var effects []ast.Node
		var desc []string
		for _, mi := range ins {
			effects = append(effects, mi.Stmt)
			desc = append(desc, "id remembered")
		}
		for _, n := range storesInFn(p, f, gsField("peerdontwant")) {
			effects = append(effects, n)
			desc = append(desc, "message counter charged")
		}
		b8 := AtomCmp("peerdontwant[p] >= MaxIDontWantMessages", idx, ">=", prm("MaxIDontWantMessages"))
		gateReturn(c, "B8", f, b8, effects, desc)
		// the counter is charged on every accepted message
		if len(storesInFn(p, f, gsField("peerdontwant"))) == 0 {
			c.Bad("B8", f.Name, "message counter charged", f.Decl, "peerdontwant[p] is never incremented")
		}
		if len(ins) != 1 {
			c.Undecided("B9", f.Name, "unwanted insertion", f.Decl, "expected one insertion keyed by computeChecksum")
		}
		for _, mi := range ins {
			// the running counter
			var ctr types.Object
			b9 := Atom{Desc: "total ids >= MaxIDontWantLength", Match: func(g *Graph, e ast.Expr) (bool, bool) {
				be, ok := unparen(e).(*ast.BinaryExpr)
				if !ok {
					return false, false
				}
				id, ok := unparen(be.X).(*ast.Ident)
				if !ok || !prm("MaxIDontWantLength")(g.P.R(g.F).Val(be.Y)) {
					return false, false
				}
				switch be.Op.String() {
				case ">=":
					ctr = g.F.Info().Uses[id]
					return true, true
				case "<":
					ctr = g.F.Info().Uses[id]
					return true, false
				}
				return false, false
			}}
			ok, why := p.DomAny(f, mi.Stmt, AtomWant{b9, false})
			c.Check(ok, "B9", f.Name, "id remembered only below MaxIDontWantLength", mi.Stmt, why, why)
			if ctr != nil {
				// incremented once per remembered id, never reset inside the loops
				incs, resets := 0, 0
				for _, d := range p.R(f).Defs(ctr) {
					switch x := d.node.(type) {
					case *ast.IncDecStmt:
						if x.Tok == token.INC && sameLoop(p, x, mi.Stmt) {
							pt, _ := g.Locate(mi.Stmt)
							if g.DominatedByNode(pt, func(n ast.Node) bool { return n == ast.Node(x) }) || func() bool {
								ip, _ := g.Locate(x)
								ok, _ := g.MustPass(pt, PassOpts{Until: p.iterationUntil(f, mi.Stmt)}, func(n ast.Node) bool { return n == ast.Node(x) })
								_ = ip
								return ok
							}() {
								incs++
							}
						}
					default:
						if len(p.EnclosingLoops(d.node)) > 0 {
							resets++
						}
					}
				}
				c.Check(incs == 1 && resets == 0, "B9", f.Name, "running id counter spans the whole RPC", mi.Stmt, "incremented once per remembered id and never reset inside the loops", "the id counter is not a running count over all IDONTWANT entries of the RPC (reset or not incremented per id)")
			} else {
				c.Bad("B9", f.Name, "running id counter spans the whole RPC", mi.Stmt, "no counter compared with MaxIDontWantLength")
			}
			rv := p.R(f).Val(mi.Stmt.Rhs[0])
			c.Check(prm("IDontWantMessageTTL")(rv), "B10", f.Name, "stored TTL is IDontWantMessageTTL", mi.Stmt, rv.String(), "stored TTL is "+rv.String())
		}
	}
	// ---------------- emitGossip B11
	if f := c.MustFn("B11", "(*GossipSubRouter).emitGossip"); f != nil {
		g := p.Graph(f)
		tooMany := AtomCmp("len(mids) > MaxIHaveLength", func(v *V) bool {
			return v.Kind == "len" && v.Args[0].IsCall("(*MessageCache).GetGossipIDs")
		}, ">", prm("MaxIHaveLength"))
		sites := p.Sites(f, false, "(*GossipSubRouter).enqueueGossip")
		if len(sites) == 0 {
			c.Undecided("B11", f.Name, "enqueueGossip", f.Decl, "no enqueueGossip call")
		}
		for _, cs := range sites {
			// the MessageIDs operand
			var idsId *ast.Ident
			if cl := compositeOf(cs.Call.Args[1]); cl != nil {
				for _, el := range cl.Elts {
					if kv, ok := el.(*ast.KeyValueExpr); ok {
						if k, ok := kv.Key.(*ast.Ident); ok && k.Name == "MessageIDs" {
							idsId, _ = unparen(kv.Value).(*ast.Ident)
						}
					}
				}
			}
			if idsId == nil {
				c.Undecided("B11", f.Name, "IHAVE ids operand", cs.Call, "MessageIDs is not a local variable")
				continue
			}
			obj := f.Info().Uses[idsId]
			cut := cutSet{}
			for _, e := range g.AtomEdges(tooMany, false) {
				cut[e] = true
			}
			loops := p.EnclosingLoops(cs.Call)
			if len(loops) == 0 {
				c.Bad("B11", f.Name, "per-peer truncation", cs.Call, "enqueueGossip is not in a per-peer loop")
				continue
			}
			_, body, _ := g.LoopBlocks(loops[0])
			cp, _ := g.Locate(cs.Call)
			stopAtCall := map[*cfgBlock]bool{}
			_ = stopAtCall
			ok, _ := g.MustPass(Point{body, 0}, PassOpts{Cut: cut, Until: p.iterationUntil(f, cs.Call)}, func(n ast.Node) bool {
				if n == cp.B.Nodes[cp.I] {
					return false
				}
				as, rhs := isAssignTo(f, n, obj)
				if as == nil {
					return false
				}
				rv := p.R(f).Val(rhs)
				return rv.IsCall("builtin.make") && len(rv.Args) >= 2 && prm("MaxIHaveLength")(rv.Args[1])
			})
			// the truncating assignment must come before the enqueue: enqueue unreachable without it on non-refuting paths
			reachNoTrunc := g.ReachableFrom(Point{body, 0}, cp, cut, func(n ast.Node) bool {
				as, rhs := isAssignTo(f, n, obj)
				return as != nil && p.R(f).Val(rhs).IsCall("builtin.make")
			})
			c.Check(ok && !reachNoTrunc, "B11", f.Name, "IHAVE truncated to MaxIHaveLength ids per peer", cs.Call, "every path that does not refute len(mids) > MaxIHaveLength builds a MaxIHaveLength-sized list first", "an IHAVE with more than MaxIHaveLength ids can be enqueued")
		}
	}
	// ---------------- Preprocess B12
	if f := c.MustFn("B12", "(*GossipSubRouter).Preprocess"); f != nil {
		small := AtomCmp("len(data) < IDontWantMessageThreshold", func(v *V) bool {
			return v.Kind == "len" && v.Args[0].IsCall("pb.(*Message).GetData")
		}, "<", prm("IDontWantMessageThreshold"))
		n := 0
		for _, mi := range p.mapInserts(f) {
			if v := p.R(f).Val(mi.Map); v.IsCall("builtin.make") {
				n++
				ok, why := p.DomAny(f, mi.Stmt, AtomWant{small, false})
				c.Check(ok, "B12", f.Name, "id collected only for messages >= threshold", mi.Stmt, why, why)
			}
		}
		if n == 0 {
			c.Undecided("B12", f.Name, "id collection", f.Decl, "no collection of message ids")
		}
		for _, cs := range p.Sites(f, false, fnSendRPC) {
			isSender := AtomCmp("p == from", func(v *V) bool { return v.Kind == "rangekey" }, "==", isParam(f, 0))
			ok, why := p.DomAny(f, cs.Call, AtomWant{isSender, false})
			c.Check(ok, "B12", f.Name, "IDONTWANT never sent to the sender", cs.Call, why, why)
			feat := AtomBool("feature(Idontwant, gs.peers[p])", func(v *V) bool {
				return v.IsCall(fnFeature) && len(v.Args) == 3 && v.Args[1].IsConst("GossipSubFeatureIdontwant")
			})
			ok, why = p.DomAny(f, cs.Call, AtomWant{feat, true})
			c.Check(ok, "B12", f.Name, "IDONTWANT only to peers speaking v1.2+", cs.Call, why, why)
			inMesh := false
			for _, l := range p.EnclosingLoops(cs.Call) {
				if r, ok := l.(*ast.RangeStmt); ok && innerMapOf("mesh")(p.R(f).Val(r.X)) {
					inMesh = true
				}
			}
			c.Check(inMesh, "B12", f.Name, "IDONTWANT only to mesh peers of the topic", cs.Call, "range over gs.mesh[topic]", "recipients are not the topic's mesh members")
		}
	}
	// ---------------- MessageCache B13, B14
	if f := c.MustFn("B13", "(*MessageCache).GetGossipIDs"); f != nil {
		okAny := false
		// form-independent: every use of mc.history in this function is the operand of the slice
		// expression history[:gossip] (whatever loops over the result)
		ast.Inspect(f.Body, func(n ast.Node) bool {
			se, ok := n.(*ast.SelectorExpr)
			if !ok {
				return true
			}
			if sel := f.Info().Selections[se]; sel == nil || sel.Kind() != types.FieldVal || fieldOwnerName(sel) != "MessageCache.history" {
				return true
			}
			okAny = true
			var par ast.Node = p.parents[se]
			for {
				pe, isP := par.(*ast.ParenExpr)
				if !isP {
					break
				}
				par = p.parents[pe]
			}
			sl, isSlice := par.(*ast.SliceExpr)
			if !isSlice || unparen(sl.X) != ast.Expr(se) {
				c.Bad("B13", f.Name, "gossip ids from history[:gossip] only", se, "the history is read outside the gossip window history[:gossip] (the whole history would be advertised)")
				return true
			}
			v := p.R(f).Val(sl)
			lowOK := v.Args[1].Name == "_" || v.Args[1].IsConst("0")
			good := lowOK && v.Args[2].IsField("MessageCache.gossip") && sl.Max == nil
			c.Check(good, "B13", f.Name, "gossip ids from history[:gossip] only", sl, v.String(), "gossip ids are read from "+v.String())
			return true
		})
		if !okAny {
			c.Undecided("B13", f.Name, "history range", f.Decl, "no range over the history")
		}
		// only entries of the asked topic
		for _, ap := range p.localAppends(f) {
			a := AtomCmp("entry.topic == topic", isFieldOf("CacheEntry.topic"), "==", func(v *V) bool { return v.Kind == "var" })
			ok, why := p.DomAny(f, ap.Stmt, AtomWant{a, true})
			c.Check(ok, "B13", f.Name, "only ids of the asked topic", ap.Stmt, why, why)
		}
	}
	if f := c.MustFn("B14", "(*MessageCache).Shift"); f != nil {
		g := p.Graph(f)
		// (a) the last slot is expired: a loop (range or index form) over history[len(history)-1]
		isLastSlot := func(v *V) bool {
			return v != nil && v.Kind == "index" && v.Args[0].IsField("MessageCache.history") && v.Args[1].Kind == "op" && v.Args[1].Name == "-" &&
				v.Args[1].Args[0].Kind == "len" && v.Args[1].Args[0].Args[0].IsField("MessageCache.history") && v.Args[1].Args[1].Name == "1"
		}
		var lastLoop ast.Stmt
		for _, l := range p.LoopsOver(f, isLastSlot) {
			lastLoop = l
		}
		loopStart := func(l ast.Stmt) ast.Node {
			switch x := l.(type) {
			case *ast.RangeStmt:
				return x.X
			case *ast.ForStmt:
				return x.Init
			}
			return l
		}
		if lastLoop == nil {
			c.Bad("B14", f.Name, "last slot expired", f.Decl, "Shift does not iterate over history[len-1]")
		} else {
			for _, fld := range []string{"MessageCache.msgs", "MessageCache.peertx"} {
				ok, why := p.LoopBodyMust(f, lastLoop, nil, func(n ast.Node) bool { return isDeleteOf(p, f, n, fld) })
				c.Check(ok, "B14", f.Name, "expired entries removed from "+fld, lastLoop, why, why)
			}
			ok, _ := g.MustPass(g.Entry(), PassOpts{}, func(n ast.Node) bool { return n == loopStart(lastLoop) })
			c.Check(ok, "B14", f.Name, "expiry on every Shift", lastLoop, "on every path from entry", "Shift can return without expiring the last slot")
		}
		// (b) shift loop and (c) slot 0 cleared, on every path
		isShiftStore := func(n ast.Node) bool {
			as, ok := n.(*ast.AssignStmt)
			if !ok || len(as.Lhs) != 1 {
				return false
			}
			ix, ok := unparen(as.Lhs[0]).(*ast.IndexExpr)
			if !ok || !p.R(f).Val(ix.X).IsField("MessageCache.history") {
				return false
			}
			rv := p.R(f).Val(as.Rhs[0])
			return rv.Kind == "index" && rv.Args[0].IsField("MessageCache.history")
		}
		isClear0 := func(n ast.Node) bool {
			as, ok := n.(*ast.AssignStmt)
			if !ok || len(as.Lhs) != 1 {
				return false
			}
			ix, ok := unparen(as.Lhs[0]).(*ast.IndexExpr)
			return ok && p.R(f).Val(ix.X).IsField("MessageCache.history") && p.R(f).Val(ix.Index).Name == "0" && isNilV(p.R(f).Val(as.Rhs[0]))
		}
		ok, _ := g.MustPass(g.Entry(), PassOpts{}, isClear0)
		c.Check(ok, "B14", f.Name, "slot 0 cleared on every Shift", f.Decl, "history[0] = nil on every path", "Shift can return without clearing the current slot")
		// the shift loop: a for statement whose body stores history[i+1] = history[i], descending, reached on every path
		var shiftLoop *ast.ForStmt
		inspectNoLit(f.Body, func(n ast.Node) bool {
			if fs, ok := n.(*ast.ForStmt); ok {
				for _, st := range fs.Body.List {
					if isShiftStore(st) {
						shiftLoop = fs
					}
				}
			}
			return true
		})
		// … or the builtin copy(history[1:], history[:len(history)-1]) (overlap-safe by definition)
		var shiftCopy *ast.CallExpr
		for _, cs := range p.FuncCalls(f, false) {
			if cs.Name != "builtin.copy" || len(cs.Call.Args) != 2 {
				continue
			}
			dst, src := p.R(f).Val(cs.Call.Args[0]), p.R(f).Val(cs.Call.Args[1])
			hist := func(v *V) bool { return v != nil && v.Kind == "slice" && v.Args[0].IsField("MessageCache.history") }
			if !hist(dst) || !hist(src) {
				continue
			}
			lenM1 := func(v *V) bool {
				return v.Kind == "op" && v.Name == "-" && v.Args[0].Kind == "len" && v.Args[0].Args[0].IsField("MessageCache.history") && v.Args[1].Name == "1"
			}
			lowNone := func(v *V) bool { return v.Name == "_" || v.IsConst("0") }
			if dst.Args[1].IsConst("1") && dst.Args[2].Name == "_" && lowNone(src.Args[1]) && lenM1(src.Args[2]) {
				shiftCopy = cs.Call
			}
		}
		if shiftLoop == nil && shiftCopy != nil {
			okr, _ := g.MustPass(g.Entry(), PassOpts{}, func(n ast.Node) bool { return contains(n, shiftCopy) })
			c.Check(okr, "B14", f.Name, "slots shifted on every Shift", shiftCopy, "on every path", "Shift can return without shifting")
			c.Check(true, "B14", f.Name, "shift runs from len-2 down to 0", shiftCopy, "copy(history[1:], history[:len-1]) moves every slot up by one", "")
			if lastLoop != nil {
				ip, _ := g.Locate(shiftCopy)
				okd := g.DominatedByNode(ip, func(n ast.Node) bool { return n == loopStart(lastLoop) })
				c.Check(okd, "B14", f.Name, "expiry before shifting", shiftCopy, "the expiry loop dominates the shift", "slots are shifted before the last one is expired")
			}
		} else if shiftLoop == nil {
			c.Bad("B14", f.Name, "slots shifted", f.Decl, "no loop moving history[i] to history[i+1] (and no copy(history[1:], history[:len-1]))")
		} else {
			okr, _ := g.MustPass(g.Entry(), PassOpts{}, func(n ast.Node) bool { return shiftLoop.Init != nil && n == ast.Node(shiftLoop.Init) })
			c.Check(okr, "B14", f.Name, "slots shifted on every Shift", shiftLoop, "on every path", "Shift can return without shifting")
			// descending iteration from len-2 down to 0 (so no slot is overwritten before it is moved)
			// index arithmetic, whatever the loop variable's offset: the loop is descending, its store is
			// history[i+a] = history[i+b] with a-b == 1, it starts at i0 = len(history)+s with i0+a == len-1 (the top slot is
			// written first) and runs down to i == L with L+b == 0 (slot 0 is the last one moved)
			desc := false
			var loopVar types.Object
			if id, ok := shiftLoop.Post.(*ast.IncDecStmt); ok && id.Tok == token.DEC {
				desc = true
				if iv, ok := unparen(id.X).(*ast.Ident); ok {
					loopVar = f.Info().ObjectOf(iv)
				}
			}
			// linear(e) = offset c such that e == i + c
			linear := func(e ast.Expr) (int, bool) {
				e = unparen(e)
				if id, ok := e.(*ast.Ident); ok && loopVar != nil && f.Info().ObjectOf(id) == loopVar {
					return 0, true
				}
				if be, ok := e.(*ast.BinaryExpr); ok && (be.Op == token.ADD || be.Op == token.SUB) {
					if id, ok := unparen(be.X).(*ast.Ident); ok && loopVar != nil && f.Info().ObjectOf(id) == loopVar {
						if tv, ok := f.Info().Types[be.Y]; ok && tv.Value != nil {
							if n, exact := constant.Int64Val(tv.Value); exact {
								if be.Op == token.SUB {
									n = -n
								}
								return int(n), true
							}
						}
					}
				}
				return 0, false
			}
			a, b, okAB := 0, 0, false
			for _, st := range shiftLoop.Body.List {
				if as, ok := st.(*ast.AssignStmt); ok && isShiftStore(st) {
					li, _ := unparen(as.Lhs[0]).(*ast.IndexExpr)
					ri, _ := unparen(as.Rhs[0]).(*ast.IndexExpr)
					if li != nil && ri != nil {
						a1, ok1 := linear(li.Index)
						b1, ok2 := linear(ri.Index)
						if ok1 && ok2 {
							a, b, okAB = a1, b1, true
						}
					}
				}
			}
			initOK := false
			s := 0
			if as, ok := shiftLoop.Init.(*ast.AssignStmt); ok && len(as.Rhs) == 1 {
				v := p.R(f).Val(as.Rhs[0])
				if v.Kind == "op" && v.Name == "-" && v.Args[0].Kind == "len" && v.Args[0].Args[0].IsField("MessageCache.history") {
					if n, err := strconv.Atoi(v.Args[1].Name); err == nil {
						s, initOK = -n, true
					}
				}
			}
			condOK := false
			L := 0
			if be, ok := shiftLoop.Cond.(*ast.BinaryExpr); ok {
				if tv, ok := f.Info().Types[be.Y]; ok && tv.Value != nil {
					if n, exact := constant.Int64Val(tv.Value); exact {
						if _, isI := linear(be.X); isI {
							switch be.Op {
							case token.GEQ:
								L, condOK = int(n), true
							case token.GTR:
								L, condOK = int(n)+1, true
							}
						}
					}
				}
			}
			if desc && initOK && condOK && okAB {
				initOK = a-b == 1 && s+a == -1
				condOK = L+b == 0
			} else {
				initOK, condOK = false, false
			}
			c.Check(desc && initOK && condOK, "B14", f.Name, "shift runs from len-2 down to 0", shiftLoop, "descending over all slots", "the shift loop does not run from len(history)-2 down to 0")
			// expiry happens before the shift
			if lastLoop != nil {
				ip, _ := g.Locate(shiftLoop.Init)
				okd := g.DominatedByNode(ip, func(n ast.Node) bool { return n == loopStart(lastLoop) })
				c.Check(okd, "B14", f.Name, "expiry before shifting", shiftLoop, "the expiry loop dominates the shift", "slots are shifted before the last one is expired")
			}
		}
	}
	// ---------------- B15 parameter validation
	if f := c.MustFn("B15", "(*GossipSubParams).validate"); f != nil {
		a := AtomCmp("HistoryGossip <= HistoryLength", prm("HistoryGossip"), "<=", prm("HistoryLength"))
		n := 0
		returnsIn(f, func(r *ast.ReturnStmt) {
			if len(r.Results) == 1 && isNilV(p.R(f).Val(r.Results[0])) {
				n++
				ok, why := p.DomAny(f, r, AtomWant{a, true})
				c.Check(ok, "B15", f.Name, "accepted only if HistoryGossip <= HistoryLength", r, why, why)
			}
		})
		if n == 0 {
			c.Undecided("B15", f.Name, "return nil", f.Decl, "no accepting return")
		}
	}
	// B15b: the cache geometry is usable for every accepted parameter set (history[0] and history[len-1] exist, history[:gossip] is valid)
	if f := c.MustFn("B15", "(*GossipSubParams).validate"); f != nil {
		noSlots := AtomCmp("HistoryLength <= 0", prm("HistoryLength"), "<=", isZero)
		negGossip := AtomCmp("HistoryGossip < 0", prm("HistoryGossip"), "<", isZero)
		returnsIn(f, func(r *ast.ReturnStmt) {
			if len(r.Results) == 1 && isNilV(p.R(f).Val(r.Results[0])) {
				ok, why := p.DomAny(f, r, AtomWant{noSlots, false})
				c.Check(ok, "B15", f.Name, "accepted only with at least one history slot", r, why, "a parameter set with HistoryLength <= 0 can be accepted: MessageCache.Put/Shift index an empty history and panic the event loop: "+why)
				ok, why = p.DomAny(f, r, AtomWant{negGossip, false})
				c.Check(ok, "B15", f.Name, "accepted only with a non-negative gossip window", r, why, "a negative HistoryGossip can be accepted: history[:gossip] panics: "+why)
			}
		})
	}
	// ---------------- B16 key agreement
	{
		n := 0
		for _, f := range p.All {
			if p.IsGenerated(f.Body) || f.Pkg != p.Main {
				continue
			}
			inspectNoLit(f.Body, func(x ast.Node) bool {
				ix, ok := x.(*ast.IndexExpr)
				if !ok {
					return true
				}
				mv := p.R(f).Val(ix.X)
				isInner := false
				if (mv.Kind == "index" || mv.Kind == "lookupval" || mv.Kind == "rangeval") && mv.Args[0].IsField(gsField("unwanted")) {
					isInner = true
				}
				if t := f.Info().TypeOf(ix.X); t != nil {
					if m, ok := t.Underlying().(*types.Map); ok && typeString(m.Key(), modPath) == "checksum" {
						isInner = true
					} else {
						isInner = false
					}
				}
				if !isInner {
					return true
				}
				kv := p.R(f).Val(ix.Index)
				if kv.Kind == "rangekey" { // iterating over the map itself
					return true
				}
				n++
				ok2 := kv.IsCall("computeChecksum")
				c.Check(ok2, "B16", f.Root().Name, "unwanted map keyed by computeChecksum(id)", ix, kv.String(), "the unwanted map is indexed by "+kv.String()+": stores and lookups would not agree")
				return true
			})
		}
		if n < 3 {
			c.Undecided("B16", "gs.unwanted", "index sites", nil, "fewer index sites than known (insert, IWANT lookup, publish lookup)")
		}
	}
	// ---------------- heartbeat schedule
	if f := c.MustFn("SCHED", fnHeartbeat); f != nil {
		g := p.Graph(f)
		for _, callee := range []string{"(*GossipSubRouter).clearBackoff", "(*GossipSubRouter).clearIHaveCounters", "(*GossipSubRouter).clearIDontWantCounters", "(*GossipSubRouter).applyIwantPenalties", "(*GossipSubRouter).sendGraftPrune", "(*GossipSubRouter).flush", "(*MessageCache).Shift"} {
			ok, why := p.MustCallFromEntry(f, callee)
			c.Check(ok, "SCHED", f.Name, shortFn(callee)+" on every heartbeat", f.Decl, why, why)
			sites := p.Sites(f, true, callee)
			c.Check(len(sites) == 1, "SCHED", f.Name, shortFn(callee)+" exactly once", f.Decl, "one call site", "called from "+itoa(len(sites))+" sites")
			callers := p.CallerNames(callee)
			okc, extra := subset(callers, f.Name)
			c.Check(okc, "SCHED", callee, "called only by heartbeat", nil, strings.Join(callers, ","), "also called from "+strings.Join(extra, ","))
		}
		for _, cs := range p.Sites(f, false, "(*MessageCache).Shift") {
			ok := p.DomCall(f, cs.Call, "(*GossipSubRouter).flush")
			c.Check(ok, "SCHED", f.Name, "flush before Shift", cs.Call, "flush dominates Shift", "the cache window advances before pending gossip is flushed")
		}
		for _, fld := range []string{"mesh", "fanout"} {
			rs := p.RangesOver(f, isFieldOf(gsField(fld)))
			found := false
			for _, r := range rs {
				ok, _ := p.LoopBodyMust(f, r, nil, p.callPred(f, "(*GossipSubRouter).emitGossip"))
				if !ok {
					continue
				}
				found = true
				okr, _ := g.MustPass(g.Entry(), PassOpts{}, func(n ast.Node) bool { return n == ast.Node(r.X) })
				c.Check(okr, "SCHED", f.Name, "gossip emitted for every "+fld+" topic", r, "loop on every path, emitGossip in every iteration", "the "+fld+" gossip loop is skipped on some path")
				// pushed-to peers are excluded
				for _, cs := range p.Sites(f, false, "(*GossipSubRouter).emitGossip") {
					if within(cs.Call, r) {
						v := p.R(f).Val(cs.Call.Args[1])
						c.Check(v.Kind == "rangeval" && v.Args[0].IsField(gsField(fld)), "SCHED", f.Name, fld+" members excluded from gossip", cs.Call, v.String(), "exclude set is "+v.String())
					}
				}
			}
			if !found {
				c.Bad("SCHED", f.Name, "gossip emitted for every "+fld+" topic", f.Decl, "no loop over gs."+fld+" that emits gossip in every iteration")
			}
		}
	}
	if f := c.MustFn("SCHED", "(*GossipSubRouter).clearIDontWantCounters"); f != nil {
		g := p.Graph(f)
		// The TTL of an entry is either the map element mids[mid] (mids = a value of the range over
		// gs.unwanted) or the value variable of the inner range over mids (then the decremented value has to be
		// stored back). Accepted decrements: x--, x -= 1, x = x - 1.
		res := p.R(f)
		isInnerMap := func(v *V) bool { return v != nil && v.Kind == "rangeval" && v.Args[0].IsField(gsField("unwanted")) }
		ttlVar := func(v *V) bool {
			if v == nil || (v.Kind != "var" && v.Kind != "rangeval") || v.Obj == nil {
				return false
			}
			for _, d := range res.Defs(v.Obj) {
				if d.kind == "range-val" && d.rangeX != nil && isInnerMap(res.Val(d.rangeX)) {
					return true
				}
			}
			return false
		}
		ttlElem := func(v *V) bool {
			// mids[mid] — which, inside `for mid := range mids`, is canonically the range value of mids
			return v != nil && (v.Kind == "index" || v.Kind == "rangeval") && len(v.Args) > 0 && isInnerMap(v.Args[0])
		}
		isTTL := func(v *V) bool { return ttlElem(v) || ttlVar(v) }
		expired := AtomCmp("ttl <= 0", isTTL, "<=", isZero)
		edges := g.AtomEdges(expired, true)
		if len(edges) == 0 {
			c.Bad("SCHED", f.Name, "IDONTWANT forgotten at TTL <= 0", f.Decl, "no `ttl <= 0` test")
		}
		isDecrement := func(n ast.Node) (bool, bool) { // (is a decrement of the TTL, of the local copy)
			switch s := n.(type) {
			case *ast.IncDecStmt:
				if s.Tok == token.DEC {
					if id, ok := unparen(s.X).(*ast.Ident); ok {
						if o := f.Info().Uses[id]; o != nil && ttlVar(&V{Kind: "var", Obj: o}) {
							return true, true
						}
						return false, false
					}
					return ttlElem(res.Val(s.X)), false
				}
			case *ast.AssignStmt:
				if len(s.Lhs) != 1 || len(s.Rhs) != 1 {
					return false, false
				}
				local := false
				if id, ok := unparen(s.Lhs[0]).(*ast.Ident); ok {
					o := f.Info().Uses[id]
					if o == nil || !ttlVar(&V{Kind: "var", Obj: o}) {
						return false, false
					}
					local = true
				} else if !ttlElem(res.Val(s.Lhs[0])) {
					return false, false
				}
				one := func(e ast.Expr) bool { v := res.Val(e); return v.IsConst("1") }
				if s.Tok == token.SUB_ASSIGN && one(s.Rhs[0]) {
					return true, local
				}
				if s.Tok == token.ASSIGN {
					if be, ok := unparen(s.Rhs[0]).(*ast.BinaryExpr); ok && be.Op == token.SUB && one(be.Y) {
						if local {
							if id, ok := unparen(be.X).(*ast.Ident); ok && f.Info().Uses[id] == f.Info().Uses[unparen(s.Lhs[0]).(*ast.Ident)] {
								return true, true
							}
						} else if isTTL(res.Val(be.X)) {
							return true, false
						}
					}
				}
			}
			return false, false
		}
		for _, e := range edges {
			ok, _ := g.MustPass(EdgeTarget(e), PassOpts{Until: p.iterationUntil(f, condNodeOf(e))}, func(n ast.Node) bool {
				for _, d := range p.mapDeletes(f) {
					if contains(n, d.Call) {
						return true
					}
				}
				return false
			})
			c.Check(ok, "SCHED", f.Name, "IDONTWANT forgotten at TTL <= 0", condNodeOf(e), "deleted", "an expired IDONTWANT is kept")
			// decremented once per heartbeat per id
			loops := p.EnclosingLoops(condNodeOf(e))
			if len(loops) > 0 {
				localDec := false
				okd, why := p.LoopBodyMust(f, loops[0], nil, func(n ast.Node) bool {
					d, local := isDecrement(n)
					if d && local {
						localDec = true
					}
					return d
				})
				if okd && localDec {
					// the decremented copy must be written back after the decrement, in the same iteration
					storeBack := func(n ast.Node) bool {
						as, ok := n.(*ast.AssignStmt)
						if !ok || len(as.Lhs) != 1 || len(as.Rhs) != 1 || as.Tok != token.ASSIGN {
							return false
						}
						if !ttlElem(res.Val(as.Lhs[0])) {
							return false
						}
						id, ok := unparen(as.Rhs[0]).(*ast.Ident)
						return ok && f.Info().Uses[id] != nil && ttlVar(&V{Kind: "var", Obj: f.Info().Uses[id]})
					}
					for _, blk := range g.C.Blocks {
						for i, n := range blk.Nodes {
							if d, local := isDecrement(n); d && local && within(n, loops[0]) {
								okb, _ := g.MustPass(Point{blk, i + 1}, PassOpts{Until: p.iterationUntil(f, n)}, storeBack)
								if !okb {
									okd, why = false, "the decremented TTL copy is not stored back into the map after the decrement"
								}
							}
						}
					}
				}
				c.Check(okd, "SCHED", f.Name, "every IDONTWANT TTL decremented each heartbeat", loops[0], why, why)
			}
		}
		// the per-heartbeat message counter is reset
		cut := cutSet{}
		nonEmpty := AtomCmp("len(peerdontwant) > 0", func(v *V) bool { return v.Kind == "len" && v.Args[0].IsField(gsField("peerdontwant")) }, ">", isZero)
		for _, e := range g.AtomEdges(nonEmpty, false) {
			cut[e] = true
		}
		ok, _ := g.MustPass(g.Entry(), PassOpts{Cut: cut}, func(n ast.Node) bool {
			for _, s := range p.StoresTo2(f, gsField("peerdontwant")) {
				if s.Node == n && s.Kind == "assign" {
					return true
				}
			}
			return false
		})
		c.Check(ok, "SCHED", f.Name, "IDONTWANT message counters reset", f.Decl, "replaced whenever non-empty", "the per-heartbeat IDONTWANT counters are not always reset")
	}
	if f := c.MustFn("SCHED", "(*GossipSubRouter).clearIHaveCounters"); f != nil {
		g := p.Graph(f)
		for _, fld := range []string{"peerhave", "iasked"} {
			cut := cutSet{}
			nonEmpty := AtomCmp("len("+fld+") > 0", func(v *V) bool { return v.Kind == "len" && v.Args[0].IsField(gsField(fld)) }, ">", isZero)
			for _, e := range g.AtomEdges(nonEmpty, false) {
				cut[e] = true
			}
			ok, _ := g.MustPass(g.Entry(), PassOpts{Cut: cut}, func(n ast.Node) bool {
				for _, s := range p.StoresTo2(f, gsField(fld)) {
					if s.Node == n && s.Kind == "assign" {
						return true
					}
				}
				return false
			})
			c.Check(ok, "SCHED", f.Name, fld+" counters reset each heartbeat", f.Decl, "replaced whenever non-empty", "the per-heartbeat "+fld+" counters are not always reset")
		}
	}
	// cache before recipients
	if f := c.MustFn("SCHED", "(*GossipSubRouter).rpcs"); f != nil {
		for _, lit := range f.Children {
			g := p.Graph(lit)
			ok, _ := g.MustPass(g.Entry(), PassOpts{}, p.callPred(lit, "(*MessageCache).Put"))
			c.Check(ok, "SCHED", f.Name, "message cached before recipients are chosen", lit.Lit, "mcache.Put on every path", "a forwarded message may not be cached (not retrievable through IWANT)")
			for _, cs := range p.YieldSites(lit) {
				c.Check(p.DomCall(lit, cs.Call, "(*MessageCache).Put"), "SCHED", f.Name, "cached before sending", cs.Call, "Put dominates yield", "a copy can be sent before the message is cached")
			}
		}
	}
	// ---------------- promises
	for _, fn := range []string{"(*gossipTracer).DeliverMessage", "(*gossipTracer).ValidateMessage"} {
		if f := c.MustFn("PROM", fn); f != nil {
			ok, why := p.MustCallFromEntry(f, "(*gossipTracer).fulfillPromise")
			c.Check(ok, "PROM", f.Name, "promise fulfilled", f.Decl, why, why)
		}
	}
	if f := c.MustFn("PROM", "(*gossipTracer).RejectMessage"); f != nil {
		reasons := []string{"RejectBlacklstedPeer", "RejectBlacklistedSource", "RejectMissingSignature", "RejectUnexpectedSignature", "RejectUnexpectedAuthInfo", "RejectInvalidSignature", "RejectValidationQueueFull", "RejectValidationThrottled", "RejectValidationFailed", "RejectValidationIgnored", "RejectSelfOrigin"}
		g := p.Graph(f)
		for _, r := range reasons {
			ef := &EnumFlow{P: p, F: f, Universe: reasons, TypeName: "string", Params: map[string]ValSet{"reason": {r: true}}}
			ef.Run()
			ok, _ := g.MustPass(g.Entry(), PassOpts{Cut: ef.InfeasibleEdges()}, p.callPred(f, "(*gossipTracer).fulfillPromise"))
			exempt := r == "RejectMissingSignature" || r == "RejectInvalidSignature"
			if exempt {
				c.Check(!ok, "PROM", f.Name, r+" does not fulfil the promise", f.Decl, "an unauthenticated copy does not clear the promise", "a message with a bad/missing signature clears the promise (anyone could void a peer's promise)")
			} else {
				c.Check(ok, "PROM", f.Name, r+" fulfils the promise", f.Decl, "fulfillPromise on every feasible path", "a message rejected with "+r+" leaves the promise pending: the promising peer would be penalised although the message arrived")
			}
		}
	}
	if f := c.MustFn("PROM", "(*gossipTracer).GetBrokenPromises"); f != nil {
		expired := AtomBool("expire.Before(now)", func(v *V) bool {
			return v.IsCall("time.Time.Before") && len(v.Args) == 2 && v.Args[0].Kind == "rangeval" && v.Args[1].IsCall("time.Now")
		})
		n := 0
		inspectNoLit(f.Body, func(x ast.Node) bool {
			s, ok := x.(*ast.IncDecStmt)
			if !ok || s.Tok != token.INC {
				return true
			}
			n++
			ok2, why := p.DomAny(f, s, AtomWant{expired, true})
			c.Check(ok2, "PROM", f.Name, "promise counted broken only when expired", s, why, why)
			return true
		})
		if n == 0 {
			c.Undecided("PROM", f.Name, "broken-promise count", f.Decl, "no increment")
		}
	}
	if f := c.MustFn("PROM", "(*gossipTracer).AddPromise"); f != nil {
		for _, s := range p.AllStores() {
			if s.Fn.Root() != f {
				continue
			}
		}
		for _, mi := range p.mapInserts(f) {
			rv := p.R(f).Val(mi.Stmt.Rhs[0])
			if rv.IsCall("time.Time.Add") {
				ok := rv.Args[0].IsCall("time.Now") && rv.Args[1].IsField("gossipTracer.followUpTime")
				c.Check(ok, "PROM", f.Name, "promise deadline is now + followUpTime", mi.Stmt, rv.String(), "deadline is "+rv.String())
				present := AtomBool("promise already tracked", func(v *V) bool { return v.Kind == "lookupok" })
				ok2, why := p.DomAny(f, mi.Stmt, AtomWant{present, false})
				c.Check(ok2, "PROM", f.Name, "an existing promise deadline is not extended", mi.Stmt, why, why)
			}
		}
		callers := p.CallerNames("(*gossipTracer).AddPromise")
		ok, extra := subset(callers, "(*GossipSubRouter).handleIHave")
		c.Check(ok, "PROM", "AddPromise", "called only by handleIHave", nil, strings.Join(callers, ","), "also from "+strings.Join(extra, ","))
	}
	if f := c.MustFn("PROM", "(*gossipTracer).ThrottlePeer"); f != nil {
		g := p.Graph(f)
		has := lookupIn("p in peerPromises", isFieldOf("gossipTracer.peerPromises"))
		for _, e := range g.AtomEdges(has, true) {
			ok, _ := g.MustPass(EdgeTarget(e), PassOpts{}, func(n ast.Node) bool { return isDeleteOf(p, f, n, "gossipTracer.peerPromises") })
			c.Check(ok, "PROM", f.Name, "throttled peer's promises voided", condNodeOf(e), "peerPromises[p] deleted", "a throttled peer keeps pending promises and would be penalised for messages we refused to take")
		}
		if len(g.AtomEdges(has, true)) == 0 {
			c.Bad("PROM", f.Name, "throttled peer's promises voided", f.Decl, "no lookup of the peer's promises")
		}
	}
	if f := c.MustFn("PROM", "(*GossipSubRouter).applyIwantPenalties"); f != nil {
		for _, cs := range p.Sites(f, false, "(*peerScore).AddPenalty") {
			a0, a1 := p.R(f).Val(cs.Call.Args[0]), p.R(f).Val(cs.Call.Args[1])
			ok := a0.Kind == "rangekey" && a0.Args[0].IsCall("(*gossipTracer).GetBrokenPromises") && a1.Kind == "rangeval" && a1.Args[0].IsCall("(*gossipTracer).GetBrokenPromises")
			c.Check(ok, "PROM", f.Name, "penalty = number of broken promises of that peer", cs.Call, a0.String()+", "+a1.String(), "penalty operands are "+a0.String()+", "+a1.String())
		}
		callers := p.CallerNames("(*gossipTracer).GetBrokenPromises")
		ok, extra := subset(callers, f.Name)
		c.Check(ok, "PROM", "GetBrokenPromises", "consumed only by applyIwantPenalties", nil, strings.Join(callers, ","), "also from "+strings.Join(extra, ","))
	}
	// ---------------- wiring
	if f := c.MustFn("WIRE", "(*GossipSubRouter).HandleRPC"); f != nil {
		g := p.Graph(f)
		noCtl := AtomNil("ctl == nil", isCallTo("pb.(*RPC).GetControl"))
		cut := cutSet{}
		for _, e := range g.AtomEdges(noCtl, true) {
			cut[e] = true
		}
		for _, h := range []string{"handleIHave", "handleIWant", "handleGraft", "handlePrune", "handleIDontWant"} {
			ok, _ := g.MustPass(g.Entry(), PassOpts{Cut: cut}, p.callPred(f, "(*GossipSubRouter)."+h))
			c.Check(ok, "WIRE", f.Name, h+" runs for every control message", f.Decl, "on every path with a non-nil control message", h+" is skipped on some path")
		}
		// reply sent unless all three parts are empty
		for _, cs := range p.Sites(f, false, fnSendRPC) {
			v := p.R(f).Val(cs.Call.Args[1])
			ok := v.IsCall("rpcWithControl") && len(v.Args) == 6 && v.Args[0].IsCall("(*GossipSubRouter).handleIWant") && v.Args[2].IsCall("(*GossipSubRouter).handleIHave") && v.Args[4].IsCall("(*GossipSubRouter).handleGraft")
			c.Check(ok, "WIRE", f.Name, "reply carries IWANT answers, IWANT requests and PRUNEs", cs.Call, "rpcWithControl(handleIWant(), nil, handleIHave(), nil, handleGraft(), nil)", "reply is "+v.String())
			// from the end of the handlers, every path not establishing all-empty reaches the send
			empty := func(h string) Atom {
				return AtomCmp("len("+h+" result) == 0", func(x *V) bool { return x.Kind == "len" && x.Args[0].IsCall("(*GossipSubRouter)."+h) }, "==", isZero)
			}
			// implication form (independent of guard-clause vs. if-block shape): from the end of the
			// handlers, every path on which "h produced nothing" is not established reaches the send
			var last ast.Node
			for _, hs := range p.Sites(f, false, "(*GossipSubRouter).handleIDontWant") {
				last = hs.Call
			}
			lp, lok := g.Locate(last)
			for _, h := range []string{"handleIHave", "handleIWant", "handleGraft"} {
				if !lok {
					c.Undecided("WIRE", f.Name, "reply sent whenever "+h+" produced something", f.Decl, "handleIDontWant call not located")
					continue
				}
				cut := cutSet{}
				for _, e := range g.AtomEdges(empty(h), true) {
					cut[e] = true
				}
				ok, bad := g.MustPass(lp.After(), PassOpts{Cut: cut}, func(n ast.Node) bool { return contains(n, cs.Call) })
				where := ""
				if bad != nil && len(bad.Nodes) > 0 {
					where = p.Pos(bad.Nodes[len(bad.Nodes)-1])
				}
				c.Check(ok, "WIRE", f.Name, "reply sent whenever "+h+" produced something", cs.Call, "every path after the handlers that does not establish len("+h+" result) == 0 reaches the send", "a path ending at "+where+" skips the reply although "+h+" may have produced output")
			}
		}
	}
	checkDroppedIWantVoidsPromise(c)
	checkCacheSingleEntry(c)
	checkTransmissionCountersLifetime(c)
	c.Min["B1"] = 5
	c.Min["B2"] = 4
	c.Min["B3"] = 1
	c.Min["B4"] = 2
	c.Min["B5"] = 4
	c.Min["B6"] = 2
	c.Min["B7"] = 4
	c.Min["B8"] = 3
	c.Min["B9"] = 2
	c.Min["B10"] = 1
	c.Min["B11"] = 1
	c.Min["B12"] = 4
	c.Min["B13"] = 2
	c.Min["B14"] = 7
	c.Min["B15"] = 6
	c.Min["B16"] = 3
	c.Min["SCHED"] = 30
	c.Min["PROM"] = 18
	c.Min["WIRE"] = 9
}

// counterAddend recognises a store that adds to an indexed counter in any of its equivalent forms —
// c[k]++, c[k] += e, c[k] = c[k] + e, or c[k] = old + e with old a local holding c[k] — and returns the
// canonical value of the addend.
func counterAddend(p *Prog, f *Func, s Store) (*V, bool) {
	res := p.R(f)
	switch s.Kind {
	case "elem-incdec":
		if s.Tok == token.INC {
			return &V{Kind: "lit", Name: "1"}, true
		}
	case "elem-opassign":
		if s.Tok == token.ADD_ASSIGN && s.RHS != nil {
			if id, ok := unparen(s.RHS).(*ast.Ident); ok {
				if o := f.Info().Uses[id]; o != nil {
					return &V{Kind: "var", Name: id.Name, Obj: o, Node: id}, true
				}
			}
			return res.Val(s.RHS), true
		}
	case "elem-assign":
		if s.RHS == nil {
			return nil, false
		}
		be, ok := unparen(s.RHS).(*ast.BinaryExpr)
		var l, r ast.Expr
		if ok && be.Op == token.ADD {
			l, r = be.X, be.Y
		} else {
			// a local that holds old + e
			v := res.Val(s.RHS)
			if v.Kind == "op" && v.Name == "+" && len(v.Args) == 2 {
				old := res.Val(s.LHS)
				if v.Args[0].Equal(old) {
					return v.Args[1], true
				}
				if v.Args[1].Equal(old) {
					return v.Args[0], true
				}
			}
			return nil, false
		}
		old := res.Val(s.LHS)
		mk := func(e ast.Expr) *V {
			if id, ok := unparen(e).(*ast.Ident); ok {
				if o, isVar := f.Info().Uses[id].(*types.Var); isVar && !o.IsField() {
					if _, single := res.SingleDef(o); !single {
						return &V{Kind: "var", Name: id.Name, Obj: o, Node: id}
					}
				}
			}
			return res.Val(e)
		}
		if res.Val(l).Equal(old) {
			return mk(r), true
		}
		if res.Val(r).Equal(old) {
			return mk(l), true
		}
	}
	return nil, false
}

// counterStep classifies a store to an indexed counter as +1 / -1 in any equivalent form
// (c[k]++, c[k] += 1, c[k] = c[k] + 1, n := c[k] + 1; c[k] = n, and the same with -): returns +1, -1 or 0.
func counterStep(p *Prog, f *Func, s Store) int {
	res := p.R(f)
	one := func(v *V) bool { return v != nil && v.IsConst("1") }
	switch s.Kind {
	case "elem-incdec":
		if s.Tok == token.INC {
			return 1
		}
		return -1
	case "elem-opassign":
		if s.RHS != nil && one(res.Val(s.RHS)) {
			if s.Tok == token.ADD_ASSIGN {
				return 1
			}
			if s.Tok == token.SUB_ASSIGN {
				return -1
			}
		}
	case "elem-assign":
		if s.RHS == nil {
			return 0
		}
		v := res.Val(s.RHS)
		old := res.Val(s.LHS)
		if v.Kind == "op" && len(v.Args) == 2 {
			if v.Name == "+" && ((v.Args[0].Equal(old) && one(v.Args[1])) || (v.Args[1].Equal(old) && one(v.Args[0]))) {
				return 1
			}
			if v.Name == "-" && v.Args[0].Equal(old) && one(v.Args[1]) {
				return -1
			}
		}
	}
	return 0
}

// isCounterStepNode: n is a store to field stepping it by dir (+1/-1).
func isCounterStepNode(p *Prog, f *Func, field string, dir int) func(ast.Node) bool {
	return func(n ast.Node) bool {
		for _, s := range p.AllStores() {
			if s.Fn == f && s.Field == field && s.Node == n && counterStep(p, f, s) == dir {
				return true
			}
		}
		return false
	}
}

// checkIHaveTruncation: B5.
func checkIHaveTruncation(c *RuleCtx, f *Func) {
	p := c.P
	g := p.Graph(f)
	idxAsked := func(v *V) bool { return v != nil && v.Kind == "index" && v.Args[0].IsField(gsField("iasked")) }
	// the promise and the returned IWANT use the truncated list
	for _, cs := range p.Sites(f, false, "(*gossipTracer).AddPromise") {
		v := p.R(f).Val(cs.Call.Args[1])
		c.Check(v.Kind == "slice", "B5", f.Name, "promise taken from the truncated ask list", cs.Call, v.String(), "the promise is recorded for an id from the untruncated list (an id that may never be requested): "+v.String())
	}
	returnsIn(f, func(r *ast.ReturnStmt) {
		if len(r.Results) != 1 || isNilV(p.R(f).Val(r.Results[0])) {
			return
		}
		ok := false
		ast.Inspect(r.Results[0], func(x ast.Node) bool {
			if kv, isKV := x.(*ast.KeyValueExpr); isKV {
				if k, isId := kv.Key.(*ast.Ident); isId && k.Name == "MessageIDs" && p.R(f).Val(kv.Value).Kind == "slice" {
					ok = true
				}
			}
			return true
		})
		c.Check(ok, "B5", f.Name, "IWANT carries the truncated list", r, "MessageIDs is the truncated slice", "the IWANT is not built from the truncated list")
	})
	// the truncation bound
	var bound types.Object
	inspectNoLit(f.Body, func(x ast.Node) bool {
		se, ok := x.(*ast.SliceExpr)
		if !ok || se.High == nil {
			return true
		}
		if id, ok := unparen(se.High).(*ast.Ident); ok {
			bound = f.Info().Uses[id]
		}
		return true
	})
	if bound == nil {
		c.Bad("B5", f.Name, "ask truncated to the remaining budget", f.Decl, "no truncation of the ask list by a local bound")
		return
	}
	over := Atom{Desc: "ask + iasked[p] > MaxIHaveLength", Match: func(g *Graph, e ast.Expr) (bool, bool) {
		be, ok := unparen(e).(*ast.BinaryExpr)
		if !ok || be.Op != token.GTR {
			return false, false
		}
		l := g.P.R(g.F).Val(be.X)
		if l.Kind != "op" || l.Name != "+" || !prm("MaxIHaveLength")(g.P.R(g.F).Val(be.Y)) {
			return false, false
		}
		hasAsked := idxAsked(l.Args[0]) || idxAsked(l.Args[1])
		return hasAsked, true
	}}
	cut := cutSet{}
	for _, e := range g.AtomEdges(over, false) {
		cut[e] = true
	}
	edges := g.AtomEdges(over, true)
	if len(edges) == 0 {
		c.Bad("B5", f.Name, "ask truncated to the remaining budget", f.Decl, "no test `ask + iasked[p] > MaxIHaveLength`")
		return
	}
	// on paths not refuting 'over', the bound is reassigned to MaxIHaveLength - iasked[p] before the truncation
	var truncNode ast.Node
	inspectNoLit(f.Body, func(x ast.Node) bool {
		if as, ok := x.(*ast.AssignStmt); ok && len(as.Rhs) == 1 {
			if _, isSl := unparen(as.Rhs[0]).(*ast.SliceExpr); isSl {
				truncNode = as
			}
		}
		return true
	})
	if truncNode == nil {
		c.Bad("B5", f.Name, "ask truncated to the remaining budget", f.Decl, "the ask list is not truncated by an assignment before it is used for the promise and the reply")
		return
	}
	for _, e := range edges {
		cp, _ := g.Locate(condNodeOf(e))
		tp, _ := g.Locate(truncNode)
		reach := g.ReachableFrom(cp, tp, cut, func(n ast.Node) bool {
			as, rhs := isAssignTo(f, n, bound)
			if as == nil {
				return false
			}
			v := p.R(f).Val(rhs)
			return v.Kind == "op" && v.Name == "-" && prm("MaxIHaveLength")(v.Args[0]) && idxAsked(v.Args[1])
		})
		c.Check(!reach, "B5", f.Name, "ask truncated to the remaining budget", condNodeOf(e), "every over-budget path lowers the ask to MaxIHaveLength - iasked[p] before truncating", "an over-budget ask can reach the truncation without being lowered to the remaining budget")
	}
	// the budget is charged by exactly the ask, after truncation
	charged := false
	for _, s := range p.AllStores() {
		if s.Fn.Root() != f || s.Field != gsField("iasked") {
			continue
		}
		if add, ok := counterAddend(p, f, s); ok {
			if add.Kind == "var" && add.Obj == bound {
				charged = true
			} else if id, isId := add.Node.(*ast.Ident); isId && f.Info().Uses[id] == bound {
				charged = true
			}
		} else {
			c.Bad("B5", f.Name, "budget charged additively", s.Node, "iasked[p] is written other than by `+= ask`")
		}
	}
	c.Check(charged, "B5", f.Name, "budget charged by the ask", f.Decl, "iasked[p] += ask", "the per-heartbeat ask budget is not charged by the number of ids requested")
}

// B17: a promise is recorded by handleIHave before the IWANT is queued (AddPromise precedes sendRPC), and the
// router drops the IWANT when the peer's queue is full. "Penalises a peer for a broken IWANT promise only if a
// message requested from it really did not arrive" needs the drop to void the promise: the promise tracker's
// DropRPC hook deletes the promises of the dropped RPC's IWANT ids for that peer.
func checkDroppedIWantVoidsPromise(c *RuleCtx) {
	p := c.P
	f := c.MustFn("B17", "(*gossipTracer).DropRPC")
	if f == nil {
		return
	}
	peerParam := isParam(f, 1)
	fromIWant := func(v *V) bool {
		return v != nil && v.Has(func(x *V) bool { return x.IsCall("pb.(*ControlIWant).GetMessageIDs") || x.IsField("pb.ControlIWant.MessageIDs") })
	}
	voids := false
	for _, d := range p.mapDeletes(f) {
		mv := p.R(f).Val(d.Map)
		if mv == nil || (mv.Kind != "lookupval" && mv.Kind != "index") || !mv.Args[0].IsField("gossipTracer.promises") {
			continue
		}
		if !peerParam(p.R(f).Val(d.Key)) {
			continue
		}
		if fromIWant(mv.Args[1]) {
			voids = true
		}
	}
	c.Check(voids, "B17", f.Name, "dropped IWANT voids its promise", f.Decl, "deletes promises[id][peer] for the IWANT ids of the dropped RPC", "the promise tracker ignores dropped RPCs: handleIHave records the promise before the IWANT is queued, the router drops the IWANT when the peer's queue is full (never retried), the promise stays, and after IWantFollowupTime the peer is penalised for a request it never received")
	// the hook is reached: gossipsub's single drop point reports to the tracer (R11.4) and the tracer fans out (R19.1)
	if d := c.MustFn("B17", "(*GossipSubRouter).doDropRPC"); d != nil {
		ok, why := p.MustCallFromEntry(d, "(*pubsubTracer).DropRPC")
		c.Check(ok, "B17", d.Name, "every drop is reported to the tracers", d.Decl, why, "doDropRPC can return without tracer.DropRPC: "+why)
		// the tracers must see the RPC as it was dropped: pushControl strips IHAVE/IWANT/IDONTWANT from the control
		// message in place, so it may only run after the report
		dg := p.Graph(d)
		bad := ""
		for _, pc := range p.Sites(d, false, "(*GossipSubRouter).pushControl") {
			ppt, ok1 := dg.Locate(pc.Call)
			for _, tr := range p.Sites(d, false, "(*pubsubTracer).DropRPC") {
				tpt, ok2 := dg.Locate(tr.Call)
				if ok1 && ok2 && dg.ReachableFrom(ppt.After(), tpt, nil, nil) {
					bad = "tracer.DropRPC at " + p.Pos(tr.Call) + " can run after pushControl at " + p.Pos(pc.Call)
				}
			}
		}
		c.Check(bad == "", "B17", d.Name, "the drop is reported before the control message is stripped for the retry", d.Decl, "no path from pushControl to tracer.DropRPC", "pushControl removes the IWANT (and IHAVE, IDONTWANT) entries from the dropped RPC's control message in place; reported afterwards, the promise tracker sees no IWANT and keeps the promise: "+bad)
	}
	c.Min["B17"] = 3
}

// B18: Shift drops a message together with the history entries of the expiring slot, so "retrievable for
// HistoryLength heartbeats" after a forward needs every cached id to have at most one history entry (C17's
// quantifier names "for the message cache alone every sequence of put / get / shift operations", which includes
// putting one message twice). Put either finds the id absent, or on the present edge removes the older entry
// (a store into mc.history other than the final append) or leaves without appending.
func checkCacheSingleEntry(c *RuleCtx) {
	p := c.P
	f := c.MustFn("B18", "(*MessageCache).Put")
	if f == nil {
		return
	}
	g := p.Graph(f)
	present := AtomLookupOK("id already cached", isFieldOf("MessageCache.msgs"), nil)
	var appendStmt ast.Node
	for _, s := range p.StoresTo2(f, "MessageCache.history") {
		if s.RHS != nil {
			if v := p.R(f).Val(s.RHS); v != nil && v.Kind == "call" && (v.Name == "builtin.append" || v.Name == "append") {
				appendStmt = s.Node
			}
		}
	}
	if appendStmt == nil {
		c.Undecided("B18", f.Name, "history append", f.Decl, "Put does not append to mc.history (anchor drift)")
		return
	}
	// the removal: a store into mc.history other than the final append, or the loop over the slots that contains it
	// (a range over the slots runs zero times only for an empty history, which holds no entry to remove)
	removes := func(n ast.Node) bool {
		for _, s := range p.StoresTo2(f, "MessageCache.history") {
			if s.Node == appendStmt {
				continue
			}
			if contains(n, s.Node) {
				return true
			}
			for _, l := range p.EnclosingLoops(s.Node) {
				if r, isRange := l.(*ast.RangeStmt); isRange && (n == ast.Node(r.X) || contains(n, r.X)) && p.R(f).Val(r.X).IsField("MessageCache.history") {
					return true
				}
			}
		}
		return false
	}
	// every path to the append that does not refute "already cached" passes the removal
	ok := len(g.AtomEdges(present, true))+len(g.AtomEdges(present, false)) > 0
	why := "every path that does not refute `id already cached` removes the older history entry (or appends nothing)"
	if ok {
		cut := cutSet{}
		for _, e := range g.AtomEdges(present, false) {
			cut[e] = true
		}
		ap, _ := g.Locate(appendStmt)
		if g.ReachableFrom(g.Entry(), ap, cut, removes) {
			ok = false
		}
	}
	// ... and the put is always entered into the newest slot: a put that only replaces the stored message leaves the
	// entry at the age of the first put, and Shift expires the message HistoryLength heartbeats after the FIRST forward
	if okApp, _ := g.MustPass(g.Entry(), PassOpts{}, func(n ast.Node) bool { return contains(n, appendStmt) }); !okApp {
		ok = false
		why = "a path through Put does not append the history entry"
	}
	c.Check(ok, "B18", f.Name, "one history entry per cached id", appendStmt, why, "a message that is put while it is already cached does not end up with exactly one history entry in the newest slot (a second entry next to the old one, or no new entry at all): Shift deletes it when the older entry expires, fewer than HistoryLength heartbeats after it was last forwarded: "+why)
	c.Min["B18"] = 1
}

// B19: "a peer is served the same message at most GossipRetransmission times" is decided at the serving site
// (B7) against the per-peer transmission counters kept in mc.peertx. The clause holds across the whole life of
// a cached message only if those counters live exactly as long as the message does: an inventory of every site
// that discards counters (delete of a peertx entry, clear of the map, replacement of the whole map outside the
// constructor, overwriting an existing entry with a fresh map). A delete is accepted only where the message
// itself leaves the cache — the same key is deleted from mc.msgs on every path through the delete (before or
// after it); a fresh map is stored only on the edge where the lookup found none. Re-putting a cached id
// (B18's branch) replaces the message under the same id and is not such a site.
func checkTransmissionCountersLifetime(c *RuleCtx) {
	p := c.P
	n := 0
	for _, s := range p.StoresTo("MessageCache.peertx") {
		f := s.Fn
		root := f.Root().Name
		g := p.Graph(f)
		switch s.Kind {
		case "delete":
			n++
			key := ""
			if s.Key != nil {
				key = p.R(f).Val(s.Key).String()
			}
			sameKeyMsgDelete := func(x ast.Node) bool {
				ok := false
				inspectNoLit(x, func(y ast.Node) bool {
					if ce, isC := y.(*ast.CallExpr); isC && p.CalleeName(f.Info(), ce) == "builtin.delete" && len(ce.Args) == 2 &&
						p.R(f).Val(ce.Args[0]).IsField("MessageCache.msgs") && p.R(f).Val(ce.Args[1]).String() == key {
						ok = true
					}
					return true
				})
				return ok
			}
			pt, located := g.Locate(s.Node)
			if !located {
				c.Undecided("B19", root, "counters dropped only with the message", s.Node, "delete site not located in the CFG")
				continue
			}
			before := g.DominatedByNode(pt, sameKeyMsgDelete)
			after := false
			if !before {
				// the statement itself may hold both deletes; otherwise every continuation up to the end of the
				// enclosing loop iteration / function passes the message delete
				if sameKeyMsgDelete(s.Node) {
					after = true
				} else {
					until := map[*cfgBlock]bool{}
					if loops := p.EnclosingLoops(s.Node); len(loops) > 0 {
						head, _, done := g.LoopBlocks(loops[0])
						if head != nil {
							until[head] = true
						}
						if done != nil {
							until[done] = true
						}
					}
					after, _ = g.MustPass(pt, PassOpts{Until: until}, sameKeyMsgDelete)
				}
			}
			c.Check(before || after, "B19", root, "transmission counters dropped only together with the message", s.Node,
				"the same key is deleted from mc.msgs on every path through this delete",
				"the per-peer transmission counters of "+key+" are discarded while the message stays cached: a peer that already pulled it GossipRetransmission times is served again")
		case "assign":
			// whole-map replacement: constructor only
			n++
			c.Check(strings.HasPrefix(root, "NewMessageCache"), "B19", root, "counter map replaced only by the constructor", s.Node, "constructor",
				"mc.peertx is replaced outside the constructor: every cached message's transmission counters are forgotten")
		case "elem-assign":
			n++
			absent := AtomLookupOK("counters of the id present", isFieldOf("MessageCache.peertx"), nil)
			ok, why := p.DomAtom(f, s.Node, absent, false)
			c.Check(ok, "B19", root, "fresh counter map stored only when none exists", s.Node, why,
				"an existing per-peer transmission map can be overwritten: "+why)
		}
	}
	// clear(mc.peertx) anywhere
	for _, f := range p.All {
		inspectNoLit(f.Body, func(x ast.Node) bool {
			if ce, isC := x.(*ast.CallExpr); isC && p.CalleeName(f.Info(), ce) == "builtin.clear" && len(ce.Args) == 1 && p.R(f).Val(ce.Args[0]).IsField("MessageCache.peertx") {
				c.Bad("B19", f.Root().Name, "counter map cleared", ce, "clear(mc.peertx) forgets every cached message's transmission counters")
			}
			return true
		})
	}
	if n < 2 {
		c.Undecided("B19", "MessageCache.peertx", "write sites", nil, "fewer write sites of the transmission counters than known ("+itoa(n)+" < 2: GetForPeer, Shift; the constructor uses a composite literal)")
	}
	c.Min["B19"] = 2
}
