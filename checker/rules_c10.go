package main

import (
	"go/ast"
	"go/token"
	"strings"
)

func init() {
	register(&Property{ID: "C10", Run: runC10,
		Explain: "Peer scoring decided structurally (numerical equality with the v1.1 formula over histories is NOT decidable by static analysis): (R10.1) every access to the scorer's shared state (peerStats, peerIPs, deliveries and its records, the five counters) happens with the scorer's mutex held — entry points lock, helpers are only called with it held (caller-propagated lock state), needed because validation workers call the tracer concurrently with the heartbeat; (R10.2) write-site inventory of the five counters: every store is a zeroing, `+= 1` followed on every path by the clamp against the matching ...Cap, a squared deficit under its guards (active and below threshold; additionally inMesh on disconnect, because Prune already charged peers that left the mesh), an uncapped `+= 1`/`+= count` (invalid deliveries, behaviour penalty), `*= matching decay` followed by the decay-to-zero clamp, or a recap to a lowered cap; SetTopicScoreParams recaps exactly when either cap was lowered (path table with flag propagation), and the recap loop clamps every record above the lowered cap (an iteration that neither refutes `counter > cap` nor finds the peer without statistics for the topic passes the clamp); (R10.3) sign discipline: validators accept a penalty weight only if it is not positive (or its whole group is zero in non-atomic mode) and a reward weight only if not negative; (R10.4) retention: a record is deleted on disconnect only on the `score > 0` edge (IP tracking removed first), otherwise marked disconnected with expire = now + RetainScore; refreshScores deletes only disconnected, expired records (IP tracking removed) and never decays disconnected peers; (R10.5) accepted-parameter safety: every integer division/modulo in the scoring code whose divisor is a parameter is dominated by a positivity test; (R10.6) formula table: each term of score() multiplies its designated quantity (linear / squared / quantised-and-capped) by its designated weight under its designated guard, each weight is used exactly once, the topic cap sits between the topic sum and P5; (R10.7) the mesh-delivery window of duplicates is anchored at the validation time (zero for not-yet-validated); (R10.8) NaN hygiene of accepted parameters: every float parameter that reaches the score unconditionally — each weight of a term of score(), and each decay factor of a counter whose term is added without a comparison on the counter (inventory recomputed from score()/refreshScores()) — is rejected when NaN/Inf on every accepting path of its validator, or known to be zero there. (audit round) R10.8 covers every float64 field of the parameter structs plus a (0,1)-or-zero obligation per decay factor; (R10.9) the address list returned by getIPs has no repeated element; R10.2: the sticky penalty of Prune is charged only for a mesh member (scorer guard or membership at every tracer.Prune site). (R10.10) every peer credited for a delivery is on the delivery record; (R10.11) ticker periods that are parameters are positive on every accepting path; (R10.12) no store into a nil topic-parameter map; R10.8 also requires the counter caps not to be negative. NOT decided: numerical equality with the formula, decay timing, NaN/Inf freedom beyond parameter hygiene (overflow of finite values, a NaN returned by the application score callback), IP colocation against real connections.",
		Assume:  []string{"GossipSub v1.1 scoring function as specified (terms P1-P7)", "sync.Mutex semantics"},
		Mutants: []Mutant{
			{Name: "retention-reset-only-in-mesh", File: "score.go", Old: "\tfor topic, tstats := range pstats.topics {\n\t\ttstats.firstMessageDeliveries = 0\n", New: "\tfor topic, tstats := range pstats.topics {\n\t\tif !tstats.inMesh {\n\t\t\tcontinue\n\t\t}\n\t\ttstats.firstMessageDeliveries = 0\n", Expect: "R10.4"},
			{Name: "first-deliverer-not-recorded", File: "score.go", Old: "\t// the first deliverer has been credited above; a copy it sends later is not another delivery\n\tdrec.peers[msg.ReceivedFrom] = struct{}{}\n", New: "", Expect: "R10.10"},
			{Name: "decay-interval-left-zero", File: "score_params.go", Old: "\t} else {\n\t\t// both left unset: the decay still runs (the scorer's ticker needs a positive interval)\n\t\tp.DecayInterval = DefaultDecayInterval\n\t\tp.DecayToZero = DefaultDecayToZero\n\t}\n", New: "\t}\n", Expect: "R10.11"},
			{Name: "topics-map-nil-store", File: "score.go", Old: "\tif ps.params.Topics == nil {\n\t\tps.params.Topics = make(map[string]*TopicScoreParams)\n\t}\n", New: "", Expect: "R10.12"},
			{Name: "negative-cap-with-zero-weight", File: "score_params.go", Old: "isInvalidNumber(p.FirstMessageDeliveriesCap) || p.FirstMessageDeliveriesCap < 0 || ", New: "isInvalidNumber(p.FirstMessageDeliveriesCap) || ", Expect: "R10.8"},
			{Name: "addpenalty-unlocked", File: "score.go", Old: "\tps.Lock()\n\tdefer ps.Unlock()\n\n\tpstats, ok := ps.peerStats[p]\n\tif !ok {\n\t\treturn\n\t}\n\n\tpstats.behaviourPenalty += float64(count)", New: "\tpstats, ok := ps.peerStats[p]\n\tif !ok {\n\t\treturn\n\t}\n\n\tpstats.behaviourPenalty += float64(count)", Expect: "R10.1"},
			{Name: "first-delivery-clamp-dropped", File: "score.go", Old: "\ttstats.firstMessageDeliveries += 1\n\tif tstats.firstMessageDeliveries > cap {\n\t\ttstats.firstMessageDeliveries = cap\n\t}\n", New: "\ttstats.firstMessageDeliveries += 1\n\tif tstats.firstMessageDeliveries > cap && tstats.inMesh {\n\t\ttstats.firstMessageDeliveries = cap\n\t}\n", Expect: "R10.2"},
			{Name: "mesh-delivery-wrong-cap", File: "score.go", Old: "\tcap = ps.params.Topics[topic].MeshMessageDeliveriesCap\n\ttstats.meshMessageDeliveries += 1", New: "\tcap = ps.params.Topics[topic].MeshMessageDeliveriesThreshold\n\ttstats.meshMessageDeliveries += 1", Expect: "R10.2"},
			{Name: "disconnect-penalty-without-inmesh", File: "score.go", Old: "\t\tif tstats.inMesh && tstats.meshMessageDeliveriesActive && tstats.meshMessageDeliveries < threshold {", New: "\t\tif tstats.meshMessageDeliveriesActive && tstats.meshMessageDeliveries < threshold {", Expect: "R10.2"},
			{Name: "decay-wrong-parameter", File: "score.go", Old: "\t\t\ttstats.meshFailurePenalty *= topicParams.MeshFailurePenaltyDecay", New: "\t\t\ttstats.meshFailurePenalty *= topicParams.MeshMessageDeliveriesDecay", Expect: "R10.2"},
			{Name: "decay-to-zero-dropped", File: "score.go", Old: "\t\t\tif tstats.invalidMessageDeliveries < ps.params.DecayToZero {\n\t\t\t\ttstats.invalidMessageDeliveries = 0\n\t\t\t}\n", New: "", Expect: "R10.2"},
			{Name: "recap-only-active-records", File: "score.go", Old: "\t\tif tstats.meshMessageDeliveries > p.MeshMessageDeliveriesCap {\n\t\t\ttstats.meshMessageDeliveries = p.MeshMessageDeliveriesCap", New: "\t\tif tstats.meshMessageDeliveriesActive && tstats.meshMessageDeliveries > p.MeshMessageDeliveriesCap {\n\t\t\ttstats.meshMessageDeliveries = p.MeshMessageDeliveriesCap", Expect: "R10.2"},
			{Name: "recap-skips-pruned-records", File: "score.go", Old: "\t\tif !ok {\n\t\t\tcontinue\n\t\t}\n\n\t\tif tstats.firstMessageDeliveries > p.FirstMessageDeliveriesCap {", New: "\t\tif !ok || !tstats.inMesh {\n\t\t\tcontinue\n\t\t}\n\n\t\tif tstats.firstMessageDeliveries > p.FirstMessageDeliveriesCap {", Expect: "R10.2"},
			{Name: "recap-needs-both-caps", File: "score.go", Old: "\trecap := false\n\tif p.FirstMessageDeliveriesCap < old.FirstMessageDeliveriesCap {\n\t\trecap = true\n\t}\n\tif p.MeshMessageDeliveriesCap < old.MeshMessageDeliveriesCap {\n\t\trecap = true\n\t}\n\tif !recap {", New: "\trecap := p.FirstMessageDeliveriesCap < old.FirstMessageDeliveriesCap && p.MeshMessageDeliveriesCap < old.MeshMessageDeliveriesCap\n\tif !recap {", Expect: "R10.2"},
			{Name: "validator-accepts-positive-p4-weight", File: "score_params.go", Old: "\tif p.InvalidMessageDeliveriesWeight > 0 || isInvalidNumber(p.InvalidMessageDeliveriesWeight) {", New: "\tif isInvalidNumber(p.InvalidMessageDeliveriesWeight) {", Expect: "R10.3"},
			{Name: "retain-positive-scores", File: "score.go", Old: "\tif ps.score(p) > 0 {\n\t\tps.removeIPs(p, pstats.ips)", New: "\tif ps.score(p) >= 0 {\n\t\tps.removeIPs(p, pstats.ips)", Expect: "R10.4"},
			{Name: "disconnect-keeps-ip-tracking", File: "score.go", Old: "\tif ps.score(p) > 0 {\n\t\tps.removeIPs(p, pstats.ips)\n\t\tdelete(ps.peerStats, p)", New: "\tif ps.score(p) > 0 {\n\t\tdelete(ps.peerStats, p)", Expect: "R10.4"},
			{Name: "refresh-decays-disconnected", File: "score.go", Old: "\t\t\t// similarly, a well behaved peer does not lose its score by getting disconnected.\n\t\t\tcontinue\n", New: "\t\t\t// similarly, a well behaved peer does not lose its score by getting disconnected.\n", Expect: "R10.4"},
			{Name: "p1-division-unguarded", File: "score.go", Old: "\t\tif tstats.inMesh && topicParams.TimeInMeshQuantum > 0 {", New: "\t\tif tstats.inMesh {", Expect: "R10.5"},
			{Name: "nan-decay-behind-weight", File: "score_params.go", Old: "\tif (p.FirstMessageDeliveriesWeight != 0 || p.FirstMessageDeliveriesDecay != 0) && (", New: "\tif p.FirstMessageDeliveriesWeight != 0 && (", Expect: "R10.8"},
			{Name: "inf-threshold-behind-weight", File: "score_params.go", Old: "\tif isInvalidNumber(p.MeshMessageDeliveriesThreshold) || p.MeshMessageDeliveriesWeight != 0 && p.MeshMessageDeliveriesThreshold <= 0 {", New: "\tif p.MeshMessageDeliveriesWeight != 0 && (isInvalidNumber(p.MeshMessageDeliveriesThreshold) || p.MeshMessageDeliveriesThreshold <= 0) {", Expect: "R10.8"},
			{Name: "behaviour-decay-skipped-nonatomic", File: "score_params.go", Old: "p.BehaviourPenaltyWeight != 0 || p.BehaviourPenaltyThreshold != 0 || p.BehaviourPenaltyDecay != 0 {", New: "p.BehaviourPenaltyWeight != 0 || p.BehaviourPenaltyThreshold != 0 {", Expect: "R10.8"},
			{Name: "decay-upper-bound-dropped", File: "score_params.go", Old: "(p.MeshFailurePenaltyDecay <= 0 || p.MeshFailurePenaltyDecay >= 1 || isInvalidNumber(p.MeshFailurePenaltyDecay))", New: "(p.MeshFailurePenaltyDecay <= 0 || isInvalidNumber(p.MeshFailurePenaltyDecay))", Expect: "R10.8"},
			{Name: "ips-not-deduplicated", File: "score.go", Old: "\tslices.Sort(res)\n\treturn slices.Compact(res)\n", New: "\tslices.Sort(res)\n\treturn res\n", Expect: "R10.9"},
			{Name: "ips-compact-unsorted", File: "score.go", Old: "\tslices.Sort(res)\n\treturn slices.Compact(res)\n", New: "\treturn slices.Compact(res)\n", Expect: "R10.9"},
			{Name: "appweight-unvalidated", File: "score_params.go", Old: "\tif isInvalidNumber(p.AppSpecificWeight) {\n\t\treturn fmt.Errorf(\"invalid AppSpecificWeight; must be a valid number\")\n\t}\n", New: "", Expect: "R10.8"},
			{Name: "p3-not-squared", File: "score.go", Old: "\t\t\t\tp3 := deficit * deficit\n", New: "\t\t\t\tp3 := deficit\n", Expect: "R10.6"},
			{Name: "p2-p3b-weights-swapped", File: "score.go", Old: "\t\ttopicScore += p2 * topicParams.FirstMessageDeliveriesWeight", New: "\t\ttopicScore += p2 * topicParams.MeshFailurePenaltyWeight", Expect: "R10.6"},
			{Name: "topic-cap-after-p5", File: "score.go", Old: "\t// apply the topic score cap, if any\n\tif ps.params.TopicScoreCap > 0 && score > ps.params.TopicScoreCap {\n\t\tscore = ps.params.TopicScoreCap\n\t}\n\n\t// P5: application-specific score\n\tp5 := ps.params.AppSpecificScore(p)\n\tscore += p5 * ps.params.AppSpecificWeight\n", New: "\t// P5: application-specific score\n\tp5 := ps.params.AppSpecificScore(p)\n\tscore += p5 * ps.params.AppSpecificWeight\n\n\t// apply the topic score cap, if any\n\tif ps.params.TopicScoreCap > 0 && score > ps.params.TopicScoreCap {\n\t\tscore = ps.params.TopicScoreCap\n\t}\n", Expect: "R10.6"},
			{Name: "p3-ignores-activation", File: "score.go", Old: "\t\tif tstats.meshMessageDeliveriesActive {\n\t\t\tif tstats.meshMessageDeliveries < topicParams.MeshMessageDeliveriesThreshold {", New: "\t\t{\n\t\t\tif tstats.meshMessageDeliveries < topicParams.MeshMessageDeliveriesThreshold {", Expect: "R10.6"},
			{Name: "duplicate-window-from-first-seen", File: "score.go", Old: "\t\tps.markDuplicateMessageDelivery(msg.ReceivedFrom, msg, drec.validated)", New: "\t\tps.markDuplicateMessageDelivery(msg.ReceivedFrom, msg, drec.firstSeen)", Expect: "R10.7"},
		}})
}

const psMu = "peerScore.<embedded>"

func runC10(c *RuleCtx) {
	p := c.P
	tp := func(n string) VPred { return isFieldOf("TopicScoreParams." + n) }
	pp := func(n string) VPred { return isFieldOf("PeerScoreParams." + n) }
	ts := func(n string) VPred { return isFieldOf("topicStats." + n) }
	// ---------------- R10.1
	for _, fld := range []string{"peerScore.peerStats", "peerScore.peerIPs", "peerScore.deliveries", "messageDeliveries.records", "messageDeliveries.head", "messageDeliveries.tail",
		"topicStats.firstMessageDeliveries", "topicStats.meshMessageDeliveries", "topicStats.meshFailurePenalty", "topicStats.invalidMessageDeliveries", "peerStats.behaviourPenalty", "topicStats.inMesh", "peerStats.connected", "peerStats.expire", "deliveryRecord.status", "deliveryRecord.peers"} {
		n := c.CheckGuardedField("R10.1", fld, psMu, func(a FieldAccess) string {
			root := a.Fn.Root().Name
			if root == "newPeerScore" {
				return "constructor"
			}
			if p.accessOnFreshObject(a) {
				return "object not yet published"
			}
			return ""
		})
		if n == 0 {
			c.Undecided("R10.1", fld, "accesses", nil, "no access found (anchor renamed?)")
		}
	}
	// ---------------- R10.2 counter write inventory
	type counter struct {
		field, cap, decay string
	}
	counters := []counter{
		{"topicStats.firstMessageDeliveries", "FirstMessageDeliveriesCap", "FirstMessageDeliveriesDecay"},
		{"topicStats.meshMessageDeliveries", "MeshMessageDeliveriesCap", "MeshMessageDeliveriesDecay"},
		{"topicStats.meshFailurePenalty", "", "MeshFailurePenaltyDecay"},
		{"topicStats.invalidMessageDeliveries", "", "InvalidMessageDeliveriesDecay"},
		{"peerStats.behaviourPenalty", "", "BehaviourPenaltyDecay"},
	}
	nStores := 0
	for _, ct := range counters {
		isCtr := isFieldOf(ct.field)
		for _, s := range p.StoresTo(ct.field) {
			f := s.Fn
			g := p.Graph(f)
			root := f.Root().Name
			nStores++
			rv := p.R(f).Val(s.RHS)
			sp, _ := g.Locate(s.Node)
			clampAfter := func(limit VPred, op string, setTo VPred, what string) bool {
				// every path from the store tests `counter op limit` before leaving the iteration/function, and the true edge stores setTo
				over := AtomCmp("counter "+op+" "+what, isCtr, op, limit)
				until := p.iterationUntil(f, s.Node)
				if len(g.AtomEdges(over, true)) == 0 {
					return false
				}
				// every path from the store that does not refute `counter op limit` performs the clamping store
				ok, _ := g.MustPass(sp.After(), PassOpts{Cut: edgeCut(g.AtomEdges(over, false)), Until: until}, func(n ast.Node) bool {
					for _, s2 := range p.StoresTo2(f, ct.field) {
						if s2.Node == n && s2.Kind == "assign" && setTo(p.R(f).Val(s2.RHS)) {
							return true
						}
					}
					return false
				})
				return ok
			}
			switch {
			case s.Kind == "assign" && isZero(rv):
				c.OK("R10.2", root, "zeroing of "+shortFn(ct.field), s.Node, "reset")
			case s.Kind == "opassign" && s.Tok == token.ADD_ASSIGN && rv.Name == "1" && ct.cap != "":
				capV := func(v *V) bool { return v != nil && (tp(ct.cap)(v)) }
				ok := clampAfter(capV, ">", capV, ct.cap)
				c.Check(ok, "R10.2", root, shortFn(ct.field)+" += 1 clamped to "+ct.cap, s.Node, "followed on every path by `> cap => = cap` against the matching cap", "the increment of "+shortFn(ct.field)+" is not followed on every path by the clamp against "+ct.cap+": the counter can exceed its cap")
			case s.Kind == "opassign" && s.Tok == token.ADD_ASSIGN && ct.field == "topicStats.meshFailurePenalty":
				// squared deficit under its guards
				sq := rv.Kind == "op" && rv.Name == "*" && rv.Args[0].Equal(rv.Args[1]) && rv.Args[0].Kind == "op" && rv.Args[0].Name == "-" &&
					tp("MeshMessageDeliveriesThreshold")(rv.Args[0].Args[0]) && ts("meshMessageDeliveries")(rv.Args[0].Args[1])
				c.Check(sq, "R10.2", root, "sticky penalty is the squared delivery deficit", s.Node, rv.String(), "the sticky mesh-failure penalty adds "+rv.String()+", not (threshold - deliveries)^2")
				active := AtomBool("meshMessageDeliveriesActive", ts("meshMessageDeliveriesActive"))
				below := AtomCmp("deliveries < threshold", ts("meshMessageDeliveries"), "<", tp("MeshMessageDeliveriesThreshold"))
				ok1, _ := p.DomAny(f, s.Node, AtomWant{active, true})
				ok2, _ := p.DomAny(f, s.Node, AtomWant{below, true})
				c.Check(ok1 && ok2, "R10.2", root, "sticky penalty only when active and below threshold", s.Node, "guarded", "the sticky penalty can be charged before activation or without a deficit")
				if root == "(*peerScore).OnClosedOutboundStream" {
					inMesh := AtomBool("inMesh", ts("inMesh"))
					ok3, why := p.DomAny(f, s.Node, AtomWant{inMesh, true})
					c.Check(ok3, "R10.2", root, "disconnect charges the sticky penalty only for topics still in mesh", s.Node, why, "a peer that was already pruned (and charged by Prune) is charged again on disconnect: "+why)
				} else {
					c.Check(root == "(*peerScore).Prune", "R10.2", root, "sticky penalty charged only by Prune/disconnect", s.Node, "Prune", "the sticky penalty is charged from an unexpected function")
				}
			case s.Kind == "opassign" && s.Tok == token.ADD_ASSIGN && ct.cap == "" && ct.field != "topicStats.meshFailurePenalty":
				ok := rv.Name == "1" || (rv.Kind == "conv" && rv.Args[0].Kind == "var")
				c.Check(ok, "R10.2", root, shortFn(ct.field)+" incremented by 1 / by the penalty count", s.Node, rv.String(), "increment is "+rv.String())
			case s.Kind == "opassign" && s.Tok == token.MUL_ASSIGN:
				okD := tp(ct.decay)(rv) || pp(ct.decay)(rv)
				c.Check(okD, "R10.2", root, shortFn(ct.field)+" decays by "+ct.decay, s.Node, rv.String(), "the counter decays by "+rv.String()+", not by "+ct.decay)
				ok := clampAfter(pp("DecayToZero"), "<", func(v *V) bool { return isZero(v) }, "DecayToZero")
				c.Check(ok, "R10.2", root, shortFn(ct.field)+" decay followed by decay-to-zero", s.Node, "`< DecayToZero => = 0` on every path", "the decayed counter is not clamped to zero below DecayToZero")
			case s.Kind == "assign" && ct.cap != "" && tp(ct.cap)(rv):
				// clamp target or recap
				over := AtomCmp("counter > cap", isCtr, ">", tp(ct.cap))
				ok, why := p.DomAny(f, s.Node, AtomWant{over, true})
				c.Check(ok, "R10.2", root, shortFn(ct.field)+" set to its cap only when above it", s.Node, why, why)
			default:
				c.Bad("R10.2", root, "unrecognised write to "+shortFn(ct.field), s.Node, "store `"+p.Src(s.Node)+"` is none of: zeroing, capped increment, squared deficit, uncapped increment, decay, recap")
			}
		}
	}
	if nStores < 20 {
		c.Undecided("R10.2", "score counters", "write sites", nil, "fewer counter write sites than known ("+itoa(nStores)+")")
	}
	// recap decision
	if f := c.MustFn("R10.2", "(*peerScore).SetTopicScoreParams"); f != nil {
		g := p.Graph(f)
		a := AtomCmp("first-delivery cap lowered", func(v *V) bool { return tp("FirstMessageDeliveriesCap")(v) && v.Args[0].Kind == "var" }, "<", func(v *V) bool { return tp("FirstMessageDeliveriesCap")(v) && v.Args[0].Kind != "var" })
		b := AtomCmp("mesh-delivery cap lowered", func(v *V) bool { return tp("MeshMessageDeliveriesCap")(v) && v.Args[0].Kind == "var" }, "<", func(v *V) bool { return tp("MeshMessageDeliveriesCap")(v) && v.Args[0].Kind != "var" })
		existed := lookupIn("topic had parameters", isFieldOf("PeerScoreParams.Topics"))
		var loop *ast.RangeStmt
		for _, r := range p.RangesOver(f, isFieldOf("peerScore.peerStats")) {
			loop = r
		}
		if loop == nil {
			c.Bad("R10.2", f.Name, "recap loop", f.Decl, "no loop over peerStats")
		} else {
			paths, err := g.EnumPathsOpt([]NamedAtom{{"first", a}, {"mesh", b}, {"existed", existed}}, 4096, EnumOpts{BoolVars: true, StopAt: func(n ast.Node) bool { return n == ast.Node(loop.X) }})
			if err != nil {
				c.Undecided("R10.2", f.Name, "recap decision", f.Decl, err.Error())
			} else {
				bad := ""
				for _, pi := range paths {
					if ex, k := pi.Val["existed"]; k && !ex {
						continue
					}
					va, ka := pi.Val["first"]
					vb, kb := pi.Val["mesh"]
					reached := pi.Stopped != nil
					lowered := (ka && va) || (kb && vb)
					neither := ka && !va && kb && !vb
					if reached && !lowered {
						// harmless (recapping without need) but unexpected; accept
						continue
					}
					if !reached && !neither {
						bad = "a path skips the recap although a cap may have been lowered {" + pi.String() + "}"
					}
				}
				c.Check(bad == "", "R10.2", f.Name, "counters recapped whenever either cap is lowered", loop, itoa(len(paths))+" paths: the recap loop is skipped only when neither cap was lowered", bad)
			}
			// inside the loop both clamps exist: covered by the per-store rules (set to cap only when above it); both counters must be recapped
			for _, ct := range counters[:2] {
				found := false
				for _, s := range p.StoresTo2(f, ct.field) {
					if within(s.Node, loop) {
						found = true
					}
				}
				c.Check(found, "R10.2", f.Name, shortFn(ct.field)+" recapped", loop, "clamp present in the recap loop", "the recap loop does not clamp "+shortFn(ct.field))
				if found {
					// completeness: every record of the topic whose counter exceeds the lowered cap is clamped — an iteration
					// that neither refutes `counter > cap` nor finds the peer without statistics for the topic passes the clamp
					isCtr := isFieldOf(ct.field)
					over := AtomCmp("counter > cap", isCtr, ">", tp(ct.cap))
					hasTopic := AtomLookupOK("peer has statistics for the topic", isFieldOf("peerStats.topics"), nil)
					cut := append(g.AtomEdges(over, false), g.AtomEdges(hasTopic, false)...)
					field := ct.field
					ok, why := p.LoopBodyMust(f, loop, cut, func(n ast.Node) bool {
						for _, s2 := range p.StoresTo2(f, field) {
							if s2.Node == n && s2.Kind == "assign" && tp(ct.cap)(p.R(f).Val(s2.RHS)) {
								return true
							}
						}
						return false
					})
					c.Check(ok, "R10.2", f.Name, shortFn(ct.field)+" recapped for every record above the lowered cap", loop, why,
						"a record whose "+shortFn(ct.field)+" exceeds the lowered cap can be left unclamped (the clamp has a further condition): "+why)
				}
			}
		}
	}
	// ---------------- R10.3 sign discipline in validators
	type wrule struct {
		fn, field, owner string
		penalty          bool
	}
	for _, w := range []wrule{
		{"(*TopicScoreParams).validateMeshMessageDeliveryParams", "MeshMessageDeliveriesWeight", "TopicScoreParams", true},
		{"(*TopicScoreParams).validateMessageFailurePenaltyParams", "MeshFailurePenaltyWeight", "TopicScoreParams", true},
		{"(*TopicScoreParams).validateInvalidMessageDeliveryParams", "InvalidMessageDeliveriesWeight", "TopicScoreParams", true},
		{"(*PeerScoreParams).validate", "IPColocationFactorWeight", "PeerScoreParams", true},
		{"(*PeerScoreParams).validate", "BehaviourPenaltyWeight", "PeerScoreParams", true},
		{"(*TopicScoreParams).validateTimeInMeshParams", "TimeInMeshWeight", "TopicScoreParams", false},
		{"(*TopicScoreParams).validateMessageDeliveryParams", "FirstMessageDeliveriesWeight", "TopicScoreParams", false},
		{"(*TopicScoreParams).validate", "TopicWeight", "TopicScoreParams", false},
	} {
		f := c.MustFn("R10.3", w.fn)
		if f == nil {
			continue
		}
		fld := isFieldOf(w.owner + "." + w.field)
		op := ">"
		if !w.penalty {
			op = "<"
		}
		wrong := AtomCmp(w.field+" "+op+" 0", fld, op, isZero)
		zero := AtomCmp(w.field+" == 0", fld, "==", isZero)
		n := 0
		returnsIn(f, func(r *ast.ReturnStmt) {
			if len(r.Results) != 1 || !isNilV(p.R(f).Val(r.Results[0])) {
				return
			}
			n++
			ok, why := p.DomAny(f, r, AtomWant{wrong, false}, AtomWant{zero, true})
			kind := map[bool]string{true: "penalty", false: "reward"}[w.penalty]
			c.Check(ok, "R10.3", f.Name, kind+" weight "+w.field+" accepted only with the right sign", r, why, "parameters can be accepted with "+w.field+" "+op+" 0: a "+kind+" component could change sign: "+why)
		})
		if n == 0 {
			c.Undecided("R10.3", f.Name, "accepting return", f.Decl, "no return nil")
		}
	}
	// the sub-validators are all consulted
	if f := c.MustFn("R10.3", "(*TopicScoreParams).validate"); f != nil {
		for _, sub := range []string{"validateTimeInMeshParams", "validateMessageDeliveryParams", "validateMeshMessageDeliveryParams", "validateMessageFailurePenaltyParams", "validateInvalidMessageDeliveryParams"} {
			callee := "(*TopicScoreParams)." + sub
			errNil := AtomCmp(sub+"() == nil", isCallTo(callee), "==", isNilV)
			returnsIn(f, func(r *ast.ReturnStmt) {
				if len(r.Results) == 1 && isNilV(p.R(f).Val(r.Results[0])) {
					ok, why := p.DomAny(f, r, AtomWant{errNil, true})
					c.Check(ok, "R10.3", f.Name, "accepted only if "+sub+" accepts", r, why, why)
				}
			})
		}
	}
	if f := c.MustFn("R10.3", "(*PeerScoreParams).validate"); f != nil {
		for _, r := range p.RangesOver(f, isFieldOf("PeerScoreParams.Topics")) {
			ok, why := p.LoopBodyMust2(f, r, nil, p.callPred(f, "(*TopicScoreParams).validate"))
			c.Check(ok, "R10.3", f.Name, "every topic's parameters validated", r, why, why)
		}
	}
	// ---------------- R10.4 retention
	if f := c.MustFn("R10.4", "(*peerScore).OnClosedOutboundStream"); f != nil {
		g := p.Graph(f)
		positive := AtomCmp("score(p) > 0", isCallTo("(*peerScore).score"), ">", isZero)
		for _, d := range p.mapDeletes(f) {
			if !p.R(f).Val(d.Map).IsField("peerScore.peerStats") {
				continue
			}
			ok, why := p.DomAny(f, d.Call, AtomWant{positive, true})
			c.Check(ok, "R10.4", f.Name, "record dropped on disconnect only if score > 0", d.Call, why, "a non-positive score can be dropped on disconnect (a peer could reset a bad score by reconnecting): "+why)
			c.Check(p.DomCall(f, d.Call, "(*peerScore).removeIPs"), "R10.4", f.Name, "IP tracking removed with the record", d.Call, "removeIPs dominates the delete", "the record is deleted without removing the peer from the IP-colocation tracking (leak, and inflated colocation counts)")
		}
		// non-positive: retained
		edges := g.AtomEdges(positive, false)
		if len(edges) == 0 {
			c.Bad("R10.4", f.Name, "retention decision", f.Decl, "no `score(p) > 0` test")
		}
		for _, e := range edges {
			okC, _ := g.MustPass(EdgeTarget(e), PassOpts{}, func(n ast.Node) bool {
				for _, s := range p.StoresTo2(f, "peerStats.connected") {
					if s.Node == n && p.R(f).Val(s.RHS).IsConst("false") {
						return true
					}
				}
				return false
			})
			okE, _ := g.MustPass(EdgeTarget(e), PassOpts{}, func(n ast.Node) bool {
				for _, s := range p.StoresTo2(f, "peerStats.expire") {
					if s.Node == n {
						v := p.R(f).Val(s.RHS)
						if v.IsCall("time.Time.Add") && v.Args[0].IsCall("time.Now") && pp("RetainScore")(v.Args[1]) {
							return true
						}
					}
				}
				return false
			})
			c.Check(okC && okE, "R10.4", f.Name, "non-positive score retained until now + RetainScore", condNodeOf(e), "connected=false and expire=now+RetainScore on every path", "a retained record is not marked disconnected with the RetainScore deadline")
			// deletion unreachable
			for _, d := range p.mapDeletes(f) {
				if p.R(f).Val(d.Map).IsField("peerScore.peerStats") {
					dp, _ := g.Locate(d.Call)
					c.Check(!g.ReachableFrom(EdgeTarget(e), dp, nil, nil), "R10.4", f.Name, "retained record is not deleted", d.Call, "unreachable from the retaining edge", "a non-positive score can be deleted on disconnect")
				}
			}
		}
	}
	if f := c.MustFn("R10.4", "(*peerScore).refreshScores"); f != nil {
		connected := AtomBool("pstats.connected", isFieldOf("peerStats.connected"))
		expired := AtomBool("now.After(expire)", func(v *V) bool {
			return v.IsCall("time.Time.Before") && v.Args[1].IsCall("time.Now") && v.Args[0].IsField("peerStats.expire")
		})
		for _, d := range p.mapDeletes(f) {
			if !p.R(f).Val(d.Map).IsField("peerScore.peerStats") {
				continue
			}
			ok1, _ := p.DomAny(f, d.Call, AtomWant{connected, false})
			ok2, _ := p.DomAny(f, d.Call, AtomWant{expired, true})
			c.Check(ok1 && ok2, "R10.4", f.Name, "only disconnected, expired records are purged", d.Call, "dominated by !connected and now.After(expire)", "a record can be purged while connected or before its retention period ended")
			c.Check(p.DomCall(f, d.Call, "(*peerScore).removeIPs"), "R10.4", f.Name, "IP tracking removed with the purged record", d.Call, "removeIPs dominates", "IP tracking leaks for purged records")
		}
		n := 0
		for _, s := range p.AllStores() {
			if s.Fn.Root() != f || s.Kind != "opassign" || s.Tok != token.MUL_ASSIGN {
				continue
			}
			n++
			ok, why := p.DomAny(f, s.Node, AtomWant{connected, true})
			c.Check(ok, "R10.4", f.Name, "retained (disconnected) scores are not decayed: "+shortFn(s.Field), s.Node, why, "the counter "+shortFn(s.Field)+" of a disconnected peer is decayed: a negative score would heal while the peer is away: "+why)
		}
		if n < 5 {
			c.Undecided("R10.4", f.Name, "decay sites", f.Decl, "fewer decay sites than known")
		}
	}
	// ---------------- R10.5 parameter divisors
	nDiv := 0
	for _, d := range p.IntDivisions() {
		if d.Fn.File != "score.go" {
			continue
		}
		nDiv++
		dv := p.R(d.Fn).Val(d.Expr.Y)
		pos := AtomCmp("divisor > 0", func(v *V) bool { return v.Equal(dv) }, ">", isZero)
		nz := AtomCmp("divisor != 0", func(v *V) bool { return v.Equal(dv) }, "!=", isZero)
		ok, why := p.DomAny(d.Fn, d.Expr, AtomWant{pos, true}, AtomWant{nz, true})
		c.Check(ok, "R10.5", d.Fn.Root().Name, "integer division by parameter "+shortFn(dv.Name)+" guarded", d.Expr, why, "integer division by "+dv.String()+" without a dominating non-zero test: parameters accepted by (non-atomic) validation can make computing a score panic: "+why)
	}
	if nDiv == 0 {
		c.Undecided("R10.5", "score.go", "integer divisions", nil, "no integer division found in the scoring code (inventory drift)")
	}
	// ---------------- R10.6 formula table
	if f := c.MustFn("R10.6", "(*peerScore).score"); f != nil {
		checkScoreFormula(c, f)
		checkNaNHygiene(c)
	}
	// R10.2 (cont.) the sticky penalty charged by Prune presupposes a real mesh removal: either the scorer itself
	// charges only while the peer is marked inMesh, or every PRUNE reported to it is a removal of a member
	{
		scorerGuard := false
		if f := p.Fn("(*peerScore).Prune"); f != nil {
			inMesh := AtomBool("inMesh", func(v *V) bool { return v.IsField("topicStats.inMesh") })
			n := 0
			for _, s := range p.StoresTo2(f, "topicStats.meshFailurePenalty") {
				n++
				if ok, _ := p.DomAny(f, s.Node, AtomWant{inMesh, true}); ok {
					scorerGuard = true
				} else {
					scorerGuard = false
					break
				}
			}
			if n == 0 {
				scorerGuard = false
			}
		}
		if scorerGuard {
			c.OK("R10.2", "(*peerScore).Prune", "sticky penalty charged only for a peer marked inMesh", nil, "dominated by tstats.inMesh")
		} else {
			checkPruneOnlyMembers(c, "R10.2")
		}
	}
	checkIPListDistinct(c)
	checkCreditedPeersRecorded(c)
	checkRetentionResets(c)
	checkTickerPeriods(c)
	if f := c.MustFn("R10.6", "(*peerScore).ipColocationFactor"); f != nil {
		// squared surplus above the threshold, per IP
		n := 0
		for _, s := range p.AllStores() {
			_ = s
		}
		inspectNoLit(f.Body, func(x ast.Node) bool {
			as, ok := x.(*ast.AssignStmt)
			if !ok || as.Tok != token.ADD_ASSIGN || len(as.Rhs) != 1 {
				return true
			}
			n++
			rv := p.R(f).Val(as.Rhs[0])
			sq := rv.Kind == "op" && rv.Name == "*" && rv.Args[0].Equal(rv.Args[1])
			inner := stripConv(rv.Args[0])
			surplus := sq && inner.Kind == "op" && inner.Name == "-" && inner.Args[0].Kind == "len" && pp("IPColocationFactorThreshold")(inner.Args[1])
			c.Check(surplus, "R10.6", f.Name, "P6 adds the squared surplus over the threshold", as, rv.String(), "P6 adds "+rv.String())
			above := AtomCmp("peers in IP > threshold", func(v *V) bool { return v.Kind == "len" }, ">", pp("IPColocationFactorThreshold"))
			ok2, why := p.DomAny(f, as, AtomWant{above, true})
			c.Check(ok2, "R10.6", f.Name, "P6 only above the threshold", as, why, why)
			return true
		})
		c.Check(n == 1, "R10.6", f.Name, "one accumulation", f.Decl, "1", "unexpected accumulations in ipColocationFactor")
	}
	// ---------------- R10.7 delivery window anchor
	if f := c.MustFn("R10.7", "(*peerScore).DuplicateMessage"); f != nil {
		for _, cs := range p.Sites(f, false, "(*peerScore).markDuplicateMessageDelivery") {
			v := p.R(f).Val(cs.Call.Args[2])
			c.Check(v.IsField("deliveryRecord.validated"), "R10.7", f.Name, "duplicate's window anchored at the validation time", cs.Call, v.String(), "the delivery window of a duplicate is measured from "+v.String()+" instead of the validation time")
			valid := AtomCmp("status == deliveryValid", isFieldOf("deliveryRecord.status"), "==", isConstV("deliveryValid"))
			ok, why := p.DomAny(f, cs.Call, AtomWant{valid, true})
			c.Check(ok, "R10.7", f.Name, "duplicates counted only for validated messages", cs.Call, why, why)
		}
	}
	if f := c.MustFn("R10.7", "(*peerScore).DeliverMessage"); f != nil {
		for _, cs := range p.Sites(f, false, "(*peerScore).markDuplicateMessageDelivery") {
			v := p.R(f).Val(cs.Call.Args[2])
			c.Check(v.Kind == "comp" && v.Name == "time.Time", "R10.7", f.Name, "earlier duplicates count as inside the window", cs.Call, "zero time", "earlier duplicates are measured against "+v.String())
		}
		for _, s := range p.StoresTo2(f, "deliveryRecord.validated") {
			c.Check(p.R(f).Val(s.RHS).IsCall("time.Now"), "R10.7", f.Name, "validation time recorded at delivery", s.Node, "time.Now()", "validated is "+p.R(f).Val(s.RHS).String())
		}
	}
	if f := c.MustFn("R10.7", "(*peerScore).markDuplicateMessageDelivery"); f != nil {
		g := p.Graph(f)
		notZero := Atom{Desc: "validated is set", Match: func(g *Graph, e ast.Expr) (bool, bool) {
			v := g.P.R(g.F).Val(e)
			if v.IsCall("time.Time.IsZero") {
				return true, false
			}
			return false, false
		}}
		late := AtomCmp("since(validated) > window", func(v *V) bool { return v.IsCall("time.Since") }, ">", tp("MeshMessageDeliveriesWindow"))
		for _, s := range p.StoresTo2(f, "topicStats.meshMessageDeliveries") {
			if s.Kind != "opassign" {
				continue
			}
			sp, _ := g.Locate(s.Node)
			ok := g.Dominated(sp, g.EdgesNotBoth(notZero, late))
			c.Check(ok, "R10.7", f.Name, "duplicate counted only inside the delivery window", s.Node, "dominated by not(validated set and late)", "a duplicate outside the mesh delivery window can be counted")
			inMesh := AtomBool("inMesh", ts("inMesh"))
			ok2, why := p.DomAny(f, s.Node, AtomWant{inMesh, true})
			c.Check(ok2, "R10.7", f.Name, "duplicates counted only for mesh peers", s.Node, why, why)
		}
	}
	c.Min["R10.1"] = 60
	c.Min["R10.2"] = 28
	c.Min["R10.3"] = 14
	c.Min["R10.4"] = 11
	c.Min["R10.5"] = 1
	c.Min["R10.6"] = 20
	c.Min["R10.7"] = 6
}

// checkScoreFormula: the term table of score().
func checkScoreFormula(c *RuleCtx, f *Func) {
	p := c.P
	g := p.Graph(f)
	tp := func(n string) VPred { return isFieldOf("TopicScoreParams." + n) }
	pp := func(n string) VPred { return isFieldOf("PeerScoreParams." + n) }
	ts := func(n string) VPred { return isFieldOf("topicStats." + n) }
	sq := func(inner VPred) VPred {
		return func(v *V) bool {
			v = unwrapParenOp(v)
			return v != nil && v.Kind == "op" && v.Name == "*" && v.Args[0].Equal(v.Args[1]) && inner(unwrapParenOp(v.Args[0]))
		}
	}
	diff := func(a, b VPred) VPred {
		return func(v *V) bool { return v != nil && v.Kind == "op" && v.Name == "-" && a(v.Args[0]) && b(v.Args[1]) }
	}
	type term struct {
		weight string
		wpred  VPred
		qty    VPred
		qdesc  string
		guards []AtomWant
	}
	inMesh := AtomBool("inMesh", ts("inMesh"))
	active := AtomBool("meshMessageDeliveriesActive", ts("meshMessageDeliveriesActive"))
	below := AtomCmp("deliveries < threshold", ts("meshMessageDeliveries"), "<", tp("MeshMessageDeliveriesThreshold"))
	over := AtomCmp("behaviourPenalty > threshold", isFieldOf("peerStats.behaviourPenalty"), ">", pp("BehaviourPenaltyThreshold"))
	terms := []term{
		{"TimeInMeshWeight", tp("TimeInMeshWeight"), func(v *V) bool { return v.Kind == "var" }, "quantised, capped mesh time", []AtomWant{{inMesh, true}}},
		{"FirstMessageDeliveriesWeight", tp("FirstMessageDeliveriesWeight"), ts("firstMessageDeliveries"), "first deliveries counter", nil},
		{"MeshMessageDeliveriesWeight", tp("MeshMessageDeliveriesWeight"), sq(diff(tp("MeshMessageDeliveriesThreshold"), ts("meshMessageDeliveries"))), "(threshold - deliveries)^2", []AtomWant{{active, true}, {below, true}}},
		{"MeshFailurePenaltyWeight", tp("MeshFailurePenaltyWeight"), ts("meshFailurePenalty"), "sticky penalty counter", nil},
		{"InvalidMessageDeliveriesWeight", tp("InvalidMessageDeliveriesWeight"), sq(ts("invalidMessageDeliveries")), "invalid deliveries squared", nil},
		{"TopicWeight", tp("TopicWeight"), func(v *V) bool { return v.Kind == "var" }, "the topic's partial sum", nil},
		{"AppSpecificWeight", pp("AppSpecificWeight"), isCallTo("field:PeerScoreParams.AppSpecificScore"), "application score", nil},
		{"IPColocationFactorWeight", pp("IPColocationFactorWeight"), isCallTo("(*peerScore).ipColocationFactor"), "IP colocation factor", nil},
		{"BehaviourPenaltyWeight", pp("BehaviourPenaltyWeight"), sq(diff(isFieldOf("peerStats.behaviourPenalty"), pp("BehaviourPenaltyThreshold"))), "(penalty - threshold)^2", []AtomWant{{over, true}}},
	}
	used := map[string]int{}
	var adds []*ast.AssignStmt
	inspectNoLit(f.Body, func(x ast.Node) bool {
		as, ok := x.(*ast.AssignStmt)
		if ok && as.Tok == token.ADD_ASSIGN && len(as.Rhs) == 1 {
			if t := f.Info().TypeOf(as.Lhs[0]); t != nil && t.String() == "float64" {
				adds = append(adds, as)
			}
		}
		return true
	})
	for _, as := range adds {
		rv := p.R(f).Val(as.Rhs[0])
		if rv.Kind != "op" || rv.Name != "*" {
			c.Bad("R10.6", f.Name, "score term is quantity x weight", as, "the term "+p.Src(as)+" is not a product of a quantity and a weight")
			continue
		}
		matched := false
		for _, t := range terms {
			var q *V
			if t.wpred(rv.Args[1]) {
				q = rv.Args[0]
			} else if t.wpred(rv.Args[0]) {
				q = rv.Args[1]
			} else {
				continue
			}
			matched = true
			used[t.weight]++
			c.Check(t.qty(q), "R10.6", f.Name, t.weight+" multiplies "+t.qdesc, as, q.String(), "the weight "+t.weight+" multiplies "+q.String()+" instead of "+t.qdesc)
			for _, gd := range t.guards {
				ok, why := p.DomAny(f, as, gd)
				c.Check(ok, "R10.6", f.Name, t.weight+" term only when "+gd.A.Desc, as, why, "the "+t.weight+" term is applied without `"+gd.A.Desc+"`: "+why)
			}
		}
		if !matched {
			c.Bad("R10.6", f.Name, "score term uses a designated weight", as, "the term "+p.Src(as)+" multiplies by no known weight parameter")
		}
	}
	for _, t := range terms {
		c.Check(used[t.weight] == 1, "R10.6", f.Name, t.weight+" used exactly once", f.Decl, "once", "weight "+t.weight+" is used "+itoa(used[t.weight])+" times in score()")
	}
	// P1 shape: p1 := float64(meshTime / TimeInMeshQuantum), capped by TimeInMeshCap
	okQ, okCap := false, false
	inspectNoLit(f.Body, func(x ast.Node) bool {
		as, ok := x.(*ast.AssignStmt)
		if !ok || len(as.Rhs) != 1 {
			return true
		}
		rv := p.R(f).Val(as.Rhs[0])
		if rv.Kind == "conv" && rv.Args[0].Kind == "op" && rv.Args[0].Name == "/" && ts("meshTime")(rv.Args[0].Args[0]) && tp("TimeInMeshQuantum")(rv.Args[0].Args[1]) {
			okQ = true
		}
		if as.Tok == token.ASSIGN && tp("TimeInMeshCap")(rv) {
			capA := AtomCmp("p1 > TimeInMeshCap", func(v *V) bool { return !tp("TimeInMeshCap")(v) }, ">", tp("TimeInMeshCap"))
			if ok, _ := p.DomAny(f, as, AtomWant{capA, true}); ok {
				okCap = true
			}
		}
		return true
	})
	c.Check(okQ, "R10.6", f.Name, "P1 is mesh time quantised by TimeInMeshQuantum", f.Decl, "float64(meshTime / quantum)", "P1 is not float64(meshTime / TimeInMeshQuantum)")
	c.Check(okCap, "R10.6", f.Name, "P1 capped by TimeInMeshCap", f.Decl, "p1 = cap under p1 > cap", "P1 is not capped by TimeInMeshCap")
	// topic cap: `score = TopicScoreCap` under cap > 0 && score > cap, after the topic loop, before P5
	var capStore *ast.AssignStmt
	inspectNoLit(f.Body, func(x ast.Node) bool {
		as, ok := x.(*ast.AssignStmt)
		if ok && as.Tok == token.ASSIGN && len(as.Rhs) == 1 && pp("TopicScoreCap")(p.R(f).Val(as.Rhs[0])) {
			capStore = as
		}
		return true
	})
	if capStore == nil {
		c.Bad("R10.6", f.Name, "topic score cap applied", f.Decl, "no assignment of TopicScoreCap to the score")
		return
	}
	capOn := AtomCmp("TopicScoreCap > 0", pp("TopicScoreCap"), ">", isZero)
	above := AtomCmp("score > TopicScoreCap", func(v *V) bool { return v.Kind == "var" }, ">", pp("TopicScoreCap"))
	ok1, _ := p.DomAny(f, capStore, AtomWant{capOn, true})
	ok2, _ := p.DomAny(f, capStore, AtomWant{above, true})
	c.Check(ok1 && ok2, "R10.6", f.Name, "topic cap applied only when enabled and exceeded", capStore, "guarded", "the topic score cap is applied without `cap > 0 && score > cap`")
	cp, _ := g.Locate(capStore)
	for _, as := range adds {
		rv := p.R(f).Val(as.Rhs[0])
		ap, _ := g.Locate(as)
		isTopic := rv.Has(func(v *V) bool { return tp("TopicWeight")(v) })
		isGlobal := rv.Has(func(v *V) bool {
			return pp("AppSpecificWeight")(v) || pp("IPColocationFactorWeight")(v) || pp("BehaviourPenaltyWeight")(v)
		})
		if isTopic {
			c.Check(!g.ReachableFrom(cp, ap, nil, nil), "R10.6", f.Name, "topic sum complete before the cap", as, "not reachable after the cap", "topic contributions are added after the topic cap was applied")
		}
		if isGlobal {
			c.Check(!g.ReachableFrom(ap, cp, nil, nil), "R10.6", f.Name, "P5-P7 are outside the topic cap", as, "the cap is not reachable after this term", "the topic score cap is applied after a non-topic term ("+p.Src(as)+"): it would cap application/colocation/behaviour components too")
		}
	}
}

func unwrapParenOp(v *V) *V { return v }

var _ = strings.Join
