package main

// Canonicalisation by helper inlining.
//
// The rules anchor on named functions ("handleIncomingRPC writes the topic maps", "heartbeat expires
// the fanout"). A behaviour-preserving refactoring that moves anchored code into a new helper would
// make such a rule report a violation or an unrecognised shape although the property holds. When —
// and only when — the plain evaluation of a property is not clean, the analyser builds a second,
// semantically equivalent view of the tree in which every *non-anchor* private helper (an unexported
// function that no rule names, that is only ever called, from at most maxInlineSites places in its own
// package) is inlined at its call sites and its declaration removed; the view exists only in memory
// (go/packages Overlay), must type-check, and the rules are evaluated on it again. The property is
// reported as holding when the equivalent view satisfies every rule. Nothing is executed.
//
// The inliner is deliberately conservative: it gives up on a helper (and leaves it alone) whenever
// the transformation is not obviously semantics-preserving — defer/recover/goto/named results in the
// helper, variadic or generic helpers, promoted methods, calls in go/defer statements, a call site
// where a package-level name used by the helper is shadowed, an expression context it does not
// understand — and every view is type-checked before it is used.

import (
	"bytes"
	"embed"
	"fmt"
	"go/ast"
	"go/token"
	"go/types"
	"os"
	"regexp"
	"sort"
	"strings"
	"sync"
	"sync/atomic"
)

//go:embed rules_*.go
var ruleSources embed.FS

const maxInlineSites = 4

var (
	anchorWordSet  map[string]bool // identifier-like words inside rule string literals
	anchorLitSet   map[string]bool // complete rule string literals
	anchorAllText  string          // all rule string literals, concatenated
	anchorWordOnce sync.Once
)

// isAnchor: may some rule refer to this function by name? Package-level functions: their bare name occurs as a
// word in a rule string. Methods: their canonical name ("(*T).m") occurs in a rule string, or their bare name is
// a complete rule string (rules build "(*T)."+name from lists of bare names) — a new method that merely shares
// its name with an anchored method of another type (topicStats.score vs peerScore.score) is not an anchor.
func isAnchor(f *Func) bool {
	anchorWords()
	bare := f.Decl.Name.Name
	if f.Decl.Recv == nil {
		return anchorWordSet[bare]
	}
	return anchorLitSet[bare] || strings.Contains(anchorAllText, f.Name)
}

// anchorWords: every identifier-like word inside a string literal of the rule sources. A function
// whose bare name is such a word is an anchor (some rule may refer to it) and is never inlined.
func anchorWords() map[string]bool {
	anchorWordOnce.Do(buildAnchorWords)
	return anchorWordSet
}

func buildAnchorWords() {
	anchorWordSet = map[string]bool{}
	anchorLitSet = map[string]bool{}
	var all strings.Builder
	ents, _ := ruleSources.ReadDir(".")
	strRe := regexp.MustCompile("\"(?:[^\"\\\\\\n]|\\\\.)*\"|`[^`]*`")
	wordRe := regexp.MustCompile(`[A-Za-z_][A-Za-z0-9_]*`)
	for _, e := range ents {
		b, err := ruleSources.ReadFile(e.Name())
		if err != nil {
			continue
		}
		for _, s := range strRe.FindAll(b, -1) {
			for _, w := range wordRe.FindAll(s, -1) {
				anchorWordSet[string(w)] = true
			}
			if len(s) >= 2 {
				anchorLitSet[string(s[1:len(s)-1])] = true
			}
			all.Write(s)
			all.WriteByte('\n')
		}
	}
	anchorAllText = all.String()
}

type textEdit struct {
	start, end int
	text       string
}

type inlineCand struct {
	f     *Func
	refs  []Ref
	edits map[string][]textEdit // by absolute file name
	why   string
	// the helper contains a defer: it may only be inlined at tail calls
	tailOnly bool
}

type canonResult struct {
	Overlay map[string][]byte
	Inlined []string
	Skipped []string
	Prog    *Prog // the loaded, type-checked canonical view (nil if nothing was inlined)
}

// canonicalise builds the canonical view of the tree described by opt (which may already carry an
// overlay, e.g. a self-audit mutant).
func canonicalise(opt LoadOptions) (*canonResult, error) {
	res := &canonResult{Overlay: map[string][]byte{}}
	for k, v := range opt.Overlay {
		res.Overlay[k] = v
	}
	cur := opt
	var curProg *Prog
	for round := 0; round < 3; round++ {
		cur.Overlay = res.Overlay
		p, err := Load(cur)
		if err != nil {
			if round == 0 {
				return nil, err
			}
			break
		}
		curProg = p
		cands := findInlineCands(p, res)
		if len(cands) == 0 {
			break
		}
		// select a conflict-free subset for this round
		var sel []*inlineCand
		for _, c := range cands {
			conflict := false
			for _, o := range sel {
				if candsConflict(p, c, o) {
					conflict = true
					break
				}
			}
			if !conflict {
				sel = append(sel, c)
			}
		}
		// try all together, then greedily one by one
		apply := func(cs []*inlineCand) (map[string][]byte, error) {
			ov := map[string][]byte{}
			for k, v := range res.Overlay {
				ov[k] = v
			}
			byFile := map[string][]textEdit{}
			for _, c := range cs {
				for f, es := range c.edits {
					byFile[f] = append(byFile[f], es...)
				}
			}
			for f, es := range byFile {
				src, err := readSource(f, res.Overlay)
				if err != nil {
					return nil, err
				}
				out, err := applyEdits(src, es)
				if err != nil {
					return nil, err
				}
				ov[f] = out
			}
			o2 := cur
			o2.Overlay = ov
			if _, err := Load(o2); err != nil {
				return nil, err
			}
			return ov, nil
		}
		ov, err := apply(sel)
		if err != nil {
			var good []*inlineCand
			if len(sel) <= 12 {
				for _, c := range sel {
					try := append(append([]*inlineCand{}, good...), c)
					if _, err := apply(try); err == nil {
						good = try
					} else {
						res.Skipped = append(res.Skipped, c.f.Name+": inlined view does not type-check ("+firstLine(err.Error())+")")
					}
				}
			}
			if len(good) == 0 {
				break
			}
			ov, err = apply(good)
			if err != nil {
				break
			}
			sel = good
		}
		res.Overlay = ov
		for _, c := range sel {
			res.Inlined = append(res.Inlined, c.f.Name)
		}
		curProg = nil
	}
	// table loops: unrolling passes over the view obtained so far (one loop per pass: positions go stale)
	for pass := 0; pass < 4; pass++ {
		applied := false
		cur.Overlay = res.Overlay
		if curProg == nil {
			if p, err := Load(cur); err == nil {
				curProg = p
			}
		}
		if curProg != nil {
			for _, uc := range findUnrollCands(curProg, res) {
				srcb, err := readSource(uc.file, res.Overlay)
				if err != nil {
					continue
				}
				outb, err := applyEdits(srcb, uc.edits)
				if err != nil {
					continue
				}
				ov := map[string][]byte{}
				for k, v := range res.Overlay {
					ov[k] = v
				}
				ov[uc.file] = outb
				o2 := cur
				o2.Overlay = ov
				if _, err := Load(o2); err != nil {
					res.Skipped = append(res.Skipped, uc.desc+": unrolled view does not type-check ("+firstLine(err.Error())+")")
					continue
				}
				res.Overlay = ov
				res.Inlined = append(res.Inlined, "unrolled "+uc.desc)
				curProg = nil
				applied = true
				break
			}
		}
		if !applied {
			break
		}
	}
	if len(res.Inlined) == 0 {
		return res, nil
	}
	if curProg == nil {
		cur.Overlay = res.Overlay
		p, err := Load(cur)
		if err != nil {
			return nil, err
		}
		curProg = p
	}
	res.Prog = curProg
	sort.Strings(res.Inlined)
	return res, nil
}

func readSource(file string, overlay map[string][]byte) ([]byte, error) {
	if b, ok := overlay[file]; ok {
		return b, nil
	}
	return os.ReadFile(file)
}

func applyEdits(src []byte, es []textEdit) ([]byte, error) {
	sort.Slice(es, func(i, j int) bool { return es[i].start < es[j].start })
	for i := 1; i < len(es); i++ {
		if es[i].start < es[i-1].end {
			return nil, fmt.Errorf("overlapping edits")
		}
	}
	var out bytes.Buffer
	last := 0
	for _, e := range es {
		if e.start < last || e.end > len(src) {
			return nil, fmt.Errorf("edit out of range")
		}
		out.Write(src[last:e.start])
		out.WriteString(e.text)
		last = e.end
	}
	out.Write(src[last:])
	return out.Bytes(), nil
}

func candsConflict(p *Prog, a, b *inlineCand) bool {
	inside := func(n ast.Node, f *Func) bool {
		return f.Decl != nil && n.Pos() >= f.Decl.Pos() && n.End() <= f.Decl.End()
	}
	for _, r := range a.refs {
		if inside(r.Id, b.f) {
			return true
		}
	}
	for _, r := range b.refs {
		if inside(r.Id, a.f) {
			return true
		}
	}
	// two call sites in the same statement
	for _, ra := range a.refs {
		for _, rb := range b.refs {
			sa, sb := enclosingStmt(p, ra.Id), enclosingStmt(p, rb.Id)
			if sa != nil && sb != nil && (within(sa, sb) || within(sb, sa)) {
				return true
			}
		}
	}
	return false
}

func enclosingStmt(p *Prog, n ast.Node) ast.Stmt {
	for x := p.parents[n]; x != nil; x = p.parents[x] {
		if s, ok := x.(ast.Stmt); ok {
			switch s.(type) {
			case *ast.ExprStmt, *ast.AssignStmt, *ast.ReturnStmt, *ast.IfStmt, *ast.GoStmt, *ast.DeferStmt, *ast.SendStmt, *ast.IncDecStmt, *ast.DeclStmt, *ast.RangeStmt, *ast.ForStmt, *ast.SwitchStmt, *ast.TypeSwitchStmt, *ast.SelectStmt, *ast.CaseClause, *ast.CommClause:
				return s
			}
		}
	}
	return nil
}

var inlineSeq atomic.Int64

func findInlineCands(p *Prog, res *canonResult) []*inlineCand {
	anchors := anchorWords()
	var out []*inlineCand
	for _, f := range p.All {
		if f.Decl == nil || f.Obj == nil || f.Parent != nil || p.IsGenerated(f.Decl) {
			continue
		}
		name := f.Decl.Name.Name
		_ = anchors
		if ast.IsExported(name) || name == "init" || name == "main" || name == "_" || isAnchor(f) {
			continue
		}
		skip := func(why string) {
			// only report helpers that look like extraction targets (called, never referenced as a value)
			res.Skipped = append(res.Skipped, f.Name+": "+why)
		}
		// a content predicate over an RPC (a bool function reading the messages, the subscriptions and the control
		// lists) is a construct rules look for by its shape (R11.6): it stays a function in the canonical view
		if isRPCContentPredicate(f) {
			continue
		}
		refs := p.Refs(f.Name)
		limit := maxInlineSites
		if f.Body != nil && len(f.Body.List) == 1 {
			// a predicate whose body is one `return <expr>` is substituted as an expression: cheap at any number of
			// sites (an extracted range test used by every validator, say)
			if r, ok := f.Body.List[0].(*ast.ReturnStmt); ok && len(r.Results) == 1 {
				limit = 16
			}
		}
		if len(refs) == 0 || len(refs) > limit {
			continue
		}
		allCalls := true
		for _, r := range refs {
			if !r.IsCall || r.Fn == nil || r.Fn.Pkg != f.Pkg || p.IsGenerated(r.Id) || r.Fn.Root() == f {
				allCalls = false
			}
		}
		if !allCalls {
			continue
		}
		tailOnly := false
		if why := helperUnsuitable(p, f); why == "defer:tail-only" {
			tailOnly = true
		} else if why != "" {
			skip(why)
			continue
		}
		c := &inlineCand{f: f, refs: refs, edits: map[string][]textEdit{}, tailOnly: tailOnly}
		ok := true
		for _, r := range refs {
			if why := planInlineSite(p, c, r, res); why != "" {
				skip("call site at " + p.Pos(r.Id) + ": " + why)
				ok = false
				break
			}
		}
		if !ok {
			continue
		}
		// remove the declaration (with its doc comment)
		file := p.Fset.Position(f.Decl.Pos()).Filename
		start := f.Decl.Pos()
		if f.Decl.Doc != nil {
			start = f.Decl.Doc.Pos()
		}
		c.edits[file] = append(c.edits[file], textEdit{p.Fset.Position(start).Offset, p.Fset.Position(f.Decl.End()).Offset, ""})
		out = append(out, c)
	}
	sort.Slice(out, func(i, j int) bool { return out[i].f.Name < out[j].f.Name })
	return out
}

// helperUnsuitable: reasons not to inline f at all.
func helperUnsuitable(p *Prog, f *Func) string {
	d := f.Decl
	sig := f.Obj.Type().(*types.Signature)
	if sig.Variadic() {
		return "variadic"
	}
	if sig.TypeParams() != nil || sig.RecvTypeParams() != nil {
		return "generic"
	}
	if d.Type.Results != nil {
		for _, fl := range d.Type.Results.List {
			if len(fl.Names) > 0 {
				return "named results"
			}
		}
	}
	why := ""
	hasDefer := false
	inspectNoLit(d.Body, func(n ast.Node) bool {
		switch x := n.(type) {
		case *ast.DeferStmt:
			// allowed only for tail calls (`return H(...)`): the deferred call then runs at the same moment, as the
			// caller's most recently registered defer (checked per call site)
			hasDefer = true
		case *ast.BranchStmt:
			if x.Tok == token.GOTO {
				why = "goto in helper"
			}
		case *ast.LabeledStmt:
			why = "label in helper"
		case *ast.CallExpr:
			if id, ok := x.Fun.(*ast.Ident); ok {
				if b, ok := f.Info().Uses[id].(*types.Builtin); ok && b.Name() == "recover" {
					why = "recover in helper"
				}
			}
		}
		return why == ""
	})
	if why != "" {
		return why
	}
	if hasDefer {
		return "defer:tail-only"
	}
	return ""
}

func callOfIdent(p *Prog, id *ast.Ident) *ast.CallExpr {
	var n ast.Node = id
	par := p.parents[n]
	if se, ok := par.(*ast.SelectorExpr); ok && se.Sel == id {
		n = se
		par = p.parents[n]
	}
	for {
		pe, ok := par.(*ast.ParenExpr)
		if !ok {
			break
		}
		n = pe
		par = p.parents[n]
	}
	if ce, ok := par.(*ast.CallExpr); ok && unparen(ce.Fun) == unparenNode(n) {
		return ce
	}
	return nil
}

func unparenNode(n ast.Node) ast.Node {
	if e, ok := n.(ast.Expr); ok {
		return unparen(e)
	}
	return n
}

// planInlineSite computes the edit that replaces one call site; returns a reason on failure.
func planInlineSite(p *Prog, c *inlineCand, r Ref, res *canonResult) string {
	f := c.f
	call := callOfIdent(p, r.Id)
	if call == nil {
		return "call expression not found"
	}
	info := r.Fn.Info()
	file := p.Fset.Position(call.Pos()).Filename
	src, err := readSource(file, res.Overlay)
	if err != nil {
		return err.Error()
	}
	hfile := p.Fset.Position(f.Decl.Pos()).Filename
	hsrc, err := readSource(hfile, res.Overlay)
	if err != nil {
		return err.Error()
	}
	off := func(pos token.Pos) int { return p.Fset.Position(pos).Offset }
	text := func(n ast.Node) string { return string(src[off(n.Pos()):off(n.End())]) }
	sig := f.Obj.Type().(*types.Signature)

	// --- qualifier for type strings at the call site's file
	var astFile *ast.File
	for _, sf := range r.Fn.Pkg.Syntax {
		if sf.Pos() <= call.Pos() && call.End() <= sf.End() {
			astFile = sf
		}
	}
	if astFile == nil {
		return "file of the call site not found"
	}
	imports := map[string]string{}
	for _, im := range astFile.Imports {
		path := strings.Trim(im.Path.Value, "\"")
		nm := ""
		if im.Name != nil {
			nm = im.Name.Name
		} else if pn, ok := info.Implicits[im].(*types.PkgName); ok {
			nm = pn.Name()
		}
		imports[path] = nm
	}
	qualFail := ""
	qual := func(pk *types.Package) string {
		if pk == r.Fn.Pkg.Types {
			return ""
		}
		if nm, ok := imports[pk.Path()]; ok && nm != "" && nm != "_" && nm != "." {
			return nm
		}
		qualFail = "type from package " + pk.Path() + " cannot be named at the call site"
		return pk.Name()
	}
	typeStr := func(t types.Type) string { return types.TypeString(t, qual) }

	// --- free package-level names of the helper must mean the same thing at the call site
	scope := r.Fn.Pkg.Types.Scope().Innermost(call.Pos())
	if scope == nil {
		return "scope of the call site not found"
	}
	captureWhy := ""
	ast.Inspect(f.Decl.Body, func(n ast.Node) bool {
		id, ok := n.(*ast.Ident)
		if !ok || captureWhy != "" {
			return captureWhy == ""
		}
		obj := f.Info().Uses[id]
		if obj == nil {
			return true
		}
		// objects declared inside the helper (params, locals) move with the body
		if obj.Pos() >= f.Decl.Pos() && obj.Pos() <= f.Decl.End() && obj.Pkg() == f.Pkg.Types {
			return true
		}
		if _, isField := obj.(*types.Var); isField && obj.(*types.Var).IsField() {
			return true
		}
		if _, isFunc := obj.(*types.Func); isFunc && obj.(*types.Func).Type().(*types.Signature).Recv() != nil {
			return true // method selected on a value
		}
		if sel, ok := p.parents[id].(*ast.SelectorExpr); ok && sel.Sel == id {
			return true // qualified identifier / field: resolved through its left side
		}
		_, at := scope.LookupParent(id.Name, call.Pos())
		if pn, ok := obj.(*types.PkgName); ok {
			// package names are file-scoped: the call site must see the same package under the same name
			apn, ok2 := at.(*types.PkgName)
			if !ok2 || apn.Imported() != pn.Imported() {
				captureWhy = "package name " + id.Name + " means something else at the call site"
			}
			return true
		}
		if at != obj {
			captureWhy = "the name " + id.Name + " used by the helper means something else at the call site"
		}
		return true
	})
	if captureWhy != "" {
		return captureWhy
	}

	// --- context of the call
	par := p.parents[call]
	for {
		pe, ok := par.(*ast.ParenExpr)
		if !ok {
			break
		}
		par = p.parents[pe]
	}
	nres := sig.Results().Len()
	var stmt ast.Stmt
	var hoistBefore ast.Stmt // statement in front of which a hoisted block is placed (default: stmt itself)
	mode := ""
	switch x := par.(type) {
	case *ast.ExprStmt:
		stmt, mode = x, "stmt"
	case *ast.ReturnStmt:
		if len(x.Results) == 1 && unparen(x.Results[0]) == ast.Expr(call) {
			stmt, mode = x, "tail"
		}
	case *ast.AssignStmt:
		if len(x.Rhs) == 1 && unparen(x.Rhs[0]) == ast.Expr(call) {
			stmt, mode = x, "hoist"
			// `if v := H(); cond {`: the block is hoisted in front of the if statement
			if is, ok := p.parents[x].(*ast.IfStmt); ok && is.Init == ast.Stmt(x) {
				if _, isElse := p.parents[is].(*ast.IfStmt); !isElse {
					hoistBefore = is
				}
			}
		}
	case *ast.IfStmt:
		if x.Init == nil && unparen(x.Cond) == ast.Expr(call) {
			if _, isElse := p.parents[x].(*ast.IfStmt); !isElse {
				stmt, mode = x, "hoist"
			}
		}
	case *ast.GoStmt, *ast.DeferStmt:
		return "called in a go/defer statement"
	}
	// single-expression helpers can be substituted anywhere
	if mode == "" || mode == "hoist" {
		if e, neg := singleReturnExpr(f); e != nil {
			if sub, why := substituteExpr(p, f, call, info, hsrc, src, e); why == "" {
				if neg {
					sub = "(!" + sub + ")"
				}
				c.edits[file] = append(c.edits[file], textEdit{off(call.Pos()), off(call.End()), sub})
				return ""
			} else if mode == "" && nres != 1 {
				return why
			}
		}
	}
	if mode == "" && nres == 1 {
		// a call inside a larger expression: it may be evaluated in front of its statement when nothing but reads of
		// local variables is evaluated before it and it is not conditionally evaluated
		if s, why := exprHoistStmt(p, r.Fn, call); why == "" {
			stmt, mode = s, "hoist"
		} else {
			return "call in an expression context (" + why + ")"
		}
	}
	if mode == "" {
		return "call in an expression context"
	}
	if c.tailOnly && mode != "tail" {
		return "defer in helper (and the call is not a tail call)"
	}
	if mode == "stmt" && nres != 0 {
		mode = "stmt" // results discarded: returns become breaks, result expressions are still evaluated
	}
	// the statement must be directly in a block / clause body (so that it can be replaced by statements)
	anchorStmt := stmt
	if hoistBefore != nil {
		anchorStmt = hoistBefore
	}
	switch p.parents[anchorStmt].(type) {
	case *ast.BlockStmt, *ast.CaseClause, *ast.CommClause:
	default:
		return "call statement is not in a statement list"
	}

	tag := fmt.Sprintf("_inl%d", inlineSeq.Add(1))
	var b strings.Builder

	// --- bindings: receiver and parameters, evaluated once, in order
	var names, vals []string
	addBinding := func(name string, pt types.Type, argText string, at types.Type, argIsNil bool) {
		v := argText
		if argIsNil || at == nil || !types.Identical(at, pt) {
			v = "(" + typeStr(pt) + ")(" + argText + ")"
		}
		if name == "" || name == "_" {
			name = "_"
		}
		names = append(names, name)
		vals = append(vals, v)
	}
	if sig.Recv() != nil {
		se, ok := unparen(call.Fun).(*ast.SelectorExpr)
		if !ok {
			return "method called through a method expression"
		}
		sel := info.Selections[se]
		if sel == nil || len(sel.Index()) != 1 {
			return "promoted method"
		}
		rt := sig.Recv().Type()
		at := info.TypeOf(se.X)
		argText := text(se.X)
		_, wantPtr := rt.(*types.Pointer)
		_, havePtr := at.(*types.Pointer)
		if _, isNamedPtr := at.Underlying().(*types.Pointer); isNamedPtr {
			havePtr = true
		}
		if wantPtr && !havePtr {
			argText = "&(" + argText + ")"
			at = types.NewPointer(at)
		} else if !wantPtr && havePtr {
			argText = "*(" + argText + ")"
			at = at.Underlying().(*types.Pointer).Elem()
		}
		rn := ""
		if f.Decl.Recv != nil && len(f.Decl.Recv.List) == 1 && len(f.Decl.Recv.List[0].Names) == 1 {
			rn = f.Decl.Recv.List[0].Names[0].Name
		}
		addBinding(rn, rt, argText, at, false)
	}
	pi := 0
	for _, fl := range f.Decl.Type.Params.List {
		n := len(fl.Names)
		if n == 0 {
			n = 1
		}
		for k := 0; k < n; k++ {
			if pi >= len(call.Args) {
				return "argument count mismatch (multi-value call argument)"
			}
			pn := ""
			if len(fl.Names) > 0 {
				pn = fl.Names[k].Name
			}
			arg := call.Args[pi]
			tv := info.Types[arg]
			// constants (typed by their context) and nil need the parameter's type spelled out in a var declaration
			addBinding(pn, sig.Params().At(pi).Type(), text(arg), tv.Type, tv.IsNil() || tv.Value != nil)
			pi++
		}
	}
	if pi != len(call.Args) {
		return "argument count mismatch"
	}
	if qualFail != "" {
		return qualFail
	}

	// --- body text with returns rewritten
	bodyStart, bodyEnd := off(f.Decl.Body.Lbrace)+1, off(f.Decl.Body.Rbrace)
	body := hsrc[bodyStart:bodyEnd]
	var rets []*ast.ReturnStmt
	inspectNoLit(f.Decl.Body, func(n ast.Node) bool {
		if r, ok := n.(*ast.ReturnStmt); ok {
			rets = append(rets, r)
		}
		return true
	})
	label := "L" + tag
	var resNames []string
	for i := 0; i < nres; i++ {
		resNames = append(resNames, fmt.Sprintf("%s_r%d", tag, i))
	}
	needLabel := false
	var bedits []textEdit
	for _, rs := range rets {
		var repl string
		switch mode {
		case "tail":
			continue // returns stay returns
		case "stmt":
			if len(rs.Results) == 0 {
				repl = "break " + label
			} else {
				var ts []string
				for _, e := range rs.Results {
					ts = append(ts, string(hsrc[off(e.Pos()):off(e.End())]))
				}
				blanks := make([]string, nres)
				for i := range blanks {
					blanks[i] = "_"
				}
				repl = "{ " + strings.Join(blanks, ", ") + " = " + strings.Join(ts, ", ") + "; break " + label + " }"
			}
		case "hoist":
			var ts []string
			for _, e := range rs.Results {
				ts = append(ts, string(hsrc[off(e.Pos()):off(e.End())]))
			}
			repl = "{ " + strings.Join(resNames, ", ") + " = " + strings.Join(ts, ", ") + "; break " + label + " }"
		}
		needLabel = true
		bedits = append(bedits, textEdit{off(rs.Pos()) - bodyStart, off(rs.End()) - bodyStart, repl})
	}
	nb, err := applyEdits(body, bedits)
	if err != nil {
		return err.Error()
	}
	// a trailing return needs no break: keep it simple and uniform (the break is harmless)

	if mode == "hoist" {
		for i := 0; i < nres; i++ {
			fmt.Fprintf(&b, "var %s %s\n", resNames[i], typeStr(sig.Results().At(i).Type()))
		}
		if qualFail != "" {
			return qualFail
		}
	}
	b.WriteString("{ // pscheck canonical view: " + f.Name + " inlined\n")
	if len(names) > 0 {
		allBlank := true
		for _, n := range names {
			if n != "_" {
				allBlank = false
			}
		}
		if allBlank {
			fmt.Fprintf(&b, "%s = %s\n", strings.Join(names, ", "), strings.Join(vals, ", "))
		} else {
			// blank names cannot appear in a var declaration with initialisers together with others? they can.
			fmt.Fprintf(&b, "var %s = %s\n", strings.Join(names, ", "), strings.Join(vals, ", "))
			var used []string
			for _, n := range names {
				if n != "_" {
					used = append(used, n)
				}
			}
			blanks := make([]string, len(used))
			for i := range blanks {
				blanks[i] = "_"
			}
			fmt.Fprintf(&b, "%s = %s\n", strings.Join(blanks, ", "), strings.Join(used, ", "))
		}
	}
	if needLabel {
		fmt.Fprintf(&b, "%s:\nswitch {\ndefault:\n", label)
	}
	b.Write(nb)
	if needLabel {
		b.WriteString("\n}\n")
	}
	b.WriteString("\n}\n")

	switch mode {
	case "stmt", "tail":
		if mode == "tail" && nres == 0 {
			return "tail call of a function without results"
		}
		c.edits[file] = append(c.edits[file], textEdit{off(stmt.Pos()), off(stmt.End()), b.String()})
	case "hoist":
		// the inlined block goes before the statement; the call is replaced by the result temporaries
		c.edits[file] = append(c.edits[file], textEdit{off(anchorStmt.Pos()), off(anchorStmt.Pos()), b.String()})
		c.edits[file] = append(c.edits[file], textEdit{off(call.Pos()), off(call.End()), strings.Join(resNames, ", ")})
	}
	return ""
}

// singleReturnExpr: the helper's body is exactly `return <expr>`, or the predicate idiom
// `if <expr> { return true }; return false` (negated: true/false swapped).
func singleReturnExpr(f *Func) (ast.Expr, bool) {
	l := f.Decl.Body.List
	if len(l) == 1 {
		r, ok := l[0].(*ast.ReturnStmt)
		if !ok || len(r.Results) != 1 {
			return nil, false
		}
		return r.Results[0], false
	}
	if len(l) == 2 {
		is, ok1 := l[0].(*ast.IfStmt)
		r2, ok2 := l[1].(*ast.ReturnStmt)
		if !ok1 || !ok2 || is.Init != nil || is.Else != nil || len(is.Body.List) != 1 || len(r2.Results) != 1 {
			return nil, false
		}
		r1, ok := is.Body.List[0].(*ast.ReturnStmt)
		if !ok || len(r1.Results) != 1 {
			return nil, false
		}
		k1, k2 := boolLit(f, r1.Results[0]), boolLit(f, r2.Results[0])
		if k1 == "true" && k2 == "false" {
			return is.Cond, false
		}
		if k1 == "false" && k2 == "true" {
			return is.Cond, true
		}
	}
	return nil, false
}

func boolLit(f *Func, e ast.Expr) string {
	id, ok := unparen(e).(*ast.Ident)
	if !ok {
		return ""
	}
	if c, ok := f.Info().Uses[id].(*types.Const); ok && c.Pkg() == nil && (c.Name() == "true" || c.Name() == "false") {
		return c.Name()
	}
	return ""
}

// substituteExpr replaces a call of a single-expression helper by the expression with parameters
// substituted. Arguments (and the receiver) must be simple side-effect-free expressions.
func substituteExpr(p *Prog, f *Func, call *ast.CallExpr, info *types.Info, hsrc, src []byte, e ast.Expr) (string, string) {
	off := func(pos token.Pos) int { return p.Fset.Position(pos).Offset }
	simple := func(x ast.Expr) bool {
		ok := true
		ast.Inspect(x, func(n ast.Node) bool {
			switch n.(type) {
			case *ast.CallExpr, *ast.FuncLit, *ast.UnaryExpr, *ast.BinaryExpr, *ast.CompositeLit, *ast.TypeAssertExpr, *ast.SliceExpr:
				ok = false
			}
			return ok
		})
		return ok
	}
	sig := f.Obj.Type().(*types.Signature)
	subst := map[types.Object]string{}
	if sig.Recv() != nil {
		se, ok := unparen(call.Fun).(*ast.SelectorExpr)
		if !ok {
			return "", "method expression"
		}
		sel := info.Selections[se]
		if sel == nil || len(sel.Index()) != 1 || !simple(se.X) {
			return "", "receiver is not a simple expression"
		}
		if f.Decl.Recv != nil && len(f.Decl.Recv.List) == 1 && len(f.Decl.Recv.List[0].Names) == 1 {
			ro := f.Info().Defs[f.Decl.Recv.List[0].Names[0]]
			rt, at := sig.Recv().Type(), info.TypeOf(se.X)
			_, wantPtr := rt.(*types.Pointer)
			_, havePtr := at.Underlying().(*types.Pointer)
			txt := string(src[off(se.X.Pos()):off(se.X.End())])
			if wantPtr != havePtr {
				return "", "receiver needs an address/indirection"
			}
			subst[ro] = "(" + txt + ")"
		}
	}
	pi := 0
	for _, fl := range f.Decl.Type.Params.List {
		n := len(fl.Names)
		if n == 0 {
			n = 1
		}
		for k := 0; k < n; k++ {
			if pi >= len(call.Args) {
				return "", "argument count mismatch"
			}
			arg := call.Args[pi]
			if !simple(arg) {
				return "", "argument is not a simple expression"
			}
			tv := info.Types[arg]
			if tv.IsNil() || tv.Value != nil || !types.Identical(tv.Type, sig.Params().At(pi).Type()) {
				return "", "argument needs a conversion"
			}
			if len(fl.Names) > 0 {
				subst[f.Info().Defs[fl.Names[k]]] = "(" + string(src[off(arg.Pos()):off(arg.End())]) + ")"
			}
			pi++
		}
	}
	// parameters must not be assigned or have their address taken in the expression (it is a single expression: only & matters)
	var edits []textEdit
	bad := ""
	es, ee := off(e.Pos()), off(e.End())
	ast.Inspect(e, func(n ast.Node) bool {
		switch x := n.(type) {
		case *ast.FuncLit:
			bad = "function literal in helper expression"
		case *ast.Ident:
			if o := f.Info().Uses[x]; o != nil {
				if t, ok := subst[o]; ok {
					edits = append(edits, textEdit{off(x.Pos()) - es, off(x.End()) - es, t})
				}
			}
		}
		return bad == ""
	})
	if bad != "" {
		return "", bad
	}
	out, err := applyEdits(hsrc[es:ee], edits)
	if err != nil {
		return "", err.Error()
	}
	return "(" + string(out) + ")", ""
}

// ---------------------------------------------------------------------------------------------
// Table-loop unrolling: `for _, v := range T` over a local composite literal of at most
// maxUnroll positional elements (a "table of checks") is replaced, in the canonical view only, by one
// copy of the body per element with v bound to that element; `continue` leaves the copy, `break` leaves
// all copies. Semantics are unchanged (per-iteration variables, same order); the view is type-checked.

const maxUnroll = 8

type unrollCand struct {
	desc  string
	file  string
	edits []textEdit
}

func importQualifier(p *Prog, pk *Func, pos token.Pos) (func(*types.Package) string, *string) {
	fail := new(string)
	var astFile *ast.File
	for _, sf := range pk.Pkg.Syntax {
		if sf.Pos() <= pos && pos <= sf.End() {
			astFile = sf
		}
	}
	imports := map[string]string{}
	if astFile != nil {
		for _, im := range astFile.Imports {
			path := strings.Trim(im.Path.Value, "\"")
			nm := ""
			if im.Name != nil {
				nm = im.Name.Name
			} else if pn, ok := pk.Info().Implicits[im].(*types.PkgName); ok {
				nm = pn.Name()
			}
			imports[path] = nm
		}
	}
	return func(tp *types.Package) string {
		if tp == pk.Pkg.Types {
			return ""
		}
		if nm, ok := imports[tp.Path()]; ok && nm != "" && nm != "_" && nm != "." {
			return nm
		}
		*fail = "type from package " + tp.Path() + " cannot be named here"
		return tp.Name()
	}, fail
}

func findUnrollCands(p *Prog, res *canonResult) []*unrollCand {
	var out []*unrollCand
	seq := 0
	for _, f := range p.All {
		if f.Decl == nil || f.Parent != nil || p.IsGenerated(f.Decl) {
			continue
		}
		info := f.Info()
		file := p.Fset.Position(f.Decl.Pos()).Filename
		src, err := readSource(file, res.Overlay)
		if err != nil {
			continue
		}
		off := func(pos token.Pos) int { return p.Fset.Position(pos).Offset }
		var taken []*ast.RangeStmt
		ast.Inspect(f.Decl.Body, func(n ast.Node) bool {
			rs, ok := n.(*ast.RangeStmt)
			if !ok || rs.Tok != token.DEFINE {
				return true
			}
			for _, t := range taken { // no nested unrolling in one round
				if within(rs, t) {
					return true
				}
			}
			if _, labelled := p.parents[rs].(*ast.LabeledStmt); labelled {
				return true
			}
			switch p.parents[rs].(type) {
			case *ast.BlockStmt, *ast.CaseClause, *ast.CommClause:
			default:
				return true
			}
			// the table
			var lit *ast.CompositeLit
			var tableObj types.Object
			switch x := unparen(rs.X).(type) {
			case *ast.CompositeLit:
				lit = x
			case *ast.Ident:
				obj, _ := info.Uses[x].(*types.Var)
				if obj == nil || obj.IsField() || obj.Parent() == obj.Pkg().Scope() {
					return true
				}
				uses := 0
				var def *ast.CompositeLit
				ast.Inspect(f.Decl.Body, func(m ast.Node) bool {
					switch y := m.(type) {
					case *ast.Ident:
						if info.Uses[y] == obj {
							uses++
						}
					case *ast.AssignStmt:
						if y.Tok == token.DEFINE && len(y.Lhs) == 1 && len(y.Rhs) == 1 {
							if id, ok := y.Lhs[0].(*ast.Ident); ok && info.Defs[id] == obj {
								def, _ = unparen(y.Rhs[0]).(*ast.CompositeLit)
							}
						}
					}
					return true
				})
				if uses != 1 || def == nil {
					return true
				}
				lit, tableObj = def, obj
			default:
				return true
			}
			lt := info.TypeOf(lit)
			if lt == nil {
				return true
			}
			var elemT types.Type
			switch u := lt.Underlying().(type) {
			case *types.Slice:
				elemT = u.Elem()
			case *types.Array:
				elemT = u.Elem()
			default:
				return true
			}
			if len(lit.Elts) == 0 || len(lit.Elts) > maxUnroll {
				return true
			}
			for _, e := range lit.Elts {
				if _, kv := e.(*ast.KeyValueExpr); kv {
					return true
				}
				if cl, isLit := e.(*ast.CompositeLit); isLit && cl.Type == nil {
					return true // elided element type: the text alone is not an expression
				}
			}
			// body restrictions and branch statements that target this loop
			bad := false
			var conts, breaks []*ast.BranchStmt
			var walk func(n ast.Node, inLoop, inBreakable bool)
			walk = func(n ast.Node, inLoop, inBreakable bool) {
				if n == nil || bad {
					return
				}
				switch x := n.(type) {
				case *ast.FuncLit:
					return
				case *ast.LabeledStmt:
					bad = true
					return
				case *ast.BranchStmt:
					if x.Label != nil || x.Tok == token.GOTO || x.Tok == token.FALLTHROUGH {
						if x.Tok != token.FALLTHROUGH {
							bad = true
						}
						return
					}
					if x.Tok == token.CONTINUE && !inLoop {
						conts = append(conts, x)
					}
					if x.Tok == token.BREAK && !inBreakable {
						breaks = append(breaks, x)
					}
					return
				case *ast.ForStmt:
					walk(x.Body, true, true)
					return
				case *ast.RangeStmt:
					walk(x.Body, true, true)
					return
				case *ast.SwitchStmt:
					walk(x.Body, inLoop, true)
					return
				case *ast.TypeSwitchStmt:
					walk(x.Body, inLoop, true)
					return
				case *ast.SelectStmt:
					walk(x.Body, inLoop, true)
					return
				}
				children(n, func(c ast.Node) { walk(c, inLoop, inBreakable) })
			}
			walk(rs.Body, false, false)
			if bad {
				return true
			}
			qual, qfail := importQualifier(p, f, rs.Pos())
			tstr := types.TypeString(elemT, qual)
			if *qfail != "" {
				return true
			}
			name := func(e ast.Expr) string {
				if id, ok := e.(*ast.Ident); ok && id.Name != "_" {
					return id.Name
				}
				return ""
			}
			kn, vn := "", ""
			if rs.Key != nil {
				kn = name(rs.Key)
			}
			if rs.Value != nil {
				vn = name(rs.Value)
			}
			seq++
			tag := fmt.Sprintf("_unr%d_%d", len(res.Inlined), seq+int(inlineSeq.Add(1)))
			bodyStart, bodyEnd := off(rs.Body.Lbrace)+1, off(rs.Body.Rbrace)
			body := src[bodyStart:bodyEnd]
			var b strings.Builder
			b.WriteString("{ // pscheck canonical view: loop over a " + fmt.Sprint(len(lit.Elts)) + "-element table unrolled\n")
			if tableObj != nil {
				b.WriteString("_ = " + tableObj.Name() + "\n")
			}
			if len(breaks) > 0 {
				b.WriteString("LU" + tag + ":\nswitch {\ndefault:\n")
			}
			for i, e := range lit.Elts {
				var bedits []textEdit
				for _, c := range conts {
					bedits = append(bedits, textEdit{off(c.Pos()) - bodyStart, off(c.End()) - bodyStart, fmt.Sprintf("break LI%s_%d", tag, i)})
				}
				for _, br := range breaks {
					bedits = append(bedits, textEdit{off(br.Pos()) - bodyStart, off(br.End()) - bodyStart, "break LU" + tag})
				}
				nb, err := applyEdits(body, bedits)
				if err != nil {
					return true
				}
				b.WriteString("{\n")
				if vn != "" {
					fmt.Fprintf(&b, "var %s %s = %s\n_ = %s\n", vn, tstr, string(src[off(e.Pos()):off(e.End())]), vn)
				}
				if kn != "" {
					fmt.Fprintf(&b, "var %s int = %d\n_ = %s\n", kn, i, kn)
				}
				if len(conts) > 0 {
					fmt.Fprintf(&b, "LI%s_%d:\nswitch {\ndefault:\n", tag, i)
				}
				b.Write(nb)
				if len(conts) > 0 {
					b.WriteString("\n}\n")
				}
				b.WriteString("\n}\n")
			}
			if len(breaks) > 0 {
				b.WriteString("}\n")
			}
			b.WriteString("}\n")
			taken = append(taken, rs)
			out = append(out, &unrollCand{desc: f.Name + ": table loop at " + p.Pos(rs), file: file, edits: []textEdit{{off(rs.Pos()), off(rs.End()), b.String()}}})
			return true
		})
	}
	return out
}

// exprHoistStmt decides whether call, a sub-expression of a simple statement, can be evaluated in front of that
// statement without changing behaviour: the statement is a plain assignment / expression / return / send /
// inc-dec statement or the condition of an if (no init, not an else-if); the call is not in the right operand of
// && or || (conditional evaluation) nor inside a function literal; and everything that precedes it in the
// statement is free of calls, receives and of reads of anything but local variables (which a callee cannot change).
func exprHoistStmt(p *Prog, fn *Func, call *ast.CallExpr) (ast.Stmt, string) {
	var stmt ast.Stmt
	for x := p.parents[ast.Node(call)]; x != nil; x = p.parents[x] {
		switch s := x.(type) {
		case *ast.FuncLit:
			return nil, "inside a function literal"
		case *ast.BinaryExpr:
			if (s.Op == token.LAND || s.Op == token.LOR) && within(call, s.Y) {
				return nil, "conditionally evaluated"
			}
		case *ast.AssignStmt, *ast.ExprStmt, *ast.ReturnStmt, *ast.SendStmt, *ast.IncDecStmt:
			stmt = s.(ast.Stmt)
		case *ast.IfStmt:
			if s.Init != nil || !within(call, s.Cond) {
				return nil, "if statement with init"
			}
			if _, isElse := p.parents[s].(*ast.IfStmt); isElse {
				return nil, "else-if"
			}
			stmt = s
		case ast.Stmt:
			return nil, "unsupported statement"
		}
		if stmt != nil {
			break
		}
	}
	if stmt == nil {
		return nil, "no enclosing simple statement"
	}
	if as, ok := stmt.(*ast.AssignStmt); ok {
		if _, inIf := p.parents[as].(*ast.IfStmt); inIf {
			return nil, "if-init assignment with a compound expression"
		}
	}
	switch p.parents[stmt].(type) {
	case *ast.BlockStmt, *ast.CaseClause, *ast.CommClause:
	default:
		return nil, "statement is not in a statement list"
	}
	info := fn.Info()
	why := ""
	var root ast.Node = stmt
	if is, ok := stmt.(*ast.IfStmt); ok {
		root = is.Cond
	}
	ast.Inspect(root, func(n ast.Node) bool {
		if n == nil || why != "" {
			return false
		}
		if n == ast.Node(call) {
			return false // the call's own receiver and arguments are bound in order by the inliner
		}
		if n.Pos() >= call.Pos() {
			return true // evaluated after the call in both versions (or contains it)
		}
		if n.End() > call.Pos() {
			return true // an ancestor of the call: look at its earlier children
		}
		switch x := n.(type) {
		case *ast.CallExpr:
			if tv, ok := info.Types[x.Fun]; !ok || !tv.IsType() {
				why = "another call is evaluated before it"
			}
		case *ast.UnaryExpr:
			if x.Op == token.ARROW {
				why = "a receive is evaluated before it"
			}
		case *ast.SelectorExpr, *ast.IndexExpr, *ast.StarExpr, *ast.SliceExpr:
			why = "a field, element or pointer read is evaluated before it"
		case *ast.Ident:
			if v, ok := info.Uses[x].(*types.Var); ok && (v.IsField() || v.Parent() == v.Pkg().Scope()) {
				why = "a package-level variable is read before it"
			}
		}
		return why == ""
	})
	return stmt, why
}


// isRPCContentPredicate: a function with a single bool result whose body reads at least five of the seven content
// fields of an RPC (Publish, Subscriptions and the five control lists).
func isRPCContentPredicate(f *Func) bool {
	if f.Body == nil || f.Type.Results == nil || len(f.Type.Results.List) != 1 {
		return false
	}
	if t := f.Info().TypeOf(f.Type.Results.List[0].Type); t == nil || t.String() != "bool" {
		return false
	}
	want := map[string]bool{"Publish": true, "Subscriptions": true, "Ihave": true, "Iwant": true, "Graft": true, "Prune": true, "Idontwant": true}
	seen := map[string]bool{}
	ast.Inspect(f.Body, func(x ast.Node) bool {
		if se, ok := x.(*ast.SelectorExpr); ok && want[se.Sel.Name] {
			if sel := f.Info().Selections[se]; sel != nil && sel.Kind() == types.FieldVal {
				seen[se.Sel.Name] = true
			}
		}
		return true
	})
	return len(seen) >= 5
}
