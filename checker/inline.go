package main

// Canonicalisation by helper inlining.
//
// The rules anchor on named functions ("handleIncomingRPC writes the topic maps", "heartbeat expires
// the fanout"). A behaviour-preserving refactoring that moves anchored code into a new helper would
// make such a rule report a violation or an unrecognised shape although the property holds. When —
// and only when — the plain evaluation of a property is not clean, the analyser builds a second,
// semantically equivalent view of the tree in which every *non-anchor* private helper (an unexported
// function that no rule names, that is only ever called, from at most maxInlineSites places in its own
// package) is inlined at its call sites and its declaration removed; the view exists only in memory
// (go/packages Overlay), must type-check, and the rules are evaluated on it again. The property is
// reported as holding when the equivalent view satisfies every rule. Nothing is executed.
//
// The inliner is deliberately conservative: it gives up on a helper (and leaves it alone) whenever
// the transformation is not obviously semantics-preserving — defer/recover/goto/named results in the
// helper, variadic or generic helpers, promoted methods, calls in go/defer statements, a call site
// where a package-level name used by the helper is shadowed, an expression context it does not
// understand — and every view is type-checked before it is used.

import (
	"bytes"
	"embed"
	"fmt"
	"go/ast"
	"go/token"
	"go/types"
	"os"
	"regexp"
	"sort"
	"strings"
	"sync"
	"sync/atomic"
)

//go:embed rules_*.go
var ruleSources embed.FS

const maxInlineSites = 4

var (
	anchorWordSet  map[string]bool
	anchorWordOnce sync.Once
)

// anchorWords: every identifier-like word inside a string literal of the rule sources. A function
// whose bare name is such a word is an anchor (some rule may refer to it) and is never inlined.
func anchorWords() map[string]bool {
	anchorWordOnce.Do(buildAnchorWords)
	return anchorWordSet
}

func buildAnchorWords() {
	anchorWordSet = map[string]bool{}
	ents, _ := ruleSources.ReadDir(".")
	strRe := regexp.MustCompile("\"(?:[^\"\\\\\\n]|\\\\.)*\"|`[^`]*`")
	wordRe := regexp.MustCompile(`[A-Za-z_][A-Za-z0-9_]*`)
	for _, e := range ents {
		b, err := ruleSources.ReadFile(e.Name())
		if err != nil {
			continue
		}
		for _, s := range strRe.FindAll(b, -1) {
			for _, w := range wordRe.FindAll(s, -1) {
				anchorWordSet[string(w)] = true
			}
		}
	}
}

type textEdit struct {
	start, end int
	text       string
}

type inlineCand struct {
	f     *Func
	refs  []Ref
	edits map[string][]textEdit // by absolute file name
	why   string
}

type canonResult struct {
	Overlay map[string][]byte
	Inlined []string
	Skipped []string
	Prog    *Prog // the loaded, type-checked canonical view (nil if nothing was inlined)
}

// canonicalise builds the canonical view of the tree described by opt (which may already carry an
// overlay, e.g. a self-audit mutant).
func canonicalise(opt LoadOptions) (*canonResult, error) {
	res := &canonResult{Overlay: map[string][]byte{}}
	for k, v := range opt.Overlay {
		res.Overlay[k] = v
	}
	cur := opt
	var curProg *Prog
	for round := 0; round < 3; round++ {
		cur.Overlay = res.Overlay
		p, err := Load(cur)
		if err != nil {
			if round == 0 {
				return nil, err
			}
			break
		}
		curProg = p
		cands := findInlineCands(p, res)
		if len(cands) == 0 {
			break
		}
		// select a conflict-free subset for this round
		var sel []*inlineCand
		for _, c := range cands {
			conflict := false
			for _, o := range sel {
				if candsConflict(p, c, o) {
					conflict = true
					break
				}
			}
			if !conflict {
				sel = append(sel, c)
			}
		}
		// try all together, then greedily one by one
		apply := func(cs []*inlineCand) (map[string][]byte, error) {
			ov := map[string][]byte{}
			for k, v := range res.Overlay {
				ov[k] = v
			}
			byFile := map[string][]textEdit{}
			for _, c := range cs {
				for f, es := range c.edits {
					byFile[f] = append(byFile[f], es...)
				}
			}
			for f, es := range byFile {
				src, err := readSource(f, res.Overlay)
				if err != nil {
					return nil, err
				}
				out, err := applyEdits(src, es)
				if err != nil {
					return nil, err
				}
				ov[f] = out
			}
			o2 := cur
			o2.Overlay = ov
			if _, err := Load(o2); err != nil {
				return nil, err
			}
			return ov, nil
		}
		ov, err := apply(sel)
		if err != nil {
			var good []*inlineCand
			if len(sel) <= 12 {
				for _, c := range sel {
					try := append(append([]*inlineCand{}, good...), c)
					if _, err := apply(try); err == nil {
						good = try
					} else {
						res.Skipped = append(res.Skipped, c.f.Name+": inlined view does not type-check ("+firstLine(err.Error())+")")
					}
				}
			}
			if len(good) == 0 {
				break
			}
			ov, err = apply(good)
			if err != nil {
				break
			}
			sel = good
		}
		res.Overlay = ov
		for _, c := range sel {
			res.Inlined = append(res.Inlined, c.f.Name)
		}
		curProg = nil
	}
	if len(res.Inlined) == 0 {
		return res, nil
	}
	if curProg == nil {
		cur.Overlay = res.Overlay
		p, err := Load(cur)
		if err != nil {
			return nil, err
		}
		curProg = p
	}
	res.Prog = curProg
	sort.Strings(res.Inlined)
	return res, nil
}

func readSource(file string, overlay map[string][]byte) ([]byte, error) {
	if b, ok := overlay[file]; ok {
		return b, nil
	}
	return os.ReadFile(file)
}

func applyEdits(src []byte, es []textEdit) ([]byte, error) {
	sort.Slice(es, func(i, j int) bool { return es[i].start < es[j].start })
	for i := 1; i < len(es); i++ {
		if es[i].start < es[i-1].end {
			return nil, fmt.Errorf("overlapping edits")
		}
	}
	var out bytes.Buffer
	last := 0
	for _, e := range es {
		if e.start < last || e.end > len(src) {
			return nil, fmt.Errorf("edit out of range")
		}
		out.Write(src[last:e.start])
		out.WriteString(e.text)
		last = e.end
	}
	out.Write(src[last:])
	return out.Bytes(), nil
}

func candsConflict(p *Prog, a, b *inlineCand) bool {
	inside := func(n ast.Node, f *Func) bool {
		return f.Decl != nil && n.Pos() >= f.Decl.Pos() && n.End() <= f.Decl.End()
	}
	for _, r := range a.refs {
		if inside(r.Id, b.f) {
			return true
		}
	}
	for _, r := range b.refs {
		if inside(r.Id, a.f) {
			return true
		}
	}
	// two call sites in the same statement
	for _, ra := range a.refs {
		for _, rb := range b.refs {
			sa, sb := enclosingStmt(p, ra.Id), enclosingStmt(p, rb.Id)
			if sa != nil && sb != nil && (within(sa, sb) || within(sb, sa)) {
				return true
			}
		}
	}
	return false
}

func enclosingStmt(p *Prog, n ast.Node) ast.Stmt {
	for x := p.parents[n]; x != nil; x = p.parents[x] {
		if s, ok := x.(ast.Stmt); ok {
			switch s.(type) {
			case *ast.ExprStmt, *ast.AssignStmt, *ast.ReturnStmt, *ast.IfStmt, *ast.GoStmt, *ast.DeferStmt, *ast.SendStmt, *ast.IncDecStmt, *ast.DeclStmt, *ast.RangeStmt, *ast.ForStmt, *ast.SwitchStmt, *ast.TypeSwitchStmt, *ast.SelectStmt, *ast.CaseClause, *ast.CommClause:
				return s
			}
		}
	}
	return nil
}

var inlineSeq atomic.Int64

func findInlineCands(p *Prog, res *canonResult) []*inlineCand {
	anchors := anchorWords()
	var out []*inlineCand
	for _, f := range p.All {
		if f.Decl == nil || f.Obj == nil || f.Parent != nil || p.IsGenerated(f.Decl) {
			continue
		}
		name := f.Decl.Name.Name
		if ast.IsExported(name) || name == "init" || name == "main" || name == "_" || anchors[name] {
			continue
		}
		skip := func(why string) {
			// only report helpers that look like extraction targets (called, never referenced as a value)
			res.Skipped = append(res.Skipped, f.Name+": "+why)
		}
		refs := p.Refs(f.Name)
		if len(refs) == 0 || len(refs) > maxInlineSites {
			continue
		}
		allCalls := true
		for _, r := range refs {
			if !r.IsCall || r.Fn == nil || r.Fn.Pkg != f.Pkg || p.IsGenerated(r.Id) || r.Fn.Root() == f {
				allCalls = false
			}
		}
		if !allCalls {
			continue
		}
		if why := helperUnsuitable(p, f); why != "" {
			skip(why)
			continue
		}
		c := &inlineCand{f: f, refs: refs, edits: map[string][]textEdit{}}
		ok := true
		for _, r := range refs {
			if why := planInlineSite(p, c, r, res); why != "" {
				skip("call site at " + p.Pos(r.Id) + ": " + why)
				ok = false
				break
			}
		}
		if !ok {
			continue
		}
		// remove the declaration (with its doc comment)
		file := p.Fset.Position(f.Decl.Pos()).Filename
		start := f.Decl.Pos()
		if f.Decl.Doc != nil {
			start = f.Decl.Doc.Pos()
		}
		c.edits[file] = append(c.edits[file], textEdit{p.Fset.Position(start).Offset, p.Fset.Position(f.Decl.End()).Offset, ""})
		out = append(out, c)
	}
	sort.Slice(out, func(i, j int) bool { return out[i].f.Name < out[j].f.Name })
	return out
}

// helperUnsuitable: reasons not to inline f at all.
func helperUnsuitable(p *Prog, f *Func) string {
	d := f.Decl
	sig := f.Obj.Type().(*types.Signature)
	if sig.Variadic() {
		return "variadic"
	}
	if sig.TypeParams() != nil || sig.RecvTypeParams() != nil {
		return "generic"
	}
	if d.Type.Results != nil {
		for _, fl := range d.Type.Results.List {
			if len(fl.Names) > 0 {
				return "named results"
			}
		}
	}
	why := ""
	inspectNoLit(d.Body, func(n ast.Node) bool {
		switch x := n.(type) {
		case *ast.DeferStmt:
			why = "defer in helper"
		case *ast.BranchStmt:
			if x.Tok == token.GOTO {
				why = "goto in helper"
			}
		case *ast.LabeledStmt:
			why = "label in helper"
		case *ast.CallExpr:
			if id, ok := x.Fun.(*ast.Ident); ok {
				if b, ok := f.Info().Uses[id].(*types.Builtin); ok && b.Name() == "recover" {
					why = "recover in helper"
				}
			}
		}
		return why == ""
	})
	if why != "" {
		return why
	}
	// the function must end in a return when it has results (so that "break" rewriting is total)
	return ""
}

func callOfIdent(p *Prog, id *ast.Ident) *ast.CallExpr {
	var n ast.Node = id
	par := p.parents[n]
	if se, ok := par.(*ast.SelectorExpr); ok && se.Sel == id {
		n = se
		par = p.parents[n]
	}
	for {
		pe, ok := par.(*ast.ParenExpr)
		if !ok {
			break
		}
		n = pe
		par = p.parents[n]
	}
	if ce, ok := par.(*ast.CallExpr); ok && unparen(ce.Fun) == unparenNode(n) {
		return ce
	}
	return nil
}

func unparenNode(n ast.Node) ast.Node {
	if e, ok := n.(ast.Expr); ok {
		return unparen(e)
	}
	return n
}

// planInlineSite computes the edit that replaces one call site; returns a reason on failure.
func planInlineSite(p *Prog, c *inlineCand, r Ref, res *canonResult) string {
	f := c.f
	call := callOfIdent(p, r.Id)
	if call == nil {
		return "call expression not found"
	}
	info := r.Fn.Info()
	file := p.Fset.Position(call.Pos()).Filename
	src, err := readSource(file, res.Overlay)
	if err != nil {
		return err.Error()
	}
	hfile := p.Fset.Position(f.Decl.Pos()).Filename
	hsrc, err := readSource(hfile, res.Overlay)
	if err != nil {
		return err.Error()
	}
	off := func(pos token.Pos) int { return p.Fset.Position(pos).Offset }
	text := func(n ast.Node) string { return string(src[off(n.Pos()):off(n.End())]) }
	sig := f.Obj.Type().(*types.Signature)

	// --- qualifier for type strings at the call site's file
	var astFile *ast.File
	for _, sf := range r.Fn.Pkg.Syntax {
		if sf.Pos() <= call.Pos() && call.End() <= sf.End() {
			astFile = sf
		}
	}
	if astFile == nil {
		return "file of the call site not found"
	}
	imports := map[string]string{}
	for _, im := range astFile.Imports {
		path := strings.Trim(im.Path.Value, "\"")
		nm := ""
		if im.Name != nil {
			nm = im.Name.Name
		} else if pn, ok := info.Implicits[im].(*types.PkgName); ok {
			nm = pn.Name()
		}
		imports[path] = nm
	}
	qualFail := ""
	qual := func(pk *types.Package) string {
		if pk == r.Fn.Pkg.Types {
			return ""
		}
		if nm, ok := imports[pk.Path()]; ok && nm != "" && nm != "_" && nm != "." {
			return nm
		}
		qualFail = "type from package " + pk.Path() + " cannot be named at the call site"
		return pk.Name()
	}
	typeStr := func(t types.Type) string { return types.TypeString(t, qual) }

	// --- free package-level names of the helper must mean the same thing at the call site
	scope := r.Fn.Pkg.Types.Scope().Innermost(call.Pos())
	if scope == nil {
		return "scope of the call site not found"
	}
	captureWhy := ""
	ast.Inspect(f.Decl.Body, func(n ast.Node) bool {
		id, ok := n.(*ast.Ident)
		if !ok || captureWhy != "" {
			return captureWhy == ""
		}
		obj := f.Info().Uses[id]
		if obj == nil {
			return true
		}
		// objects declared inside the helper (params, locals) move with the body
		if obj.Pos() >= f.Decl.Pos() && obj.Pos() <= f.Decl.End() && obj.Pkg() == f.Pkg.Types {
			return true
		}
		if _, isField := obj.(*types.Var); isField && obj.(*types.Var).IsField() {
			return true
		}
		if _, isFunc := obj.(*types.Func); isFunc && obj.(*types.Func).Type().(*types.Signature).Recv() != nil {
			return true // method selected on a value
		}
		if sel, ok := p.parents[id].(*ast.SelectorExpr); ok && sel.Sel == id {
			return true // qualified identifier / field: resolved through its left side
		}
		_, at := scope.LookupParent(id.Name, call.Pos())
		if pn, ok := obj.(*types.PkgName); ok {
			// package names are file-scoped: the call site must see the same package under the same name
			apn, ok2 := at.(*types.PkgName)
			if !ok2 || apn.Imported() != pn.Imported() {
				captureWhy = "package name " + id.Name + " means something else at the call site"
			}
			return true
		}
		if at != obj {
			captureWhy = "the name " + id.Name + " used by the helper means something else at the call site"
		}
		return true
	})
	if captureWhy != "" {
		return captureWhy
	}

	// --- context of the call
	par := p.parents[call]
	for {
		pe, ok := par.(*ast.ParenExpr)
		if !ok {
			break
		}
		par = p.parents[pe]
	}
	nres := sig.Results().Len()
	var stmt ast.Stmt
	mode := ""
	switch x := par.(type) {
	case *ast.ExprStmt:
		stmt, mode = x, "stmt"
	case *ast.ReturnStmt:
		if len(x.Results) == 1 && unparen(x.Results[0]) == ast.Expr(call) {
			stmt, mode = x, "tail"
		}
	case *ast.AssignStmt:
		if len(x.Rhs) == 1 && unparen(x.Rhs[0]) == ast.Expr(call) {
			stmt, mode = x, "hoist"
		}
	case *ast.IfStmt:
		if x.Init == nil && unparen(x.Cond) == ast.Expr(call) {
			if _, isElse := p.parents[x].(*ast.IfStmt); !isElse {
				stmt, mode = x, "hoist"
			}
		}
	case *ast.GoStmt, *ast.DeferStmt:
		return "called in a go/defer statement"
	}
	// single-expression helpers can be substituted anywhere
	if mode == "" || mode == "hoist" {
		if e, neg := singleReturnExpr(f); e != nil {
			if sub, why := substituteExpr(p, f, call, info, hsrc, src, e); why == "" {
				if neg {
					sub = "(!" + sub + ")"
				}
				c.edits[file] = append(c.edits[file], textEdit{off(call.Pos()), off(call.End()), sub})
				return ""
			} else if mode == "" {
				return why
			}
		}
	}
	if mode == "" {
		return "call in an expression context"
	}
	if mode == "stmt" && nres != 0 {
		mode = "stmt" // results discarded: returns become breaks, result expressions are still evaluated
	}
	// the statement must be directly in a block / clause body (so that it can be replaced by statements)
	switch p.parents[stmt].(type) {
	case *ast.BlockStmt, *ast.CaseClause, *ast.CommClause:
	default:
		return "call statement is not in a statement list"
	}
	if lb, ok := p.parents[stmt].(*ast.LabeledStmt); ok && lb != nil {
		return "labelled call statement"
	}

	tag := fmt.Sprintf("_inl%d", inlineSeq.Add(1))
	var b strings.Builder

	// --- bindings: receiver and parameters, evaluated once, in order
	var names, vals []string
	addBinding := func(name string, pt types.Type, argText string, at types.Type, argIsNil bool) {
		v := argText
		if argIsNil || at == nil || !types.Identical(at, pt) {
			v = "(" + typeStr(pt) + ")(" + argText + ")"
		}
		if name == "" || name == "_" {
			name = "_"
		}
		names = append(names, name)
		vals = append(vals, v)
	}
	if sig.Recv() != nil {
		se, ok := unparen(call.Fun).(*ast.SelectorExpr)
		if !ok {
			return "method called through a method expression"
		}
		sel := info.Selections[se]
		if sel == nil || len(sel.Index()) != 1 {
			return "promoted method"
		}
		rt := sig.Recv().Type()
		at := info.TypeOf(se.X)
		argText := text(se.X)
		_, wantPtr := rt.(*types.Pointer)
		_, havePtr := at.(*types.Pointer)
		if _, isNamedPtr := at.Underlying().(*types.Pointer); isNamedPtr {
			havePtr = true
		}
		if wantPtr && !havePtr {
			argText = "&(" + argText + ")"
			at = types.NewPointer(at)
		} else if !wantPtr && havePtr {
			argText = "*(" + argText + ")"
			at = at.Underlying().(*types.Pointer).Elem()
		}
		rn := ""
		if f.Decl.Recv != nil && len(f.Decl.Recv.List) == 1 && len(f.Decl.Recv.List[0].Names) == 1 {
			rn = f.Decl.Recv.List[0].Names[0].Name
		}
		addBinding(rn, rt, argText, at, false)
	}
	pi := 0
	for _, fl := range f.Decl.Type.Params.List {
		n := len(fl.Names)
		if n == 0 {
			n = 1
		}
		for k := 0; k < n; k++ {
			if pi >= len(call.Args) {
				return "argument count mismatch (multi-value call argument)"
			}
			pn := ""
			if len(fl.Names) > 0 {
				pn = fl.Names[k].Name
			}
			arg := call.Args[pi]
			tv := info.Types[arg]
			addBinding(pn, sig.Params().At(pi).Type(), text(arg), tv.Type, tv.IsNil())
			pi++
		}
	}
	if pi != len(call.Args) {
		return "argument count mismatch"
	}
	if qualFail != "" {
		return qualFail
	}

	// --- body text with returns rewritten
	bodyStart, bodyEnd := off(f.Decl.Body.Lbrace)+1, off(f.Decl.Body.Rbrace)
	body := hsrc[bodyStart:bodyEnd]
	var rets []*ast.ReturnStmt
	inspectNoLit(f.Decl.Body, func(n ast.Node) bool {
		if r, ok := n.(*ast.ReturnStmt); ok {
			rets = append(rets, r)
		}
		return true
	})
	label := "L" + tag
	var resNames []string
	for i := 0; i < nres; i++ {
		resNames = append(resNames, fmt.Sprintf("%s_r%d", tag, i))
	}
	needLabel := false
	var bedits []textEdit
	for _, rs := range rets {
		var repl string
		switch mode {
		case "tail":
			continue // returns stay returns
		case "stmt":
			if len(rs.Results) == 0 {
				repl = "break " + label
			} else {
				var ts []string
				for _, e := range rs.Results {
					ts = append(ts, string(hsrc[off(e.Pos()):off(e.End())]))
				}
				blanks := make([]string, nres)
				for i := range blanks {
					blanks[i] = "_"
				}
				repl = "{ " + strings.Join(blanks, ", ") + " = " + strings.Join(ts, ", ") + "; break " + label + " }"
			}
		case "hoist":
			var ts []string
			for _, e := range rs.Results {
				ts = append(ts, string(hsrc[off(e.Pos()):off(e.End())]))
			}
			repl = "{ " + strings.Join(resNames, ", ") + " = " + strings.Join(ts, ", ") + "; break " + label + " }"
		}
		needLabel = true
		bedits = append(bedits, textEdit{off(rs.Pos()) - bodyStart, off(rs.End()) - bodyStart, repl})
	}
	nb, err := applyEdits(body, bedits)
	if err != nil {
		return err.Error()
	}
	// a trailing return needs no break: keep it simple and uniform (the break is harmless)

	if mode == "hoist" {
		for i := 0; i < nres; i++ {
			fmt.Fprintf(&b, "var %s %s\n", resNames[i], typeStr(sig.Results().At(i).Type()))
		}
		if qualFail != "" {
			return qualFail
		}
	}
	b.WriteString("{ // pscheck canonical view: " + f.Name + " inlined\n")
	if len(names) > 0 {
		allBlank := true
		for _, n := range names {
			if n != "_" {
				allBlank = false
			}
		}
		if allBlank {
			fmt.Fprintf(&b, "%s = %s\n", strings.Join(names, ", "), strings.Join(vals, ", "))
		} else {
			// blank names cannot appear in a var declaration with initialisers together with others? they can.
			fmt.Fprintf(&b, "var %s = %s\n", strings.Join(names, ", "), strings.Join(vals, ", "))
			var used []string
			for _, n := range names {
				if n != "_" {
					used = append(used, n)
				}
			}
			blanks := make([]string, len(used))
			for i := range blanks {
				blanks[i] = "_"
			}
			fmt.Fprintf(&b, "%s = %s\n", strings.Join(blanks, ", "), strings.Join(used, ", "))
		}
	}
	if needLabel {
		fmt.Fprintf(&b, "%s:\nswitch {\ndefault:\n", label)
	}
	b.Write(nb)
	if needLabel {
		b.WriteString("\n}\n")
	}
	b.WriteString("\n}\n")

	switch mode {
	case "stmt", "tail":
		if mode == "tail" && nres == 0 {
			return "tail call of a function without results"
		}
		c.edits[file] = append(c.edits[file], textEdit{off(stmt.Pos()), off(stmt.End()), b.String()})
	case "hoist":
		// the inlined block goes before the statement; the call is replaced by the result temporaries
		c.edits[file] = append(c.edits[file], textEdit{off(stmt.Pos()), off(stmt.Pos()), b.String()})
		c.edits[file] = append(c.edits[file], textEdit{off(call.Pos()), off(call.End()), strings.Join(resNames, ", ")})
	}
	return ""
}

// singleReturnExpr: the helper's body is exactly `return <expr>`, or the predicate idiom
// `if <expr> { return true }; return false` (negated: true/false swapped).
func singleReturnExpr(f *Func) (ast.Expr, bool) {
	l := f.Decl.Body.List
	if len(l) == 1 {
		r, ok := l[0].(*ast.ReturnStmt)
		if !ok || len(r.Results) != 1 {
			return nil, false
		}
		return r.Results[0], false
	}
	if len(l) == 2 {
		is, ok1 := l[0].(*ast.IfStmt)
		r2, ok2 := l[1].(*ast.ReturnStmt)
		if !ok1 || !ok2 || is.Init != nil || is.Else != nil || len(is.Body.List) != 1 || len(r2.Results) != 1 {
			return nil, false
		}
		r1, ok := is.Body.List[0].(*ast.ReturnStmt)
		if !ok || len(r1.Results) != 1 {
			return nil, false
		}
		k1, k2 := boolLit(f, r1.Results[0]), boolLit(f, r2.Results[0])
		if k1 == "true" && k2 == "false" {
			return is.Cond, false
		}
		if k1 == "false" && k2 == "true" {
			return is.Cond, true
		}
	}
	return nil, false
}

func boolLit(f *Func, e ast.Expr) string {
	id, ok := unparen(e).(*ast.Ident)
	if !ok {
		return ""
	}
	if c, ok := f.Info().Uses[id].(*types.Const); ok && c.Pkg() == nil && (c.Name() == "true" || c.Name() == "false") {
		return c.Name()
	}
	return ""
}

// substituteExpr replaces a call of a single-expression helper by the expression with parameters
// substituted. Arguments (and the receiver) must be simple side-effect-free expressions.
func substituteExpr(p *Prog, f *Func, call *ast.CallExpr, info *types.Info, hsrc, src []byte, e ast.Expr) (string, string) {
	off := func(pos token.Pos) int { return p.Fset.Position(pos).Offset }
	simple := func(x ast.Expr) bool {
		ok := true
		ast.Inspect(x, func(n ast.Node) bool {
			switch n.(type) {
			case *ast.CallExpr, *ast.FuncLit, *ast.UnaryExpr, *ast.BinaryExpr, *ast.CompositeLit, *ast.TypeAssertExpr, *ast.SliceExpr:
				ok = false
			}
			return ok
		})
		return ok
	}
	sig := f.Obj.Type().(*types.Signature)
	subst := map[types.Object]string{}
	if sig.Recv() != nil {
		se, ok := unparen(call.Fun).(*ast.SelectorExpr)
		if !ok {
			return "", "method expression"
		}
		sel := info.Selections[se]
		if sel == nil || len(sel.Index()) != 1 || !simple(se.X) {
			return "", "receiver is not a simple expression"
		}
		if f.Decl.Recv != nil && len(f.Decl.Recv.List) == 1 && len(f.Decl.Recv.List[0].Names) == 1 {
			ro := f.Info().Defs[f.Decl.Recv.List[0].Names[0]]
			rt, at := sig.Recv().Type(), info.TypeOf(se.X)
			_, wantPtr := rt.(*types.Pointer)
			_, havePtr := at.Underlying().(*types.Pointer)
			txt := string(src[off(se.X.Pos()):off(se.X.End())])
			if wantPtr != havePtr {
				return "", "receiver needs an address/indirection"
			}
			subst[ro] = "(" + txt + ")"
		}
	}
	pi := 0
	for _, fl := range f.Decl.Type.Params.List {
		n := len(fl.Names)
		if n == 0 {
			n = 1
		}
		for k := 0; k < n; k++ {
			if pi >= len(call.Args) {
				return "", "argument count mismatch"
			}
			arg := call.Args[pi]
			if !simple(arg) {
				return "", "argument is not a simple expression"
			}
			tv := info.Types[arg]
			if tv.IsNil() || tv.Value != nil || !types.Identical(tv.Type, sig.Params().At(pi).Type()) {
				return "", "argument needs a conversion"
			}
			if len(fl.Names) > 0 {
				subst[f.Info().Defs[fl.Names[k]]] = "(" + string(src[off(arg.Pos()):off(arg.End())]) + ")"
			}
			pi++
		}
	}
	// parameters must not be assigned or have their address taken in the expression (it is a single expression: only & matters)
	var edits []textEdit
	bad := ""
	es, ee := off(e.Pos()), off(e.End())
	ast.Inspect(e, func(n ast.Node) bool {
		switch x := n.(type) {
		case *ast.FuncLit:
			bad = "function literal in helper expression"
		case *ast.Ident:
			if o := f.Info().Uses[x]; o != nil {
				if t, ok := subst[o]; ok {
					edits = append(edits, textEdit{off(x.Pos()) - es, off(x.End()) - es, t})
				}
			}
		}
		return bad == ""
	})
	if bad != "" {
		return "", bad
	}
	out, err := applyEdits(hsrc[es:ee], edits)
	if err != nil {
		return "", err.Error()
	}
	return "(" + string(out) + ")", ""
}
