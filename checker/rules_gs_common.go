package main

// Helpers shared by the gossipsub rules (C06–C09, C13, C17, C19).

import (
	"go/ast"
	"go/token"
	"go/types"
	"strings"
)

const (
	gsT           = "GossipSubRouter"
	fnScore       = "(*peerScore).Score"
	fnGetPeers    = "(*GossipSubRouter).getPeers"
	fnFeature     = "field:GossipSubRouter.feature"
	fnAddBackoff  = "(*GossipSubRouter).addBackoff"
	fnDoAddBO     = "(*GossipSubRouter).doAddBackoff"
	fnMakePrune   = "(*GossipSubRouter).makePrune"
	fnSendRPC     = "(*GossipSubRouter).sendRPC"
	fnTrGraft     = "(*pubsubTracer).Graft"
	fnTrPrune     = "(*pubsubTracer).Prune"
	fnHeartbeat   = "(*GossipSubRouter).heartbeat"
	fnHandleGraft = "(*GossipSubRouter).handleGraft"
	fnFanoutPeers = "(*GossipSubRouter).getFanoutPeersForPublishing"
)

func gsField(n string) string { return gsT + "." + n }

// scoreClosures: literals in f that return a (memoised) peerScore.Score value.
func scoreClosures(p *Prog, f *Func) map[string]bool {
	out := map[string]bool{}
	var walk func(x *Func)
	walk = func(x *Func) {
		for _, ch := range x.Children {
			walk(ch)
			if ch.Type.Results == nil || len(ch.Type.Results.List) != 1 {
				continue
			}
			if t := ch.Info().TypeOf(ch.Type.Results.List[0].Type); t == nil || t.String() != "float64" {
				continue
			}
			calls := false
			for _, cs := range p.FuncCalls(ch, false) {
				if cs.Name == fnScore {
					calls = true
				}
			}
			if !calls {
				continue
			}
			// every return returns a variable assigned only from Score(...) or from a map lookup (the memo)
			ok := true
			returnsIn(ch, func(r *ast.ReturnStmt) {
				if len(r.Results) != 1 {
					ok = false
					return
				}
				id, isId := unparen(r.Results[0]).(*ast.Ident)
				if !isId {
					if !p.R(ch).Val(r.Results[0]).IsCall(fnScore) {
						ok = false
					}
					return
				}
				obj := ch.Info().Uses[id]
				for _, d := range p.R(ch).Defs(obj) {
					if d.kind != "assign" || d.rhs == nil {
						ok = false
						continue
					}
					rhs := unparen(d.rhs)
					if _, isIdx := rhs.(*ast.IndexExpr); isIdx {
						continue
					}
					if ce, isCall := rhs.(*ast.CallExpr); isCall && p.CalleeName(ch.Info(), ce) == fnScore {
						continue
					}
					ok = false
				}
			})
			if ok {
				out["lit:"+ch.Name] = true
			}
		}
	}
	walk(f.Root())
	return out
}

// isScoreOf returns a predicate recognising "the score of a peer" in function f.
func isScoreOf(p *Prog, f *Func) VPred {
	cl := scoreClosures(p, f)
	return func(v *V) bool {
		if v == nil || v.Kind != "call" {
			return false
		}
		return v.Name == fnScore || cl[v.Name]
	}
}

func isLit(val string) VPred {
	return func(v *V) bool { return v != nil && (v.Kind == "lit" || v.Kind == "const") && v.Name == val }
}

func isZero(v *V) bool {
	return v != nil && (v.Kind == "lit" || v.Kind == "const") && (v.Name == "0" || v.Name == "0.0")
}

// lookupIn: "ok" of a comma-ok lookup in a map satisfying mp.
func lookupIn(desc string, mp VPred) Atom { return AtomLookupOK(desc, mp, nil) }

// isMapOf: the value is the inner map obtained from gs.<field> (lookup/index/range value).
func innerMapOf(field string) VPred {
	return func(v *V) bool {
		if v == nil {
			return false
		}
		switch v.Kind {
		case "lookupval", "index", "rangeval":
			return v.Args[0].IsField(gsField(field))
		}
		return false
	}
}

func isDirectMap(v *V) bool { return v.IsField(gsField("direct")) }

// ReturnsTrueOnlyIf: the function literal (a predicate) returns true only when atom==want.
func (p *Prog) ReturnsTrueOnlyIf(f *Func, aw AtomWant) (bool, string) {
	g := p.Graph(f)
	n := 0
	bad := ""
	returnsIn(f, func(r *ast.ReturnStmt) {
		if len(r.Results) != 1 {
			bad = "non-boolean return"
			return
		}
		n++
		v := p.R(f).Val(r.Results[0])
		if v.IsConst("false") {
			return
		}
		// facts implied by the returned expression being true
		var facts []Fact
		factsOf(r.Results[0], true, &facts)
		for _, fc := range facts {
			if ok, sense := aw.A.Match(g, fc.E); ok && (fc.Truth == sense) == aw.Want {
				return
			}
		}
		// … in any boolean shape, through named sub-conditions and the result flags of inlined predicates
		if g.ExprEntails(r.Results[0], true, aw) {
			return
		}
		// or established by dominating branches
		pt, ok := g.Locate(r)
		if ok && g.Dominated(pt, g.AtomEdges(aw.A, aw.Want)) {
			return
		}
		bad = "a `return " + p.Src(r.Results[0]) + "` can yield true without " + aw.A.Desc + " being " + boolStr(aw.Want)
	})
	if n == 0 {
		return false, "no return statement"
	}
	if bad != "" {
		return false, bad
	}
	return true, "true is returned only when " + aw.A.Desc + " is " + boolStr(aw.Want)
}

func boolStr(b bool) string {
	if b {
		return "true"
	}
	return "false"
}

// litArg returns the Func of a function-literal argument (directly or via a single-def local).
func (p *Prog) litArg(f *Func, e ast.Expr) *Func {
	e = unparen(e)
	if fl, ok := e.(*ast.FuncLit); ok {
		return p.FuncOf[fl]
	}
	if id, ok := e.(*ast.Ident); ok {
		obj := f.Info().Uses[id]
		if d, ok := p.R(f).SingleDef(obj); ok && d.rhs != nil {
			if fl, ok := unparen(d.rhs).(*ast.FuncLit); ok {
				return p.FuncOf[fl]
			}
		}
	}
	return nil
}

// closureWithCall finds the literal bound to a local in f (any depth) whose body calls callee.
func (p *Prog) closuresCalling(f *Func, callee string) []*Func {
	var out []*Func
	var walk func(x *Func)
	walk = func(x *Func) {
		for _, ch := range x.Children {
			for _, cs := range p.FuncCalls(ch, false) {
				if cs.Name == callee {
					out = append(out, ch)
					break
				}
			}
			walk(ch)
		}
	}
	walk(f)
	return out
}

// callsOfClosure lists calls in root (any depth) whose callee is the literal lit (bound to a local variable).
func (p *Prog) callsOfClosure(root *Func, lit *Func) []CallSite {
	var out []CallSite
	for _, cs := range p.FuncCalls(root, true) {
		if cs.Name == "lit:"+lit.Name {
			out = append(out, cs)
			continue
		}
		// callee is a local var whose single def is the literal
		if id, ok := unparen(cs.Call.Fun).(*ast.Ident); ok {
			if obj, ok := cs.Fn.Info().Uses[id].(*types.Var); ok {
				if d, ok := p.R(cs.Fn).SingleDef(obj); ok && d.rhs != nil && unparen(d.rhs) == ast.Expr(lit.Lit) {
					out = append(out, cs)
				}
			}
		}
	}
	return out
}

// isAssignConst: node is `x = <const>` for the variable object obj.
func isAssignTo(f *Func, n ast.Node, obj types.Object) (*ast.AssignStmt, ast.Expr) {
	as, ok := n.(*ast.AssignStmt)
	if !ok || as.Tok != token.ASSIGN && as.Tok != token.DEFINE {
		return nil, nil
	}
	for i, l := range as.Lhs {
		if id, ok := l.(*ast.Ident); ok {
			o := f.Info().Uses[id]
			if o == nil {
				o = f.Info().Defs[id]
			}
			if o == obj && i < len(as.Rhs) {
				return as, as.Rhs[i]
			}
		}
	}
	return nil, nil
}

// appendTargets lists `x = append(x, ...)` statements in f (not crossing literals) for local x.
type AppendSite struct {
	Stmt *ast.AssignStmt
	Obj  types.Object
	Call *ast.CallExpr
}

func (p *Prog) localAppends(f *Func) []AppendSite {
	var out []AppendSite
	inspectNoLit(f.Body, func(n ast.Node) bool {
		as, ok := n.(*ast.AssignStmt)
		if !ok || len(as.Lhs) != 1 || len(as.Rhs) != 1 {
			return true
		}
		id, ok := as.Lhs[0].(*ast.Ident)
		ce, ok2 := unparen(as.Rhs[0]).(*ast.CallExpr)
		if !ok || !ok2 || p.CalleeName(f.Info(), ce) != "builtin.append" {
			return true
		}
		obj := f.Info().Uses[id]
		if obj == nil {
			obj = f.Info().Defs[id]
		}
		out = append(out, AppendSite{as, obj, ce})
		return true
	})
	return out
}

// localMapInserts lists `m[k] = v` statements (m a local variable or range value) in f, not crossing literals.
type MapInsert struct {
	Stmt *ast.AssignStmt
	Map  ast.Expr
	Key  ast.Expr
	Fn   *Func
}

func (p *Prog) mapInserts(f *Func) []MapInsert {
	var out []MapInsert
	inspectNoLit(f.Body, func(n ast.Node) bool {
		as, ok := n.(*ast.AssignStmt)
		if !ok || as.Tok != token.ASSIGN {
			return true
		}
		for _, l := range as.Lhs {
			ix, ok := unparen(l).(*ast.IndexExpr)
			if !ok {
				continue
			}
			if t := f.Info().TypeOf(ix.X); t != nil {
				if _, isMap := t.Underlying().(*types.Map); isMap {
					out = append(out, MapInsert{as, ix.X, ix.Index, f})
				}
			}
		}
		return true
	})
	return out
}

// deletesIn lists delete(m, k) calls in f, not crossing literals.
type MapDelete struct {
	Call *ast.CallExpr
	Map  ast.Expr
	Key  ast.Expr
	Fn   *Func
}

func (p *Prog) mapDeletes(f *Func) []MapDelete {
	var out []MapDelete
	inspectNoLit(f.Body, func(n ast.Node) bool {
		ce, ok := n.(*ast.CallExpr)
		if ok && len(ce.Args) == 2 && p.CalleeName(f.Info(), ce) == "builtin.delete" {
			out = append(out, MapDelete{ce, ce.Args[0], ce.Args[1], f})
		}
		return true
	})
	return out
}

func shortFn(name string) string { return name[strings.LastIndex(name, ".")+1:] }

// iterationUntil returns the Until set for "one iteration" of the innermost loop enclosing n in f.
func (p *Prog) iterationUntil(f *Func, n ast.Node) map[*cfgBlock]bool {
	until := map[*cfgBlock]bool{}
	loops := p.EnclosingLoops(n)
	if len(loops) == 0 {
		return until
	}
	head, _, done := p.Graph(f).LoopBlocks(loops[0])
	if head != nil {
		until[head] = true
	}
	if done != nil {
		until[done] = true
	}
	return until
}

// condNodeOf returns the condition node of the block an edge leaves (for diagnostics).
func condNodeOf(e Edge) ast.Node {
	if len(e.From.Nodes) == 0 {
		return nil
	}
	return e.From.Nodes[len(e.From.Nodes)-1]
}

// isAssignFalse: node assigns the constant false to variable obj.
func (p *Prog) assignsConst(f *Func, obj types.Object, val string) func(ast.Node) bool {
	return func(n ast.Node) bool {
		as, rhs := isAssignTo(f, n, obj)
		return as != nil && p.R(f).Val(rhs).IsConst(val)
	}
}

// checkScoreFreshness: a score read into a local before a penalty must not be used to judge after it.
// For every local variable assigned from (*peerScore).Score in fn, no use of the variable is reachable
// from an AddPenalty call of the same function without passing a new assignment from Score.
func checkScoreFreshness(c *RuleCtx, rule, fnName string) {
	p := c.P
	f := c.MustFn(rule, fnName)
	if f == nil {
		return
	}
	g := p.Graph(f)
	info := f.Info()
	sc := isScoreOf(p, f)
	// score locals and their (re)definition nodes
	scoreVars := map[types.Object]bool{}
	isDef := func(n ast.Node) (types.Object, bool) {
		as, ok := n.(*ast.AssignStmt)
		if !ok || len(as.Lhs) != 1 || len(as.Rhs) != 1 {
			return nil, false
		}
		id, ok := unparen(as.Lhs[0]).(*ast.Ident)
		if !ok {
			return nil, false
		}
		obj := info.ObjectOf(id)
		if obj == nil {
			return nil, false
		}
		if _, isCall := unparen(as.Rhs[0]).(*ast.CallExpr); isCall && sc(p.R(f).Val(as.Rhs[0])) {
			return obj, true
		}
		return nil, false
	}
	inspectNoLit(f.Body, func(n ast.Node) bool {
		if obj, ok := isDef(n); ok {
			scoreVars[obj] = true
		}
		return true
	})
	pens := p.Sites(f, false, "(*peerScore).AddPenalty")
	// leaving a mesh lowers the score too (the time-in-mesh credit goes, the sticky penalty may be charged). The
	// entry being handled is judged with the score it arrived with, but the next entry of the same message must not
	// be: for these sites the search starts at the head of the enclosing loop (the next iteration)
	leaves := p.Sites(f, false, fnTrPrune)
	if len(scoreVars) == 0 || len(pens)+len(leaves) == 0 {
		c.Check(true, rule, f.Name, "score judged is current", f.Decl, "no score local is live across a penalty", "")
		return
	}
	for obj := range scoreVars {
		// uses of the variable (reads)
		type use struct {
			id *ast.Ident
			pt Point
		}
		var uses []use
		inspectNoLit(f.Body, func(n ast.Node) bool {
			if as, ok := n.(*ast.AssignStmt); ok {
				// the left-hand side of a definition is not a read
				for _, r := range as.Rhs {
					ast.Inspect(r, func(m ast.Node) bool {
						if id, ok := m.(*ast.Ident); ok && info.Uses[id] == obj {
							if pt, ok := g.Locate(id); ok {
								uses = append(uses, use{id, pt})
							}
						}
						return true
					})
				}
				for _, l := range as.Lhs {
					if _, isId := unparen(l).(*ast.Ident); isId {
						continue
					}
					ast.Inspect(l, func(m ast.Node) bool {
						if id, ok := m.(*ast.Ident); ok && info.Uses[id] == obj {
							if pt, ok := g.Locate(id); ok {
								uses = append(uses, use{id, pt})
							}
						}
						return true
					})
				}
				return false
			}
			if id, ok := n.(*ast.Ident); ok && info.Uses[id] == obj {
				if pt, ok := g.Locate(id); ok {
					uses = append(uses, use{id, pt})
				}
			}
			return true
		})
		stop := func(n ast.Node) bool {
			o, ok := isDef(n)
			return ok && o == obj
		}
		for i, cs := range pens {
			pt, ok := g.Locate(cs.Call)
			if !ok {
				c.Undecided(rule, f.Name, "penalty site", cs.Call, "not located in the CFG")
				continue
			}
			from := Point{pt.B, pt.I + 1}
			var stale *ast.Ident
			for _, u := range uses {
				if g.ReachableFrom(from, u.pt, nil, stop) {
					stale = u.id
					break
				}
			}
			suffix := ""
			if i > 0 {
				suffix = "#" + itoa(i+1)
			}
			why := "every later use of `" + obj.Name() + "` is behind a fresh read of the score"
			bad := ""
			if stale != nil {
				bad = "`" + obj.Name() + "` read before this penalty is still used at " + p.Pos(stale) + " (no new Score() read in between): a peer whose score the penalty made negative is judged with the old value"
			}
			c.Check(stale == nil, rule, f.Name, "score judged after a penalty is current ("+obj.Name()+")"+suffix, cs.Call, why, bad)
		}
		for i, cs := range leaves {
			loops := p.EnclosingLoops(cs.Call)
			if len(loops) == 0 {
				continue
			}
			loop := loops[0]
			_, body, _ := g.LoopBlocks(loop)
			if body == nil {
				c.Undecided(rule, f.Name, "loop around the mesh removal", cs.Call, "loop body not located")
				continue
			}
			from := Point{body, 0}
			var stale *ast.Ident
			for _, u := range uses {
				if within(u.id, loop) && g.ReachableFrom(from, u.pt, nil, stop) {
					stale = u.id
					break
				}
			}
			suffix := ""
			if i > 0 {
				suffix = "#" + itoa(i+1)
			}
			bad := ""
			if stale != nil {
				bad = "`" + obj.Name() + "` is read outside the loop and used at " + p.Pos(stale) + " in every iteration, although an earlier iteration can take the peer out of a mesh (tracer.Prune), which lowers its score: later entries of the same control message are judged with the score the peer had before"
			}
			c.Check(stale == nil, rule, f.Name, "score judged after a mesh removal of an earlier entry is current ("+obj.Name()+")"+suffix, cs.Call, "every iteration reads the score before using it", bad)
		}
	}
}

// checkPruneOnlyMembers: a PRUNE is reported to the tracer (and so charged by the scorer's sticky
// mesh-failure penalty) only for a peer that was a mesh member. A peer selected by the router itself
// (a range variable, a closure argument that is one) is a member by selection; a peer that comes in
// from outside — a parameter of the enclosing method — must be behind a successful lookup in the
// topic's mesh map.
func checkPruneOnlyMembers(c *RuleCtx, rule string) {
	p := c.P
	n := 0
	var classify func(f *Func, key ast.Expr, site ast.Node, depth int) (bool, string)
	classify = func(f *Func, key ast.Expr, site ast.Node, depth int) (bool, string) {
		kv := p.R(f).Val(key)
		if kv.Kind != "var" || kv.Obj == nil {
			return true, "selected by the router (" + kv.String() + ")"
		}
		// a parameter of this function?
		idx := -1
		if f.Type != nil && f.Type.Params != nil {
			i := 0
			for _, fl := range f.Type.Params.List {
				for _, nm := range fl.Names {
					if f.Info().Defs[nm] == kv.Obj {
						idx = i
					}
					i++
				}
			}
		}
		if idx < 0 {
			if f.Parent != nil {
				// a variable of an enclosing function captured by the closure
				return classify(f.Parent, key, f.Lit, depth+1)
			}
			return true, "a local selected by the router (" + kv.String() + ")"
		}
		member := AtomBool("peer in mesh[topic]", func(v *V) bool {
			return v.Kind == "lookupok" && innerMapOf("mesh")(v.Args[0]) && v.Args[1].Equal(kv)
		})
		if ok, _ := p.DomAny(f, site, AtomWant{member, true}); ok {
			return true, "behind a successful lookup in the topic mesh"
		}
		if f.Parent == nil {
			return false, "the peer is the parameter `" + kv.Obj.Name() + "` of " + f.Name + " and no lookup in the topic's mesh map precedes the report"
		}
		if depth > 3 {
			return false, "closure nesting too deep"
		}
		// closure parameter: every call of the closure must pass a member
		calls := 0
		for _, cs := range p.FuncCalls(f.Parent, false) {
			if idx >= len(cs.Call.Args) {
				continue
			}
			if cs.Name != f.Name {
				// a call through the local the literal is bound to
				if v := p.R(f.Parent).Val(cs.Call); v == nil || !strings.HasSuffix(v.Name, f.Name) {
					continue
				}
			}
			calls++
			if ok, why := classify(f.Parent, cs.Call.Args[idx], cs.Call, depth+1); !ok {
				return false, why
			}
		}
		if calls == 0 {
			return false, "no call of the closure found"
		}
		return true, "every caller of the closure passes a peer selected by the router or checked to be a member"
	}
	for _, cs := range p.AllSites(fnTrPrune) {
		if len(cs.Call.Args) < 1 {
			continue
		}
		n++
		ok, why := classify(cs.Fn, cs.Call.Args[0], cs.Call, 0)
		c.Check(ok, rule, cs.Fn.Root().Name, "PRUNE reported only for a mesh member", cs.Call, why, "a PRUNE is reported to the tracer (and charged by the scorer as a mesh failure) for a peer that need not be in the mesh: "+why)
	}
	if n < 3 {
		c.Undecided(rule, "tracer.Prune sites", "inventory", nil, "fewer sites than known (Leave, heartbeat, handlePrune)")
	}
}

// checkMemoInvalidated: the heartbeat memoises scores for its whole run. A closure of the heartbeat that takes a peer
// out of a mesh (tracer.Prune) changes that peer's score, so it must drop the memo entry, or the topics handled
// afterwards are judged with the score the peer had before.
func checkMemoInvalidated(c *RuleCtx, rule string) {
	p := c.P
	hb := c.MustFn(rule, fnHeartbeat)
	if hb == nil {
		return
	}
	// the memo: the map looked up by the caching score closure
	var memo types.Object
	cl := scoreClosures(p, hb)
	for _, ch := range hb.Children {
		if !cl["lit:"+ch.Name] && !cl[ch.Name] {
			continue
		}
		ast.Inspect(ch.Body, func(x ast.Node) bool {
			if ie, ok := x.(*ast.IndexExpr); ok {
				if id, ok := unparen(ie.X).(*ast.Ident); ok {
					if _, isMap := ch.Info().TypeOf(id).Underlying().(*types.Map); isMap {
						memo = ch.Info().Uses[id]
					}
				}
			}
			return true
		})
	}
	if memo == nil {
		// no memo: every use reads the scorer directly
		c.OK(rule, hb.Name, "score memo dropped when the heartbeat prunes a peer", hb.Decl, "the heartbeat does not memoise scores")
		return
	}
	n := 0
	for _, lit := range p.closuresCalling(hb, fnTrPrune) {
		n++
		g := p.Graph(lit)
		ok, _ := g.MustPass(g.Entry(), PassOpts{}, func(nd ast.Node) bool {
			for _, d := range p.mapDeletes(lit) {
				if id, isId := unparen(d.Map).(*ast.Ident); isId && lit.Info().Uses[id] == memo && contains(nd, d.Call) && isParam0(lit, p.R(lit).Val(d.Key)) {
					return true
				}
			}
			return false
		})
		c.Check(ok, rule, hb.Name, "score memo dropped when the heartbeat prunes a peer", lit.Lit, "the pruning closure deletes the peer's memo entry", "the heartbeat caches every peer's score for its whole run, but pruning a peer from one topic lowers its score (time-in-mesh credit lost, sticky penalty): the topics handled afterwards keep or even GRAFT the peer on the strength of the cached value although its score is now negative")
	}
	if n == 0 {
		c.Undecided(rule, hb.Name, "pruning closure", hb.Decl, "no closure of the heartbeat calls tracer.Prune")
	}
}

// isParam0: the value is the first parameter of the function literal.
func isParam0(lit *Func, v *V) bool {
	if v == nil || v.Kind != "var" || lit.Type == nil || lit.Type.Params == nil || len(lit.Type.Params.List) == 0 || len(lit.Type.Params.List[0].Names) == 0 {
		return false
	}
	return lit.Info().Defs[lit.Type.Params.List[0].Names[0]] == v.Obj
}
