package main

import (
	"go/ast"
	"go/token"
	"go/types"
	"strings"
)

func init() {
	register(&Property{ID: "C14", Run: runC14,
		Explain: "Shutdown decided as a blocking-operation discipline over the whole library: (R14.1) every channel operation in non-generated, non-test code is enumerated on every run and must fall into a checkable safe class — S1 select with default or with a Done() arm of the instance context (field PubSub.ctx/Subscription.ctx, a context derived from it, the constructor's ctx parameter, or a context parameter every caller fills with one); selects that hand work to the instance (a send on a channel owned by the PubSub/router/discovery objects) need the instance Done arm, pure waits may instead rely on the caller's context or a timer arm; S2 reply send on a channel every make of which has capacity >= 1 and at most one send per path, or unbuffered with a requester that receives unconditionally after a successful hand-off; S2b sized fan-in; S3 reply receive after a hand-off whose Done arms return; S4 semaphore release after the matching acquire; S5 tracer-owned consumers (named exemption); S6 timer channels — anything else is a violation; (R14.2) every request handler and hand-off thunk replies exactly once on every path; (R14.3) goroutine inventory: every `go` target's unbounded loops contain an instance-context escape that returns (named exemptions with reasons: tracer writers, stream-read waiters released by closing the host's streams, user callbacks); (R14.4) on the way down the event loop's deferred cleanup closes every queue, clears p.peers and stops the seen-cache sweeper; closes are once-only; (R14.6) no function returns with a mutex it locked still held (deferred unlock or unlock on every path) — otherwise later API calls block forever. (R14.7) application validators run under a context derived from the instance context, never a caller-supplied one. NOT decided: 'bounded time' as a number, scheduler fairness, blocking inside dependencies.",
		Assume:  []string{"the host's streams are closed on shutdown (premise of C14)", "user callbacks return"},
		Mutants: []Mutant{
			{Name: "inline-validators-background-context", File: "validation.go", Old: "\t\tswitch val.validateMsg(v.p.ctx, src, msg) {", New: "\t\tswitch val.validateMsg(context.Background(), src, msg) {", Expect: "R14.7"},
			{Name: "publishbatch-bare-send", File: "pubsub.go", Old: "\tselect {\n\tcase p.sendMessageBatch <- messageBatchAndPublishOptions{\n\t\tmessages: batch.take(),\n\t\topts:     publishOptions,\n\t}:\n\tcase <-p.ctx.Done():\n\t\treturn p.ctx.Err()\n\t}", New: "\tp.sendMessageBatch <- messageBatchAndPublishOptions{\n\t\tmessages: batch.take(),\n\t\topts:     publishOptions,\n\t}", Expect: "R14.1"},
			{Name: "handoff-only-caller-ctx", File: "topic.go", Old: "\tcase <-t.p.ctx.Done():\n\t\treturn nil, t.p.ctx.Err()\n\tcase <-ctx.Done():\n\t\treturn nil, ctx.Err()\n\t}\n\terr := t.p.val.ValidateLocal(msg)", New: "\tcase <-ctx.Done():\n\t\treturn nil, ctx.Err()\n\t}\n\terr := t.p.val.ValidateLocal(msg)", Expect: "R14.1"},
			{Name: "listpeers-reply-abandoned", File: "pubsub.go", Old: "\tcase <-p.ctx.Done():\n\t\treturn nil\n\t}\n\treturn <-out\n}\n\n// BlacklistPeer", New: "\tcase <-p.ctx.Done():\n\t\treturn nil\n\t}\n\tselect {\n\tcase peers := <-out:\n\t\treturn peers\n\tcase <-p.ctx.Done():\n\t\treturn nil\n\t}\n}\n\n// BlacklistPeer", Expect: "R14.1"},
			{Name: "reply-channel-unbuffered", File: "pubsub.go", Old: "\tout := make(chan []string, 1)\n\tselect {\n\tcase p.getTopics <- &topicReq{resp: out}:", New: "\tout := make(chan []string)\n\tselect {\n\tcase p.getTopics <- &topicReq{resp: out}:\n\t\tselect {\n\t\tcase r := <-out:\n\t\t\treturn r\n\t\tcase <-p.ctx.Done():\n\t\t\treturn nil\n\t\t}", Expect: "R14.1"},
			{Name: "handler-forgets-reply", File: "pubsub.go", Old: "\tif topic == nil {\n\t\treq.resp <- nil\n\t\treturn\n\t}", New: "\tif topic == nil {\n\t\treturn\n\t}", Expect: "R14.2"},
			{Name: "addvalidator-double-reply", File: "validation.go", Old: "\t\treq.resp <- fmt.Errorf(\"duplicate validator for topic %s\", topic)\n\t\treturn\n", New: "\t\treq.resp <- fmt.Errorf(\"duplicate validator for topic %s\", topic)\n", Expect: "R14.2"},
			{Name: "connector-ignores-ctx", File: "gossipsub.go", Old: "\t\tcase <-gs.p.ctx.Done():\n\t\t\treturn\n\t\t}\n\t}\n}\n\nfunc (gs *GossipSubRouter) PublishBatch", New: "\t\tcase <-gs.p.ctx.Done():\n\t\t\tcontinue\n\t\t}\n\t}\n}\n\nfunc (gs *GossipSubRouter) PublishBatch", Expect: "R14.3"},
			{Name: "cleanup-keeps-sweeper", File: "pubsub.go", Old: "\t\tp.topics = nil\n\t\tp.seenMessages.Done()\n", New: "\t\tp.topics = nil\n", Expect: "R14.4"},
			{Name: "topic-close-lock-leak", File: "topic.go", Old: "func (t *Topic) Close() error {\n\tt.mux.Lock()\n\tdefer t.mux.Unlock()\n\tif t.closed {\n\t\treturn nil\n\t}\n\n\treq := &rmTopicReq{t, make(chan error, 1)}\n\n\tselect {\n\tcase t.p.rmTopic <- req:\n\tcase <-t.p.ctx.Done():\n\t\treturn t.p.ctx.Err()\n\t}\n\n\terr := <-req.resp\n\n\tif err == nil {\n\t\tt.closed = true\n\t}\n\n\treturn err", New: "func (t *Topic) Close() error {\n\tt.mux.Lock()\n\tif t.closed {\n\t\tt.mux.Unlock()\n\t\treturn nil\n\t}\n\n\treq := &rmTopicReq{t, make(chan error, 1)}\n\n\tselect {\n\tcase t.p.rmTopic <- req:\n\tcase <-t.p.ctx.Done():\n\t\treturn t.p.ctx.Err()\n\t}\n\n\terr := <-req.resp\n\n\tif err == nil {\n\t\tt.closed = true\n\t}\n\tt.mux.Unlock()\n\n\treturn err", Expect: "R14.6"},
		}})
}

// ownedChanField: channels through which work is handed to the instance's goroutines.
func ownedChan(v *V) bool {
	if v == nil || v.Kind != "field" {
		return false
	}
	for _, pre := range []string{"PubSub.", "GossipSubRouter.connect", "discover.discoverQ", "discover.done", "Subscription.cancelCh"} {
		if strings.HasPrefix(v.Name, pre) {
			return true
		}
	}
	return false
}

var chanExemptFns = map[string]string{
	"(*JSONTracer).doWrite":      "S5: consumer of a tracer-owned channel, ended by the tracer's Close (tracer objects are built and closed by the application)",
	"(*PBTracer).doWrite":        "S5: consumer of a tracer-owned channel, ended by the tracer's Close",
	"(*RemoteTracer).doWrite":    "S5: consumer of a tracer-owned channel, ended by the tracer's Close",
	"(*RemoteTracer).openStream": "tracer-owned context (RemoteTracer has its own lifetime)",
	"timecache.background":       "sweeper context is made from context.Background(); its cancel function is TimeCache.Done, called by the event loop's deferred cleanup (checked under R14.4)",
}

func runC14(c *RuleCtx) {
	p := c.P
	ops := p.ChanOps()
	nSel, nBare := 0, 0
	// index of makes per struct field (request/stream types carrying reply channels)
	fieldMakes := map[string][]chanMake{}
	for _, f := range p.All {
		if p.IsGenerated(f.Body) {
			continue
		}
		inspectNoLit(f.Body, func(n ast.Node) bool {
			cl, ok := n.(*ast.CompositeLit)
			if !ok {
				return true
			}
			t := f.Info().TypeOf(cl)
			if t == nil {
				return true
			}
			tn := strings.TrimPrefix(typeString(t, modPath), "*")
			st, ok := t.Underlying().(*types.Struct)
			if !ok {
				return true
			}
			for i, el := range cl.Elts {
				var name string
				var val ast.Expr
				if kv, ok := el.(*ast.KeyValueExpr); ok {
					name, val = kv.Key.(*ast.Ident).Name, kv.Value
				} else if i < st.NumFields() {
					name, val = st.Field(i).Name(), el
				}
				if vt := f.Info().TypeOf(val); vt != nil {
					if _, isChan := vt.Underlying().(*types.Chan); !isChan {
						continue
					}
				}
				v := p.R(f).Val(val)
				if isMk, capV := makeCap(v); isMk {
					fieldMakes[tn+"."+name] = append(fieldMakes[tn+"."+name], chanMake{capV == nil || isZero(capV), val, f})
				} else {
					fieldMakes[tn+"."+name] = append(fieldMakes[tn+"."+name], chanMake{true, val, f}) // unknown origin: treat as unbuffered
				}
			}
			return true
		})
	}
	for _, s := range p.AllStores() {
		// WithBufferSize etc: stores of make(...) into channel fields
		if s.Kind != "assign" || s.RHS == nil {
			continue
		}
		v := p.R(s.Fn).Val(s.RHS)
		if isMk, capV := makeCap(v); isMk {
			if t := s.Fn.Info().TypeOf(s.RHS); t != nil {
				if _, isChan := t.Underlying().(*types.Chan); isChan {
					fieldMakes[s.Field] = append(fieldMakes[s.Field], chanMake{capV == nil || isZero(capV), s.Node, s.Fn})
				}
			}
		}
	}
	isNewPubSubCtx := func(f *Func, e ast.Expr) bool {
		// the ctx parameter of the constructor, stored into PubSub.ctx there
		id, ok := unparen(e).(*ast.Ident)
		if !ok {
			return false
		}
		// follow parameters up to NewPubSub
		var follow func(f *Func, id *ast.Ident, depth int) bool
		follow = func(f *Func, id *ast.Ident, depth int) bool {
			if depth > 5 {
				return false
			}
			obj := f.Info().Uses[id]
			owner := f.Root()
			idx, i := -1, 0
			if owner.Type.Params != nil {
				for _, fld := range owner.Type.Params.List {
					for _, nm := range fld.Names {
						if owner.Info().Defs[nm] == obj {
							idx = i
						}
						i++
					}
				}
			}
			if idx < 0 {
				return false
			}
			if owner.Name == "NewPubSub" {
				stored := false
				inspectNoLit(owner.Body, func(n ast.Node) bool {
					if kv, ok := n.(*ast.KeyValueExpr); ok {
						if k, ok := kv.Key.(*ast.Ident); ok && k.Name == "ctx" {
							if vid, ok := kv.Value.(*ast.Ident); ok && owner.Info().Uses[vid] == obj {
								stored = true
							}
						}
					}
					return true
				})
				return stored
			}
			refs := p.Refs(owner.Name)
			if len(refs) == 0 {
				return false
			}
			for _, r := range refs {
				call := p.callOfRef(r)
				if !r.IsCall || call == nil || idx >= len(call.Args) || r.Fn == nil {
					return false
				}
				aid, ok := unparen(call.Args[idx]).(*ast.Ident)
				if !ok {
					if ok2, _ := p.instanceCtx(r.Fn, call.Args[idx], 0); ok2 {
						continue
					}
					return false
				}
				if ok2, _ := p.instanceCtx(r.Fn, aid, 0); ok2 {
					continue
				}
				if !follow(r.Fn, aid, depth+1) {
					return false
				}
			}
			return true
		}
		return follow(f, id, 0)
	}
	instCtx := func(f *Func, e ast.Expr) (bool, string) {
		if ok, why := p.instanceCtx(f, e, 0); ok {
			return true, why
		}
		if isNewPubSubCtx(f, e) {
			return true, "the constructor's context parameter (stored as the instance context)"
		}
		_, why := p.instanceCtx(f, e, 0)
		return false, why
	}
	isTimerChan := func(v *V) bool {
		if v == nil {
			return false
		}
		if v.IsCall("time.After") {
			return true
		}
		if v.Kind == "field" && (v.Name == "time.Timer.C" || v.Name == "time.Ticker.C") {
			return true
		}
		return false
	}
	// ---------- R14.1
	for _, op := range ops {
		f := op.Fn
		root := f.Root().Name
		if why, ok := chanExemptFns[root]; ok {
			c.OK("R14.1", root, op.Kind+" (exempt)", op.Node, why)
			continue
		}
		switch op.Kind {
		case "select":
			nSel++
			si := p.selectInfo(f, op.Node.(*ast.SelectStmt))
			if si.HasDefault {
				c.OK("R14.1", root, "select: non-blocking", op.Node, "S1: has a default arm")
				continue
			}
			hasInst, instWhy, callerCtx := false, "", false
			for _, d := range si.DoneCtx {
				if ok, why := instCtx(f, d); ok {
					hasInst, instWhy = true, why
				} else {
					callerCtx = true
				}
			}
			handsOff := false
			var sends []string
			for _, s := range si.Sends {
				sv := p.R(f).Val(s.Chan)
				sends = append(sends, sv.String())
				if ownedChan(sv) {
					handsOff = true
				}
			}
			timer := false
			for _, r := range si.Recvs {
				if isTimerChan(p.R(f).Val(r)) {
					timer = true
				}
			}
			desc := "select"
			if len(sends) > 0 {
				desc = "select sending on " + strings.Join(sends, ",")
			} else if len(si.Recvs) > 0 {
				desc = "select receiving from " + p.R(f).Val(si.Recvs[0]).String()
				if len(desc) > 90 {
					desc = desc[:90]
				}
			}
			switch {
			case hasInst:
				c.OK("R14.1", root, desc, op.Node, "S1: Done() arm on the instance context ("+instWhy+")")
			case !handsOff && len(si.Sends) == 0 && (callerCtx || timer):
				c.OK("R14.1", root, desc, op.Node, "S1/S6: a pure wait bounded by the caller's context or a timer")
			default:
				c.Bad("R14.1", root, desc, op.Node, "a blocking select without a Done() arm on the instance context: after shutdown nobody serves this hand-off, so the call/goroutine blocks forever (caller contexts do not count for hand-offs to the instance)")
			}
		case "send", "recv", "range":
			nBare++
			cv := op.Chan
			desc := op.Kind + " on " + cv.String()
			if len(desc) > 100 {
				desc = desc[:100]
			}
			class, why := classifyBare(c, op, fieldMakes, isTimerChan)
			if class != "" {
				c.OK("R14.1", root, desc, op.Node, class+": "+why)
			} else {
				c.Bad("R14.1", root, desc, op.Node, "bare channel "+op.Kind+" in no safe class: "+why)
			}
		}
	}
	if nSel < 60 || nBare < 40 {
		c.Undecided("R14.1", "channel operations", "inventory", nil, "fewer channel operations than known (selects="+itoa(nSel)+", bare="+itoa(nBare)+")")
	}
	// ---------- R14.2 reply exactly once
	checkReplies(c)
	// ---------- R14.3 goroutines
	checkGoroutines(c, instCtx)
	// ---------- R14.4 way down
	if f := c.MustFn("R14.4", fnProcessLoop); f != nil {
		var deferred *Func
		for _, ch := range f.Children {
			if _, isDefer := p.parents[p.parents[ch.Lit]].(*ast.DeferStmt); isDefer {
				deferred = ch
			}
		}
		if deferred == nil {
			c.Bad("R14.4", f.Name, "deferred cleanup", f.Decl, "the event loop has no deferred cleanup")
		} else {
			g := p.Graph(deferred)
			for _, r := range p.RangesOver(deferred, isFieldOf("PubSub.peers")) {
				ok, why := p.LoopBodyMust(deferred, r, nil, p.callPred(deferred, "(*rpcQueue).Close"))
				c.Check(ok, "R14.4", f.Name, "every queue closed on the way down", r, why, "writer goroutines blocked in Pop are not all released: "+why)
			}
			if len(p.RangesOver(deferred, isFieldOf("PubSub.peers"))) == 0 {
				c.Bad("R14.4", f.Name, "every queue closed on the way down", deferred.Lit, "no loop over p.peers in the cleanup")
			}
			okN, _ := g.MustPass(g.Entry(), PassOpts{}, func(n ast.Node) bool {
				for _, s := range p.StoresTo2(deferred, "PubSub.peers") {
					if s.Node == n && s.Kind == "assign" && isNilV(p.R(deferred).Val(s.RHS)) {
						return true
					}
				}
				return false
			})
			c.Check(okN, "R14.4", f.Name, "p.peers cleared after closing (no push on a closed queue)", deferred.Lit, "p.peers = nil", "closed queues stay reachable through p.peers")
			okD, _ := g.MustPass(g.Entry(), PassOpts{}, p.callPred(deferred, "timecache.TimeCache.Done"))
			c.Check(okD, "R14.4", f.Name, "seen-cache sweeper stopped", deferred.Lit, "seenMessages.Done()", "the seen-cache sweeper goroutine is never stopped")
		}
		// the loop leaves on ctx.Done
		g := p.Graph(f)
		_ = g
		cl := (*ast.CommClause)(nil)
		inspectNoLit(f.Body, func(n ast.Node) bool {
			if cc, ok := n.(*ast.CommClause); ok {
				if cx := p.doneArmContext(f, cc); cx != nil {
					cl = cc
				}
			}
			return true
		})
		okRet := false
		if cl != nil {
			for _, st := range cl.Body {
				if _, ok := st.(*ast.ReturnStmt); ok {
					okRet = true
				}
			}
		}
		c.Check(okRet, "R14.4", f.Name, "event loop returns on context cancellation", f.Decl, "Done arm returns", "the event loop does not return on ctx.Done()")
	}
	// ---------- R14.6 balanced locks
	checkBalancedLocks(c)
	checkValidatorContext(c)
	c.Min["R14.1"] = 110
	c.Min["R14.2"] = 14
	c.Min["R14.3"] = 25
	c.Min["R14.4"] = 4
	c.Min["R14.6"] = 40
}

type chanMake struct {
	unbuffered bool
	node       ast.Node
	fn         *Func
}

// classifyBare assigns a bare channel operation to a safe class, or returns "" with the reason.
func classifyBare(c *RuleCtx, op ChanOp, fieldMakes map[string][]chanMake, isTimerChan func(*V) bool) (string, string) {
	p := c.P
	f := op.Fn
	cv := op.Chan
	info := func(x chanMake) (bool, ast.Node, *Func) { return x.unbuffered, x.node, x.fn }
	// S6 timer
	if isTimerChan(cv) && op.Kind == "recv" {
		// `if !t.Stop() { <-t.C }`
		stop := AtomBool("t.Stop()", isCallTo("time.(*Timer).Stop"))
		if ok, _ := p.DomAny(f, op.Node, AtomWant{stop, false}); ok {
			return "S6", "drain of a stopped timer's channel (the timer fired, so a value is pending)"
		}
		return "", "receive from a timer channel outside a select"
	}
	// local channel made in this root function (reply/done channels)
	localMake := func(v *V) (bool, bool) { // (isLocalMake, unbuffered)
		if isMk, capV := makeCap(v); isMk {
			return true, capV == nil || isZero(capV)
		}
		return false, false
	}
	root := f.Root()
	switch op.Kind {
	case "recv":
		// S4 semaphore release
		if cv.Kind == "field" && strings.HasSuffix(cv.Name, "validateThrottle") {
			// the matching acquire: a send on the same channel in a select of this function or of the function that created this literal
			acquired := false
			for x := f; x != nil; x = x.Parent {
				inspectNoLit(x.Body, func(n ast.Node) bool {
					if cc, ok := n.(*ast.CommClause); ok {
						if s, ok := cc.Comm.(*ast.SendStmt); ok && p.R(x).Val(s.Chan).Kind == "field" && p.R(x).Val(s.Chan).Name == cv.Name {
							// the op (or the literal containing it) lies inside this clause's body
							var inner ast.Node = op.Node
							for y := f; y != x && y != nil; y = y.Parent {
								inner = y.Lit
							}
							if within(inner, cc) {
								acquired = true
							}
						}
					}
					return true
				})
			}
			if acquired {
				return "S4", "release of a semaphore slot acquired by the matching non-blocking send in the enclosing select arm"
			}
			return "", "receive from the throttle channel without the matching acquire in scope"
		}
		// S3 reply receive
		isLocal, _ := localMake(cv)
		fromReq := cv.Kind == "field" && cv.Args[0].Kind == "comp"
		if isLocal || fromReq {
			// every earlier hand-off select's Done arms must leave the function (so the request was accepted)
			g := p.Graph(f)
			rp, _ := g.Locate(op.Node)
			okArms := true
			nSel := 0
			inspectNoLit(root.Body, func(n ast.Node) bool {
				sel, ok := n.(*ast.SelectStmt)
				if !ok || p.EnclosingFunc(sel) != f {
					return true
				}
				for _, cl := range sel.Body.List {
					cc := cl.(*ast.CommClause)
					if p.doneArmContext(f, cc) == nil {
						continue
					}
					nSel++
					// from the Done arm body the receive must not be reachable
					b := g.ClauseBody(cc)
					if b != nil && g.ReachableFrom(Point{b, 0}, rp, nil, nil) && !within(op.Node, sel) {
						okArms = false
					}
				}
				return true
			})
			if !okArms {
				return "", "the reply receive is reachable from a cancellation arm of the hand-off (no request was accepted, nobody will reply)"
			}
			if nSel == 0 && !strings.Contains(root.Name, "validateTopic") {
				return "", "reply receive without a preceding hand-off select"
			}
			if strings.Contains(root.Name, "validateTopic") {
				return "S2b", "fan-in receive: exactly rcount results were requested, each producer sends once into a channel sized len(vals)"
			}
			return "S3", "reply receive after a successful hand-off (handler replies exactly once: R14.2)"
		}
		return "", "receive from " + cv.String()
	case "send":
		// S2b sized fan-in
		if isMk, capV := makeCap(cv); isMk && capV != nil && capV.Kind == "len" {
			return "S2b", "send into a channel sized len(vals): one send per validator"
		}
		// S2 reply send: local make with capacity (thunks) or request field
		if isLocal, unbuf := localMake(cv); isLocal {
			if !unbuf {
				return "S2", "reply send on a channel made with capacity >= 1 (one reply per request: R14.2)"
			}
			return "", "reply send on an unbuffered channel"
		}
		var field string
		switch {
		case cv.Kind == "field":
			field = cv.Name
		}
		if field != "" {
			mk := fieldMakes[field]
			if len(mk) == 0 {
				return "", "no make() found for channel field " + field
			}
			allBuffered := true
			for _, m := range mk {
				unb, node, mfn := info(m)
				// a channel created once with its long-lived owner (constructor / Start / option) is an inbox, not a reply channel:
				// capacity does not make repeated sends safe once the consumer has gone
				rn := mfn.Root().Name
				_, inLit := p.parents[node].(*ast.KeyValueExpr)
				if !inLit {
					if _, isCL := p.parents[node].(*ast.CompositeLit); isCL {
						inLit = true
					}
				}
				if strings.HasPrefix(rn, "New") || strings.HasPrefix(rn, "new") || strings.HasPrefix(rn, "Default") || strings.HasPrefix(rn, "With") || strings.HasSuffix(rn, ").Start") || !inLit {
					return "", "send on the long-lived inbox channel " + field + " (made in " + rn + ") outside a select: once its consumer has exited on shutdown the buffer fills and this send blocks forever"
				}
				if !unb {
					continue
				}
				allBuffered = false
				// unbuffered: the requester must receive unconditionally (bare receive) after the hand-off
				ok := false
				foundBare, foundSel := false, false
				if id, isId := unparen(node.(ast.Expr)).(*ast.Ident); isId {
					obj := mfn.Info().Uses[id]
					ast.Inspect(mfn.Root().Body, func(n ast.Node) bool {
						u, isU := n.(*ast.UnaryExpr)
						if !isU || u.Op != token.ARROW {
							return true
						}
						if rid, isR := unparen(u.X).(*ast.Ident); isR && mfn.Info().Uses[rid] == obj {
							// bare (not a select arm)?
							inSel := false
							for x := p.parents[u]; x != nil; x = p.parents[x] {
								if cc, isCC := x.(*ast.CommClause); isCC && cc.Comm != nil && within(u, cc.Comm) {
									inSel = true
								}
								if _, isF := x.(*ast.FuncDecl); isF {
									break
								}
							}
							if !inSel {
								foundBare = true
							} else {
								foundSel = true
							}
						}
						return true
					})
				}
				ok = foundBare && !foundSel
				if !ok {
					return "", "reply send on " + field + ": a requester makes this channel unbuffered (" + p.Pos(node) + ") and does not receive unconditionally; if it gives up, this send blocks the event loop forever"
				}
			}
			if allBuffered {
				return "S2", "reply send; every make of " + field + " has capacity >= 1"
			}
			return "S2", "reply send; unbuffered makes are received unconditionally by their requester"
		}
		return "", "send on " + cv.String()
	}
	return "", "unclassified " + op.Kind
}

// checkReplies: R14.2.
func checkReplies(c *RuleCtx) {
	p := c.P
	type handler struct {
		fn   string
		pred func(f *Func, v *V) bool
	}
	isResp := func(f *Func, v *V) bool { return v.Kind == "field" && strings.HasSuffix(v.Name, ".resp") }
	n := 0
	checkFn := func(f *Func, start Point, until map[*cfgBlock]bool, what string, match func(v *V) bool) {
		g := p.Graph(f)
		isSend := func(x ast.Node) bool {
			s, ok := x.(*ast.SendStmt)
			return ok && match(p.R(f).Val(s.Chan))
		}
		n++
		ok, _ := g.MustPass(start, PassOpts{Until: until}, isSend)
		c.Check(ok, "R14.2", f.Root().Name, what+": reply on every path", f.Body, "every path sends the reply", "a path of the handler finishes without replying: the requester blocks forever in its reply receive")
		// at most once: from after any send, no other send reachable (within the scope)
		double := false
		for _, b := range g.C.Blocks {
			for i, x := range b.Nodes {
				if !isSend(x) {
					continue
				}
				if reachesBefore(g, Point{b, i + 1}, until, isSend) {
					double = true
				}
			}
		}
		c.Check(!double, "R14.2", f.Root().Name, what+": at most one reply", f.Body, "no second send reachable after a reply", "a second reply can follow the first: with a capacity-1 reply channel the second send blocks the event loop forever")
	}
	for _, h := range []string{"(*PubSub).handleAddTopic", "(*PubSub).handleRemoveTopic", "(*PubSub).handleAddSubscription", "(*PubSub).handleAddRelay", "(*validation).AddValidator", "(*validation).RemoveValidator"} {
		if f := c.MustFn("R14.2", h); f != nil {
			checkFn(f, p.Graph(f).Entry(), nil, shortFn(h), func(v *V) bool { return isResp(f, v) })
		}
	}
	// processLoop arms answering inline
	if f := c.MustFn("R14.2", fnProcessLoop); f != nil {
		g := p.Graph(f)
		_, _, until := forLoopOf(p, g, f)
		for _, fld := range []string{"PubSub.getTopics", "PubSub.getPeers"} {
			cl := selectClauseOn(p, f, fld)
			if cl == nil {
				c.Undecided("R14.2", f.Name, "arm "+fld, f.Decl, "not found")
				continue
			}
			checkFn(f, Point{g.ClauseBody(cl), 0}, until, "arm "+shortFn(fld), func(v *V) bool { return isResp(f, v) })
		}
	}
	// hand-off thunks that answer on a captured channel
	for _, fn := range []string{"(*Topic).EventHandler", "(*Topic).SetScoreParams", "(*Topic).validate", "(*discover).Bootstrap", "PublishPartial"} {
		root := c.MustFn("R14.2", fn)
		if root == nil {
			continue
		}
		for _, ch := range root.Children {
			var chanV *V
			inspectNoLit(ch.Body, func(x ast.Node) bool {
				if s, ok := x.(*ast.SendStmt); ok {
					if v := p.R(ch).Val(s.Chan); v.IsCall("builtin.make") {
						chanV = v
					}
				}
				return true
			})
			if chanV == nil {
				continue
			}
			checkFn(ch, p.Graph(ch).Entry(), nil, "thunk of "+shortFn(fn), func(v *V) bool { return v.Equal(chanV) })
		}
	}
	if f := c.MustFn("R14.2", "(*PubSub).syncEval"); f != nil {
		okc := false
		for _, ch := range f.Children {
			inspectNoLit(ch.Body, func(x ast.Node) bool {
				if d, ok := x.(*ast.DeferStmt); ok && p.CalleeName(ch.Info(), d.Call) == "builtin.close" {
					okc = true
				}
				return true
			})
		}
		n++
		c.Check(okc, "R14.2", f.Name, "syncEval thunk signals completion on every path", f.Decl, "defer close(done)", "the syncEval thunk may not signal completion")
	}
	if n < 10 {
		c.Undecided("R14.2", "reply handlers", "inventory", nil, "fewer reply handlers than known")
	}
}

var goExempt = map[string]string{
	"(*PubSub).handlePeerDead":     "waits in stream.Read; released when the host's streams are closed (premise of C14)",
	"(*PubSub).handleNewStream":    "stream handler; blocks in stream reads released by closing the host's streams, all hand-offs are S1",
	"(*JSONTracer).doWrite":        "tracer writer (S5), ended by the tracer's Close",
	"(*PBTracer).doWrite":          "tracer writer (S5), ended by the tracer's Close",
	"(*RemoteTracer).doWrite":      "tracer writer (S5), ended by the tracer's Close",
	"field:peerScore.inspect":      "user callback",
	"field:peerScore.inspectEx":    "user callback",
	"(*TimeCachedBlacklist).sweep": "blacklist object built by the application; no stop function exists (observation)",
	"timecache.background":         "stopped through TimeCache.Done by the event loop's cleanup (R14.4)",
}

// checkGoroutines: R14.3.
func checkGoroutines(c *RuleCtx, instCtx func(*Func, ast.Expr) (bool, string)) {
	p := c.P
	nGo := 0
	for _, f := range p.All {
		if p.IsGenerated(f.Body) || strings.Contains(f.Pkg.PkgPath, "/internal/") {
			continue
		}
		inspectNoLit(f.Body, func(n ast.Node) bool {
			gs, ok := n.(*ast.GoStmt)
			if !ok {
				return true
			}
			nGo++
			var target *Func
			name := p.CalleeName(f.Info(), gs.Call)
			if fl, ok := unparen(gs.Call.Fun).(*ast.FuncLit); ok {
				target = p.FuncOf[fl]
				name = "literal in " + f.Root().Name
			} else if t := p.Fn(name); t != nil {
				target = t
			}
			key := "go " + name
			if why, ok := goExempt[name]; ok {
				c.OK("R14.3", f.Root().Name, key, gs, "exempt: "+why)
				return true
			}
			if target == nil {
				c.Bad("R14.3", f.Root().Name, key, gs, "goroutine target cannot be resolved to module source; no termination argument")
				return true
			}
			ok2, why := goroutineTerminates(p, target, instCtx, 0)
			c.Check(ok2, "R14.3", f.Root().Name, key, gs, why, "the goroutine may never exit after shutdown: "+why)
			return true
		})
	}
	if nGo < 25 {
		c.Undecided("R14.3", "go statements", "inventory", nil, "fewer go statements than known ("+itoa(nGo)+")")
	}
}

// goroutineTerminates: every loop without a terminating condition in the target (and in the module functions it
// calls directly, one level) contains an escape on an instance context that leaves the loop.
func goroutineTerminates(p *Prog, f *Func, instCtx func(*Func, ast.Expr) (bool, string), depth int) (bool, string) {
	bad := ""
	inspectNoLit(f.Body, func(n ast.Node) bool {
		fs, ok := n.(*ast.ForStmt)
		if !ok {
			return true
		}
		if fs.Cond != nil {
			// a condition on ctx.Err() terminates; other conditions are assumed to be progress conditions (bounded counters)
			return true
		}
		// needs a select with an instance Done arm whose body returns (or breaks out of the loop to a return)
		found := false
		ast.Inspect(fs.Body, func(x ast.Node) bool {
			if _, isLit := x.(*ast.FuncLit); isLit {
				return false
			}
			cc, ok := x.(*ast.CommClause)
			if !ok {
				return true
			}
			cx := p.doneArmContext(f, cc)
			if cx == nil {
				return true
			}
			if ok, _ := instCtx(f, cx); !ok {
				return true
			}
			for _, st := range cc.Body {
				switch s := st.(type) {
				case *ast.ReturnStmt:
					found = true
				case *ast.BranchStmt:
					if s.Tok == token.BREAK && s.Label != nil {
						found = true
					}
				}
			}
			return true
		})
		if !found {
			bad = "the `for {}` loop at " + p.Pos(fs) + " in " + f.Name + " has no select arm on the instance context that leaves it"
		}
		return true
	})
	if bad != "" {
		return false, bad
	}
	// range over a channel not owned by an exempt tracer
	inspectNoLit(f.Body, func(n ast.Node) bool {
		if r, ok := n.(*ast.RangeStmt); ok {
			if t := f.Info().TypeOf(r.X); t != nil {
				if _, isChan := t.Underlying().(*types.Chan); isChan {
					bad = "ranges over a channel at " + p.Pos(r)
				}
			}
		}
		return true
	})
	if bad != "" {
		return false, bad
	}
	if depth < 2 {
		for _, cs := range p.FuncCalls(f, false) {
			if t := p.Fn(cs.Name); t != nil && t != f && t.Pkg == f.Pkg {
				if _, isGo := p.parents[cs.Call].(*ast.GoStmt); isGo {
					continue
				}
				// only follow functions that contain loops without condition (cheap pre-filter)
				has := false
				inspectNoLit(t.Body, func(n ast.Node) bool {
					if fs, ok := n.(*ast.ForStmt); ok && fs.Cond == nil {
						has = true
					}
					return true
				})
				if has {
					if ok, why := goroutineTerminates(p, t, instCtx, depth+1); !ok {
						return false, why
					}
				}
			}
		}
	}
	return true, "every unbounded loop has an instance-context escape; channel operations are classified under R14.1"
}

// checkBalancedLocks: R14.6.
func checkBalancedLocks(c *RuleCtx) {
	p := c.P
	n := 0
	for _, f := range p.All {
		if p.IsGenerated(f.Body) || strings.Contains(f.Pkg.PkgPath, "/internal/") {
			continue
		}
		mutexes := map[string]ast.Node{}
		deferred := map[string]bool{}
		for _, cs := range p.FuncCalls(f, false) {
			id, op := p.mutexOfCall(f, cs.Call)
			if id == "" {
				continue
			}
			_, isDefer := p.parents[cs.Call].(*ast.DeferStmt)
			if (op == "Lock" || op == "RLock") && !isDefer {
				if _, seen := mutexes[id]; !seen {
					mutexes[id] = cs.Call
				}
			}
			if (op == "Unlock" || op == "RUnlock") && isDefer {
				deferred[id] = true
			}
		}
		for id, site := range mutexes {
			n++
			_ = deferred
			lf := p.NewLockFlow(f, id, lockNone)
			bad := ""
			g := p.Graph(f)
			isDeferredUnlock := func(x ast.Node) bool {
				d, ok := x.(*ast.DeferStmt)
				if !ok {
					return false
				}
				mid, op := p.mutexOfCall(f, d.Call)
				return mid == id && (op == "Unlock" || op == "RUnlock")
			}
			for _, b := range g.C.Blocks {
				if !b.Live || len(b.Succs) != 0 || g.isPanicExit(b) || isSelectDeadEnd(b) {
					continue
				}
				m := lf.in[b]
				if m == lockTop {
					continue
				}
				for _, x := range b.Nodes {
					m = lf.transfer(x, m)
				}
				if m == lockShared || m == lockExcl {
					// held at this exit: a deferred unlock must have been registered on every path to it
					if g.DominatedByNode(Point{b, len(b.Nodes)}, isDeferredUnlock) {
						continue
					}
					where := "function end"
					if len(b.Nodes) > 0 {
						where = p.Pos(b.Nodes[len(b.Nodes)-1])
					}
					bad = where
				}
			}
			c.Check(bad == "", "R14.6", f.Name, "lock of "+id+" released on every exit", site, "released (or a deferred unlock is registered) on every path to every exit", "the function can return at "+bad+" with "+id+" still held: every later call that needs it blocks forever")
		}
	}
	if n < 40 {
		c.Undecided("R14.6", "lock sites", "inventory", nil, "fewer locking functions than known ("+itoa(n)+")")
	}
}

// R14.7: application validators are handed a context so that they can stop waiting when the instance shuts down; a
// Publish call sits inside them (local validation is synchronous) and returns only when they do. The context every
// validator runs under therefore derives from the instance context (PubSub.ctx, possibly through
// context.WithCancel/WithTimeout/WithDeadline), never from a caller-supplied one.
func checkValidatorContext(c *RuleCtx) {
	p := c.P
	var fromInstance func(f *Func, v *V, depth int) bool
	fromInstance = func(f *Func, v *V, depth int) bool {
		if v == nil || depth > 4 {
			return false
		}
		if v.IsField("PubSub.ctx") {
			return true
		}
		if v.Kind == "tuple" && v.Name == "0" && len(v.Args) == 1 {
			return fromInstance(f, v.Args[0], depth+1)
		}
		if v.Kind == "call" && (v.Name == "context.WithCancel" || v.Name == "context.WithTimeout" || v.Name == "context.WithDeadline" || v.Name == "context.WithValue") && len(v.Args) >= 1 {
			return fromInstance(f, v.Args[0], depth+1)
		}
		return false
	}
	n := 0
	for _, cs := range p.AllSites("(*validatorImpl).validateMsg") {
		if len(cs.Call.Args) < 1 {
			continue
		}
		n++
		v := p.R(cs.Fn).Val(cs.Call.Args[0])
		ok := fromInstance(cs.Fn, v, 0)
		if !ok {
			// through local copies
			for _, ch := range p.R(cs.Fn).Sources(cs.Call.Args[0]) {
				if ch.Leaf != nil && fromInstance(cs.Fn, ch.Leaf, 0) {
					ok = true
				} else {
					ok = false
					break
				}
			}
		}
		c.Check(ok, "R14.7", cs.Fn.Root().Name, "validators run under the instance context", cs.Call, "derived from PubSub.ctx", "the context handed to the validators is "+v.String()+", which does not derive from the instance context: a validator waiting on it does not notice shutdown, and the Publish (or validation worker) that called it never returns")
	}
	if f := c.MustFn("R14.7", "(*validatorImpl).validateMsg"); f != nil {
		for _, cs := range p.Sites(f, false, "field:validatorImpl.validate") {
			if len(cs.Call.Args) < 1 {
				continue
			}
			n++
			ok := false
			for _, ch := range p.R(f).Sources(cs.Call.Args[0]) {
				l := ch.Leaf
				for d := 0; l != nil && d < 4; d++ {
					if isParam(f, 0)(l) {
						ok = true
						break
					}
					if l.Kind == "tuple" && len(l.Args) == 1 {
						l = l.Args[0]
						continue
					}
					if l.Kind == "call" && strings.HasPrefix(l.Name, "context.With") && len(l.Args) >= 1 {
						l = l.Args[0]
						continue
					}
					break
				}
			}
			c.Check(ok, "R14.7", f.Name, "the validator receives the context validateMsg was given", cs.Call, "ctx parameter or a context derived from it", "validateMsg hands the application validator a context that does not derive from its own ctx parameter")
		}
	}
	if n < 4 {
		c.Undecided("R14.7", "validator contexts", "inventory", nil, "fewer validator invocations than known: "+itoa(n))
	}
	c.Min["R14.7"] = 4
}
