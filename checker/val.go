package main

// Canonical value trees ("access paths") for AST expressions, resolved through
// go/types: callees, fields and constants by object, single-definition locals
// through their definition. Rules compare these trees, never source text.

import (
	"fmt"
	"go/ast"
	"go/constant"
	"go/token"
	"go/types"
	"sort"
	"strings"
	"sync/atomic"

	"golang.org/x/tools/go/types/typeutil"
)

type V struct {
	Kind string // call field var const index lookupok op unop len lit func tuple conv star addr typeassert comp slice recv opaque
	Name string
	Args []*V
	Obj  types.Object
	Node ast.Node
}

func (v *V) String() string {
	if v == nil {
		return "<nil>"
	}
	var as []string
	for _, a := range v.Args {
		as = append(as, a.String())
	}
	switch v.Kind {
	case "call":
		return v.Name + "(" + strings.Join(as, ", ") + ")"
	case "field":
		return as[0] + "." + v.Name[strings.LastIndex(v.Name, ".")+1:]
	case "var", "const", "lit", "func":
		return v.Name
	case "index":
		return as[0] + "[" + as[1] + "]"
	case "lookupok":
		return "ok(" + as[0] + "[" + as[1] + "])"
	case "lookupval":
		return "val(" + as[0] + "[" + as[1] + "])"
	case "op":
		return "(" + as[0] + " " + v.Name + " " + as[1] + ")"
	case "unop":
		return v.Name + as[0]
	case "tuple":
		return as[0] + "#" + v.Name
	case "rangeval":
		return "each(" + as[0] + ")"
	case "rangekey":
		return "eachkey(" + as[0] + ")"
	case "len":
		return "len(" + as[0] + ")"
	default:
		return v.Kind + ":" + v.Name + "(" + strings.Join(as, ", ") + ")"
	}
}

func (v *V) Equal(o *V) bool { return v != nil && o != nil && v.String() == o.String() }

// Has reports whether pred holds for v or any sub-value.
func (v *V) Has(pred func(*V) bool) bool {
	if v == nil {
		return false
	}
	if pred(v) {
		return true
	}
	for _, a := range v.Args {
		if a.Has(pred) {
			return true
		}
	}
	return false
}

func (v *V) IsCall(names ...string) bool {
	if v == nil || v.Kind != "call" {
		return false
	}
	for _, n := range names {
		if v.Name == n {
			return true
		}
	}
	return false
}
func (v *V) IsField(names ...string) bool {
	if v == nil || v.Kind != "field" {
		return false
	}
	for _, n := range names {
		if v.Name == n {
			return true
		}
	}
	return false
}
func (v *V) IsConst(names ...string) bool {
	if v == nil || (v.Kind != "const" && v.Kind != "lit") {
		return false
	}
	for _, n := range names {
		if v.Name == n {
			return true
		}
	}
	return false
}

// Resolver canonicalises expressions of one function (and its enclosing functions).
type Resolver struct {
	P       *Prog
	F       *Func
	defs    map[types.Object][]defSite
	rdCache map[*ast.Ident]*defSite
	active  map[ast.Node]bool
	depth   int
}

type defSite struct {
	rhs    ast.Expr // nil when not a simple definition (range key, param, inc/dec, op-assign)
	idx    int      // tuple index, -1 for plain
	n      int      // number of lhs
	node   ast.Node
	kind   string // "assign" "range-key" "range-val" "other" "recv" "typeswitch"
	rangeX ast.Expr
}

func (p *Prog) Resolver(f *Func) *Resolver {
	r := &Resolver{P: p, F: f, defs: map[types.Object][]defSite{}}
	root := f.Root()
	info := f.Info()
	add := func(id *ast.Ident, d defSite) {
		if id == nil || id.Name == "_" {
			return
		}
		obj := info.Defs[id]
		if obj == nil {
			obj = info.Uses[id]
		}
		if obj == nil {
			return
		}
		r.defs[obj] = append(r.defs[obj], d)
	}
	ast.Inspect(root.Body, func(n ast.Node) bool {
		switch s := n.(type) {
		case *ast.AssignStmt:
			if s.Tok != token.ASSIGN && s.Tok != token.DEFINE {
				for _, l := range s.Lhs {
					if id, ok := l.(*ast.Ident); ok {
						add(id, defSite{kind: "other", node: s})
					}
				}
				return true
			}
			if len(s.Rhs) == len(s.Lhs) {
				for i, l := range s.Lhs {
					if id, ok := l.(*ast.Ident); ok {
						add(id, defSite{rhs: s.Rhs[i], idx: -1, n: 1, node: s, kind: "assign"})
					}
				}
			} else if len(s.Rhs) == 1 {
				for i, l := range s.Lhs {
					if id, ok := l.(*ast.Ident); ok {
						add(id, defSite{rhs: s.Rhs[0], idx: i, n: len(s.Lhs), node: s, kind: "assign"})
					}
				}
			}
		case *ast.IncDecStmt:
			if id, ok := s.X.(*ast.Ident); ok {
				add(id, defSite{kind: "other", node: s})
			}
		case *ast.RangeStmt:
			if id, ok := s.Key.(*ast.Ident); ok {
				add(id, defSite{kind: "range-key", node: s, rangeX: s.X})
			}
			if id, ok := s.Value.(*ast.Ident); ok {
				add(id, defSite{kind: "range-val", node: s, rangeX: s.X})
			}
		case *ast.ValueSpec:
			for i, id := range s.Names {
				if len(s.Values) == len(s.Names) {
					add(id, defSite{rhs: s.Values[i], idx: -1, n: 1, node: s, kind: "assign"})
				} else if len(s.Values) == 1 {
					add(id, defSite{rhs: s.Values[0], idx: i, n: len(s.Names), node: s, kind: "assign"})
				} else {
					add(id, defSite{kind: "zero", node: s})
				}
			}
		case *ast.UnaryExpr:
			if s.Op == token.AND {
				if id, ok := s.X.(*ast.Ident); ok {
					add(id, defSite{kind: "other", node: s}) // address taken
				}
			}
		case *ast.TypeSwitchStmt:
			// implicit objects per clause; treat as opaque
		case *ast.CommClause:
			if as, ok := s.Comm.(*ast.AssignStmt); ok {
				_ = as // handled by AssignStmt case (rhs is a receive)
			}
		}
		return true
	})
	return r
}

// Defs returns the definition sites recorded for obj.
func (r *Resolver) Defs(obj types.Object) []defSite { return r.defs[obj] }

// SingleDef returns the unique defining expression of a local, if any.
func (r *Resolver) SingleDef(obj types.Object) (defSite, bool) {
	ds := r.defs[obj]
	if len(ds) == 1 {
		return ds[0], true
	}
	// "var x T" followed by exactly one assignment
	if len(ds) == 2 && ds[0].kind == "zero" && ds[1].kind == "assign" {
		return ds[1], true
	}
	return defSite{}, false
}

func (r *Resolver) Val(e ast.Expr) *V {
	r.depth++
	defer func() { r.depth-- }()
	if r.depth > 40 {
		return &V{Kind: "opaque", Name: "depth", Node: e}
	}
	info := r.F.Info()
	e = unparen(e)
	if tv, ok := info.Types[e]; ok && tv.Value != nil {
		// typed constant
		name := tv.Value.ExactString()
		if id, ok := e.(*ast.Ident); ok {
			if c, ok := info.Uses[id].(*types.Const); ok {
				name = constName(c)
			}
		} else if sel, ok := e.(*ast.SelectorExpr); ok {
			if c, ok := info.Uses[sel.Sel].(*types.Const); ok {
				name = constName(c)
			}
		}
		if tv.Value.Kind() == constant.Bool || tv.Value.Kind() == constant.Int || tv.Value.Kind() == constant.Float || tv.Value.Kind() == constant.String {
			if _, isLit := e.(*ast.BasicLit); isLit {
				return &V{Kind: "lit", Name: tv.Value.ExactString(), Node: e}
			}
		}
		return &V{Kind: "const", Name: name, Node: e}
	}
	switch x := e.(type) {
	case *ast.Ident:
		obj := info.Uses[x]
		if obj == nil {
			obj = info.Defs[x]
		}
		switch o := obj.(type) {
		case *types.Nil:
			return &V{Kind: "const", Name: "nil", Node: e}
		case *types.Func:
			return &V{Kind: "func", Name: FuncName(o, modPath), Obj: o, Node: e}
		case *types.Var:
			if o.IsField() {
				return &V{Kind: "var", Name: x.Name, Obj: o, Node: e}
			}
			if d, ok := r.SingleDef(o); ok && d.kind == "assign" && d.rhs != nil {
				if v := r.valOfDef(d, e); v != nil {
					return v
				}
			}
			if d, ok := r.SingleDef(o); ok && (d.kind == "range-key" || d.kind == "range-val") && d.rangeX != nil {
				k := "rangeval"
				if d.kind == "range-key" {
					k = "rangekey"
				}
				return &V{Kind: k, Name: x.Name, Obj: o, Node: e, Args: []*V{r.Val(d.rangeX)}}
			}
			if d, ok := r.reachingDef(x, o); ok {
				if v := r.valOfDef(d, e); v != nil {
					return v
				}
			}
			return &V{Kind: "var", Name: x.Name, Obj: o, Node: e}
		case *types.PkgName:
			return &V{Kind: "pkg", Name: o.Imported().Path(), Node: e}
		case *types.TypeName:
			return &V{Kind: "type", Name: typeString(o.Type(), modPath), Node: e}
		case *types.Builtin:
			return &V{Kind: "func", Name: "builtin." + o.Name(), Node: e}
		}
		return &V{Kind: "opaque", Name: x.Name, Node: e}
	case *ast.SelectorExpr:
		if sel, ok := info.Selections[x]; ok {
			switch sel.Kind() {
			case types.FieldVal:
				return &V{Kind: "field", Name: fieldOwnerName(sel), Args: []*V{r.Val(x.X)}, Obj: sel.Obj(), Node: e}
			case types.MethodVal:
				return &V{Kind: "func", Name: FuncName(sel.Obj().(*types.Func), modPath), Args: []*V{r.Val(x.X)}, Obj: sel.Obj(), Node: e}
			case types.MethodExpr:
				return &V{Kind: "func", Name: FuncName(sel.Obj().(*types.Func), modPath), Obj: sel.Obj(), Node: e}
			}
		}
		// package-qualified
		switch o := info.Uses[x.Sel].(type) {
		case *types.Func:
			return &V{Kind: "func", Name: FuncName(o, modPath), Obj: o, Node: e}
		case *types.Var:
			return &V{Kind: "var", Name: o.Pkg().Path() + "." + o.Name(), Obj: o, Node: e}
		case *types.TypeName:
			return &V{Kind: "type", Name: typeString(o.Type(), modPath), Node: e}
		}
		return &V{Kind: "opaque", Name: "sel", Node: e}
	case *ast.CallExpr:
		// conversion?
		if tv, ok := info.Types[x.Fun]; ok && tv.IsType() {
			if len(x.Args) == 1 {
				return &V{Kind: "conv", Name: typeString(tv.Type, modPath), Args: []*V{r.Val(x.Args[0])}, Node: e}
			}
		}
		callee := typeutil.Callee(info, x)
		var args []*V
		name := ""
		switch c := callee.(type) {
		case *types.Func:
			name = FuncName(c, modPath)
			if sel, ok := unparen(x.Fun).(*ast.SelectorExpr); ok {
				if s, ok := info.Selections[sel]; ok && s.Kind() == types.MethodVal {
					args = append(args, r.Val(sel.X))
				}
			}
		case *types.Builtin:
			name = "builtin." + c.Name()
		case *types.Var:
			name = r.P.CalleeName(info, x)
			if !c.IsField() {
				if fv := r.Val(x.Fun); fv.Kind == "funclit" {
					name = "lit:" + fv.Name
					// a local predicate closure (subscribed := func(p peer.ID) bool { _, ok := tmap[p]; return ok }):
					// its value is the returned expression with the arguments substituted
					if fl, ok := fv.Node.(*ast.FuncLit); ok {
						var cargs []*V
						for _, a := range x.Args {
							cargs = append(cargs, r.Val(a))
						}
						if sv := r.litSummary(fl, cargs, e); sv != nil {
							return sv
						}
					}
				} else if fv.Kind == "func" && fv.Name != "" {
					// a local that holds a function or method value (check := p.validateX; check()): the call is a
					// call of that function, with the bound receiver as first operand
					name = fv.Name
					args = append(args, fv.Args...)
				}
			} else if sel, ok := unparen(x.Fun).(*ast.SelectorExpr); ok {
				args = append(args, r.Val(sel.X))
			}
		default:
			if fl, ok := unparen(x.Fun).(*ast.FuncLit); ok {
				if f := r.P.FuncOf[fl]; f != nil {
					name = "lit:" + f.Name
				}
			} else {
				name = "dyn:" + r.Val(x.Fun).String()
			}
		}
		for _, a := range x.Args {
			args = append(args, r.Val(a))
		}
		if name == "builtin.len" && len(args) == 1 {
			return &V{Kind: "len", Args: args, Node: e}
		}
		// x.After(y) is the same test as y.Before(x): one canonical form
		if name == "time.Time.After" && len(args) == 2 {
			name, args = "time.Time.Before", []*V{args[1], args[0]}
		}
		if fn, ok := callee.(*types.Func); ok {
			if sv := r.valueSummary(fn, name, args, e); sv != nil {
				return sv
			}
		}
		return &V{Kind: "call", Name: name, Args: args, Obj: callee, Node: e}
	case *ast.IndexExpr:
		xv, iv := r.Val(x.X), r.Val(x.Index)
		// xs[i] inside `for i := range xs` is the range value of xs: one canonical form for both loop shapes
		if iv != nil && iv.Kind == "rangekey" && len(iv.Args) == 1 && iv.Args[0].Equal(xv) {
			return &V{Kind: "rangeval", Args: []*V{xv}, Node: e}
		}
		return &V{Kind: "index", Args: []*V{xv, iv}, Node: e}
	case *ast.StarExpr:
		return r.Val(x.X) // loads are transparent
	case *ast.UnaryExpr:
		if x.Op == token.AND {
			return r.Val(x.X)
		}
		return &V{Kind: "unop", Name: x.Op.String(), Args: []*V{r.Val(x.X)}, Node: e}
	case *ast.BinaryExpr:
		return &V{Kind: "op", Name: x.Op.String(), Args: []*V{r.Val(x.X), r.Val(x.Y)}, Node: e}
	case *ast.BasicLit:
		return &V{Kind: "lit", Name: x.Value, Node: e}
	case *ast.FuncLit:
		n := "?"
		if f := r.P.FuncOf[x]; f != nil {
			n = f.Name
		}
		return &V{Kind: "funclit", Name: n, Node: e}
	case *ast.TypeAssertExpr:
		return &V{Kind: "typeassert", Args: []*V{r.Val(x.X)}, Node: e}
	case *ast.CompositeLit:
		return &V{Kind: "comp", Name: typeString(info.TypeOf(x), modPath), Node: e}
	case *ast.SliceExpr:
		args := []*V{r.Val(x.X)}
		for _, b := range []ast.Expr{x.Low, x.High, x.Max} {
			if b != nil {
				args = append(args, r.Val(b))
			} else {
				args = append(args, &V{Kind: "lit", Name: "_"})
			}
		}
		return &V{Kind: "slice", Args: args, Node: e}
	}
	return &V{Kind: "opaque", Name: fmt.Sprintf("%T", e), Node: e}
}

func constName(c *types.Const) string {
	if c.Pkg() == nil {
		return c.Name()
	}
	s := shortPkg(c.Pkg().Path(), modPath)
	if s == "" {
		return c.Name()
	}
	return s + "." + c.Name()
}

// fieldOwnerName returns "Struct.field" for a field selection, Struct being the
// named type that declares the field (embedded promotion followed).
func fieldOwnerName(sel *types.Selection) string {
	t := sel.Recv()
	idx := sel.Index()
	owner := ""
	for i, ix := range idx {
		if p, ok := t.Underlying().(*types.Pointer); ok {
			t = p.Elem()
		}
		if p, ok := t.(*types.Pointer); ok {
			t = p.Elem()
		}
		switch n := t.(type) {
		case *types.Named:
			owner = n.Obj().Name()
			if n.Obj().Pkg() != nil {
				if sp := shortPkg(n.Obj().Pkg().Path(), modPath); sp != "" {
					owner = sp + "." + owner
				}
			}
		case *types.Alias:
			owner = n.Obj().Name()
		default:
			owner = "struct"
		}
		st, ok := t.Underlying().(*types.Struct)
		if !ok {
			return owner + "." + sel.Obj().Name()
		}
		f := st.Field(ix)
		if i == len(idx)-1 {
			return owner + "." + f.Name()
		}
		t = f.Type()
	}
	return owner + "." + sel.Obj().Name()
}

// CalleeName resolves the callee of a call expression to a canonical name.
func (p *Prog) CalleeName(info *types.Info, call *ast.CallExpr) string {
	switch c := typeutil.Callee(info, call).(type) {
	case *types.Func:
		return FuncName(c, modPath)
	case *types.Builtin:
		return "builtin." + c.Name()
	case *types.Var:
		if c.IsField() {
			if sel, ok := unparen(call.Fun).(*ast.SelectorExpr); ok {
				if s, ok := info.Selections[sel]; ok {
					return "field:" + fieldOwnerName(s)
				}
			}
		}
		return "var:" + c.Name()
	}
	return ""
}

// Calls lists call expressions inside node n (not crossing function literals
// unless deep), with their canonical callee names.
type CallSite struct {
	Call *ast.CallExpr
	Name string
	Fn   *Func
}

func (p *Prog) CallsIn(f *Func, n ast.Node, deep bool) []CallSite {
	var out []CallSite
	info := f.Info()
	ast.Inspect(n, func(x ast.Node) bool {
		if x == nil {
			return false
		}
		if fl, ok := x.(*ast.FuncLit); ok && x != n {
			if deep {
				if cf := p.FuncOf[fl]; cf != nil {
					out = append(out, p.CallsIn(cf, fl.Body, true)...)
				}
			}
			return false
		}
		if c, ok := x.(*ast.CallExpr); ok {
			name := p.CalleeName(info, c)
			if strings.HasPrefix(name, "var:") {
				// a local bound to a function or method value (push := q.Push; if urgent { push = q.UrgentPush }):
				// the call is a call of each function the local can hold
				if targets := p.funcLocalTargets(f, c.Fun); len(targets) > 0 {
					for _, t := range targets {
						out = append(out, CallSite{c, t, f})
					}
					return true
				}
			}
			out = append(out, CallSite{c, name, f})
		}
		return true
	})
	return out
}

// funcLocalTargets: the functions a func-valued local can hold, when every definition of it is a function or
// method value; nil otherwise (parameters, fields, closures).
func (p *Prog) funcLocalTargets(f *Func, fun ast.Expr) []string {
	id, ok := unparen(fun).(*ast.Ident)
	if !ok {
		return nil
	}
	obj, ok := f.Info().Uses[id].(*types.Var)
	if !ok || obj.IsField() {
		return nil
	}
	if p.inFuncTargets {
		return nil
	}
	p.inFuncTargets = true
	defer func() { p.inFuncTargets = false }()
	res := p.R(f)
	var out []string
	seen := map[string]bool{}
	n := 0
	for _, d := range res.Defs(obj) {
		if d.kind != "assign" || d.rhs == nil || d.idx >= 0 {
			return nil
		}
		n++
		v := res.Val(d.rhs)
		if v == nil || v.Kind != "func" || v.Name == "" {
			return nil
		}
		if !seen[v.Name] {
			seen[v.Name] = true
			out = append(out, v.Name)
		}
	}
	if n == 0 {
		return nil
	}
	sort.Strings(out)
	return out
}

// FuncCalls: calls in the body of f (deep: including nested literals).
func (p *Prog) FuncCalls(f *Func, deep bool) []CallSite { return p.CallsIn(f, f.Body, deep) }

// NodeCalls reports whether cfg node n contains an (unconditionally evaluated)
// call to one of names.
func (p *Prog) NodeCalls(f *Func, n ast.Node, names ...string) bool {
	for _, c := range p.CallsIn(f, n, false) {
		for _, nm := range names {
			if c.Name == nm {
				return true
			}
		}
	}
	return false
}

// valOfDef resolves a use through one definition site.
func (r *Resolver) valOfDef(d defSite, e ast.Expr) *V {
	if d.kind != "assign" || d.rhs == nil {
		return nil
	}
	// a definition that (transitively) refers to itself — x = append(x, ...) in a loop — is not unfolded
	if r.active == nil {
		r.active = map[ast.Node]bool{}
	}
	if r.active[d.node] {
		return nil
	}
	r.active[d.node] = true
	defer delete(r.active, d.node)
	info := r.F.Info()
	if d.idx < 0 {
		return r.Val(d.rhs)
	}
	rhs := unparen(d.rhs)
	if ix, ok := rhs.(*ast.IndexExpr); ok && d.n == 2 {
		if t := info.TypeOf(ix.X); t != nil {
			if _, isMap := t.Underlying().(*types.Map); isMap {
				k := "lookupval"
				if d.idx == 1 {
					k = "lookupok"
				}
				return &V{Kind: k, Args: []*V{r.Val(ix.X), r.Val(ix.Index)}, Node: e}
			}
		}
	}
	if ta, ok := rhs.(*ast.TypeAssertExpr); ok && d.n == 2 {
		k := "assertval"
		if d.idx == 1 {
			k = "assertok"
		}
		return &V{Kind: k, Name: typeString(info.TypeOf(ta.Type), modPath), Args: []*V{r.Val(ta.X)}, Node: e}
	}
	return &V{Kind: "tuple", Name: fmt.Sprint(d.idx), Args: []*V{r.Val(rhs)}, Node: e}
}

// reachingDef finds the unique definition of obj that reaches the use at id
// (flow-sensitive, within one function body; anything else is left unresolved).
func (r *Resolver) reachingDef(id *ast.Ident, obj types.Object) (defSite, bool) {
	if r.rdCache == nil {
		r.rdCache = map[*ast.Ident]*defSite{}
	}
	if d, ok := r.rdCache[id]; ok {
		if d == nil {
			return defSite{}, false
		}
		return *d, true
	}
	r.rdCache[id] = nil
	ds := r.defs[obj]
	if len(ds) < 2 || len(ds) > 12 {
		return defSite{}, false
	}
	uf := r.P.EnclosingFunc(id)
	if uf == nil {
		return defSite{}, false
	}
	g := r.P.Graph(uf)
	usePt, ok := g.Locate(id)
	if !ok {
		return defSite{}, false
	}
	type dp struct {
		d  defSite
		pt Point
	}
	var pts []dp
	for _, d := range ds {
		if d.node == nil || r.P.EnclosingFunc(d.node) != uf {
			return defSite{}, false // defined or modified in another function literal
		}
		if d.kind == "zero" {
			// var x T : located through its ValueSpec
		}
		pt, ok := g.Locate(d.node)
		if !ok {
			return defSite{}, false
		}
		pts = append(pts, dp{d, pt})
	}
	isDef := func(n ast.Node) bool {
		for _, p := range pts {
			if p.pt.B.Nodes[p.pt.I] == n {
				return true
			}
		}
		return false
	}
	var reaching []defSite
	for _, p := range pts {
		if p.pt == usePt {
			// use inside the defining statement (x = f(x)): the def does not reach its own rhs
			if !g.reach(p.pt.After(), usePt, nil, isDef) {
				continue
			}
		}
		if g.reach(p.pt.After(), usePt, nil, isDef) {
			reaching = append(reaching, p.d)
		}
	}
	if len(reaching) > 1 {
		// several definitions reach the use, but all of them are the same plain read (`score := S(p)` and a
		// later `score = S(p)`): the variable holds "a value of that expression" whichever one arrived
		same := true
		if _, basic := obj.Type().Underlying().(*types.Basic); !basic {
			same = false // identity matters for pointers, maps, slices: `out = copy(out)` in two branches are two objects
		}
		var first *V
		for _, d := range reaching {
			if d.kind != "assign" || d.rhs == nil || d.idx != reaching[0].idx || d.n != reaching[0].n {
				same = false
				break
			}
			v := r.Val(d.rhs)
			if v == nil || v.Kind == "var" || v.Kind == "opaque" || v.Kind == "unknown" {
				same = false
				break
			}
			if first == nil {
				first = v
			} else if !first.Equal(v) {
				same = false
				break
			}
		}
		if !same {
			return defSite{}, false
		}
	} else if len(reaching) != 1 {
		return defSite{}, false
	}
	d := reaching[0]
	r.rdCache[id] = &d
	return d, true
}

// SrcChain is one way a value can flow into an expression through local copies: Leaf is the canonical
// value of the originating expression ("zero" for a declaration without value), Nodes the defining
// statements passed on the way (outermost first).
type SrcChain struct {
	Leaf  *V
	Zero  bool
	Nodes []ast.Node
}

// Sources follows an identifier through all of its definitions (and theirs, for plain copies of other
// locals), so that a rule can state "the only values that reach X are …" independently of how many
// intermediate variables carry them.
func (r *Resolver) Sources(e ast.Expr) []SrcChain {
	var out []SrcChain
	seen := map[types.Object]bool{}
	var walk func(e ast.Expr, nodes []ast.Node, depth int)
	walk = func(e ast.Expr, nodes []ast.Node, depth int) {
		e = unparen(e)
		id, ok := e.(*ast.Ident)
		info := r.F.Info()
		var obj types.Object
		if ok {
			obj = info.Uses[id]
			if obj == nil {
				obj = info.Defs[id]
			}
		}
		v, isVar := obj.(*types.Var)
		if !ok || !isVar || v.IsField() || depth > 8 || len(r.defs[obj]) == 0 || seen[obj] {
			out = append(out, SrcChain{Leaf: r.Val(e), Nodes: nodes})
			return
		}
		seen[obj] = true
		defer delete(seen, obj)
		for _, d := range r.defs[obj] {
			ns := append(append([]ast.Node{}, nodes...), d.node)
			switch {
			case d.kind == "zero":
				out = append(out, SrcChain{Zero: true, Nodes: ns})
			case d.kind == "assign" && d.rhs != nil && d.idx < 0:
				walk(d.rhs, ns, depth+1)
			case d.kind == "assign" && d.rhs != nil:
				out = append(out, SrcChain{Leaf: r.valOfDef(d, e), Nodes: ns})
			default:
				out = append(out, SrcChain{Leaf: &V{Kind: "opaque", Name: d.kind, Node: d.node}, Nodes: ns})
			}
		}
	}
	walk(e, nil, 0)
	return out
}

// CopyRoot follows a local that is defined exactly once as a plain copy of another local
// (`topics := prune`, a parameter binding of an inlined helper) to the local it copies.
func (r *Resolver) CopyRoot(obj types.Object) types.Object {
	for i := 0; i < 8 && obj != nil; i++ {
		d, ok := r.SingleDef(obj)
		if !ok || d.kind != "assign" || d.rhs == nil || d.idx >= 0 {
			return obj
		}
		id, ok := unparen(d.rhs).(*ast.Ident)
		if !ok {
			return obj
		}
		src, ok := r.F.Info().Uses[id].(*types.Var)
		if !ok || src.IsField() || src == obj {
			return obj
		}
		obj = src
	}
	return obj
}

// valueSummary: a multi-statement private helper that no rule names and whose every return hands back the same
// expression over its parameters (`return gs.score.Score(p)` at the end of an extracted block) yields, as a value,
// that expression with the arguments substituted. The call's side effects are not affected by this: effect rules
// look at the call site, not at the value.
var summaryDepth atomic.Int32

func (r *Resolver) valueSummary(fn *types.Func, name string, args []*V, e ast.Expr) *V {
	f := r.P.Fn(name)
	if f == nil || f.Decl == nil || f.Body == nil || f.Pkg != r.F.Pkg || ast.IsExported(f.Decl.Name.Name) || f == r.F.Root() {
		return nil
	}
	if len(f.Body.List) < 2 || f.Type.Results == nil || len(f.Type.Results.List) != 1 || len(f.Type.Results.List[0].Names) > 1 {
		return nil
	}
	if isAnchor(f) {
		return nil
	}
	if summaryDepth.Load() > 2 {
		return nil
	}
	summaryDepth.Add(1)
	defer summaryDepth.Add(-1)
	// parameter objects in argument order (receiver first)
	var params []types.Object
	if f.Decl.Recv != nil {
		for _, fl := range f.Decl.Recv.List {
			for _, nm := range fl.Names {
				params = append(params, f.Info().Defs[nm])
			}
			if len(fl.Names) == 0 {
				params = append(params, nil)
			}
		}
	}
	for _, fl := range f.Type.Params.List {
		for _, nm := range fl.Names {
			params = append(params, f.Info().Defs[nm])
		}
		if len(fl.Names) == 0 {
			params = append(params, nil)
		}
	}
	if len(params) != len(args) {
		return nil
	}
	var common *V
	okAll := true
	returnsIn(f, func(rs *ast.ReturnStmt) {
		if len(rs.Results) != 1 {
			okAll = false
			return
		}
		v := r.P.R(f).Val(rs.Results[0])
		if v == nil || v.Kind == "var" || v.Kind == "opaque" {
			okAll = false
			return
		}
		if common == nil {
			common = v
		} else if !common.Equal(v) {
			okAll = false
		}
	})
	if !okAll || common == nil {
		return nil
	}
	var subst func(v *V) *V
	bad := false
	subst = func(v *V) *V {
		if v == nil {
			return nil
		}
		if v.Kind == "var" {
			for i, po := range params {
				if po != nil && v.Obj == po {
					return args[i]
				}
			}
			bad = true
			return v
		}
		if v.Kind == "funclit" || v.Kind == "rangekey" || v.Kind == "rangeval" {
			bad = true
			return v
		}
		nv := &V{Kind: v.Kind, Name: v.Name, Obj: v.Obj, Node: v.Node}
		for _, a := range v.Args {
			nv.Args = append(nv.Args, subst(a))
		}
		return nv
	}
	out := subst(common)
	if bad || out == nil {
		return nil
	}
	// a wrapper around another function value (yield := func(r RPC) bool { return skip(r) || yieldRPC(r) }) is not a
	// predicate: its calls stay calls
	if out.Has(func(x *V) bool {
		return x.Kind == "call" && (strings.HasPrefix(x.Name, "var:") || strings.HasPrefix(x.Name, "lit:") || strings.HasPrefix(x.Name, "dyn:") || strings.HasPrefix(x.Name, "field:"))
	}) {
		return nil
	}
	cp := *out
	cp.Node = e
	return &cp
}

// callReceiver: the receiver expression of a method call site — the selector operand, or, for a call through a local
// bound to method values (push := q.Push; push = q.UrgentPush), the operand all of those method values share.
func (p *Prog) callReceiver(cs CallSite) ast.Expr {
	if se, ok := unparen(cs.Call.Fun).(*ast.SelectorExpr); ok {
		return se.X
	}
	id, ok := unparen(cs.Call.Fun).(*ast.Ident)
	if !ok {
		return nil
	}
	obj, ok := cs.Fn.Info().Uses[id].(*types.Var)
	if !ok {
		return nil
	}
	res := p.R(cs.Fn)
	var recv ast.Expr
	var rv *V
	for _, d := range res.Defs(obj) {
		if d.kind != "assign" || d.rhs == nil {
			return nil
		}
		se, ok := unparen(d.rhs).(*ast.SelectorExpr)
		if !ok {
			return nil
		}
		v := res.Val(se.X)
		if rv == nil {
			recv, rv = se.X, v
		} else if !rv.Equal(v) {
			return nil
		}
	}
	return recv
}


// litSummary: the value of a call of a function literal bound to a local, when every return of the literal hands
// back the same expression over its parameters and captured variables (see valueSummary).
func (r *Resolver) litSummary(fl *ast.FuncLit, args []*V, e ast.Expr) *V {
	f := r.P.FuncOf[fl]
	if f == nil || f.Body == nil || f.Type.Results == nil || len(f.Type.Results.List) != 1 || len(f.Type.Results.List[0].Names) > 1 {
		return nil
	}
	if summaryDepth.Load() > 2 {
		return nil
	}
	summaryDepth.Add(1)
	defer summaryDepth.Add(-1)
	var params []types.Object
	for _, pl := range f.Type.Params.List {
		for _, nm := range pl.Names {
			params = append(params, f.Info().Defs[nm])
		}
		if len(pl.Names) == 0 {
			params = append(params, nil)
		}
	}
	if len(params) != len(args) {
		return nil
	}
	var common *V
	okAll := true
	nret := 0
	returnsIn(f, func(rs *ast.ReturnStmt) {
		nret++
		if len(rs.Results) != 1 {
			okAll = false
			return
		}
		v := r.P.R(f).Val(rs.Results[0])
		if v == nil || v.Kind == "var" || v.Kind == "opaque" {
			okAll = false
			return
		}
		if common == nil {
			common = v
		} else if !common.Equal(v) {
			okAll = false
		}
	})
	if !okAll || common == nil || nret == 0 {
		return nil
	}
	bad := false
	var subst func(v *V) *V
	subst = func(v *V) *V {
		if v == nil {
			return nil
		}
		if v.Kind == "var" {
			for i, po := range params {
				if po != nil && v.Obj == po {
					return args[i]
				}
			}
			// captured from the enclosing function: fine; a local of the literal: not expressible outside it
			if v.Obj != nil && v.Obj.Pos() >= fl.Pos() && v.Obj.Pos() <= fl.End() {
				bad = true
			}
			return v
		}
		if v.Kind == "funclit" {
			bad = true
			return v
		}
		nv := &V{Kind: v.Kind, Name: v.Name, Obj: v.Obj, Node: v.Node}
		for _, a := range v.Args {
			nv.Args = append(nv.Args, subst(a))
		}
		return nv
	}
	out := subst(common)
	if bad || out == nil {
		return nil
	}
	// a wrapper around another function value (yield := func(r RPC) bool { return skip(r) || yieldRPC(r) }) is not a
	// predicate: its calls stay calls
	if out.Has(func(x *V) bool {
		return x.Kind == "call" && (strings.HasPrefix(x.Name, "var:") || strings.HasPrefix(x.Name, "lit:") || strings.HasPrefix(x.Name, "dyn:") || strings.HasPrefix(x.Name, "field:"))
	}) {
		return nil
	}
	cp := *out
	cp.Node = e
	return &cp
}
