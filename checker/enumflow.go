package main

// T5: value-set propagation for small enums over go/cfg, with refinement on
// comparison edges. A set is a map of constant names; the pseudo element "?"
// stands for "some value not in the universe / unknown".

import (
	"go/ast"
	"go/token"
	"go/types"
	"sort"
	"strings"

	"golang.org/x/tools/go/cfg"
)

type ValSet map[string]bool

func (s ValSet) Copy() ValSet {
	o := ValSet{}
	for k := range s {
		o[k] = true
	}
	return o
}
func (s ValSet) String() string {
	var ks []string
	for k := range s {
		ks = append(ks, k)
	}
	sort.Strings(ks)
	return "{" + strings.Join(ks, ",") + "}"
}
func (s ValSet) SubsetOf(names ...string) bool {
	for k := range s {
		if !inSet(k, names...) {
			return false
		}
	}
	return true
}
func union(a, b ValSet) ValSet {
	o := a.Copy()
	for k := range b {
		o[k] = true
	}
	return o
}

type EnumFlow struct {
	P        *Prog
	F        *Func
	Universe []string                   // constant names
	TypeName string                     // e.g. "ValidationResult"
	Summary  func(callee string) ValSet // return sets of known callees; nil => top
	Params   map[string]ValSet          // declared input sets of parameters (by name); default top
	in       map[*cfg.Block]map[string]ValSet
	g        *Graph
}

func (ef *EnumFlow) top() ValSet {
	s := ValSet{"?": true}
	for _, u := range ef.Universe {
		s[u] = true
	}
	return s
}

// key identifies a tracked location: local variable objects by name+pos, other
// expressions (switch tags, call results) by canonical value string.
func (ef *EnumFlow) keyOf(e ast.Expr) string {
	e = unparen(e)
	if id, ok := e.(*ast.Ident); ok {
		obj := ef.F.Info().Uses[id]
		if obj == nil {
			obj = ef.F.Info().Defs[id]
		}
		if v, ok := obj.(*types.Var); ok && !v.IsField() {
			return "var:" + v.Name() + "@" + ef.P.Fset.Position(v.Pos()).String()
		}
	}
	return ""
}

func (ef *EnumFlow) isEnumTyped(e ast.Expr) bool {
	t := ef.F.Info().TypeOf(e)
	if t == nil {
		return false
	}
	return typeString(t, modPath) == ef.TypeName
}

func (ef *EnumFlow) eval(e ast.Expr, st map[string]ValSet) ValSet {
	e = unparen(e)
	if tv, ok := ef.F.Info().Types[e]; ok && tv.Value != nil {
		// a constant: named?
		var c *types.Const
		switch x := e.(type) {
		case *ast.Ident:
			c, _ = ef.F.Info().Uses[x].(*types.Const)
		case *ast.SelectorExpr:
			c, _ = ef.F.Info().Uses[x.Sel].(*types.Const)
		}
		if c != nil && inSet(constName(c), ef.Universe...) {
			return ValSet{constName(c): true}
		}
		return ValSet{"?": true}
	}
	if k := ef.keyOf(e); k != "" {
		if s, ok := st[k]; ok {
			return s
		}
		if id, ok := e.(*ast.Ident); ok {
			if s, ok := ef.Params[id.Name]; ok {
				return s
			}
		}
		return ef.top()
	}
	if call, ok := e.(*ast.CallExpr); ok {
		if ef.Summary != nil {
			if s := ef.Summary(ef.P.CalleeName(ef.F.Info(), call)); s != nil {
				return s
			}
		}
	}
	return ef.top()
}

func (ef *EnumFlow) transfer(n ast.Node, st map[string]ValSet) map[string]ValSet {
	assign := func(lhs ast.Expr, rhs ast.Expr) {
		k := ef.keyOf(lhs)
		if k == "" || !ef.isEnumTyped(lhs) {
			return
		}
		if rhs == nil {
			st[k] = ef.top()
			return
		}
		st[k] = ef.eval(rhs, st)
	}
	switch s := n.(type) {
	case *ast.AssignStmt:
		if s.Tok != token.ASSIGN && s.Tok != token.DEFINE {
			return st
		}
		st = copyState(st)
		if len(s.Lhs) == len(s.Rhs) {
			for i := range s.Lhs {
				assign(s.Lhs[i], s.Rhs[i])
			}
		} else {
			for i := range s.Lhs {
				assign(s.Lhs[i], nil)
			}
		}
	case *ast.ValueSpec:
		st = copyState(st)
		for i, id := range s.Names {
			if i < len(s.Values) {
				assign(id, s.Values[i])
			} else if ef.isEnumTyped(id) {
				// zero value
				st[ef.keyOf(id)] = ValSet{"?": true}
			}
		}
	}
	return st
}

func copyState(st map[string]ValSet) map[string]ValSet {
	o := map[string]ValSet{}
	for k, v := range st {
		o[k] = v
	}
	return o
}

// refine applies the facts of an edge.
func (ef *EnumFlow) refine(e Edge, st map[string]ValSet) map[string]ValSet {
	facts := ef.g.EdgeFacts(e)
	if len(facts) == 0 {
		return st
	}
	st = copyState(st)
	// disjunctive facts: (X && Y) false with one side definitely true => the other is false;
	// (X || Y) true with one side definitely false => the other is true.
	for _, f := range append([]Fact{}, facts...) {
		be, ok := unparen(f.E).(*ast.BinaryExpr)
		if !ok {
			continue
		}
		if (be.Op == token.LAND && !f.Truth) || (be.Op == token.LOR && f.Truth) {
			want := be.Op == token.LOR // value the surviving side must take
			for _, pair := range [][2]ast.Expr{{be.X, be.Y}, {be.Y, be.X}} {
				if v, known := ef.definite(pair[0], st); known && v != want {
					factsOf(pair[1], want, &facts)
				}
			}
		}
	}
	for _, f := range facts {
		be, ok := unparen(f.E).(*ast.BinaryExpr)
		if !ok || (be.Op != token.EQL && be.Op != token.NEQ) {
			continue
		}
		x, y := be.X, be.Y
		cs := ef.eval(y, st)
		if len(cs) != 1 || cs["?"] {
			x, y = y, x
			cs = ef.eval(y, st)
			if len(cs) != 1 || cs["?"] {
				continue
			}
		}
		var cname string
		for k := range cs {
			cname = k
		}
		key := ef.keyOf(x)
		if key == "" {
			key = "expr:" + ef.P.R(ef.F).Val(x).String()
		}
		cur, ok := st[key]
		if !ok {
			cur = ef.eval(x, st)
		}
		eq := (be.Op == token.EQL) == f.Truth
		if eq {
			if cur[cname] {
				st[key] = ValSet{cname: true}
			} else {
				st[key] = ValSet{} // infeasible
			}
		} else {
			n := cur.Copy()
			delete(n, cname)
			st[key] = n
		}
	}
	return st
}

func (ef *EnumFlow) Run() {
	ef.g = ef.P.Graph(ef.F)
	ef.in = map[*cfg.Block]map[string]ValSet{}
	entry := ef.g.C.Blocks[0]
	ef.in[entry] = map[string]ValSet{}
	work := []*cfg.Block{entry}
	for iter := 0; len(work) > 0 && iter < 10000; iter++ {
		b := work[len(work)-1]
		work = work[:len(work)-1]
		st := ef.in[b]
		for _, n := range b.Nodes {
			st = ef.transfer(n, st)
		}
		for si, s := range b.Succs {
			ns := ef.refine(Edge{b, si}, st)
			// infeasible edge (some refined set empty)?
			infeasible := false
			for _, v := range ns {
				if len(v) == 0 {
					infeasible = true
				}
			}
			if infeasible {
				continue
			}
			old, had := ef.in[s]
			if !had {
				ef.in[s] = ns
				work = append(work, s)
				continue
			}
			merged, changed := mergeStates(old, ns, ef)
			if changed {
				ef.in[s] = merged
				work = append(work, s)
			}
		}
	}
}

func mergeStates(a, b map[string]ValSet, ef *EnumFlow) (map[string]ValSet, bool) {
	out := map[string]ValSet{}
	changed := false
	for k, va := range a {
		vb, ok := b[k]
		if !ok {
			if strings.HasPrefix(k, "expr:") {
				changed = true // refinement of an expression is lost at the join
				continue
			}
			vb = ef.top()
		}
		u := union(va, vb)
		if len(u) != len(va) {
			changed = true
		}
		out[k] = u
	}
	for k, vb := range b {
		if _, ok := a[k]; !ok && !strings.HasPrefix(k, "expr:") {
			// variable known on one side only: unknown on the other
			out[k] = union(vb, ef.top())
			changed = true
		}
	}
	return out, changed
}

// At returns the value set of expression e just before the CFG node containing at.
func (ef *EnumFlow) At(at ast.Node, e ast.Expr) (ValSet, bool) {
	pt, ok := ef.g.Locate(at)
	if !ok {
		return nil, false
	}
	st, reachable := ef.in[pt.B]
	if !reachable {
		return ValSet{}, true
	}
	for i := 0; i < pt.I; i++ {
		st = ef.transfer(pt.B.Nodes[i], st)
	}
	if k := ef.keyOf(e); k == "" {
		if s, ok := st["expr:"+ef.P.R(ef.F).Val(e).String()]; ok {
			return s, true
		}
	}
	return ef.eval(e, st), true
}

// After is At for the program point just after node at.
func (ef *EnumFlow) After(at ast.Node, e ast.Expr) (ValSet, bool) {
	pt, ok := ef.g.Locate(at)
	if !ok {
		return nil, false
	}
	st, reachable := ef.in[pt.B]
	if !reachable {
		return ValSet{}, true
	}
	for i := 0; i <= pt.I && i < len(pt.B.Nodes); i++ {
		st = ef.transfer(pt.B.Nodes[i], st)
	}
	return ef.eval(e, st), true
}

// BlockReachable reports whether the flow reaches the block containing n (value-feasibly).
func (ef *EnumFlow) NodeReachable(n ast.Node) bool {
	pt, ok := ef.g.Locate(n)
	if !ok {
		return false
	}
	_, r := ef.in[pt.B]
	return r
}

// ReturnSet is the union of the value sets of all returned expressions (result index idx).
func (ef *EnumFlow) ReturnSet(idx int) ValSet {
	out := ValSet{}
	returnsIn(ef.F, func(r *ast.ReturnStmt) {
		if idx >= len(r.Results) {
			out = union(out, ef.top())
			return
		}
		if !ef.NodeReachable(r) {
			return
		}
		s, _ := ef.At(r, r.Results[idx])
		out = union(out, s)
	})
	return out
}

// definite evaluates a boolean expression over the current sets when its value is forced.
func (ef *EnumFlow) definite(e ast.Expr, st map[string]ValSet) (val, known bool) {
	e = unparen(e)
	switch x := e.(type) {
	case *ast.UnaryExpr:
		if x.Op == token.NOT {
			v, k := ef.definite(x.X, st)
			return !v, k
		}
	case *ast.BinaryExpr:
		switch x.Op {
		case token.LAND:
			a, ka := ef.definite(x.X, st)
			b, kb := ef.definite(x.Y, st)
			if (ka && !a) || (kb && !b) {
				return false, true
			}
			return true, ka && kb
		case token.LOR:
			a, ka := ef.definite(x.X, st)
			b, kb := ef.definite(x.Y, st)
			if (ka && a) || (kb && b) {
				return true, true
			}
			return false, ka && kb
		case token.EQL, token.NEQ:
			if !ef.isEnumTyped(x.X) && !ef.isEnumTyped(x.Y) {
				return false, false
			}
			a, b := ef.eval(x.X, st), ef.eval(x.Y, st)
			if k := "expr:" + ef.P.R(ef.F).Val(x.X).String(); ef.keyOf(x.X) == "" {
				if s, ok := st[k]; ok {
					a = s
				}
			}
			eq, known := false, false
			if len(a) == 1 && len(b) == 1 && !a["?"] && !b["?"] {
				for k := range a {
					eq, known = b[k], true
				}
			} else {
				disjoint := true
				for k := range a {
					if b[k] {
						disjoint = false
					}
				}
				if disjoint {
					eq, known = false, true
				}
			}
			if !known {
				return false, false
			}
			if x.Op == token.NEQ {
				return !eq, true
			}
			return eq, true
		}
	}
	return false, false
}

// InfeasibleEdges lists edges out of reached blocks that no value-feasible execution takes.
func (ef *EnumFlow) InfeasibleEdges() cutSet {
	cut := cutSet{}
	for _, b := range ef.g.C.Blocks {
		st, ok := ef.in[b]
		if !ok {
			for si := range b.Succs {
				cut[Edge{b, si}] = true
			}
			continue
		}
		for _, n := range b.Nodes {
			st = ef.transfer(n, st)
		}
		for si := range b.Succs {
			ns := ef.refine(Edge{b, si}, st)
			for _, v := range ns {
				if len(v) == 0 {
					cut[Edge{b, si}] = true
				}
			}
		}
	}
	return cut
}
