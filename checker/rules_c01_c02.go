package main

import (
	"go/ast"
	"go/token"
	"go/types"
	"strings"
)

func init() {
	register(&Property{ID: "C01", Run: runC01,
		Explain: "Structural necessary conditions of C01 decided for all inputs and schedules: the local delivery fan-out wiring. (R01.1) publishMessage/publishMessageBatch reach notifySubs for every message and the router's Publish on every non-local path; (R01.2) notifySubs visits every subscription of the topic (no early exit) and attempts the channel send in each iteration not excluded by the subscription's own filter; (R01.3) processLoop dispatches sendMsg to publishMessage and incoming RPCs to handleIncomingRPC, which pushes every message that passed shouldPush and always hands the RPC to the router on the AcceptAll/AcceptControl arms; (R01.4) the hello packet and announce loops visit every topic / every peer; (R01.5) the batch hand-off transfers ownership: MessageBatch.take returns the accumulated slice, resets the field to nil / a fresh slice (never a re-slice that keeps the backing array a later add() would overwrite), and take/add run under the batch mutex. Also re-evaluated here as shared obligations, because network-wide delivery rests on them: interest announcements and hello packets (C05), recipient inclusion (C06 R06.6/R06.3/R06.1), outgoing size gates and field exhaustiveness (C11 R11.1-R11.3), gossip repair wiring (C17 B4/B6/B7/SCHED/WIRE). NOT decided: overlay convergence, mesh settling, that gossip actually repairs losses, exactly-once across the network (liveness over topologies and schedules).",
		Assume:  []string{"go/cfg models control flow of the analysed functions faithfully", "router convergence and network delivery are outside the static claim"},
		Mutants: []Mutant{
			{Name: "batch-take-keeps-backing-array", File: "messagebatch.go", Old: "\tmb.messages = nil\n", New: "\tmb.messages = mb.messages[:0]\n", Expect: "R01.5"},
			{Name: "notifySubs-return-on-slow-subscriber", File: "pubsub.go", Old: "\t\t\tp.tracer.UndeliverableMessage(msg)\n", New: "\t\t\tp.tracer.UndeliverableMessage(msg)\n\t\t\treturn\n", Expect: "R01.2"},
			{Name: "publish-skip-router", File: "pubsub.go", Old: "\tif !msg.Local {\n\t\tp.rt.Publish(msg)\n\t}", New: "\tif !msg.Local && len(p.mySubs[msg.GetTopic()]) > 0 {\n\t\tp.rt.Publish(msg)\n\t}", Expect: "R01.1"},
			{Name: "push-loop-return", File: "pubsub.go", Old: "\t\tfor _, msg := range toPush {\n\t\t\tp.pushMsg(msg)\n\t\t}", New: "\t\tfor i, msg := range toPush {\n\t\t\tif i > 64 {\n\t\t\t\tbreak\n\t\t\t}\n\t\t\tp.pushMsg(msg)\n\t\t}", Expect: "R01.3"},
			{Name: "hello-skip-relays", File: "comm.go", Old: "\tfor t := range p.myRelays {\n\t\tsubscriptions[t] = true\n\t}", New: "\tfor t := range p.myRelays {\n\t\tif len(p.mySubs) > 0 {\n\t\t\tbreak\n\t\t}\n\t\tsubscriptions[t] = true\n\t}", Expect: "R01.4"},
		}})
	register(&Property{ID: "C02", Run: runC02,
		Explain: "Structural necessary conditions of C02: every path to a user validator or to local delivery passes a test-and-set of the seen cache that returned fresh, and that test-and-set is atomic. (R02.1) in validation.validate the fresh edge of markSeen dominates every validator invocation, the async hand-off and onValid; validator entry points are referenced only inside that region; (R02.2) delivery ownership chain notifySubs <- publishMessage(+Batch) <- pushMsg(after markSeen fresh)/sendMsg arm; sends on sendMsg only in sendMsgBlocking, referenced only by the validation worker and Topic.Publish after a nil error from the local validation chain; (R02.3) each TimeCache.Add/Has accesses the map under its lock (exclusive for writes) and Add returns fresh only on the key-absent edge; (R02.4) entries are deleted only by sweep under expiry.Before(now) and stored only as now+ttl; (R02.6) strategy semantics: the first-seen cache sets an expiry only on the key-absent edge, the last-seen cache refreshes it on every Add and on every Has of a known ID; (R02.5) the memoised message ID is accessed under the generator's mutex. (R02.7) the instance's message-ID generator is created once by the constructor and never replaced (options configure it in place); R01.5 (batch ownership) is re-evaluated here. NOT decided: TTL arithmetic over time, injectivity of message-ID functions.",
		Assume:  []string{"sync.Mutex/RWMutex semantics", "time.Now().Add(ttl) is the only expiry constructor (checked syntactically)"},
		Mutants: []Mutant{
			{Name: "idfn-option-replaces-generator", File: "pubsub.go", Old: "\t\tp.idGen.Default = fn\n", New: "\t\tp.idGen = newMsgIdGenerator()\n\t\tp.idGen.Default = fn\n", Expect: "R02.7"},
			{Name: "validate-ignore-markSeen", File: "validation.go", Old: "\tif !v.p.markSeen(id) {\n\t\tv.tracer.DuplicateMessage(msg)\n\t\treturn dupeErr{}\n\t} else {", New: "\tif !v.p.markSeen(id) && !synchronous {\n\t\tv.tracer.DuplicateMessage(msg)\n\t\treturn dupeErr{}\n\t} else {", Expect: "R02.1"},
			{Name: "pushMsg-no-markSeen", File: "pubsub.go", Old: "\tif p.markSeen(id) {\n\t\tp.publishMessage(msg)\n\t}", New: "\tif p.markSeen(id) || msg.Local {\n\t\tp.publishMessage(msg)\n\t}", Expect: "R02.2"},
			{Name: "firstseen-add-rlock", File: "timecache/first_seen_cache.go", Old: "func (tc *FirstSeenCache) Add(s string) bool {\n\ttc.lk.Lock()\n\tdefer tc.lk.Unlock()", New: "func (tc *FirstSeenCache) Add(s string) bool {\n\ttc.lk.RLock()\n\tdefer tc.lk.RUnlock()", Expect: "R02.3"},
			{Name: "firstseen-add-split-section", File: "timecache/first_seen_cache.go", Old: "\t_, ok := tc.m[s]\n\tif ok {\n\t\treturn false\n\t}\n\n\ttc.m[s] = time.Now().Add(tc.ttl)", New: "\t_, ok := tc.m[s]\n\tif ok {\n\t\treturn false\n\t}\n\ttc.lk.Unlock()\n\texp := time.Now().Add(tc.ttl)\n\ttc.lk.Lock()\n\ttc.m[s] = exp", Expect: "R02.3"},
			{Name: "lastseen-add-always-fresh", File: "timecache/last_seen_cache.go", Old: "\treturn !ok\n", New: "\treturn !ok || len(tc.m) > 1<<20\n", Expect: "R02.3"},
			{Name: "lastseen-add-no-refresh", File: "timecache/last_seen_cache.go", Old: "\t_, ok := tc.m[s]\n\ttc.m[s] = time.Now().Add(tc.ttl)\n\n\treturn !ok", New: "\tif _, ok := tc.m[s]; ok {\n\t\treturn false\n\t}\n\ttc.m[s] = time.Now().Add(tc.ttl)\n\treturn true", Expect: "R02.6"},
			{Name: "firstseen-has-refreshes", File: "timecache/first_seen_cache.go", Old: "\ttc.lk.RLock()\n\tdefer tc.lk.RUnlock()\n\n\t_, ok := tc.m[s]\n\treturn ok", New: "\ttc.lk.Lock()\n\tdefer tc.lk.Unlock()\n\n\t_, ok := tc.m[s]\n\tif ok {\n\t\ttc.m[s] = time.Now().Add(tc.ttl)\n\t}\n\treturn ok", Expect: "R02.6"},
			{Name: "sweep-no-expiry-test", File: "timecache/util.go", Old: "\t\tif expiry.Before(now) {", New: "\t\tif expiry.Before(now) || len(m) > 1<<16 {", Expect: "R02.4"},
			{Name: "publish-dup-republish", File: "topic.go", Old: "\t\tif errors.Is(err, dupeErr{}) {\n\t\t\t// If it was a duplicate, we return nil to indicate success.\n\t\t\t// Semantically the message was published by us or someone else.\n\t\t\treturn nil\n\t\t}\n\t\treturn err\n\t}\n\treturn t.p.val.sendMsgBlocking(msg)", New: "\t\tif errors.Is(err, dupeErr{}) && msg != nil {\n\t\t\treturn t.p.val.sendMsgBlocking(msg)\n\t\t}\n\t\treturn err\n\t}\n\treturn t.p.val.sendMsgBlocking(msg)", Expect: "R02.2"},
			{Name: "midgen-unlocked", File: "midgen.go", Old: "\tm.Lock()\n\tdefer m.Unlock()\n\tif msg.ID != \"\" {", New: "\tif msg.ID != \"\" {", Expect: "R02.5"},
		}})
}

const (
	fnNotifySubs    = "(*PubSub).notifySubs"
	fnPublishMsg    = "(*PubSub).publishMessage"
	fnPublishBatch  = "(*PubSub).publishMessageBatch"
	fnProcessLoop   = "(*PubSub).processLoop"
	fnHandleRPC     = "(*PubSub).handleIncomingRPC"
	fnPushMsg       = "(*PubSub).pushMsg"
	fnShouldPush    = "(*PubSub).shouldPush"
	fnMarkSeen      = "(*PubSub).markSeen"
	fnValidate      = "(*validation).validate"
	fnValidateLocal = "(*validation).ValidateLocal"
	fnSendBlocking  = "(*validation).sendMsgBlocking"
	rtPublish       = "PubSubRouter.Publish"
	rtHandleRPC     = "PubSubRouter.HandleRPC"
	rtAcceptFrom    = "PubSubRouter.AcceptFrom"
)

func isMsgLocal(v *V) bool { return v.IsField("Message.Local") }

func runC01(c *RuleCtx) {
	p := c.P
	// R01.1 publishMessage
	if f := c.MustFn("R01.1", fnPublishMsg); f != nil {
		ok, why := p.MustCallFromEntry(f, fnNotifySubs)
		c.Check(ok, "R01.1", f.Name, "notifySubs on every path", f.Decl, why, why)
		g := p.Graph(f)
		localTrue := g.AtomEdges(AtomBool("msg.Local", isMsgLocal), true)
		cut := cutSet{}
		for _, e := range localTrue {
			cut[e] = true
		}
		ok2, bad := g.MustPass(g.Entry(), PassOpts{Cut: cut}, p.callPred(f, rtPublish))
		d := "every path on which msg.Local is not established true calls the router's Publish"
		if !ok2 {
			d = "a non-local path reaches an exit without rt.Publish"
			if bad != nil && len(bad.Nodes) > 0 {
				d += " (" + p.Pos(bad.Nodes[len(bad.Nodes)-1]) + ")"
			}
		}
		c.Check(ok2, "R01.1", f.Name, "rt.Publish on every non-local path", f.Decl, d, d)
	}
	if f := c.MustFn("R01.1", fnPublishBatch); f != nil {
		rs := p.LoopsOver(f, func(v *V) bool { return v.IsField("messageBatchAndPublishOptions.messages") })
		if len(rs) == 0 {
			c.Undecided("R01.1", f.Name, "range over batch messages", f.Decl, "no range over the batch's messages found")
		}
		// at least one exhaustive loop over the batch delivers every message and lies on every path
		good := false
		why := "no loop over the batch calls notifySubs in every iteration"
		var site ast.Node = f.Decl
		for _, r := range rs {
			ok, w := p.LoopBodyMust(f, r, nil, p.callPred(f, fnNotifySubs))
			if !ok {
				continue
			}
			g := p.Graph(f)
			// the loop (range or index form) is entered on every path: its first evaluated part is a must-pass node
			var first ast.Node
			if pt, located := g.Locate(r); located && pt.I < len(pt.B.Nodes) {
				first = pt.B.Nodes[pt.I]
			}
			okr, _ := g.MustPass(g.Entry(), PassOpts{}, func(n ast.Node) bool { return first != nil && n == first })
			if okr {
				good, why, site = true, w+"; the loop is on every path from entry", r
			} else {
				why = "the delivery loop is skipped on some path"
			}
		}
		c.Check(good, "R01.1", f.Name, "notifySubs for every batch message", site, why, why)
	}
	// R01.2 notifySubs
	if f := c.MustFn("R01.2", fnNotifySubs); f != nil {
		rs := p.RangesOver(f, func(v *V) bool {
			return v.Has(func(x *V) bool { return x.IsField("PubSub.mySubs") })
		})
		if len(rs) != 1 {
			c.Undecided("R01.2", f.Name, "range over subscriptions", f.Decl, "expected exactly one range over p.mySubs[topic]")
		}
		for _, r := range rs {
			g := p.Graph(f)
			// iterations excluded by the subscription's own filter are outside the obligation
			filt := g.AtomEdges(AtomBool("f.filter(msg)", isCallTo("field:Subscription.filter")), false)
			ok, why := p.LoopBodyMust(f, r, filt, func(n ast.Node) bool {
				s, ok := n.(*ast.SendStmt)
				return ok && p.R(f).Val(s.Chan).IsField("Subscription.ch")
			})
			c.Check(ok, "R01.2", f.Name, "send attempted for every subscription", r, why, why)
			// loop reached unconditionally
			okr, _ := g.MustPass(g.Entry(), PassOpts{}, func(n ast.Node) bool { return n == ast.Node(r.X) })
			c.Check(okr, "R01.2", f.Name, "subscription loop on every path", r, "the loop is on every path from entry", "a path returns before the delivery loop")
		}
	}
	// R01.3 processLoop dispatch
	if f := c.MustFn("R01.3", fnProcessLoop); f != nil {
		checkSelectArm(c, "R01.3", f, "PubSub.sendMsg", fnPublishMsg)
		checkSelectArm(c, "R01.3", f, "PubSub.sendMessageBatch", fnPublishBatch)
		// incoming arm: on in.kind == incomingKindRPC
		g := p.Graph(f)
		a := AtomCmp("in.kind == incomingKindRPC", isFieldOf("incomingUnion.kind"), "==", isConstV("incomingKindRPC"))
		edges := g.AtomEdges(a, true)
		if len(edges) == 0 {
			c.Undecided("R01.3", f.Name, "incoming RPC arm", f.Decl, "no branch on in.kind == incomingKindRPC")
		}
		for _, e := range edges {
			_, _, loopHead := forLoopOf(p, g, f)
			ok, _ := g.MustPass(EdgeTarget(e), PassOpts{Until: loopHead}, p.callPred(f, fnHandleRPC))
			c.Check(ok, "R01.3", f.Name, "incoming RPC -> handleIncomingRPC", e.From.Nodes[len(e.From.Nodes)-1], "the RPC arm always calls handleIncomingRPC before the next iteration", "the RPC arm can finish without calling handleIncomingRPC")
		}
	}
	if f := c.MustFn("R01.3", fnHandleRPC); f != nil {
		g := p.Graph(f)
		isAccept := func(k string) Atom {
			return AtomCmp("AcceptFrom == "+k, isCallTo(rtAcceptFrom), "==", isConstV(k))
		}
		for _, k := range []string{"AcceptAll", "AcceptControl"} {
			edges := g.AtomEdges(isAccept(k), true)
			if len(edges) == 0 {
				c.Undecided("R01.3", f.Name, k+" arm", f.Decl, "switch arm not found")
				continue
			}
			for _, e := range edges {
				ok, _ := g.MustPass(EdgeTarget(e), PassOpts{}, p.callPred(f, rtHandleRPC))
				c.Check(ok, "R01.3", f.Name, k+" arm reaches rt.HandleRPC", e.From.Nodes[len(e.From.Nodes)-1], "every path of the arm hands the RPC to the router", "a path of the arm returns without rt.HandleRPC")
			}
		}
		// push loop
		var pushLoops []*ast.RangeStmt
		for _, cs := range p.Sites(f, false, fnPushMsg) {
			loops := p.EnclosingLoops(cs.Call)
			if len(loops) == 0 {
				c.Bad("R01.3", f.Name, "pushMsg loop", cs.Call, "pushMsg is not called from a loop over the accepted messages")
				continue
			}
			if r, ok := loops[0].(*ast.RangeStmt); ok {
				pushLoops = append(pushLoops, r)
			}
		}
		if len(pushLoops) == 0 {
			c.Undecided("R01.3", f.Name, "pushMsg loop", f.Decl, "no call of pushMsg in handleIncomingRPC")
		}
		for _, r := range pushLoops {
			ok, why := p.LoopBodyMust(f, r, nil, p.callPred(f, fnPushMsg))
			c.Check(ok, "R01.3", f.Name, "pushMsg for every accepted message", r, why, why)
			// the ranged slice is the one shouldPush-approved messages were appended to
			rv := p.R(f).Val(r.X)
			okSrc := false
			for _, sp := range p.Sites(f, false, fnShouldPush) {
				// append(toPush, msg) dominated by shouldPush true
				_ = sp
			}
			inspectNoLit(f.Body, func(n ast.Node) bool {
				as, ok := n.(*ast.AssignStmt)
				if !ok || len(as.Lhs) != 1 || len(as.Rhs) != 1 {
					return true
				}
				lv := p.R(f).Val(as.Lhs[0])
				call, isCall := as.Rhs[0].(*ast.CallExpr)
				if isCall && lv.Equal(rv) && p.CalleeName(f.Info(), call) == "builtin.append" {
					okSrc = true
				}
				return true
			})
			c.Check(okSrc, "R01.3", f.Name, "push loop ranges over the appended slice", r, "the loop ranges over the slice the approved messages are appended to", "the loop does not range over the slice built from shouldPush-approved messages")
			// the loop is reached on every path of the AcceptAll arm
			for _, e := range g.AtomEdges(isAccept("AcceptAll"), true) {
				okr, _ := g.MustPass(EdgeTarget(e), PassOpts{}, func(n ast.Node) bool { return n == ast.Node(r.X) })
				c.Check(okr, "R01.3", f.Name, "push loop on every AcceptAll path", r, "reached on every path of the arm", "a path of the AcceptAll arm skips the push loop")
			}
		}
	}
	// R01.4 hello packet and announce
	if f := c.MustFn("R01.4", "(*PubSub).getHelloPacket"); f != nil {
		for _, fld := range []string{"PubSub.mySubs", "PubSub.myRelays"} {
			rs := p.RangesOver(f, isFieldOf(fld))
			if len(rs) == 0 {
				c.Bad("R01.4", f.Name, "range over "+fld, f.Decl, "the hello packet no longer enumerates "+fld)
				continue
			}
			for _, r := range rs {
				early, n := LoopHasEarlyExit(r)
				d := "the loop visits every entry"
				if early {
					d = "the loop can be left early at " + p.Pos(n)
				}
				c.Check(!early, "R01.4", f.Name, "range over "+fld+" exhaustive", r, d, d)
			}
		}
		// the final loop appends one SubOpts per collected topic
		for _, r := range p.RangesOver(f, func(v *V) bool { return v.Kind == "call" && v.Name == "builtin.make" }) {
			ok, why := p.LoopBodyMust(f, r, nil, func(n ast.Node) bool {
				as, ok := n.(*ast.AssignStmt)
				return ok && len(as.Lhs) == 1 && p.R(f).Val(as.Lhs[0]).IsField("pb.RPC.Subscriptions")
			})
			c.Check(ok, "R01.4", f.Name, "one subscription entry per collected topic", r, why, why)
		}
	}
	if f := c.MustFn("R01.4", "(*PubSub).announce"); f != nil {
		rs := p.RangesOver(f, isFieldOf("PubSub.peers"))
		if len(rs) != 1 {
			c.Undecided("R01.4", f.Name, "range over peers", f.Decl, "expected one range over p.peers")
		}
		for _, r := range rs {
			ok, why := p.LoopBodyMust(f, r, nil, p.callPred(f, "(*rpcQueue).Push", "(*rpcQueue).UrgentPush"))
			c.Check(ok, "R01.4", f.Name, "announcement pushed to every peer", r, why, why)
		}
	}
	// C01 composes per-node necessary conditions decided under other properties; the ones a correct
	// network-wide delivery directly rests on are re-evaluated here (shared obligations, same keys):
	// interest announcements and hello packets (C05), recipient inclusion (C06 R06.6/R06.3), the size
	// gates and field exhaustiveness of outgoing RPCs (C11), gossip repair wiring (C17 B4/B6/B7/SCHED/WIRE).
	share := func(run func(*RuleCtx), keep func(o *Obligation) bool) {
		sub := &RuleCtx{P: c.P, Prop: c.Prop, Min: map[string]int{}}
		run(sub)
		for _, o := range sub.Obs {
			if keep(o) {
				c.Obs = append(c.Obs, o)
			}
		}
	}
	share(runC05, func(o *Obligation) bool { return true })
	share(runC06, func(o *Obligation) bool { return o.Rule == "R06.6" || o.Rule == "R06.3" || o.Rule == "R06.1" })
	share(runC11, func(o *Obligation) bool {
		return o.Rule == "R11.3" || o.Rule == "R11.3-pre" || o.Rule == "R11.1" || o.Rule == "R11.2"
	})
	share(runC17, func(o *Obligation) bool {
		return inSet(o.Rule, "B4", "B6", "B7", "SCHED", "WIRE")
	})
	c.Min["R05.2"] = 19
	c.Min["R06.6"] = 5
	c.Min["R11.3"] = 4
	c.Min["SCHED"] = 30
	// R01.5 batch hand-off transfers ownership: take() returns the accumulated slice and must not keep a reference
	// to its backing array (a later add() would overwrite messages of the batch in flight), and both sides run
	// under the batch mutex
	if f := c.MustFn("R01.5", "(*MessageBatch).take"); f != nil {
		nRet := 0
		returnsIn(f, func(r *ast.ReturnStmt) {
			if len(r.Results) != 1 {
				return
			}
			nRet++
			v := p.R(f).Val(r.Results[0])
			c.Check(v.IsField("MessageBatch.messages"), "R01.5", f.Name, "returns the accumulated messages", r, v.String(), "take returns "+v.String()+" instead of the accumulated batch")
		})
		if nRet == 0 {
			c.Undecided("R01.5", f.Name, "return", f.Decl, "no return of the batch")
		}
		nSt := 0
		for _, s := range p.StoresTo("MessageBatch.messages") {
			if s.Fn != f {
				continue
			}
			nSt++
			rv := p.R(f).Val(s.RHS)
			fresh := isNilV(rv) || rv.IsCall("builtin.make") || rv.Kind == "comp"
			c.Check(fresh && s.Kind == "assign", "R01.5", f.Name, "batch storage released after hand-off", s.Node, "the field is reset to nil / a fresh slice", "after handing the batch over, the field is set to "+rv.String()+", which shares the backing array of the returned slice: a later add() overwrites a message of the batch in flight")
		}
		if nSt == 0 {
			c.Bad("R01.5", f.Name, "batch storage released after hand-off", f.Decl, "take does not reset the field: the same messages would be published again")
		}
		for _, fn := range []string{"(*MessageBatch).take", "(*MessageBatch).add"} {
			if ff := c.MustFn("R01.5", fn); ff != nil {
				ok, _ := p.Graph(ff).MustPass(p.Graph(ff).Entry(), PassOpts{}, func(n ast.Node) bool {
					for _, cs := range p.CallsIn(ff, n, false) {
						if id, op := p.mutexOfCall(ff, cs.Call); id == "MessageBatch.mu" && op == "Lock" {
							return true
						}
					}
					return false
				})
				c.Check(ok, "R01.5", ff.Name, "runs under the batch mutex", ff.Decl, "locks MessageBatch.mu on every path", "the batch is accessed without its mutex")
			}
		}
		callers := p.CallerNames(f.Name)
		c.Check(len(callers) >= 1, "R01.5", f.Name, "consumed by the publisher", nil, strings.Join(callers, ","), "take has no caller")
	}
	c.Min["R01.5"] = 5
	c.Min["R01.1"] = 3
	c.Min["R01.2"] = 2
	c.Min["R01.3"] = 8
	c.Min["R01.4"] = 4
}

// forLoopOf returns the outermost `for {}` loop of f and the set of blocks that start its next iteration.
func forLoopOf(p *Prog, g *Graph, f *Func) (*ast.ForStmt, bool, map[*cfgBlock]bool) {
	var loop *ast.ForStmt
	inspectNoLit(f.Body, func(n ast.Node) bool {
		if fs, ok := n.(*ast.ForStmt); ok && loop == nil {
			loop = fs
			return false
		}
		return true
	})
	until := map[*cfgBlock]bool{}
	if loop != nil {
		head, _, done := g.LoopBlocks(loop)
		if head != nil {
			until[head] = true
		}
		if done != nil {
			until[done] = true
		}
	}
	return loop, loop != nil, until
}

// checkSelectArm: in f's select, the clause receiving from chanField calls callee on every path of its body.
func checkSelectArm(c *RuleCtx, rule string, f *Func, chanField, callee string) {
	p := c.P
	g := p.Graph(f)
	var clause *ast.CommClause
	inspectNoLit(f.Body, func(n ast.Node) bool {
		cc, ok := n.(*ast.CommClause)
		if !ok || cc.Comm == nil {
			return true
		}
		var rx ast.Expr
		switch s := cc.Comm.(type) {
		case *ast.ExprStmt:
			rx = s.X
		case *ast.AssignStmt:
			if len(s.Rhs) == 1 {
				rx = s.Rhs[0]
			}
		}
		if u, ok := unparen(rx).(*ast.UnaryExpr); ok && u.Op == token.ARROW {
			if p.R(f).Val(u.X).IsField(chanField) {
				clause = cc
			}
		}
		return true
	})
	if clause == nil {
		c.Undecided(rule, f.Name, "select arm on "+chanField, f.Decl, "no select clause receives from "+chanField)
		return
	}
	body := g.ClauseBody(clause)
	if body == nil {
		c.Undecided(rule, f.Name, "select arm on "+chanField, clause, "clause body not found in CFG")
		return
	}
	_, _, until := forLoopOf(p, g, f)
	// a message whose sender or author was blacklisted in the meantime is legitimately not handed on (C16)
	blk := AtomBool("blacklist.Contains(...)", isCallTo("Blacklist.Contains"))
	ok, _ := g.MustPass(Point{body, 0}, PassOpts{Until: until, Cut: g.CutAny(AtomWant{blk, true})}, p.callPred(f, callee))
	short := callee[strings.LastIndex(callee, ".")+1:]
	c.Check(ok, rule, f.Name, "arm "+chanField+" -> "+short, clause, "every path of the arm (not refusing a blacklisted peer) calls "+short+" before the next iteration", "the arm can complete without calling "+short)
}

func runC02(c *RuleCtx) {
	p := c.P
	fresh := AtomBool("markSeen(id) returned fresh", isCallTo(fnMarkSeen))
	// R02.1
	if f := c.MustFn("R02.1", fnValidate); f != nil {
		targets := p.Sites(f, true, "(*validatorImpl).validateMsg", "(*validation).doValidateTopic", "var:onValid", "(*validation).validateTopic", "(*validation).validateSingleTopic", "field:validatorImpl.validate")
		n := 0
		for _, t := range targets {
			ok, why := p.DomDeep(f, t.Call, AtomWant{fresh, true})
			c.Check(ok, "R02.1", f.Name, "fresh-markSeen dominates "+t.Name, t.Call, why, why)
			n++
		}
		if n < 3 {
			c.Undecided("R02.1", f.Name, "validator call sites", f.Decl, "expected validateMsg, doValidateTopic and onValid call sites in validate")
		}
		// exactly one markSeen test; its stale edge must leave without reaching them (implied by dominance);
		// additionally the stale edge returns dupeErr
		g := p.Graph(f)
		for _, e := range g.AtomEdges(fresh, false) {
			ok, _ := g.MustPass(EdgeTarget(e), PassOpts{}, func(n ast.Node) bool {
				r, ok := n.(*ast.ReturnStmt)
				if !ok || len(r.Results) != 1 {
					return false
				}
				v := p.R(f).Val(r.Results[0])
				return v.Kind == "comp" && v.Name == "dupeErr"
			})
			c.Check(ok, "R02.1", f.Name, "stale edge returns dupeErr", e.From.Nodes[len(e.From.Nodes)-1], "the not-fresh edge only leads to `return dupeErr{}`", "the not-fresh edge can continue without returning dupeErr")
		}
	}
	// who may reference the validator entry points
	who := func(rule, callee string, allowed ...string) {
		callers := p.CallerNames(callee)
		if len(callers) == 0 {
			c.Undecided(rule, callee, "references", nil, "no reference found (anchor renamed?)")
			return
		}
		ok, extra := subset(callers, allowed...)
		c.Check(ok, rule, callee, "referenced only by "+strings.Join(allowed, ","), nil, "references: "+strings.Join(callers, ", "), "also referenced from "+strings.Join(extra, ", "))
	}
	who("R02.1", "(*validatorImpl).validateMsg", fnValidate, "(*validation).validateTopic", "(*validation).validateSingleTopic")
	who("R02.1", "(*validation).doValidateTopic", fnValidate)
	who("R02.1", "(*validation).validateTopic", "(*validation).doValidateTopic")
	who("R02.1", "(*validation).validateSingleTopic", "(*validation).validateTopic")
	who("R02.1", fnValidate, fnValidateLocal, "(*validation).validateWorker")
	// the user function itself is invoked only by validateMsg
	{
		var callers []string
		for _, cs := range p.AllSites("field:validatorImpl.validate") {
			callers = append(callers, cs.Fn.Root().Name)
		}
		ok, extra := subset(callers, "(*validatorImpl).validateMsg")
		c.Check(ok && len(callers) > 0, "R02.1", "validatorImpl.validate", "user validator invoked only by validateMsg", nil, "call sites: "+strings.Join(callers, ","), "user validator also invoked from "+strings.Join(extra, ","))
	}

	// R02.2 delivery ownership
	who("R02.2", fnNotifySubs, fnPublishMsg, fnPublishBatch)
	who("R02.2", fnPublishMsg, fnPushMsg, fnProcessLoop)
	who("R02.2", fnPublishBatch, fnProcessLoop)
	if f := c.MustFn("R02.2", fnPushMsg); f != nil {
		for _, cs := range p.Sites(f, true, fnPublishMsg) {
			ok, why := p.DomDeep(f, cs.Call, AtomWant{fresh, true})
			c.Check(ok, "R02.2", f.Name, "publishMessage after fresh markSeen", cs.Call, why, why)
		}
	}
	{
		sends := p.SendsOn("PubSub.sendMsg")
		var fns []string
		for _, s := range sends {
			fns = append(fns, s.Fn.Root().Name)
		}
		ok, extra := subset(fns, fnSendBlocking)
		c.Check(ok && len(sends) > 0, "R02.2", "PubSub.sendMsg", "sent only by sendMsgBlocking", nil, "senders: "+strings.Join(fns, ","), "also sent from "+strings.Join(extra, ","))
		sends = p.SendsOn("PubSub.sendMessageBatch")
		fns = nil
		for _, s := range sends {
			fns = append(fns, s.Fn.Root().Name)
		}
		ok, extra = subset(fns, "(*PubSub).PublishBatch")
		c.Check(ok && len(sends) > 0, "R02.2", "PubSub.sendMessageBatch", "sent only by PublishBatch", nil, "senders: "+strings.Join(fns, ","), "also sent from "+strings.Join(extra, ","))
	}
	who("R02.2", fnSendBlocking, "(*validation).validateWorker", "(*Topic).Publish")
	who("R02.2", "(*MessageBatch).add", "(*Topic).AddToBatch")
	errNil := func(callee string) Atom {
		return AtomCmp("error of "+callee+" == nil", func(v *V) bool {
			return v != nil && ((v.Kind == "tuple" && v.Args[0].IsCall(callee)) || v.IsCall(callee))
		}, "==", isNilV)
	}
	for _, tc := range []struct{ fn, target, guard string }{
		{"(*Topic).Publish", fnSendBlocking, "(*Topic).validate"},
		{"(*Topic).AddToBatch", "(*MessageBatch).add", "(*Topic).validate"},
	} {
		if f := c.MustFn("R02.2", tc.fn); f != nil {
			sites := p.Sites(f, true, tc.target)
			if len(sites) == 0 {
				c.Undecided("R02.2", f.Name, "hand-off site", f.Decl, "no call of "+tc.target)
			}
			for _, cs := range sites {
				ok, why := p.DomDeep(f, cs.Call, AtomWant{errNil(tc.guard), true})
				c.Check(ok, "R02.2", f.Name, "hand-off only after nil error from "+tc.guard, cs.Call, why, why)
			}
		}
	}
	// Topic.validate: a nil error is returned only after ValidateLocal returned nil
	if f := c.MustFn("R02.2", "(*Topic).validate"); f != nil {
		n := 0
		inspectNoLit(f.Body, func(x ast.Node) bool {
			r, ok := x.(*ast.ReturnStmt)
			if !ok || len(r.Results) != 2 {
				return true
			}
			if !isNilV(p.R(f).Val(r.Results[1])) {
				return true
			}
			n++
			ok2, why := p.DomAny(f, r, AtomWant{errNil(fnValidateLocal), true})
			c.Check(ok2, "R02.2", f.Name, "nil-error return only after ValidateLocal == nil", r, why, why)
			return true
		})
		if n == 0 {
			c.Undecided("R02.2", f.Name, "nil-error return", f.Decl, "no `return msg, nil` found")
		}
	}
	// ValidateLocal: the only nil-capable return is the result of validate
	if f := c.MustFn("R02.2", fnValidateLocal); f != nil {
		inspectNoLit(f.Body, func(x ast.Node) bool {
			r, ok := x.(*ast.ReturnStmt)
			if !ok || len(r.Results) != 1 {
				return true
			}
			v := p.R(f).Val(r.Results[0])
			good := v.IsCall(fnValidate) || v.IsCall("(*PubSub).checkSigningPolicy")
			if good && v.IsCall("(*PubSub).checkSigningPolicy") {
				// returned only under err != nil
				ok2, _ := p.DomAny(f, r, AtomWant{errNil("(*PubSub).checkSigningPolicy"), false})
				good = ok2
			}
			c.Check(good, "R02.2", f.Name, "returns validate's verdict", r, "return value is "+v.String(), "ValidateLocal returns "+v.String()+" instead of the pipeline's verdict")
			return true
		})
	}
	// validate: every return of a nil error / onValid result lies in the fresh region
	if f := c.MustFn("R02.2", fnValidate); f != nil {
		inspectNoLit(f.Body, func(x ast.Node) bool {
			r, ok := x.(*ast.ReturnStmt)
			if !ok || len(r.Results) != 1 {
				return true
			}
			v := p.R(f).Val(r.Results[0])
			if v.Kind == "comp" { // ValidationError{...} / dupeErr{}: non-nil
				return true
			}
			ok2, why := p.DomAny(f, r, AtomWant{fresh, true})
			c.Check(ok2, "R02.2", f.Name, "possibly-nil return only in the fresh region", r, why, why)
			return true
		})
	}

	// R02.3 atomic test-and-set in every TimeCache implementation
	for _, impl := range []struct{ typ, field, mutex string }{
		{"timecache.FirstSeenCache", "timecache.FirstSeenCache.m", "timecache.FirstSeenCache.lk"},
		{"timecache.LastSeenCache", "timecache.LastSeenCache.m", "timecache.LastSeenCache.lk"},
	} {
		n := c.CheckGuardedField("R02.3", impl.field, impl.mutex, func(a FieldAccess) string {
			if p.accessOnFreshObject(a) {
				return "constructor: object not yet published"
			}
			return ""
		})
		if n < 3 {
			c.Undecided("R02.3", impl.typ, "map accesses", nil, "fewer than 3 accesses of the cache map found")
		}
		short := strings.TrimPrefix(impl.typ, "timecache.")
		add := c.MustFn("R02.3", "timecache.(*"+short+").Add")
		if add == nil {
			continue
		}
		// one critical section: no release of the lock on any path between a read of the map and a later
		// store into it (form-independent: deferred or explicit unlocks on the exits are both fine)
		g := p.Graph(add)
		var unlocks, reads, writes []Point
		for _, blk := range g.C.Blocks {
			for i, n := range blk.Nodes {
				if _, isDefer := n.(*ast.DeferStmt); isDefer {
					continue
				}
				for _, cs := range p.CallsIn(add, n, false) {
					if id, op := p.mutexOfCall(add, cs.Call); id == impl.mutex && (op == "Unlock" || op == "RUnlock") {
						unlocks = append(unlocks, Point{blk, i})
					}
				}
				isStore := false
				for _, st := range p.StoresTo(impl.field) {
					if st.Fn == add && contains(n, st.Node) {
						isStore = true
					}
				}
				if isStore {
					writes = append(writes, Point{blk, i})
					continue
				}
				touches := false
				ast.Inspect(n, func(x ast.Node) bool {
					if e, ok := x.(ast.Expr); ok && !touches {
						if se, ok := e.(*ast.SelectorExpr); ok {
							if sel := add.Info().Selections[se]; sel != nil && sel.Kind() == types.FieldVal && fieldOwnerName(sel) == impl.field {
								touches = true
							}
						}
					}
					return !touches
				})
				if touches {
					reads = append(reads, Point{blk, i})
				}
			}
		}
		unl := 0
		for _, u := range unlocks {
			for _, r := range reads {
				for _, w := range writes {
					if g.reach(r.After(), u, nil, nil) && g.reach(u.After(), w, nil, nil) {
						unl++
					}
				}
			}
		}
		if len(reads) == 0 || len(writes) == 0 {
			c.Undecided("R02.3", add.Name, "single critical section", add.Decl, "no lookup/store pair of the cache map found in Add")
			continue
		}
		c.Check(unl == 0, "R02.3", add.Name, "single critical section", add.Decl, "no path from the lookup to the store releases the lock", "the lock is released between the lookup and the store: the test-and-set is not atomic")
		// return value: true only when the key was absent
		absent := AtomLookupOK("key present in m", isFieldOf(impl.field), nil)
		inspectNoLit(add.Body, func(x ast.Node) bool {
			r, ok := x.(*ast.ReturnStmt)
			if !ok || len(r.Results) != 1 {
				return true
			}
			v := p.R(add).Val(r.Results[0])
			switch {
			case v.IsConst("false"):
				c.OK("R02.3", add.Name, "return false", r, "stale result")
			case v.IsConst("true"):
				ok2, why := p.DomAny(add, r, AtomWant{absent, false})
				c.Check(ok2, "R02.3", add.Name, "return true only on key-absent edge", r, why, why)
			case v.Kind == "unop" && v.Name == "!" && v.Args[0].Kind == "lookupok" && v.Args[0].Args[0].IsField(impl.field):
				c.OK("R02.3", add.Name, "return !present", r, "fresh result is the negated presence test")
			default:
				c.Bad("R02.3", add.Name, "return value", r, "Add returns "+v.String()+", which is not the (negated) presence test of the key")
			}
			return true
		})
	}
	// R02.6 strategy semantics: first-seen never refreshes, last-seen refreshes on every sighting
	{
		isStoreTo := func(f *Func, field string) func(ast.Node) bool {
			return func(n ast.Node) bool {
				as, ok := n.(*ast.AssignStmt)
				if !ok {
					return false
				}
				for _, l := range as.Lhs {
					if ix, ok := unparen(l).(*ast.IndexExpr); ok && p.R(f).Val(ix.X).IsField(field) {
						return true
					}
				}
				return false
			}
		}
		fm := "timecache.FirstSeenCache.m"
		present := AtomLookupOK("key present", isFieldOf(fm), nil)
		for _, s := range p.StoresTo(fm) {
			if s.Kind != "elem-assign" {
				continue
			}
			ok, why := p.DomAny(s.Fn, s.Node, AtomWant{present, false})
			c.Check(ok, "R02.6", s.Fn.Name, "first-seen: expiry set only on first sighting", s.Node, why, why)
		}
		lm := "timecache.LastSeenCache.m"
		if f := c.MustFn("R02.6", "timecache.(*LastSeenCache).Add"); f != nil {
			g := p.Graph(f)
			ok, _ := g.MustPass(g.Entry(), PassOpts{}, isStoreTo(f, lm))
			c.Check(ok, "R02.6", f.Name, "last-seen: Add refreshes the expiry on every path", f.Decl, "every path stores now+ttl", "a path through Add (e.g. for an already known ID) does not refresh the expiry: the TTL would count from the first sighting")
		}
		if f := c.MustFn("R02.6", "timecache.(*LastSeenCache).Has"); f != nil {
			g := p.Graph(f)
			pres := AtomLookupOK("key present", isFieldOf(lm), nil)
			edges := g.AtomEdges(pres, true)
			if len(edges) == 0 {
				c.Bad("R02.6", f.Name, "last-seen: Has refreshes a known ID", f.Decl, "no key-present branch in Has")
			}
			for _, e := range edges {
				ok, _ := g.MustPass(EdgeTarget(e), PassOpts{}, isStoreTo(f, lm))
				c.Check(ok, "R02.6", f.Name, "last-seen: Has refreshes a known ID", f.Decl, "the key-present edge always stores now+ttl", "Has can report a known ID without refreshing its expiry")
			}
		}
		c.Min["R02.6"] = 3
	}
	// R02.4 deletion only in sweep under expiry.Before(now); stores are now+ttl
	if f := c.MustFn("R02.4", "timecache.sweep"); f != nil {
		q := c.P.NewLockQuery("var:lk")
		n := 0
		inspectNoLit(f.Body, func(x ast.Node) bool {
			ce, ok := x.(*ast.CallExpr)
			if !ok || p.CalleeName(f.Info(), ce) != "builtin.delete" {
				return true
			}
			n++
			a := AtomBool("expiry.Before(now)", func(v *V) bool {
				return v.IsCall("time.Time.Before") && len(v.Args) == 2 && (v.Args[0].Kind == "rangeval" || v.Args[0].Kind == "var") && v.Args[1].Kind == "var" && v.Args[1].Name == "now"
			})
			ok2, why := p.DomAny(f, ce, AtomWant{a, true})
			c.Check(ok2, "R02.4", f.Name, "delete only when expiry.Before(now)", ce, why, why)
			m := q.At(f, ce)
			c.Check(m == lockExcl, "R02.4", f.Name, "delete under the cache lock", ce, "lk is "+m.String(), "lk is "+m.String()+" at the delete")
			return true
		})
		if n == 0 {
			c.Undecided("R02.4", f.Name, "delete", f.Decl, "no delete in sweep")
		}
	}
	for _, fld := range []string{"timecache.FirstSeenCache.m", "timecache.LastSeenCache.m"} {
		for _, s := range p.StoresTo(fld) {
			switch s.Kind {
			case "elem-assign":
				v := p.R(s.Fn).Val(s.RHS)
				good := v.IsCall("time.Time.Add") && len(v.Args) == 2 && v.Args[0].IsCall("time.Now") && v.Args[1].Kind == "field" && strings.HasSuffix(v.Args[1].Name, ".ttl")
				c.Check(good, "R02.4", s.Fn.Name, "stored expiry is now+ttl", s.Node, "value is "+v.String(), "stored expiry is "+v.String()+", not time.Now().Add(ttl)")
			case "delete", "elem-delete":
				c.Bad("R02.4", s.Fn.Name, "delete outside sweep", s.Node, "entries of the seen cache are deleted outside sweep")
			case "assign":
				c.Check(p.accessOnFreshObject(FieldAccess{Sel: unparen(s.LHS).(*ast.SelectorExpr), Fn: s.Fn}), "R02.4", s.Fn.Name, "map replaced", s.Node, "constructor", "the cache map is replaced outside the constructor")
			default:
				c.Bad("R02.4", s.Fn.Name, "unexpected store "+s.Kind, s.Node, "unrecognised write to the seen-cache map")
			}
		}
	}
	// R02.5 memoised ID under the generator mutex
	if f := c.MustFn("R02.5", "(*msgIDGenerator).ID"); f != nil {
		q := p.NewLockQuery("msgIDGenerator.<embedded>")
		n := 0
		for _, a := range p.Accesses("Message.ID") {
			if a.Fn.Root() != f {
				continue
			}
			n++
			m := q.At(a.Fn, a.Sel)
			c.Check(m == lockExcl, "R02.5", f.Name, "msg.ID access under the generator mutex", a.Sel, "mutex "+m.String(), "memoised ID accessed while the generator mutex is "+m.String())
		}
		if n == 0 {
			c.Undecided("R02.5", f.Name, "msg.ID accesses", f.Decl, "no access to Message.ID in ID()")
		}
		// nobody else writes Message.ID
		for _, s := range p.StoresTo("Message.ID") {
			c.Check(s.Fn.Root() == f, "R02.5", s.Fn.Name, "Message.ID written only by the generator", s.Node, "generator", "Message.ID is written outside msgIDGenerator.ID")
		}
	}
	checkSingleIDGenerator(c)
	c.Min["R02.1"] = 9
	c.Min["R02.2"] = 12
	c.Min["R02.3"] = 12
	c.Min["R02.4"] = 4
	c.Min["R02.5"] = 3
}

// R02.7: "one ID per message" needs one ID generator per instance: the seen cache, the tracers, the scorer and the
// routers all hold the pointer stored in PubSub.idGen (it also caches the computed ID in the message). The field is
// set once, in the constructor's composite literal or before the options run, and never replaced afterwards —
// options configure the generator through its fields/methods. R01.5 (batch ownership: a queued batch entry is never
// overwritten by a later AddToBatch) is re-evaluated here, since an overwritten entry is one ID delivered twice.
func checkSingleIDGenerator(c *RuleCtx) {
	p := c.P
	n := 0
	for _, s := range p.StoresTo("PubSub.idGen") {
		if s.Kind != "assign" {
			continue
		}
		n++
		root := s.Fn.Root().Name
		c.Check(root == "NewPubSub" && s.Fn.Parent == nil, "R02.7", root, "the instance's ID generator is never replaced", s.Node, "set by the constructor only", "PubSub.idGen is assigned outside the constructor body ("+s.Fn.Name+"): components created earlier (a tracer installed by an earlier option, the scorer, the router) keep the previous generator, so one message gets different IDs in the seen cache and in those components, and a copy with the same configured ID is validated and delivered again")
	}
	// the constructor's literal counts as the one creation
	if f := p.Fn("NewPubSub"); f != nil {
		ast.Inspect(f.Body, func(x ast.Node) bool {
			if kv, ok := x.(*ast.KeyValueExpr); ok {
				if id, ok := kv.Key.(*ast.Ident); ok && id.Name == "idGen" {
					n++
				}
			}
			return true
		})
	}
	if n == 0 {
		c.Undecided("R02.7", "PubSub.idGen", "creation", nil, "no creation of the ID generator found")
	} else {
		c.OK("R02.7", "NewPubSub", "the instance's ID generator is created once", nil, "constructor")
	}
	sub := &RuleCtx{P: c.P, Prop: c.Prop, Min: map[string]int{}}
	runC01(sub)
	for _, o := range sub.Obs {
		if o.Rule == "R01.5" {
			c.Obs = append(c.Obs, o)
		}
	}
	c.Min["R02.7"] = 1
	c.Min["R01.5"] = 1
}
