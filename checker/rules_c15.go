package main

import (
	"go/ast"
	"go/token"
	"strings"
)

func init() {
	register(&Property{ID: "C15", Run: runC15,
		Explain: "rpcQueue decided as lock/condition-variable discipline plus gates: (R15.1) every access to the queue, the closed flag and the two slices of the priority queue happens with queueMu held exclusively (callers' lock state propagated to the priorityQueue methods); (R15.2) each cond.Wait sits in a loop whose condition re-tests the queue length, the closed flag is re-tested after every wake-up, and every Signal/Broadcast on the queue's conditions is issued with queueMu held — including the context.AfterFunc cancellation callback (this closes the check-then-wait window); (R15.3) enqueues happen only in push behind the false edge of Len()==maxSize, Len counts both classes, ErrQueueFull is returned exactly on full && !block; (R15.4) a successful push signals dataAvailable, a successful Pop signals spaceAvailable, Close sets closed and broadcasts on both; (R15.5) push tests closed on entry and after each wait and never enqueues on the closed edge, Pop returns ErrQueueClosed on the closed edges, ErrQueueCancelled on the Done edge and polls Done before every wait; (R15.6) the writer loop leaves on any Pop error and never pushes; (R15.7) queue shape: both classes append at the tail and dequeue index 0, Pop serves the urgent class first. With R15.1 every operation's effect lies in one critical section, so linearizability reduces to the sequential slice code. R15.5 also: the cancellation callback Broadcasts (a Signal may wake a Pop whose context is still live). NOT decided: fairness between waiters; the sequential behaviour beyond the shape rules.",
		Assume:  []string{"sync.Cond/Mutex semantics", "context.AfterFunc runs its callback in its own goroutine after cancellation"},
		Mutants: []Mutant{
			{Name: "cancel-callback-signals-one", File: "rpc_queue.go", Old: "\t\tq.queueMu.Lock()\n\t\tq.dataAvailable.Broadcast()\n\t\tq.queueMu.Unlock()\n", New: "\t\tq.queueMu.Lock()\n\t\tq.dataAvailable.Signal()\n\t\tq.queueMu.Unlock()\n", Expect: "R15.5"},
			{Name: "afterfunc-broadcast-unlocked", File: "rpc_queue.go", Old: "\t\tq.queueMu.Lock()\n\t\tq.dataAvailable.Broadcast()\n\t\tq.queueMu.Unlock()\n", New: "\t\tq.dataAvailable.Broadcast()\n", Expect: "R15.2"},
			{Name: "close-flag-outside-lock", File: "rpc_queue.go", Old: "func (q *rpcQueue) Close() {\n\tq.queueMu.Lock()\n\tdefer q.queueMu.Unlock()\n\n\tq.closed = true\n", New: "func (q *rpcQueue) Close() {\n\tq.closed = true\n\tq.queueMu.Lock()\n\tdefer q.queueMu.Unlock()\n\n", Expect: "R15.1"},
			{Name: "pop-wait-if-instead-of-loop", File: "rpc_queue.go", Old: "\tfor q.queue.Len() == 0 {\n\t\tselect {", New: "\tif q.queue.Len() == 0 {\n\t\tselect {", Expect: "R15.2"},
			{Name: "pop-no-closed-recheck", File: "rpc_queue.go", Old: "\t\tq.dataAvailable.Wait()\n\t\t// It can receive a signal because the queue is closed.\n\t\tif q.closed {\n\t\t\treturn nil, ErrQueueClosed\n\t\t}\n", New: "\t\tq.dataAvailable.Wait()\n", Expect: "R15.2"},
			{Name: "push-capacity-off-by-one", File: "rpc_queue.go", Old: "\tfor q.queue.Len() == q.maxSize {", New: "\tfor q.queue.Len() > q.maxSize {", Expect: "R15.3"},
			{Name: "len-ignores-priority", File: "rpc_queue.go", Old: "\treturn len(q.normal) + len(q.priority)", New: "\treturn len(q.normal)", Expect: "R15.3"},
			{Name: "push-no-signal-for-urgent", File: "rpc_queue.go", Old: "\tif urgent {\n\t\tq.queue.PriorityPush(rpc)\n\t} else {", New: "\tif urgent {\n\t\tq.queue.PriorityPush(rpc)\n\t\treturn nil\n\t} else {", Expect: "R15.4"},
			{Name: "pop-no-space-signal", File: "rpc_queue.go", Old: "\trpc := q.queue.Pop()\n\tq.spaceAvailable.Signal()\n", New: "\trpc := q.queue.Pop()\n", Expect: "R15.4"},
			{Name: "close-no-space-broadcast", File: "rpc_queue.go", Old: "\tq.dataAvailable.Broadcast()\n\tq.spaceAvailable.Broadcast()\n}", New: "\tq.dataAvailable.Broadcast()\n}", Expect: "R15.4"},
			{Name: "pop-cancel-check-once", File: "rpc_queue.go", Old: "\tfor q.queue.Len() == 0 {\n\t\tselect {\n\t\tcase <-ctx.Done():\n\t\t\treturn nil, ErrQueueCancelled\n\t\tdefault:\n\t\t}\n", New: "\tselect {\n\tcase <-ctx.Done():\n\t\treturn nil, ErrQueueCancelled\n\tdefault:\n\t}\n\tfor q.queue.Len() == 0 {\n", Expect: "R15.5"},
			{Name: "pop-closed-returns-cancelled", File: "rpc_queue.go", Old: "\t\tif q.closed {\n\t\t\treturn nil, ErrQueueClosed\n\t\t}\n\t}\n\trpc := q.queue.Pop()", New: "\t\tif q.closed {\n\t\t\treturn nil, ErrQueueCancelled\n\t\t}\n\t}\n\trpc := q.queue.Pop()", Expect: "R15.5"},
			{Name: "writer-continues-on-pop-error", File: "comm.go", Old: "\t\t\tp.logger.Debug(\"error popping message from the queue to send to peer\", \"peer\", s.Conn().RemotePeer(), \"err\", err)\n\t\t\treturn\n", New: "\t\t\tp.logger.Debug(\"error popping message from the queue to send to peer\", \"peer\", s.Conn().RemotePeer(), \"err\", err)\n\t\t\tcontinue\n", Expect: "R15.6"},
			{Name: "urgent-after-normal", File: "rpc_queue.go", Old: "\tif len(q.priority) > 0 {\n\t\trpc = q.priority[0]\n\t\tq.priority[0] = nil\n\t\tq.priority = q.priority[1:]\n\t} else if len(q.normal) > 0 {\n\t\trpc = q.normal[0]\n\t\tq.normal[0] = nil\n\t\tq.normal = q.normal[1:]\n\t}", New: "\tif len(q.normal) > 0 {\n\t\trpc = q.normal[0]\n\t\tq.normal[0] = nil\n\t\tq.normal = q.normal[1:]\n\t} else if len(q.priority) > 0 {\n\t\trpc = q.priority[0]\n\t\tq.priority[0] = nil\n\t\tq.priority = q.priority[1:]\n\t}", Expect: "R15.7"},
			{Name: "priority-push-front", File: "rpc_queue.go", Old: "\tq.priority = append(q.priority, rpc)", New: "\tq.priority = append([]*RPC{rpc}, q.priority...)", Expect: "R15.7"},
		}})
}

func runC15(c *RuleCtx) {
	p := c.P
	const mu = "rpcQueue.queueMu"
	exemptCtor := func(a FieldAccess) string {
		if a.Fn.Root().Name == "newRpcQueue" {
			return "constructor: queue not yet published"
		}
		return ""
	}
	// R15.1 lockset
	for _, fld := range []string{"rpcQueue.queue", "rpcQueue.closed", "priorityQueue.normal", "priorityQueue.priority"} {
		n := c.CheckGuardedField("R15.1", fld, mu, exemptCtor)
		if n == 0 {
			c.Undecided("R15.1", fld, "accesses", nil, "no access found (anchor renamed?)")
		}
	}
	// R15.2 condition variables
	q := p.NewLockQuery(mu)
	condFields := map[string]bool{"rpcQueue.dataAvailable": true, "rpcQueue.spaceAvailable": true}
	nWait, nSig := 0, 0
	for _, f := range p.All {
		if f.Pkg != p.Main || p.IsGenerated(f.Body) {
			continue
		}
		for _, cs := range p.FuncCalls(f, false) {
			if !strings.HasPrefix(cs.Name, "sync.(*Cond).") {
				continue
			}
			se, _ := unparen(cs.Call.Fun).(*ast.SelectorExpr)
			if se == nil {
				continue
			}
			cv := p.R(f).Val(se.X)
			if cv.Kind != "field" || !condFields[cv.Name] {
				continue
			}
			m := q.At(f, cs.Call)
			switch shortFn(cs.Name) {
			case "Wait":
				nWait++
				c.Check(m == lockExcl, "R15.2", f.Root().Name, "Wait on "+shortFn(cv.Name)+" with queueMu held", cs.Call, m.String(), "Wait is called while queueMu is "+m.String())
				// inside a loop whose condition re-tests the queue length
				loops := p.EnclosingLoops(cs.Call)
				okLoop := false
				if len(loops) > 0 {
					if fs, ok := loops[0].(*ast.ForStmt); ok && fs.Cond != nil {
						if p.R(f).Val(fs.Cond).Has(func(v *V) bool { return v.IsCall("(*priorityQueue).Len") }) {
							okLoop = true
						}
					}
				}
				c.Check(okLoop, "R15.2", f.Root().Name, "Wait on "+shortFn(cv.Name)+" inside a loop re-testing the predicate", cs.Call, "for-loop on the queue length", "the wake-up is not followed by a re-test of the queue length (spurious or stolen wake-ups would be acted upon)")
				// closed re-tested after each wake-up, before the next iteration / exit
				if okLoop {
					g := p.Graph(f)
					wp, _ := g.Locate(cs.Call)
					head, _, done := g.LoopBlocks(loops[0])
					until := map[*cfgBlock]bool{head: true}
					if done != nil {
						until[done] = true
					}
					ok, _ := g.MustPass(wp.After(), PassOpts{Until: until}, func(n ast.Node) bool {
						found := false
						ast.Inspect(n, func(x ast.Node) bool {
							if e, ok := x.(ast.Expr); ok && p.R(f).Val(e).IsField("rpcQueue.closed") {
								found = true
							}
							return !found
						})
						return found
					})
					c.Check(ok, "R15.2", f.Root().Name, "closed re-tested after waking from "+shortFn(cv.Name), cs.Call, "every path from the Wait tests q.closed before looping or leaving", "a waiter woken by Close can proceed without noticing the close")
				}
			case "Signal", "Broadcast":
				nSig++
				c.Check(m == lockExcl, "R15.2", f.Root().Name, shortFn(cs.Name)+" on "+shortFn(cv.Name)+" with queueMu held", cs.Call, m.String(), shortFn(cs.Name)+" is issued while queueMu is "+m.String()+": it can land between a waiter's predicate check and its Wait and be lost")
			}
		}
	}
	if nWait < 2 || nSig < 5 {
		c.Undecided("R15.2", "rpcQueue", "condition-variable operations", nil, "fewer Wait/Signal/Broadcast sites than known")
	}
	// the conditions share queueMu
	if f := c.MustFn("R15.2", "newRpcQueue"); f != nil {
		n := 0
		for _, s := range p.AllStores() {
			if s.Fn.Root() == f && s.Field == "sync.Cond.L" {
				v := p.R(f).Val(s.RHS)
				n++
				c.Check(v.IsField(mu), "R15.2", f.Name, "condition variable bound to queueMu", s.Node, v.String(), "a condition variable is bound to "+v.String())
			}
		}
		c.Check(n == 2, "R15.2", f.Name, "both condition variables bound", f.Decl, "2 bindings", "expected both conditions to be bound to queueMu")
	}
	// R15.3 capacity
	if f := c.MustFn("R15.3", "(*rpcQueue).push"); f != nil {
		g := p.Graph(f)
		full := AtomCmp("Len() == maxSize", isCallTo("(*priorityQueue).Len"), "==", isFieldOf("rpcQueue.maxSize"))
		fullGE := AtomCmp("Len() >= maxSize", isCallTo("(*priorityQueue).Len"), ">=", isFieldOf("rpcQueue.maxSize"))
		closed := AtomBool("q.closed", isFieldOf("rpcQueue.closed"))
		for _, cs := range p.Sites(f, true, "(*priorityQueue).NormalPush", "(*priorityQueue).PriorityPush") {
			ok, why := p.DomAny(f, cs.Call, AtomWant{full, false}, AtomWant{fullGE, false})
			c.Check(ok, "R15.3", f.Name, "enqueue only when not full", cs.Call, why, why)
			ok, why = p.DomAny(f, cs.Call, AtomWant{closed, false})
			c.Check(ok, "R15.5", f.Name, "no enqueue on a closed queue", cs.Call, why, why)
		}
		for _, callee := range []string{"(*priorityQueue).NormalPush", "(*priorityQueue).PriorityPush"} {
			callers := p.CallerNames(callee)
			ok, extra := subset(callers, f.Name)
			c.Check(ok && len(callers) > 0, "R15.3", callee, "called only by push", nil, strings.Join(callers, ","), "also from "+strings.Join(extra, ","))
		}
		// urgent selects the class
		urgent := AtomBool("urgent", isParam(f, 1))
		for _, cs := range p.Sites(f, true, "(*priorityQueue).PriorityPush") {
			ok, why := p.DomAny(f, cs.Call, AtomWant{urgent, true})
			c.Check(ok, "R15.3", f.Name, "urgent class only for urgent pushes", cs.Call, why, why)
		}
		for _, cs := range p.Sites(f, true, "(*priorityQueue).NormalPush") {
			ok, why := p.DomAny(f, cs.Call, AtomWant{urgent, false})
			c.Check(ok, "R15.3", f.Name, "normal class only for normal pushes", cs.Call, why, why)
		}
		block := AtomBool("block", isParam(f, 2))
		returnsIn(f, func(r *ast.ReturnStmt) {
			if len(r.Results) != 1 {
				return
			}
			v := p.R(f).Val(r.Results[0])
			switch {
			case v.Kind == "var" && strings.HasSuffix(v.Name, "ErrQueueFull"):
				ok1, _ := p.DomAny(f, r, AtomWant{full, true}, AtomWant{fullGE, true})
				ok2, _ := p.DomAny(f, r, AtomWant{block, false})
				c.Check(ok1 && ok2, "R15.3", f.Name, "ErrQueueFull exactly on full && !block", r, "dominated by full and !block", "ErrQueueFull can be returned when the queue is not full or for a blocking push")
			case isNilV(v):
				// R15.4: success signals dataAvailable
				ok := p.domByCondOp(f, r, "rpcQueue.dataAvailable", "Signal", "Broadcast")
				c.Check(ok, "R15.4", f.Name, "successful push wakes a popper", r, "dataAvailable.Signal dominates the success return", "a push can succeed without signalling dataAvailable: a blocked Pop would not resume")
				// and the enqueue happened
				okq := p.DomCall(f, r, "(*priorityQueue).NormalPush", "(*priorityQueue).PriorityPush")
				c.Check(okq, "R15.4", f.Name, "success only after the enqueue", r, "dominated by an enqueue", "push reports success without enqueueing")
			}
		})
		// non-blocking full push returns the error: every path with full && !block returns ErrQueueFull
		cut := g.CutAny(AtomWant{full, false}, AtomWant{block, true}, AtomWant{closed, true})
		ok, _ := g.MustPass(g.Entry(), PassOpts{Cut: cut}, func(n ast.Node) bool {
			r, ok := n.(*ast.ReturnStmt)
			return ok && len(r.Results) == 1 && strings.HasSuffix(p.R(f).Val(r.Results[0]).Name, "ErrQueueFull")
		})
		c.Check(ok, "R15.3", f.Name, "full && !block => ErrQueueFull", f.Decl, "every path not refuting full and !block returns ErrQueueFull", "a non-blocking push on a full queue can do something else than return ErrQueueFull")
		// R15.5 closed tested at entry: everything is behind the test
		for _, cs := range p.Sites(f, true, "(*priorityQueue).Len") {
			okc, why := p.DomAny(f, cs.Call, AtomWant{closed, false})
			c.Check(okc, "R15.5", f.Name, "closed tested before the capacity test", cs.Call, why, why)
		}
	}
	if f := c.MustFn("R15.3", "(*priorityQueue).Len"); f != nil {
		returnsIn(f, func(r *ast.ReturnStmt) {
			v := p.R(f).Val(r.Results[0])
			ok := v.Kind == "op" && v.Name == "+" && v.Has(func(x *V) bool { return x.Kind == "len" && x.Args[0].IsField("priorityQueue.normal") }) &&
				v.Has(func(x *V) bool { return x.Kind == "len" && x.Args[0].IsField("priorityQueue.priority") })
			c.Check(ok, "R15.3", f.Name, "Len counts both classes", r, v.String(), "Len is "+v.String()+": the capacity bound would not cover both classes")
		})
	}
	// Pop
	if f := c.MustFn("R15.4", "(*rpcQueue).Pop"); f != nil {
		g := p.Graph(f)
		closed := AtomBool("q.closed", isFieldOf("rpcQueue.closed"))
		empty := AtomCmp("Len() == 0", isCallTo("(*priorityQueue).Len"), "==", isZero)
		returnsIn(f, func(r *ast.ReturnStmt) {
			if len(r.Results) != 2 {
				return
			}
			ev := p.R(f).Val(r.Results[1])
			switch {
			case isNilV(ev):
				ok := p.domByCondOp(f, r, "rpcQueue.spaceAvailable", "Signal", "Broadcast")
				c.Check(ok, "R15.4", f.Name, "successful pop wakes a pusher", r, "spaceAvailable.Signal dominates the success return", "a Pop can succeed without signalling spaceAvailable: a blocked Push would not resume")
				ok2, why := p.DomAny(f, r, AtomWant{empty, false})
				c.Check(ok2, "R15.4", f.Name, "dequeue only when non-empty", r, why, why)
				rv := p.R(f).Val(r.Results[0])
				c.Check(rv.IsCall("(*priorityQueue).Pop"), "R15.4", f.Name, "returns the dequeued RPC", r, rv.String(), "returns "+rv.String())
			case strings.HasSuffix(ev.Name, "ErrQueueClosed"):
				ok, why := p.DomAny(f, r, AtomWant{closed, true})
				c.Check(ok, "R15.5", f.Name, "ErrQueueClosed only on the closed edge", r, why, why)
			case strings.HasSuffix(ev.Name, "ErrQueueCancelled"):
				ok := false
				if cc, isCC := p.Enclosing(r, func(n ast.Node) bool { _, ok := n.(*ast.CommClause); return ok }, true).(*ast.CommClause); isCC && cc.Comm != nil {
					if es, isES := cc.Comm.(*ast.ExprStmt); isES {
						if u, isU := unparen(es.X).(*ast.UnaryExpr); isU && u.Op == token.ARROW && p.R(f).Val(u.X).IsCall("context.Context.Done") {
							ok = true
						}
					}
				}
				c.Check(ok, "R15.5", f.Name, "ErrQueueCancelled only on the Done edge", r, "inside `case <-ctx.Done()`", "ErrQueueCancelled is returned outside the ctx.Done() arm")
			default:
				c.Undecided("R15.5", f.Name, "return value", r, "unrecognised error "+ev.String())
			}
		})
		// every closed==true edge returns ErrQueueClosed
		for _, e := range g.AtomEdges(closed, true) {
			ok, _ := g.MustPass(EdgeTarget(e), PassOpts{}, func(n ast.Node) bool {
				r, ok := n.(*ast.ReturnStmt)
				return ok && len(r.Results) == 2 && strings.HasSuffix(p.R(f).Val(r.Results[1]).Name, "ErrQueueClosed")
			})
			c.Check(ok, "R15.5", f.Name, "closed edge returns ErrQueueClosed", condNodeOf(e), "always", "a closed queue is reported with another result")
		}
		if len(g.AtomEdges(closed, true)) < 2 {
			c.Bad("R15.5", f.Name, "closed tested at entry and after each wait", f.Decl, "fewer than two tests of q.closed in Pop")
		}
		// Done polled before every wait
		for _, cs := range p.Sites(f, false, "sync.(*Cond).Wait") {
			loops := p.EnclosingLoops(cs.Call)
			if len(loops) == 0 {
				continue
			}
			_, body, _ := g.LoopBlocks(loops[0])
			wp, _ := g.Locate(cs.Call)
			reach := g.ReachableFrom(Point{body, 0}, wp, nil, func(n ast.Node) bool {
				return p.NodeCalls(f, n, "context.Context.Done")
			})
			c.Check(!reach, "R15.5", f.Name, "cancellation polled before every wait", cs.Call, "each iteration tests ctx.Done() before Wait", "an iteration can reach Wait without polling ctx.Done(): a cancellation that already happened would be missed until the next wake-up")
		}
		// the AfterFunc registration precedes the wait loop and is undone on exit
		c.Check(len(p.Sites(f, false, "context.AfterFunc")) == 1, "R15.5", f.Name, "cancellation callback registered", f.Decl, "context.AfterFunc", "no cancellation callback: a Pop blocked in Wait would not notice cancellation")
		// the callback wakes every waiting Pop: with several Pops waiting on different contexts a Signal may wake one
		// whose context is still live; it goes back to waiting and the cancelled one never returns
		for _, cs := range p.Sites(f, false, "context.AfterFunc") {
			if len(cs.Call.Args) != 2 {
				continue
			}
			var cb *Func
			if fl, ok := unparen(cs.Call.Args[1]).(*ast.FuncLit); ok {
				cb = p.FuncOf[fl]
			} else if v := p.R(f).Val(cs.Call.Args[1]); v != nil && (v.Kind == "func" || v.Kind == "funclit") {
				if v.Kind == "funclit" {
					if fl, ok := v.Node.(*ast.FuncLit); ok {
						cb = p.FuncOf[fl]
					}
				} else {
					cb = p.Fn(v.Name)
				}
			}
			if cb == nil || cb.Body == nil {
				c.Undecided("R15.5", f.Name, "cancellation callback wakes every waiter", cs.Call, "the callback handed to context.AfterFunc could not be resolved")
				continue
			}
			cg := p.Graph(cb)
			ok, _ := cg.MustPass(cg.Entry(), PassOpts{}, func(n ast.Node) bool { return p.nodeCondOp(cb, n, "rpcQueue.dataAvailable", "Broadcast") })
			c.Check(ok, "R15.5", f.Name, "cancellation callback wakes every waiter", cs.Call, "Broadcast on dataAvailable on every path of the callback", "the cancellation callback does not Broadcast on dataAvailable (a Signal wakes one waiter, which need not be the Pop whose context was cancelled): with several Pops waiting, the cancelled one can stay blocked")
		}
	}
	if f := c.MustFn("R15.4", "(*rpcQueue).Close"); f != nil {
		g := p.Graph(f)
		for _, cond := range []string{"rpcQueue.dataAvailable", "rpcQueue.spaceAvailable"} {
			ok, _ := g.MustPass(g.Entry(), PassOpts{}, func(n ast.Node) bool { return p.nodeCondOp(f, n, cond, "Broadcast") })
			c.Check(ok, "R15.4", f.Name, "Close broadcasts on "+shortFn(cond), f.Decl, "always", "Close does not wake the waiters on "+shortFn(cond))
		}
		ok, _ := g.MustPass(g.Entry(), PassOpts{}, func(n ast.Node) bool {
			for _, s := range p.StoresTo2(f, "rpcQueue.closed") {
				if s.Node == n && p.R(f).Val(s.RHS).IsConst("true") {
					return true
				}
			}
			return false
		})
		c.Check(ok, "R15.4", f.Name, "Close sets closed", f.Decl, "always", "Close does not set the flag")
		// the flag is set before the broadcasts
		for _, cs := range p.Sites(f, false, "sync.(*Cond).Broadcast") {
			bp, _ := g.Locate(cs.Call)
			okd := g.DominatedByNode(bp, func(n ast.Node) bool {
				for _, s := range p.StoresTo2(f, "rpcQueue.closed") {
					if s.Node == n {
						return true
					}
				}
				return false
			})
			c.Check(okd, "R15.4", f.Name, "flag set before waking waiters", cs.Call, "store dominates broadcast", "waiters can be woken before the closed flag is set")
		}
	}
	for _, s := range p.StoresTo("rpcQueue.closed") {
		c.Check(s.Fn.Root().Name == "(*rpcQueue).Close", "R15.4", s.Fn.Root().Name, "closed written only by Close", s.Node, "Close", "the closed flag is written outside Close")
	}
	// R15.6 consumer
	if f := c.MustFn("R15.6", "(*PubSub).handleSendingMessages"); f != nil {
		g := p.Graph(f)
		popErr := AtomCmp("Pop err != nil", func(v *V) bool { return v.Kind == "tuple" && v.Name == "1" && v.Args[0].IsCall("(*rpcQueue).Pop") }, "!=", isNilV)
		edges := g.AtomEdges(popErr, true)
		if len(edges) == 0 {
			c.Bad("R15.6", f.Name, "writer leaves on Pop error", f.Decl, "the Pop error is not tested")
		}
		for _, e := range edges {
			ok, _ := g.MustPass(EdgeTarget(e), PassOpts{Until: p.iterationUntil(f, condNodeOf(e))}, func(n ast.Node) bool { _, isRet := n.(*ast.ReturnStmt); return isRet })
			c.Check(ok, "R15.6", f.Name, "writer leaves on Pop error", condNodeOf(e), "returns", "the writer keeps looping after Pop failed (closed or cancelled queue): busy loop / use of a nil RPC")
		}
		pushes := p.Sites(f, true, "(*rpcQueue).Push", "(*rpcQueue).UrgentPush")
		c.Check(len(pushes) == 0, "R15.6", f.Name, "writer never pushes", f.Decl, "no push", "the consumer pushes into its own queue")
		// written RPC is the popped one
		for _, cs := range p.Sites(f, false, "var:writeRpc", "lit:"+f.Name+"$1") {
			_ = cs
		}
	}
	// R15.7 queue shape
	for _, tc := range []struct{ fn, field string }{{"(*priorityQueue).NormalPush", "priorityQueue.normal"}, {"(*priorityQueue).PriorityPush", "priorityQueue.priority"}} {
		if f := c.MustFn("R15.7", tc.fn); f != nil {
			n := 0
			for _, s := range p.StoresTo2(f, tc.field) {
				n++
				ce, isCall := unparen(s.RHS).(*ast.CallExpr)
				ok := isCall && p.CalleeName(f.Info(), ce) == "builtin.append" && len(ce.Args) == 2 && !ce.Ellipsis.IsValid() &&
					p.R(f).Val(ce.Args[0]).IsField(tc.field) && p.R(f).Val(ce.Args[1]).Kind == "var"
				c.Check(ok, "R15.7", f.Name, "appends at the tail", s.Node, "x = append(x, rpc)", "the RPC is not appended at the tail of its class: "+p.Src(s.RHS))
			}
			c.Check(n == 1, "R15.7", f.Name, "one store", f.Decl, "one", "unexpected stores")
		}
	}
	if f := c.MustFn("R15.7", "(*priorityQueue).Pop"); f != nil {
		hasPrio := AtomCmp("len(priority) > 0", func(v *V) bool { return v.Kind == "len" && v.Args[0].IsField("priorityQueue.priority") }, ">", isZero)
		hasNorm := AtomCmp("len(normal) > 0", func(v *V) bool { return v.Kind == "len" && v.Args[0].IsField("priorityQueue.normal") }, ">", isZero)
		for _, s := range p.StoresTo2(f, "priorityQueue.normal") {
			if s.Kind == "assign" {
				ok, why := p.DomAny(f, s.Node, AtomWant{hasPrio, false})
				c.Check(ok, "R15.7", f.Name, "normal class served only when no urgent RPC is queued", s.Node, why, why)
				ok, why = p.DomAny(f, s.Node, AtomWant{hasNorm, true})
				c.Check(ok, "R15.7", f.Name, "normal dequeue only when non-empty", s.Node, why, why)
			}
		}
		for _, tc := range []struct {
			field string
			a     Atom
		}{{"priorityQueue.normal", hasNorm}, {"priorityQueue.priority", hasPrio}} {
			n := 0
			for _, s := range p.StoresTo2(f, tc.field) {
				if s.Kind != "assign" {
					continue
				}
				n++
				v := p.R(f).Val(s.RHS)
				ok := v.Kind == "slice" && v.Args[0].IsField(tc.field) && v.Args[1].Name == "1" && v.Args[2].Name == "_"
				c.Check(ok, "R15.7", f.Name, "dequeues from the head of "+shortFn(tc.field), s.Node, v.String(), "the remaining queue is "+v.String())
				ok2, why := p.DomAny(f, s.Node, AtomWant{tc.a, true})
				c.Check(ok2, "R15.7", f.Name, shortFn(tc.field)+" dequeued only when non-empty", s.Node, why, why)
			}
			c.Check(n == 1, "R15.7", f.Name, "one dequeue site for "+shortFn(tc.field), f.Decl, "one", "unexpected number of dequeue sites")
		}
		// the returned element is index 0 of the class being dequeued
		inspectNoLit(f.Body, func(x ast.Node) bool {
			as, ok := x.(*ast.AssignStmt)
			if !ok || len(as.Lhs) != 1 || len(as.Rhs) != 1 {
				return true
			}
			if id, isId := as.Lhs[0].(*ast.Ident); !isId || id.Name == "_" {
				return true
			}
			ix, isIdx := unparen(as.Rhs[0]).(*ast.IndexExpr)
			if !isIdx {
				return true
			}
			iv := p.R(f).Val(ix.Index)
			c.Check(iv.Name == "0", "R15.7", f.Name, "returns the head element", as, "index 0", "returns element "+iv.String())
			return true
		})
	}
	c.Min["R15.1"] = 14
	c.Min["R15.2"] = 12
	c.Min["R15.3"] = 9
	c.Min["R15.4"] = 11
	c.Min["R15.5"] = 9
	c.Min["R15.6"] = 2
	c.Min["R15.7"] = 12
}

// nodeCondOp: the CFG node contains a call of one of ops on the condition variable field cond.
func (p *Prog) nodeCondOp(f *Func, n ast.Node, cond string, ops ...string) bool {
	for _, cs := range p.CallsIn(f, n, false) {
		if !strings.HasPrefix(cs.Name, "sync.(*Cond).") || !inSet(shortFn(cs.Name), ops...) {
			continue
		}
		if se, ok := unparen(cs.Call.Fun).(*ast.SelectorExpr); ok && p.R(f).Val(se.X).IsField(cond) {
			return true
		}
	}
	return false
}

func (p *Prog) domByCondOp(f *Func, target ast.Node, cond string, ops ...string) bool {
	g := p.Graph(f)
	pt, ok := g.Locate(target)
	if !ok {
		return false
	}
	return g.DominatedByNode(pt, func(n ast.Node) bool { return p.nodeCondOp(f, n, cond, ops...) })
}
