package main

// Boolean-flag threading for the reachability primitives.
//
// A local boolean that is only ever assigned constants (or copies of such locals) and then branched on —
// `doPX := true … doPX = false … if doPX`, or the result flag of an inlined helper — correlates an
// earlier branch with a later one. Edge-cut dominance and must-pass-through walk the product of the CFG
// with the known values of those flags and do not follow a branch edge that the flags refute. Only
// infeasible paths are removed, so every "all paths" verdict stays sound; flags that are address-taken,
// captured and assigned by another function literal, or assigned non-constant values are "unknown".

import (
	"go/ast"
	"go/constant"
	"go/token"
	"go/types"
)

type flagEffect struct {
	obj  int
	kind int8 // 0 unknown, 1 true, 2 false, 3 copy of src
	src  int
}

type flagInfo struct {
	idx     map[types.Object]int
	effects map[ast.Node][]flagEffect
}

type flagEnv []int8

func (e flagEnv) key() string { return string(e2b(e)) }
func e2b(e flagEnv) []byte {
	b := make([]byte, len(e))
	for i, v := range e {
		b[i] = byte('0' + v)
	}
	return b
}

func (g *Graph) flags() *flagInfo {
	if g.flagsDone {
		return g.flagInf
	}
	g.flagsDone = true
	info := g.F.Info()
	isBool := func(t types.Type) bool {
		switch u := t.Underlying().(type) {
		case *types.Basic:
			return u.Kind() == types.Bool
		case *types.Interface, *types.Pointer:
			return true // nil-ness flag: state 1 = non-nil, 2 = nil
		}
		return false
	}
	// candidate flags: bool locals declared inside this function's body (not in nested literals)
	cand := map[types.Object]bool{}
	inspectNoLit(g.F.Body, func(n ast.Node) bool {
		if id, ok := n.(*ast.Ident); ok {
			if v, ok := info.Defs[id].(*types.Var); ok && !v.IsField() && isBool(v.Type()) {
				cand[v] = true
			}
		}
		return true
	})
	if len(cand) == 0 {
		return nil
	}
	// disqualify: address taken anywhere, or assigned inside a nested function literal
	ast.Inspect(g.F.Body, func(n ast.Node) bool {
		switch x := n.(type) {
		case *ast.UnaryExpr:
			if x.Op == token.AND {
				if id, ok := unparen(x.X).(*ast.Ident); ok {
					delete(cand, info.Uses[id])
				}
			}
		case *ast.FuncLit:
			ast.Inspect(x.Body, func(m ast.Node) bool {
				switch s := m.(type) {
				case *ast.AssignStmt:
					for _, l := range s.Lhs {
						if id, ok := unparen(l).(*ast.Ident); ok {
							delete(cand, info.Uses[id])
						}
					}
				case *ast.IncDecStmt:
				case *ast.RangeStmt:
					for _, l := range []ast.Expr{s.Key, s.Value} {
						if id, ok := l.(*ast.Ident); ok && s.Tok == token.ASSIGN {
							delete(cand, info.Uses[id])
						}
					}
				}
				return true
			})
		}
		return true
	})
	if len(cand) == 0 {
		return nil
	}
	fi := &flagInfo{idx: map[types.Object]int{}, effects: map[ast.Node][]flagEffect{}}
	objOf := func(e ast.Expr) types.Object {
		id, ok := unparen(e).(*ast.Ident)
		if !ok {
			return nil
		}
		o := info.Uses[id]
		if o == nil {
			o = info.Defs[id]
		}
		if o != nil && cand[o] {
			return o
		}
		return nil
	}
	index := func(o types.Object) int {
		if i, ok := fi.idx[o]; ok {
			return i
		}
		fi.idx[o] = len(fi.idx)
		return fi.idx[o]
	}
	effOf := func(lhs types.Object, rhs ast.Expr) flagEffect {
		ef := flagEffect{obj: index(lhs)}
		if rhs == nil {
			return ef
		}
		if tv, ok := info.Types[rhs]; ok && tv.Value != nil && tv.Value.Kind() == constant.Bool {
			if constant.BoolVal(tv.Value) {
				ef.kind = 1
			} else {
				ef.kind = 2
			}
			return ef
		}
		if tv, ok := info.Types[rhs]; ok && tv.IsNil() {
			ef.kind = 2
			return ef
		}
		if definitelyNonNil(info, rhs) {
			ef.kind = 1
			return ef
		}
		if so := objOf(rhs); so != nil {
			ef.kind, ef.src = 3, index(so)
		}
		return ef
	}
	for _, b := range g.C.Blocks {
		for _, n := range b.Nodes {
			var effs []flagEffect
			switch s := n.(type) {
			case *ast.AssignStmt:
				for i, l := range s.Lhs {
					o := objOf(l)
					if o == nil {
						continue
					}
					var rhs ast.Expr
					if len(s.Rhs) == len(s.Lhs) && (s.Tok == token.ASSIGN || s.Tok == token.DEFINE) {
						rhs = s.Rhs[i]
					}
					effs = append(effs, effOf(o, rhs))
				}
			case *ast.ValueSpec:
				for i, id := range s.Names {
					o := objOf(id)
					if o == nil {
						continue
					}
					if len(s.Values) == 0 {
						effs = append(effs, flagEffect{obj: index(o), kind: 2}) // zero value: false / nil
					} else if len(s.Values) == len(s.Names) {
						effs = append(effs, effOf(o, s.Values[i]))
					} else {
						effs = append(effs, flagEffect{obj: index(o)})
					}
				}
			case *ast.RangeStmt:
				for _, l := range []ast.Expr{s.Key, s.Value} {
					if l != nil {
						if o := objOf(l); o != nil {
							effs = append(effs, flagEffect{obj: index(o)})
						}
					}
				}
			default:
				// range key/value idents appear as separate nodes in go/cfg; any other write form is impossible for a bool
				if id, ok := n.(*ast.Ident); ok {
					if o := objOf(id); o != nil && info.Defs[id] != nil {
						effs = append(effs, flagEffect{obj: index(o)})
					}
				}
			}
			if len(effs) > 0 {
				fi.effects[n] = effs
			}
		}
	}
	if len(fi.idx) == 0 {
		return nil
	}
	g.flagInf = fi
	return fi
}

func (fi *flagInfo) apply(env flagEnv, n ast.Node) flagEnv {
	effs := fi.effects[n]
	if len(effs) == 0 {
		return env
	}
	out := make(flagEnv, len(env))
	copy(out, env)
	for _, e := range effs { // parallel assignment: read from the old env
		switch e.kind {
		case 0:
			out[e.obj] = 0
		case 1, 2:
			out[e.obj] = e.kind
		case 3:
			out[e.obj] = env[e.src]
		}
	}
	return out
}

// feasible reports whether edge (b, succ) can be taken under env.
func (g *Graph) feasible(fi *flagInfo, b *cfgBlock, succ int, env flagEnv) bool {
	if fi == nil || len(b.Succs) != 2 {
		return true
	}
	c := g.condOf[b]
	if c == nil {
		return true
	}
	info := g.F.Info()
	// purely syntactic evaluation (no value resolution: this runs inside the reachability primitive)
	var ev func(e ast.Expr) int8 // 0 unknown 1 true 2 false
	ev = func(e ast.Expr) int8 {
		e = unparen(e)
		switch x := e.(type) {
		case *ast.Ident:
			if o := info.Uses[x]; o != nil {
				if i, ok := fi.idx[o]; ok && isBoolObj(o) {
					return env[i]
				}
			}
			return 0
		case *ast.UnaryExpr:
			if x.Op == token.NOT {
				switch ev(x.X) {
				case 1:
					return 2
				case 2:
					return 1
				}
			}
			return 0
		case *ast.BinaryExpr:
			switch x.Op {
			case token.EQL, token.NEQ:
				// v == nil / v != nil on a tracked nil-ness flag
				var side ast.Expr
				if tv, ok := info.Types[x.Y]; ok && tv.IsNil() {
					side = x.X
				} else if tv, ok := info.Types[x.X]; ok && tv.IsNil() {
					side = x.Y
				}
				if id, ok := unparen(side).(*ast.Ident); ok && side != nil {
					if o := info.Uses[id]; o != nil {
						if i, ok := fi.idx[o]; ok && !isBoolObj(o) {
							st := env[i] // 1 non-nil, 2 nil
							if st == 0 {
								return 0
							}
							isNil := st == 2
							if (x.Op == token.EQL) == isNil {
								return 1
							}
							return 2
						}
					}
				}
				return 0
			case token.LAND:
				a, b := ev(x.X), ev(x.Y)
				if a == 2 || b == 2 {
					return 2
				}
				if a == 1 && b == 1 {
					return 1
				}
			case token.LOR:
				a, b := ev(x.X), ev(x.Y)
				if a == 1 || b == 1 {
					return 1
				}
				if a == 2 && b == 2 {
					return 2
				}
			}
			return 0
		}
		return 0
	}
	f := c
	switch ev(f) {
	case 1:
		return succ == 0
	case 2:
		return succ == 1
	}
	return true
}

func isBoolObj(o types.Object) bool {
	b, ok := o.Type().Underlying().(*types.Basic)
	return ok && b.Kind() == types.Bool
}

// definitelyNonNil: expression forms whose value can never be nil — &T{…}, a composite literal or function
// literal (boxed into an interface), and the error constructors of the standard library.
func definitelyNonNil(info *types.Info, e ast.Expr) bool {
	switch x := unparen(e).(type) {
	case *ast.UnaryExpr:
		if x.Op == token.AND {
			_, ok := unparen(x.X).(*ast.CompositeLit)
			return ok
		}
	case *ast.CompositeLit:
		if t := info.TypeOf(x); t != nil {
			switch t.Underlying().(type) {
			case *types.Struct, *types.Array:
				return true
			}
		}
	case *ast.FuncLit:
		return true
	case *ast.CallExpr:
		if se, ok := unparen(x.Fun).(*ast.SelectorExpr); ok {
			if fn, ok := info.Uses[se.Sel].(*types.Func); ok && fn.Pkg() != nil {
				full := fn.Pkg().Path() + "." + fn.Name()
				return full == "fmt.Errorf" || full == "errors.New"
			}
		}
	}
	return false
}
