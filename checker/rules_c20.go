package main

import (
	"go/ast"
	"go/types"
	"strings"
)

func init() {
	register(&Property{ID: "C20", Run: runC20,
		Explain: "The built-in sequence-number validator decided for every interleaving of validation workers: (R20.1) the re-read of the stored nonce, the comparison `seqno <= nonce` that decides acceptance, and the store of the new nonce lie in one critical section of the exclusive lock (no release in between; the compared nonce is decoded from a Get performed under that lock); (R20.2) ValidationAccept is returned only behind the false edge of that comparison and after the Put, every `seqno <= nonce` edge returns ValidationIgnore, and the function's result set is {Accept, Ignore} (never Reject: no penalty); (R20.3) the value stored is an 8-byte big-endian encoding of exactly the compared seqno under the same key (the author) that was read; (shared R04.2-R04.4) an Ignore verdict of the validator is never overridden by another validator's Accept, in the inline and asynchronous stages; (R20.4) decode safety: every fixed-width decode is guarded by a length test of the same slice (== 8 for the sequence number taken from the message, >= 8 for the stored nonce) and no slice expression with a length-derived bound is unguarded. Together: the stored nonce is non-decreasing and equals the last accepted number. NOT decided: behaviour of the user-supplied PeerMetadataStore (including failing Put), interaction with seen-cache expiry.",
		Assume:  []string{"PeerMetadataStore.Get returns what the last successful Put stored", "sync.RWMutex semantics"},
		Mutants: []Mutant{
			{Name: "write-section-rlock", File: "validation_builtin.go", Old: "\tv.mx.Lock()\n\tdefer v.mx.Unlock()\n", New: "\tv.mx.RLock()\n\tdefer v.mx.RUnlock()\n", Expect: "R20.1"},
			{Name: "no-reread-under-lock", File: "validation_builtin.go", Old: "\tnonceBytes, err = v.meta.Get(ctx, p)\n\tif err != nil {\n\t\tv.logger.Warn(\"error retrieving peer nonce\", \"err\", err)\n\t\treturn ValidationIgnore\n\t}\n\n\tif len(nonceBytes) >= 8 {\n\t\tnonce = binary.BigEndian.Uint64(nonceBytes)\n\t}\n\n\tif seqno <= nonce {\n\t\treturn ValidationIgnore\n\t}\n\n\t// update the nonce", New: "\t// update the nonce", Expect: "R20.1"},
			{Name: "unlock-before-put", File: "validation_builtin.go", Old: "\t// update the nonce\n\tnonceBytes = make([]byte, 8)", New: "\t// update the nonce\n\tv.mx.Unlock()\n\tv.mx.Lock()\n\tnonceBytes = make([]byte, 8)", Expect: "R20.1"},
			{Name: "second-compare-lt", File: "validation_builtin.go", Old: "\tif seqno <= nonce {\n\t\treturn ValidationIgnore\n\t}\n\n\t// update the nonce", New: "\tif seqno < nonce {\n\t\treturn ValidationIgnore\n\t}\n\n\t// update the nonce", Expect: "R20."},
			{Name: "replay-rejected", File: "validation_builtin.go", Old: "\tif seqno <= nonce {\n\t\treturn ValidationIgnore\n\t}\n\n\t// get the nonce", New: "\tif seqno <= nonce {\n\t\treturn ValidationReject\n\t}\n\n\t// get the nonce", Expect: "R20.2"},
			{Name: "stores-other-value", File: "validation_builtin.go", Old: "\tbinary.BigEndian.PutUint64(nonceBytes, seqno)", New: "\tbinary.BigEndian.PutUint64(nonceBytes, nonce+1)", Expect: "R20.3"},
			{Name: "put-under-other-key", File: "validation_builtin.go", Old: "\terr = v.meta.Put(ctx, p, nonceBytes)", New: "\terr = v.meta.Put(ctx, m.ReceivedFrom, nonceBytes)", Expect: "R20.3"},
			{Name: "seqno-len-gt-zero", File: "validation_builtin.go", Old: "\tif len(seqnoBytes) == 8 {", New: "\tif len(seqnoBytes) > 0 {", Expect: "R20.4"},
			{Name: "seqno-leftpad-unbounded", File: "validation_builtin.go", Old: "\tif len(seqnoBytes) == 8 {\n\t\tseqno = binary.BigEndian.Uint64(seqnoBytes)\n\t}", New: "\tif len(seqnoBytes) > 0 {\n\t\tvar buf [8]byte\n\t\tcopy(buf[8-len(seqnoBytes):], seqnoBytes)\n\t\tseqno = binary.BigEndian.Uint64(buf[:])\n\t}", Expect: "R20.4"},
		}})
}

const fnSeqnoValidate = "(*BasicSeqnoValidator).validate"

func runC20(c *RuleCtx) {
	checkSeqnoValidator(c, true)
	// "ignored, so neither delivered nor forwarded": an Ignore of an inline validator is never overridden (C04 R04.2/R04.4, shared)
	sub := &RuleCtx{P: c.P, Prop: c.Prop, Min: map[string]int{}}
	runC04(sub)
	for _, o := range sub.Obs {
		if o.Rule == "R04.2" || o.Rule == "R04.4" || o.Rule == "R04.3" {
			c.Obs = append(c.Obs, o)
		}
	}
	c.Min["R04.2"] = 10
	c.Min["R20.1"] = 5
	c.Min["R20.2"] = 4
	c.Min["R20.3"] = 4
	c.Min["R20.4"] = 3
}

func checkSeqnoValidator(c *RuleCtx, all bool) {
	p := c.P
	f := c.MustFn("R20.1", fnSeqnoValidate)
	if f == nil {
		return
	}
	g := p.Graph(f)
	const mx = "BasicSeqnoValidator.mx"
	lf := p.NewLockFlow(f, mx, lockNone)
	// anchors: Put call, PutUint64 call, the seqno object
	puts := p.Sites(f, false, "PeerMetadataStore.Put")
	encs := p.Sites(f, false, "encoding/binary.bigEndian.PutUint64", "encoding/binary.ByteOrder.PutUint64")
	if len(puts) != 1 || len(encs) != 1 {
		c.Undecided("R20.1", f.Name, "Put / PutUint64 anchors", f.Decl, "expected exactly one meta.Put and one PutUint64")
		return
	}
	put, enc := puts[0], encs[0]
	seqId, _ := unparen(enc.Call.Args[1]).(*ast.Ident)
	var seqObj types.Object
	if seqId != nil {
		seqObj = f.Info().Uses[seqId]
	}
	// nonce object: the local compared with seqno
	var nonceObj types.Object
	le := Atom{Desc: "seqno <= nonce", Match: func(g *Graph, e ast.Expr) (bool, bool) {
		be, ok := unparen(e).(*ast.BinaryExpr)
		if !ok {
			return false, false
		}
		xi, ok1 := unparen(be.X).(*ast.Ident)
		yi, ok2 := unparen(be.Y).(*ast.Ident)
		if !ok1 || !ok2 {
			return false, false
		}
		xo, yo := g.F.Info().Uses[xi], g.F.Info().Uses[yi]
		op := be.Op.String()
		if yo == seqObj && xo != seqObj {
			xo, yo = yo, xo
			op = flipOp(op)
		}
		if xo != seqObj || seqObj == nil {
			return false, false
		}
		if nonceObj != nil && yo != nonceObj {
			return false, false
		}
		switch op {
		case "<=":
			nonceObj = yo
			return true, true
		case ">":
			nonceObj = yo
			return true, false
		}
		return false, false
	}}
	if all {
		// ---- R20.1
		pm, _ := lf.At(put.Call)
		c.Check(pm == lockExcl, "R20.1", f.Name, "nonce stored under the exclusive lock", put.Call, "mx "+pm.String(), "the new nonce is stored while mx is "+pm.String())
		// the deciding comparison: the last `seqno <= nonce` test that dominates the Put
		var deciding []Edge
		pp, _ := g.Locate(put.Call)
		for _, e := range g.AtomEdges(le, false) {
			if g.Dominated(pp, []Edge{e}) {
				deciding = append(deciding, e)
			}
		}
		okLocked := false
		var decidingNode ast.Node
		for _, e := range deciding {
			if m, _ := lf.At(condNodeOf(e)); m == lockExcl {
				okLocked = true
				decidingNode = condNodeOf(e)
			}
		}
		c.Check(okLocked, "R20.1", f.Name, "deciding comparison made under the exclusive lock", put.Call, "a `seqno <= nonce` test evaluated with mx held exclusively dominates the store", "the comparison that decides acceptance is not made inside the exclusive critical section: two workers can both accept the same or a lower sequence number")
		if decidingNode != nil {
			dp, _ := g.Locate(decidingNode)
			// a Get under the exclusive lock dominates the deciding comparison, and the nonce is decoded from it
			okGet := g.DominatedByNode(dp, func(n ast.Node) bool {
				if !p.NodeCalls(f, n, "PeerMetadataStore.Get") {
					return false
				}
				m, _ := lf.At(n)
				return m == lockExcl
			})
			c.Check(okGet, "R20.1", f.Name, "nonce re-read under the exclusive lock", decidingNode, "meta.Get under the lock dominates the comparison", "the nonce compared inside the critical section is not re-read from the store under the lock (stale value)")
			// between the locked Get and the comparison, nonce is (conditionally) reassigned from that read
			okDecode := false
			if nonceObj != nil {
				for _, d := range p.R(f).Defs(nonceObj) {
					if d.kind != "assign" || d.rhs == nil {
						continue
					}
					m, _ := lf.At(d.node)
					if m == lockExcl && p.R(f).Val(d.rhs).Has(func(v *V) bool { return strings.HasSuffix(v.Name, ".Uint64") }) {
						dn, _ := g.Locate(d.node)
						if g.ReachableFrom(dn, dp, nil, nil) {
							okDecode = true
						}
					}
				}
			}
			if !okDecode {
				// the decoded value may reach the compared variable through local copies (a decode helper's result):
				// follow every source chain of the operands of the comparison
				ast.Inspect(decidingNode, func(x ast.Node) bool {
					id, ok := x.(*ast.Ident)
					if !ok || okDecode {
						return !okDecode
					}
					if _, isVar := f.Info().Uses[id].(*types.Var); !isVar {
						return true
					}
					for _, ch := range p.R(f).Sources(id) {
						if ch.Leaf == nil || !ch.Leaf.Has(func(v *V) bool { return strings.HasSuffix(v.Name, ".Uint64") }) {
							continue
						}
						for _, n := range ch.Nodes {
							if m, _ := lf.At(n); m == lockExcl {
								if dn, located := g.Locate(n); located && g.ReachableFrom(dn, dp, nil, nil) {
									okDecode = true
								}
							}
						}
					}
					return true
				})
			}
			c.Check(okDecode, "R20.1", f.Name, "compared nonce decoded inside the critical section", decidingNode, "nonce is assigned from a decode under the lock", "the nonce used by the deciding comparison is not refreshed inside the critical section")
			// no release between the lock acquisition and the Put
			rel := false
			for _, cs := range p.FuncCalls(f, false) {
				id, op := p.mutexOfCall(f, cs.Call)
				if id != mx || (op != "Unlock" && op != "RUnlock") {
					continue
				}
				if _, isDefer := p.parents[cs.Call].(*ast.DeferStmt); isDefer {
					continue
				}
				up, _ := g.Locate(cs.Call)
				if g.ReachableFrom(dp, up, nil, nil) && g.ReachableFrom(up, pp, nil, nil) {
					rel = true
				}
				// or between the locked Get and the comparison
				if m, _ := lf.At(cs.Call); m == lockExcl {
					rel = true
				}
			}
			c.Check(!rel, "R20.1", f.Name, "one critical section from re-read to store", put.Call, "no release of mx between the re-read, the comparison and the store", "mx is released between the comparison and the store: another worker can interleave")
		}
		// ---- R20.2
		n := 0
		returnsIn(f, func(r *ast.ReturnStmt) {
			if len(r.Results) != 1 || !p.R(f).Val(r.Results[0]).IsConst("ValidationAccept") {
				return
			}
			n++
			rp, _ := g.Locate(r)
			okCmp := len(deciding) > 0 && g.Dominated(rp, deciding)
			c.Check(okCmp, "R20.2", f.Name, "Accept only behind the locked `seqno > nonce` edge", r, "dominated", "Accept can be returned without the locked comparison having found seqno > nonce")
			c.Check(p.DomCall(f, r, "PeerMetadataStore.Put"), "R20.2", f.Name, "Accept only after the nonce was stored", r, "Put dominates", "Accept can be returned without storing the new nonce")
		})
		if n == 0 {
			c.Bad("R20.2", f.Name, "accepting return", f.Decl, "no `return ValidationAccept`")
		}
		for _, e := range g.AtomEdges(le, true) {
			ok, _ := g.MustPass(EdgeTarget(e), PassOpts{}, func(n ast.Node) bool {
				r, ok := n.(*ast.ReturnStmt)
				return ok && len(r.Results) == 1 && p.R(f).Val(r.Results[0]).IsConst("ValidationIgnore")
			})
			c.Check(ok, "R20.2", f.Name, "seqno <= nonce => Ignore", condNodeOf(e), "returns ValidationIgnore", "a replayed or old sequence number is not answered with Ignore")
		}
		ef := &EnumFlow{P: p, F: f, Universe: verdicts, TypeName: "ValidationResult"}
		ef.Run()
		rs := ef.ReturnSet(0)
		c.Check(rs.SubsetOf("ValidationAccept", "ValidationIgnore"), "R20.2", f.Name, "result set within {Accept, Ignore}", f.Decl, rs.String(), "the validator can return "+rs.String()+" (a replay must be ignored, not penalised)")
		// ---- R20.3
		kv := p.R(f).Val(put.Call.Args[1])
		okKey := stripConv(kv).IsCall(fnMsgGetFrom)
		for _, gs := range p.Sites(f, false, "PeerMetadataStore.Get") {
			if !p.R(f).Val(gs.Call.Args[1]).Equal(kv) {
				okKey = false
			}
		}
		c.Check(okKey, "R20.3", f.Name, "nonce read and stored under the author's key", put.Call, kv.String(), "Get/Put keys differ or are not the message author: "+kv.String())
		bv := p.R(f).Val(put.Call.Args[2])
		c.Check(bv.IsCall("builtin.make") && len(bv.Args) >= 2 && bv.Args[1].Name == "8", "R20.3", f.Name, "stored value is a fresh 8-byte buffer", put.Call, bv.String(), "stored bytes are "+bv.String())
		bufSame := false
		if a, ok := unparen(enc.Call.Args[0]).(*ast.Ident); ok {
			if b, ok := unparen(put.Call.Args[2]).(*ast.Ident); ok && f.Info().Uses[a] == f.Info().Uses[b] {
				bufSame = true
			}
		}
		c.Check(bufSame && p.DomCall(f, put.Call, enc.Name), "R20.3", f.Name, "buffer encoded before it is stored", put.Call, "PutUint64 on the stored buffer dominates Put", "the stored buffer is not the one PutUint64 filled")
		c.Check(seqObj != nil && seqId != nil, "R20.3", f.Name, "encoded value is the compared seqno", enc.Call, "same variable", "the encoded value "+p.Src(enc.Call.Args[1])+" is not the sequence number that was compared")
		// seqno assigned only from the message's Seqno
		if seqObj != nil {
			okSrc := true
			for _, d := range p.R(f).Defs(seqObj) {
				if d.kind == "zero" {
					continue
				}
				if d.kind != "assign" || d.rhs == nil {
					okSrc = false
					continue
				}
				v := p.R(f).Val(d.rhs)
				if !(strings.HasSuffix(v.Name, ".Uint64") && v.Has(func(x *V) bool { return x.IsCall("pb.(*Message).GetSeqno") })) {
					okSrc = false
				}
			}
			c.Check(okSrc, "R20.3", f.Name, "seqno decoded from the message's Seqno field", f.Decl, "only assignment", "seqno has another source")
		}
	}
	// ---- R20.4 decode safety (shared with C12 as R12.2)
	rule := "R20.4"
	if !all {
		rule = "R12.2"
	}
	decs := p.Sites(f, false, "encoding/binary.bigEndian.Uint64", "encoding/binary.ByteOrder.Uint64")
	if len(decs) < 3 {
		c.Undecided(rule, f.Name, "decode sites", f.Decl, "fewer fixed-width decodes than known")
	}
	for _, d := range decs {
		arg := p.R(f).Val(d.Call.Args[0])
		fromMsg := arg.Has(func(x *V) bool { return x.IsCall("pb.(*Message).GetSeqno") })
		lenOf := func(v *V) bool { return v.Kind == "len" && v.Args[0].Equal(arg) }
		eq8 := AtomCmp("len == 8", lenOf, "==", isLit("8"))
		ge8 := AtomCmp("len >= 8", lenOf, ">=", isLit("8"))
		var ok bool
		var why string
		if fromMsg {
			ok, why = p.DomAny(f, d.Call, AtomWant{eq8, true})
			c.Check(ok, rule, f.Name, "message seqno decoded only when exactly 8 bytes", d.Call, why, "a sequence number of the wrong length is decoded (panic for < 8 bytes, silent truncation for > 8): "+why)
		} else {
			ok, why = p.DomAny(f, d.Call, AtomWant{eq8, true}, AtomWant{ge8, true})
			c.Check(ok, rule, f.Name, "stored nonce decoded only when >= 8 bytes", d.Call, why, why)
		}
	}
	// slice expressions with length-derived bounds
	inspectNoLit(f.Body, func(x ast.Node) bool {
		se, ok := x.(*ast.SliceExpr)
		if !ok {
			return true
		}
		for _, b := range []ast.Expr{se.Low, se.High, se.Max} {
			if b == nil {
				continue
			}
			bv := p.R(f).Val(b)
			if bv.Kind == "lit" || bv.Kind == "const" {
				continue
			}
			c.Bad(rule, f.Name, "slice bound derived from input length", se, "a slice expression in the sequence-number validator has the non-constant bound "+bv.String()+" (derived from attacker-controlled length) without a recognised two-sided guard")
		}
		return true
	})
}

// sameOperand: two expressions are the same local variable.
func sameOperand(f *Func, a ast.Node, b ast.Expr) bool {
	ai, ok1 := a.(*ast.Ident)
	bi, ok2 := unparen(b).(*ast.Ident)
	if !ok1 || !ok2 {
		return false
	}
	oa, ob := f.Info().Uses[ai], f.Info().Uses[bi]
	return oa != nil && oa == ob
}
