#!/bin/bash
# usage: try_seed.sh <patch.diff> <prop> [<prop>...]  — applies the patch to /repo, runs the quick checks, reverts.
patch="$1"; shift
cd /repo || exit 2
git diff --quiet || { echo "/repo has uncommitted changes"; exit 2; }
git apply "$patch" || { echo "patch does not apply"; exit 2; }
for p in "$@"; do
  out=$(/verif/check.sh "$p" quick -no-evidence 2>&1); rc=$?
  echo "$p rc=$rc: $(echo "$out" | grep -E 'violated|undecided|floor' | head -4)"
done
git checkout -- . 
