#!/bin/bash
# runs every claimed quick check (or thorough with arg) and prints one line each
tier="${1:-quick}"
cd /verif
for p in $(python3 -c "import json;print(' '.join(c['property_id'] for c in json.load(open('MANIFEST.json'))['checks']))"); do
  out=$(./check.sh $p $tier 2>&1); rc=$?
  echo "$p rc=$rc $(echo "$out" | grep -E '^pscheck' | tail -1)"
  if [ $rc -ne 0 ]; then
    echo "$out" | grep -E "violated|undecided|floor|self-audit|broken" | head -5
    echo "$out" > /tmp/runall.$p.$tier.log; echo "  (full output: /tmp/runall.$p.$tier.log)"
  fi
done
