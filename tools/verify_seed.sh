#!/bin/bash
# usage: verify_seed.sh <out-dir> <n> <seed-id>
# Confirms a seeded change in a scratch worktree: demo passes on the clean tree, fails with the change,
# and the repository's own suite still passes with the change. Writes /verif/seeded/<seed-id>/.
out="$1"; n="$2"; id="$3"
GO="env -u GOTOOLCHAIN -u GOSUMDB -u GOWORK GOFLAGS=-mod=mod GOPROXY=off go"
wt=/tmp/vseed.$$
git -C /repo worktree add -q --detach "$wt" HEAD || exit 2
trap 'git -C /repo worktree remove --force "$wt" 2>/dev/null; rm -rf "$wt"' EXIT
meta="$out/m$n.json"; patch="$out/m$n.diff"; test="$out/zz_seed_${n}_test.go"
pkgdir=$(python3 -c "
import json,re,sys
m=json.load(open('$meta')); c=m.get('demo_cmd','')
mm=re.search(r'\./(\S+)', c); print(mm.group(1).rstrip('/') if mm and mm.group(1)!='...' else '.')" 2>/dev/null || echo .)
head -5 "$test" | grep -q '^package timecache' && pkgdir=timecache
head -5 "$test" | grep -q '^package partialmessages' && pkgdir=partialmessages
run=$(grep -ohE 'func (Test[A-Za-z0-9_]+)' "$test" | awk '{print $2}' | paste -sd'|')
cp "$test" "$wt/$pkgdir/zz_seed_${n}_test.go"
cd "$wt"
$GO test -vet=off -count=1 -run "^($run)\$" ./$pkgdir > /tmp/vs.clean.$$ 2>&1; rc_clean=$?
git apply "$patch" || { echo "$id: patch does not apply"; exit 2; }
$GO test -vet=off -count=1 -run "^($run)\$" ./$pkgdir > /tmp/vs.mut.$$ 2>&1; rc_mut=$?
rm -f "$wt/$pkgdir/zz_seed_${n}_test.go"
$GO test -vet=off -count=1 -timeout 25m ./... > /tmp/vs.suite.$$ 2>&1; rc_suite=$?
if [ $rc_suite -ne 0 ]; then  # one retry for timing-sensitive tests
  $GO test -vet=off -count=1 -timeout 25m ./... > /tmp/vs.suite.$$ 2>&1; rc_suite=$?
fi
echo "$id: demo clean rc=$rc_clean, demo with change rc=$rc_mut, suite with change rc=$rc_suite"
if [ $rc_clean -eq 0 ] && [ $rc_mut -ne 0 ] && [ $rc_suite -eq 0 ]; then
  d=/verif/seeded/$id; mkdir -p "$d"
  cp "$patch" "$d/patch.diff"; cp "$test" "$d/zz_seed_test.go.txt"
  python3 - "$meta" "$d/meta.json" "$pkgdir" "$run" <<PY
import json,sys
m=json.load(open(sys.argv[1]))
m['demo_package_dir']=sys.argv[3]; m['demo_tests']=sys.argv[4]
m['confirmed']={'demo_on_clean_tree':'pass','demo_with_change':'fail','existing_suite_with_change':'pass',
 'how':'scratch worktree of /repo HEAD; go test -run demo on clean tree, again after git apply patch.diff, then go test ./... without the demo file'}
m['demo_failure_excerpt']=open('/tmp/vs.mut.$$').read()[-1500:]
json.dump(m,open(sys.argv[2],'w'),indent=1)
PY
  echo "$id: KEPT"
else
  echo "$id: REJECTED"; tail -5 /tmp/vs.clean.$$ /tmp/vs.mut.$$ | head -30; grep -E "^(FAIL|---)" /tmp/vs.suite.$$ | head
fi
rm -f /tmp/vs.*.$$
