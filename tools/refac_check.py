#!/usr/bin/env python3
"""False-alarm test: behaviour-preserving refactorings must leave every check silent.

usage: refac_check.py <diff> [<diff> ...]
Each diff is applied to a scratch worktree of /repo (never /repo itself), all twenty quick checks run
on that tree through the analyser's -repo flag, and the diff is reverted. Prints one line per diff.
"""
import os, sys, json, shutil, tempfile, concurrent.futures
sys.path.insert(0, os.path.dirname(os.path.abspath(__file__)))
from seed_matrix import sh, run_prop, snapshot_binary, PROPS, REPO, VERIF


def main():
    diffs = [os.path.abspath(d) for d in sys.argv[1:]]
    snapshot_binary()
    wt = tempfile.mkdtemp(prefix="refacwt.")
    os.rmdir(wt)
    r = sh(f"git -C {REPO} worktree add -q --detach {wt} HEAD")
    if r.returncode != 0:
        print(r.stdout)
        sys.exit(2)
    results = {}
    try:
        for d in diffs:
            r = sh(f"git -C {wt} apply {d}")
            if r.returncode != 0:
                sh(f"git -C {wt} reset -q --hard && git -C {wt} clean -fdq")
                r = sh(f"git -C {wt} apply --3way {d}")
                if r.returncode != 0:
                    sh(f"git -C {wt} reset -q --hard && git -C {wt} clean -fdq")
                else:
                    sh(f"git -C {wt} reset -q")
            if r.returncode != 0:
                print(d, "PATCH DOES NOT APPLY", r.stdout[-200:].replace("\n", " "))
                results[d] = {"error": "does not apply"}
                continue
            with concurrent.futures.ThreadPoolExecutor(8) as ex:
                res = list(ex.map(lambda p: run_prop(wt, p), PROPS))
            sh(f"git -C {wt} checkout -- . && git -C {wt} clean -fdq")
            alarms = {p: fired for p, rc, fired, broken, tail in res if rc == 1}
            broken = {p: tail for p, rc, fired, broken, tail in res if broken}
            results[d] = {"alarms": alarms, "broken": broken}
            if not alarms and not broken:
                print(d, "silent")
            else:
                print(d, "ALARM", {p: [f["key"] for f in v][:4] for p, v in alarms.items()}, "BROKEN" if broken else "", broken)
    finally:
        sh(f"git -C {REPO} worktree remove --force {wt}")
        shutil.rmtree(wt, ignore_errors=True)
    json.dump(results, open("/tmp/refac_check.last.json", "w"), indent=1)


if __name__ == "__main__":
    main()
