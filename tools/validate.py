#!/usr/bin/env python3
import json, sys, glob, jsonschema
jsonschema.validate(json.load(open('/verif/MANIFEST.json')), json.load(open('/root/.vp/MANIFEST.schema.json')))
es = json.load(open('/root/.vp/EVIDENCE.schema.json'))
n = 0
for f in sorted(glob.glob('/verif/evidence/C*.json')):
    if f.endswith('.violation.json'): continue
    jsonschema.validate(json.load(open(f)), es); n += 1
print('manifest valid;', n, 'evidence files valid')
