#!/usr/bin/env python3
"""Regenerates /verif/MANIFEST.json from the table below (run after adding a property's rules)."""
import json, os, re
here = os.path.dirname(os.path.dirname(os.path.abspath(__file__)))

# property id -> (DESIGN section, technique, level text, level note)
CLAIMED = {}
def claim(pid, technique, text, note):
    CLAIMED[pid] = dict(technique=technique, text=text, note=note)

exec(open(os.path.join(here, "tools", "claims.py")).read())

props = [json.loads(l)["id"] for l in open(os.path.join(here, "properties.jsonl"))]
checks, na = [], []
for pid in props:
    if pid in CLAIMED:
        c = CLAIMED[pid]
        checks.append({
            "property_id": pid,
            "quick_cmd": f"./check.sh {pid} quick",
            "thorough_cmd": f"./check.sh {pid} thorough",
            "evidence_file": f"/verif/evidence/{pid}.json",
            "replay_cmd_template": f"./check.sh {pid} quick -replay {{path}}",
            "engine": "pscheck",
            "level_claimed": {"category": "other", "text": c["text"], "design_ref": f"DESIGN.md §{pid}"},
            "level_note": c["note"],
            "technique": c["technique"],
        })
    else:
        na.append({"property_id": pid, "reason": NOT_CLAIMED.get(pid, "rules for this property are not built in this revision; see DESIGN.md")})
m = {
    "version": 1,
    "setup_cmd": "./build.sh",
    "hooks": {
        "guard": "verif",
        "enable": "none needed: the analyser reads /repo's source; no instrumentation is compiled into the library (the thorough tier additionally analyses the tree with -tags verif)",
        "baseline_off_cmd": "cd /repo && go test -vet=off -count=1 -timeout 25m ./...",
        "source_commits": [],
        "add_only": True,
    },
    "engines": [{
        "name": "pscheck",
        "path": "/verif/checker",
        "serves_properties": sorted(CLAIMED),
        "kind_free_text": "repository-specific static analyser (go/packages + go/types + go/cfg; go/ssa+VTA call graph for reachability cones): edge-cut dominance, must-pass-through, who-may-call/write, lock-held data-flow, enum value-set propagation, gate tables, field exhaustiveness, channel-operation classes, inventories; mutation self-audit via in-memory overlays in the thorough tier",
    }],
    "checks": checks,
    "not_applicable": na,
    "notes": "All claims are at level 'other': structural necessary conditions decided from source for every input/schedule; the behavioural remainder of each property is listed under 'Not decided' in DESIGN.md and in each check's level_note. Known genuine defects left in place are in known_findings.json.",
}
json.dump(m, open(os.path.join(here, "MANIFEST.json"), "w"), indent=1)
print("claimed:", sorted(CLAIMED), "not claimed:", [x["property_id"] for x in na])
