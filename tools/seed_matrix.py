#!/usr/bin/env python3
"""Seeded-change x check matrix.

For every confirmed seeded change in /verif/seeded/<id>/patch.diff: apply it to a scratch worktree of
/repo (never to /repo itself, so registered checks may run concurrently), run the quick tier of every
property's check on that tree (the analyser's -repo flag; nothing is executed), record which
obligations fire, and revert. Writes /verif/seeded/MATRIX.json and /verif/seeded/MATRIX.md.

usage: seed_matrix.py [seed-id ...]      (default: all)
"""
import json, os, subprocess, sys, re, concurrent.futures, shutil, tempfile

VERIF = os.path.dirname(os.path.dirname(os.path.abspath(__file__)))
REPO = os.environ.get("VERIF_REPO", "/repo")
PROPS = ["C%02d" % i for i in range(1, 21)]


def sh(cmd, **kw):
    return subprocess.run(cmd, shell=True, stdout=subprocess.PIPE, stderr=subprocess.STDOUT, text=True, **kw)


_BIN = None


def snapshot_binary():
    """Build the analyser once and run a private copy, so that editing the checker while a long
    matrix run is in progress cannot disturb it."""
    global _BIN
    if _BIN is None:
        sh(os.path.join(VERIF, "build.sh"))
        _BIN = os.path.join(tempfile.gettempdir(), "pscheck.%d" % os.getpid())
        shutil.copy2(os.path.join(VERIF, "bin", "pscheck"), _BIN)
        import atexit
        atexit.register(lambda: os.path.exists(_BIN) and os.remove(_BIN))
    return _BIN


def run_prop(wt, prop):
    env = dict(os.environ, VERIF_DIR=VERIF)
    cmd = ". %s/env.sh; exec %s -prop %s -tier quick -repo %s -no-evidence" % (VERIF, snapshot_binary(), prop, wt)
    r = subprocess.run(["bash", "-c", cmd], env=env,
                       stdout=subprocess.PIPE, stderr=subprocess.STDOUT, text=True)
    fired = []
    for line in r.stdout.splitlines():
        m = re.match(r"\s+(violated|undecided|floor)\s+(.*?)(\s+at\s+(\S+): (.*))?$", line)
        if m:
            fired.append({"verdict": m.group(1), "key": m.group(2).strip(), "site": m.group(4) or "", "detail": (m.group(5) or "")[:300]})
    broken = r.returncode not in (0, 1)
    return prop, r.returncode, fired, broken, r.stdout[-400:] if broken else ""


def main():
    ids = sys.argv[1:] or sorted(d for d in os.listdir(os.path.join(VERIF, "seeded"))
                                 if os.path.isfile(os.path.join(VERIF, "seeded", d, "patch.diff")))
    snapshot_binary()
    wt = tempfile.mkdtemp(prefix="seedmx.")
    os.rmdir(wt)
    r = sh(f"git -C {REPO} worktree add -q --detach {wt} HEAD")
    if r.returncode != 0:
        print(r.stdout)
        sys.exit(2)
    matrix = {}
    try:
        # sanity: the clean worktree must be silent
        with concurrent.futures.ThreadPoolExecutor(8) as ex:
            base = list(ex.map(lambda p: run_prop(wt, p), PROPS))
        noisy = [p for p, rc, fired, broken, _ in base if rc != 0]
        if noisy:
            print("clean worktree is not silent:", noisy)
            sys.exit(2)
        for sid in ids:
            patch = os.path.join(VERIF, "seeded", sid, "patch.diff")
            r = sh(f"git -C {wt} apply {patch}")
            if r.returncode != 0:
                # the tree has moved on since the patch was taken: fall back to a three-way merge on the recorded blobs
                sh(f"git -C {wt} reset -q --hard && git -C {wt} clean -fdq")
                r = sh(f"git -C {wt} apply --3way {patch}")
                if r.returncode != 0:
                    sh(f"git -C {wt} reset -q --hard && git -C {wt} clean -fdq")
                else:
                    sh(f"git -C {wt} reset -q")
            if r.returncode != 0:
                matrix[sid] = {"error": "patch does not apply: " + r.stdout[-200:]}
                print(sid, "PATCH DOES NOT APPLY")
                continue
            with concurrent.futures.ThreadPoolExecutor(8) as ex:
                res = list(ex.map(lambda p: run_prop(wt, p), PROPS))
            sh(f"git -C {wt} checkout -- . && git -C {wt} clean -fdq")
            meta = json.load(open(os.path.join(VERIF, "seeded", sid, "meta.json")))
            own = sid.split("-")[0]
            entry = {"property": own, "summary": meta.get("summary", "")[:400], "caught_by": {}, "broken": []}
            for p, rc, fired, broken, tail in res:
                if broken:
                    entry["broken"].append({"check": p, "tail": tail})
                elif rc == 1:
                    entry["caught_by"][p] = fired
            entry["caught_by_own_property"] = own in entry["caught_by"]
            entry["caught"] = bool(entry["caught_by"])
            matrix[sid] = entry
            print(sid, "caught by", ",".join(sorted(entry["caught_by"])) or "NOTHING",
                  "| own:", entry["caught_by_own_property"], "| broken:", [b["check"] for b in entry["broken"]])
    finally:
        sh(f"git -C {REPO} worktree remove --force {wt}")
        shutil.rmtree(wt, ignore_errors=True)
    out = os.path.join(VERIF, "seeded", "MATRIX.json")
    old = {}
    if sys.argv[1:] and os.path.exists(out):
        old = json.load(open(out))
    old.update(matrix)
    write_md(old)
    json.dump(old, open(out, "w"), indent=1, sort_keys=True)


def write_md(old):
    lines = ["| seed | change (summary) | caught by (check: rules) |", "|---|---|---|"]
    for sid in sorted(old):
        e = old[sid]
        if "error" in e:
            lines.append(f"| {sid} | — | {e['error']} |")
            continue
        cb = []
        for p in sorted(e["caught_by"]):
            rules = sorted({f["key"].split("|")[0].split(":")[0] for f in e["caught_by"][p]})
            cb.append(f"{p}: {', '.join(rules)}")
        summ = e["summary"].replace("|", "\\|").replace("\n", " ")
        if len(summ) > 220:
            summ = summ[:217] + "…"
        lines.append(f"| {sid} | {summ} | {'; '.join(cb) if cb else '**not detected**'} |")
    open(os.path.join(VERIF, "seeded", "MATRIX.md"), "w").write("\n".join(lines) + "\n")


if __name__ == "__main__":
    main()
