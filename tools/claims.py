# Table of claimed properties; exec'ed by mkmanifest.py.
NOT_CLAIMED = {}

claim("C01", "CFG must-pass-through and loop-exhaustiveness over the local delivery fan-out (go/cfg + go/types)",
      "Decides, for every input and schedule, the wiring half of C01: accepted messages reach notifySubs and the router on every non-local path, notifySubs attempts a send to every subscription of the topic, the event loop dispatches every RPC/message to its handler, hello/announce loops are exhaustive. It does NOT decide the global liveness statement (overlay convergence, gossip repair, exactly-once across the network).",
      "Trusts go/types, go/cfg and the rule table in checker/rules_c01_c02.go; liveness over topologies/schedules is out of reach of static analysis and is not claimed.")
claim("C02", "edge-cut dominance on the markSeen test-and-set, who-may-call ownership chain, lock-held data-flow on the seen caches",
      "Decides for all interleavings the structural core of at-most-once: every path to a user validator or to local delivery passes a fresh markSeen; delivery functions are only reachable through that gate; the seen-cache test-and-set is one exclusive critical section; entries are deleted only by sweep under expiry.Before(now). It does not decide TTL arithmetic over (virtual) time or injectivity of message-ID functions.",
      "Trusts sync.Mutex semantics, go/types resolution of callees/fields; time arithmetic not modelled.")
