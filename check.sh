#!/bin/bash
# usage: check.sh <property-id> [quick|thorough] [extra pscheck flags]
# Sets its own Go environment (DESIGN.md §1), (re)builds the analyser when its
# sources are newer than the binary, and analyses /repo's current working tree.
set -u
here="$(cd "$(dirname "${BASH_SOURCE[0]}")" && pwd)"
. "$here/env.sh"
export VERIF_DIR="$here"
prop="${1:?property id}"; tier="${2:-${VERIF_TIER:-quick}}"; shift; [ $# -gt 0 ] && shift
"$here/build.sh" || { echo "check.sh: building the analyser failed (broken check, not a verdict)" >&2; exit 2; }
exec "$here/bin/pscheck" -prop "$prop" -tier "$tier" -repo "${VERIF_REPO:-/repo}" "$@"
