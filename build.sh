#!/bin/bash
# Builds bin/pscheck from /verif/checker (offline; module cache only).
set -u
here="$(cd "$(dirname "${BASH_SOURCE[0]}")" && pwd)"
. "$here/env.sh"
bin="$here/bin/pscheck"
need=0
[ -x "$bin" ] || need=1
if [ $need -eq 0 ]; then
  for f in "$here"/checker/*.go "$here"/checker/go.mod; do
    [ "$f" -nt "$bin" ] && { need=1; break; }
  done
fi
[ $need -eq 0 ] && exit 0
mkdir -p "$here/bin"
cp /repo/go.sum "$here/checker/go.sum" 2>/dev/null || true
tmp="$bin.$$"
( cd "$here/checker" && go build -o "$tmp" . ) || { rm -f "$tmp"; exit 1; }
mv -f "$tmp" "$bin"
