# Sourced by every registered command: sets (never inherits) the Go environment.
# Route B of DESIGN.md §1: Go 1.26.8, fully offline.
unset GOWORK GOFLAGS GOTOOLCHAIN GOSUMDB GOPROXY GOOS GOARCH
export PATH=/opt/veriftools/go1.26.8/bin:$PATH
export GOTOOLCHAIN=local GOFLAGS=-mod=mod GOPROXY=off GOSUMDB=off
export GOCACHE=${GOCACHE:-$HOME/.cache/go-build}
